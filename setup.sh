#!/bin/sh
# Offline build of the framework: Coq base development (full .vo), lalrpop from /repo's working
# tree with the hook guard on, and the harness binaries.  Everything lands under /verif/.cache or
# next to the sources (coq/*.vo); nothing under /tmp is needed later.
set -e
cd "$(dirname "$0")"
export CARGO_NET_OFFLINE=true CARGO_TARGET_DIR="$PWD/.cache/target" RUSTFLAGS="--cfg lalrpop_verif"
mkdir -p .cache evidence replay
(cd coq && coq_makefile -f _CoqProject -o Makefile && timeout 3000 make -j16)
(cd /repo && cargo build --offline -p lalrpop --bin lalrpop)
[ -f harness/Cargo.lock ] || cp /repo/Cargo.lock harness/Cargo.lock
(cd harness && cargo build --offline --bins)
gcc -shared -fPIC -O1 -o .cache/crashshim.so harness/shim/crashshim.c -ldl
echo setup-ok
