(** Regular expressions over bytes with Brzozowski derivatives: the semantics the built-in lexer's
    patterns are given in the lexer model.  [matches] is the denotational semantics, [matchb] the
    executable one; [matchb_spec] relates them. *)
From Coq Require Import List NArith Bool Arith Lia.
Import ListNotations.

Inductive re :=
| RNone                      (* matches nothing *)
| REps                       (* the empty string *)
| RRange (lo hi : N)         (* one byte in [lo, hi] *)
| RCat (a b : re)
| RAlt (a b : re)
| RStar (a : re).

Inductive matches : re -> list N -> Prop :=
| m_eps : matches REps []
| m_range lo hi b : (lo <= b)%N -> (b <= hi)%N -> matches (RRange lo hi) [b]
| m_cat a b u v : matches a u -> matches b v -> matches (RCat a b) (u ++ v)
| m_alt_l a b u : matches a u -> matches (RAlt a b) u
| m_alt_r a b u : matches b u -> matches (RAlt a b) u
| m_star_nil a : matches (RStar a) []
| m_star_cons a u v : matches a u -> matches (RStar a) v -> matches (RStar a) (u ++ v).

Fixpoint nullable (r : re) : bool :=
  match r with
  | RNone => false
  | REps => true
  | RRange _ _ => false
  | RCat a b => nullable a && nullable b
  | RAlt a b => nullable a || nullable b
  | RStar _ => true
  end.

Fixpoint deriv (c : N) (r : re) : re :=
  match r with
  | RNone => RNone
  | REps => RNone
  | RRange lo hi => if (lo <=? c)%N && (c <=? hi)%N then REps else RNone
  | RCat a b => if nullable a then RAlt (RCat (deriv c a) b) (deriv c b) else RCat (deriv c a) b
  | RAlt a b => RAlt (deriv c a) (deriv c b)
  | RStar a => RCat (deriv c a) (RStar a)
  end.

Fixpoint matchb (r : re) (w : list N) : bool :=
  match w with
  | [] => nullable r
  | c :: t => matchb (deriv c r) t
  end.

Lemma nullable_sound r : nullable r = true -> matches r [].
Proof.
  induction r as [| |lo hi|a IHa b IHb|a IHa b IHb|a IHa]; simpl; intros H; try discriminate.
  - constructor.
  - apply andb_true_iff in H as [Ha Hb]. change (@nil N) with (@nil N ++ []). constructor; auto.
  - apply orb_true_iff in H as [H|H]; [apply m_alt_l|apply m_alt_r]; auto.
  - constructor.
Qed.
Lemma nullable_complete r w : matches r w -> w = [] -> nullable r = true.
Proof.
  induction 1 as [|lo hi b|a b u v Hu IHu Hv IHv|a b u Hu IHu|a b u Hu IHu|a|a u v Hu IHu Hv IHv]; intros Hw; simpl; auto.
  - discriminate.
  - apply app_eq_nil in Hw as [-> ->]. rewrite IHu, IHv; auto.
  - rewrite IHu; auto.
  - rewrite IHu; auto. apply orb_true_r.
Qed.
Lemma nullable_spec r : nullable r = true <-> matches r [].
Proof. split; [apply nullable_sound|intros H; eapply nullable_complete; eauto]. Qed.

(* a non-empty match of a star starts with a non-empty match of the body *)
Lemma star_cons_inv a c w : matches (RStar a) (c :: w) ->
  exists u v, w = u ++ v /\ matches a (c :: u) /\ matches (RStar a) v.
Proof.
  intros H. remember (RStar a) as r eqn:Hr. remember (c :: w) as cw eqn:Hw.
  revert c w Hw. induction H as [| | | | | |a' u v Hu _ Hv IHv]; intros c w Hw; try discriminate.
  inversion Hr; subst a'. destruct u as [|c' u'].
  - simpl in Hw. apply (IHv eq_refl c w Hw).
  - simpl in Hw. inversion Hw; subst. exists u', v. auto.
Qed.

Lemma cat_inv a b w : matches (RCat a b) w -> exists u v, w = u ++ v /\ matches a u /\ matches b v.
Proof. intros H. inversion H; subst. eauto. Qed.
Lemma alt_inv a b w : matches (RAlt a b) w -> matches a w \/ matches b w.
Proof. intros H. inversion H; subst; auto. Qed.

Lemma deriv_spec : forall r c w, matches (deriv c r) w <-> matches r (c :: w).
Proof.
  induction r as [| |lo hi|a IHa b IHb|a IHa b IHb|a IHa]; intros c w; simpl.
  - split; intros H; inversion H.
  - split; intros H; inversion H.
  - destruct ((lo <=? c)%N && (c <=? hi)%N) eqn:Hc.
    + apply andb_true_iff in Hc as [H1 H2]. apply N.leb_le in H1, H2.
      split; intros H; inversion H; subst; constructor; auto.
    + split; intros H; [inversion H|]. inversion H; subst.
      assert ((lo <=? c)%N && (c <=? hi)%N = true) by (apply andb_true_iff; split; apply N.leb_le; assumption).
      congruence.
  - destruct (nullable a) eqn:Hn.
    + split; intros H.
      * apply alt_inv in H as [H|H].
        -- apply cat_inv in H as (u & v & -> & Hu & Hv).
           change (c :: u ++ v) with ((c :: u) ++ v). constructor; [apply IHa|]; auto.
        -- change (c :: w) with ([] ++ c :: w). constructor; [apply nullable_spec; exact Hn|apply IHb; exact H].
      * apply cat_inv in H as (u & v & Heq & Hu & Hv). destruct u as [|c' u'].
        -- simpl in Heq. subst v. apply m_alt_r. apply IHb. exact Hv.
        -- simpl in Heq. inversion Heq; subst. apply m_alt_l. constructor; [apply IHa|]; auto.
    + split; intros H.
      * apply cat_inv in H as (u & v & -> & Hu & Hv).
        change (c :: u ++ v) with ((c :: u) ++ v). constructor; [apply IHa|]; auto.
      * apply cat_inv in H as (u & v & Heq & Hu & Hv). destruct u as [|c' u'].
        -- apply nullable_spec in Hu. congruence.
        -- simpl in Heq. inversion Heq; subst. constructor; [apply IHa|]; auto.
  - split; intros H.
    + apply alt_inv in H as [H|H]; [apply m_alt_l, IHa|apply m_alt_r, IHb]; auto.
    + apply alt_inv in H as [H|H]; [apply m_alt_l, IHa|apply m_alt_r, IHb]; auto.
  - split; intros H.
    + apply cat_inv in H as (u & v & -> & Hu & Hv).
      change (c :: u ++ v) with ((c :: u) ++ v). constructor; [apply IHa|]; auto.
    + apply star_cons_inv in H as (u & v & -> & Hu & Hv). constructor; [apply IHa|]; auto.
Qed.

Theorem matchb_spec : forall w r, matchb r w = true <-> matches r w.
Proof.
  induction w as [|c t IH]; intros r; simpl.
  - apply nullable_spec.
  - rewrite IH. apply deriv_spec.
Qed.

(** derived forms used by the translator *)
Definition RPlus (a : re) : re := RCat a (RStar a).
Definition ROpt (a : re) : re := RAlt REps a.
Fixpoint RSeq (l : list re) : re := match l with [] => REps | [a] => a | a :: r => RCat a (RSeq r) end.
Fixpoint RAny (l : list re) : re := match l with [] => RNone | [a] => a | a :: r => RAlt a (RAny r) end.
Fixpoint RLit (bs : list N) : re := match bs with [] => REps | [b] => RRange b b | b :: r => RCat (RRange b b) (RLit r) end.
Fixpoint RRep (n : nat) (a : re) : re := match n with O => REps | S n' => RCat a (RRep n' a) end.
