(** A verified decision procedure (sound, fuelled) for "no string is matched by both r1 and r2 unless
    it is also matched by h": exploration of the derivative triples reachable from (r1, r2, h) over the
    byte alphabet, with similarity-normalising constructors so that the reachable set stays small.
    An answer [Some true] is a theorem about the denotational semantics [matches]; it replaces trust in
    an external search for the negative direction of the lexer-ambiguity property (C11). *)
From Coq Require Import List NArith Bool Arith Lia.
From LV Require Import Lex.Regex.
Import ListNotations.

Fixpoint re_eqb (a b : re) : bool :=
  match a, b with
  | RNone, RNone => true
  | REps, REps => true
  | RRange l1 h1, RRange l2 h2 => N.eqb l1 l2 && N.eqb h1 h2
  | RCat a1 a2, RCat b1 b2 => re_eqb a1 b1 && re_eqb a2 b2
  | RAlt a1 a2, RAlt b1 b2 => re_eqb a1 b1 && re_eqb a2 b2
  | RStar a1, RStar b1 => re_eqb a1 b1
  | _, _ => false
  end.

Lemma re_eqb_eq : forall a b, re_eqb a b = true -> a = b.
Proof.
  induction a as [| |l1 h1|a1 IH1 a2 IH2|a1 IH1 a2 IH2|a1 IH1]; intros b H; destruct b; cbn [re_eqb] in H; try discriminate.
  - reflexivity.
  - reflexivity.
  - apply andb_true_iff in H as [H1 H2]. apply N.eqb_eq in H1, H2. subst. reflexivity.
  - apply andb_true_iff in H as [H1 H2]. f_equal; auto.
  - apply andb_true_iff in H as [H1 H2]. f_equal; auto.
  - f_equal; auto.
Qed.

(* a total preorder used only to make the order of alternatives canonical; nothing is proved about it *)
Fixpoint re_rank (r : re) : N :=
  match r with
  | RNone => 0 | REps => 1 | RRange l h => 2 + l * 256 + h
  | RCat a b => 3 + 7 * re_rank a + 11 * re_rank b
  | RAlt a b => 5 + 13 * re_rank a + 17 * re_rank b
  | RStar a => 4 + 19 * re_rank a
  end.
Fixpoint insert (x : re) (l : list re) : list re :=
  match l with
  | [] => [x]
  | y :: r => if N.leb (re_rank x) (re_rank y) then x :: l else y :: insert x r
  end.
Definition sort (l : list re) : list re := fold_right insert [] l.

Lemma insert_in x l y : In y (insert x l) <-> y = x \/ In y l.
Proof.
  induction l as [|z r IH]; cbn [insert].
  - cbn. intuition.
  - destruct (N.leb (re_rank x) (re_rank z)); cbn [In]; [intuition|]. rewrite IH. intuition.
Qed.
Lemma sort_in l y : In y (sort l) <-> In y l.
Proof.
  induction l as [|x r IH]; cbn [sort fold_right]; [reflexivity|].
  fold (sort r). rewrite insert_in, IH. cbn [In]. intuition.
Qed.

Definition mem (x : re) (l : list re) : bool := existsb (re_eqb x) l.
Lemma mem_in x l : mem x l = true -> In x l.
Proof. unfold mem. intros H. apply existsb_exists in H as (y & Hy & He). apply re_eqb_eq in He. subst. exact Hy. Qed.
Fixpoint dedupe (l : list re) : list re :=
  match l with [] => [] | x :: r => if mem x r then dedupe r else x :: dedupe r end.
Lemma dedupe_in l y : In y (dedupe l) <-> In y l.
Proof.
  induction l as [|x r IH]; cbn [dedupe]; [reflexivity|].
  destruct (mem x r) eqn:E; cbn [In]; rewrite IH; [|reflexivity].
  split; [auto|]. intros [<-|H]; [apply mem_in; exact E|exact H].
Qed.

Fixpoint alts (r : re) : list re :=
  match r with RAlt a b => alts a ++ alts b | RNone => [] | _ => [r] end.
Fixpoint mk_alt (l : list re) : re :=
  match l with [] => RNone | [a] => a | a :: r => RAlt a (mk_alt r) end.

Lemma none_inv w : ~ matches RNone w.
Proof. intros H. inversion H. Qed.

Lemma alts_sem : forall r w, matches r w <-> exists x, In x (alts r) /\ matches x w.
Proof.
  induction r as [| |l h|a IHa b IHb|a IHa b IHb|a IHa]; intros w; cbn [alts].
  - split; [intros H; destruct (none_inv _ H)|intros (x & [] & _)].
  - split; [intros H; exists REps; cbn; auto|intros (x & [<-|[]] & H); exact H].
  - split; [intros H; eexists; cbn; eauto|intros (x & [<-|[]] & H); exact H].
  - split; [intros H; eexists; cbn; eauto|intros (x & [<-|[]] & H); exact H].
  - split.
    + intros H. apply alt_inv in H as [H|H].
      * apply IHa in H as (x & Hx & Hm). exists x. split; [apply in_or_app; auto|exact Hm].
      * apply IHb in H as (x & Hx & Hm). exists x. split; [apply in_or_app; auto|exact Hm].
    + intros (x & Hx & Hm). apply in_app_or in Hx as [Hx|Hx].
      * apply m_alt_l. apply IHa. eauto.
      * apply m_alt_r. apply IHb. eauto.
  - split; [intros H; eexists; cbn; eauto|intros (x & [<-|[]] & H); exact H].
Qed.

Lemma mk_alt_sem : forall l w, matches (mk_alt l) w <-> exists x, In x l /\ matches x w.
Proof.
  induction l as [|a r IH]; intros w; cbn [mk_alt].
  - split; [intros H; destruct (none_inv _ H)|intros (x & [] & _)].
  - destruct r as [|b r'].
    + split; [intros H; exists a; cbn; auto|intros (x & [<-|[]] & H); exact H].
    + split.
      * intros H. apply alt_inv in H as [H|H]; [exists a; cbn; auto|].
        apply IH in H as (x & Hx & Hm). exists x. split; [right; exact Hx|exact Hm].
      * intros (x & [<-|Hx] & Hm); [apply m_alt_l; exact Hm|]. apply m_alt_r. apply IH. eauto.
Qed.

Definition sAlt (a b : re) : re := mk_alt (sort (dedupe (alts a ++ alts b))).
Lemma sAlt_sem a b w : matches (sAlt a b) w <-> matches a w \/ matches b w.
Proof.
  unfold sAlt. rewrite mk_alt_sem. split.
  - intros (x & Hx & Hm). apply sort_in, dedupe_in, in_app_or in Hx as [Hx|Hx]; [left|right]; apply alts_sem; eauto.
  - intros [H|H]; apply alts_sem in H as (x & Hx & Hm); exists x; (split; [apply sort_in, dedupe_in, in_or_app; auto|exact Hm]).
Qed.

Definition sCat (a b : re) : re :=
  match a with
  | RNone => RNone
  | REps => b
  | _ => match b with RNone => RNone | REps => a | _ => RCat a b end
  end.
Lemma sCat_sem a b w : matches (sCat a b) w <-> matches (RCat a b) w.
Proof.
  assert (HN : forall x, matches (RCat RNone x) w <-> matches RNone w).
  { intros x. split; intros H; [apply cat_inv in H as (u & v & _ & H & _); destruct (none_inv _ H)|destruct (none_inv _ H)]. }
  assert (HE : forall x, matches (RCat REps x) w <-> matches x w).
  { intros x. split; intros H.
    - apply cat_inv in H as (u & v & -> & Hu & Hv). inversion Hu; subst. exact Hv.
    - change w with ([] ++ w). apply m_cat; [constructor|exact H]. }
  assert (HN2 : forall x, matches (RCat x RNone) w <-> matches RNone w).
  { intros x. split; intros H; [apply cat_inv in H as (u & v & _ & _ & H); destruct (none_inv _ H)|destruct (none_inv _ H)]. }
  assert (HE2 : forall x, matches (RCat x REps) w <-> matches x w).
  { intros x. split; intros H.
    - apply cat_inv in H as (u & v & -> & Hu & Hv). inversion Hv; subst. rewrite app_nil_r. exact Hu.
    - rewrite <- (app_nil_r w). apply m_cat; [exact H|constructor]. }
  unfold sCat. destruct a; try (symmetry; apply HN); try (symmetry; apply HE);
    destruct b; try reflexivity; try (symmetry; apply HN2); try (symmetry; apply HE2).
Qed.

Lemma cat_congr_l x x' b w : (forall u, matches x u <-> matches x' u) -> matches (RCat x b) w <-> matches (RCat x' b) w.
Proof.
  intros H. split; intros Hm; apply cat_inv in Hm as (u & v & -> & Hu & Hv); apply m_cat; auto; apply H; exact Hu.
Qed.

Fixpoint sderiv (c : N) (r : re) : re :=
  match r with
  | RNone => RNone
  | REps => RNone
  | RRange lo hi => if (lo <=? c)%N && (c <=? hi)%N then REps else RNone
  | RCat a b => if nullable a then sAlt (sCat (sderiv c a) b) (sderiv c b) else sCat (sderiv c a) b
  | RAlt a b => sAlt (sderiv c a) (sderiv c b)
  | RStar a => sCat (sderiv c a) (RStar a)
  end.

Lemma sderiv_deriv c : forall r w, matches (sderiv c r) w <-> matches (deriv c r) w.
Proof.
  induction r as [| |l h|a IHa b IHb|a IHa b IHb|a IHa]; intros w; cbn [sderiv deriv]; try reflexivity.
  - destruct (nullable a).
    + rewrite sAlt_sem, sCat_sem. split.
      * intros [H|H]; [apply m_alt_l; apply (cat_congr_l _ _ _ _ IHa); exact H|apply m_alt_r; apply IHb; exact H].
      * intros H. apply alt_inv in H as [H|H]; [left; apply (cat_congr_l _ _ _ _ IHa); exact H|right; apply IHb; exact H].
    + rewrite sCat_sem. apply cat_congr_l. exact IHa.
  - rewrite sAlt_sem. split.
    + intros [H|H]; [apply m_alt_l; apply IHa; exact H|apply m_alt_r; apply IHb; exact H].
    + intros H. apply alt_inv in H as [H|H]; [left; apply IHa; exact H|right; apply IHb; exact H].
  - rewrite sCat_sem. apply cat_congr_l. exact IHa.
Qed.

Lemma sderiv_spec c r w : matches (sderiv c r) w <-> matches r (c :: w).
Proof. rewrite sderiv_deriv. apply deriv_spec. Qed.

(** * exploration *)
Definition st := (re * re * re)%type.
Definition st_eqb (x y : st) : bool :=
  let '(a, b, h) := x in let '(a', b', h') := y in re_eqb a a' && re_eqb b b' && re_eqb h h'.
Lemma st_eqb_eq x y : st_eqb x y = true -> x = y.
Proof.
  destruct x as [[a b] h], y as [[a' b'] h']. cbn [st_eqb]. intros H.
  apply andb_true_iff in H as [H H3]. apply andb_true_iff in H as [H1 H2].
  apply re_eqb_eq in H1, H2, H3. subst. reflexivity.
Qed.
Definition memst (x : st) (l : list st) : bool := existsb (st_eqb x) l.
Lemma memst_in x l : memst x l = true -> In x l.
Proof. unfold memst. intros H. apply existsb_exists in H as (y & Hy & He). apply st_eqb_eq in He. subst. exact Hy. Qed.

Definition bytes : list N := map N.of_nat (seq 0 256).
Lemma bytes_in c : (c < 256)%N -> In c bytes.
Proof.
  intros H. unfold bytes. apply in_map_iff. exists (N.to_nat c). split; [apply N2Nat.id|].
  apply in_seq. lia.
Qed.

Definition is_none (r : re) : bool := match r with RNone => true | _ => false end.
Definition dead (s : st) : bool := let '(a, b, _) := s in is_none a || is_none b.
Definition bad (s : st) : bool := let '(a, b, h) := s in nullable a && nullable b && negb (nullable h).
Definition succ (c : N) (s : st) : st := let '(a, b, h) := s in (sderiv c a, sderiv c b, sderiv c h).

Fixpoint add_new (cands seen acc : list st) : list st :=
  match cands with
  | [] => acc
  | x :: r => if dead x || memst x seen || memst x acc then add_new r seen acc else add_new r seen (x :: acc)
  end.

Lemma add_new_acc : forall cands seen acc x, In x acc -> In x (add_new cands seen acc).
Proof.
  induction cands as [|y r IH]; intros seen acc x H; cbn [add_new]; [exact H|].
  destruct (dead y || memst y seen || memst y acc); apply IH; [exact H|right; exact H].
Qed.
Lemma add_new_covers : forall cands seen acc x, In x cands -> dead x = true \/ In x seen \/ In x (add_new cands seen acc).
Proof.
  induction cands as [|y r IH]; intros seen acc x H; [destruct H|].
  cbn [add_new]. destruct H as [<-|H].
  - destruct (dead y) eqn:Ed; [auto|]. destruct (memst y seen) eqn:Es; [right; left; apply memst_in; exact Es|].
    destruct (memst y acc) eqn:Ea; cbn [orb].
    + right. right. apply add_new_acc. apply memst_in. exact Ea.
    + right. right. apply add_new_acc. left. reflexivity.
  - destruct (dead y || memst y seen || memst y acc); apply IH; exact H.
Qed.

Fixpoint explore (fuel : nat) (todo seen : list st) : option bool :=
  match fuel with
  | O => None
  | S f =>
    match todo with
    | [] => Some true
    | s :: rest =>
      if bad s then Some false
      else let new := add_new (map (fun c => succ c s) bytes) seen [] in
           explore f (rest ++ new) (new ++ seen)
    end
  end.

Definition done (seen : list st) (s : st) : Prop :=
  bad s = false /\ forall c, In c bytes -> dead (succ c s) = true \/ In (succ c s) seen.
Definition Closed (seen : list st) : Prop := forall s, In s seen -> done seen s.

Lemma done_mono seen seen' s : (forall x, In x seen -> In x seen') -> done seen s -> done seen' s.
Proof. intros Hsub [Hb Hs]. split; [exact Hb|]. intros c Hc. destruct (Hs c Hc); auto. Qed.

Lemma explore_closed : forall fuel todo seen,
  (forall s, In s todo -> In s seen) ->
  (forall s, In s seen -> In s todo \/ done seen s) ->
  explore fuel todo seen = Some true -> exists seen', (forall x, In x seen -> In x seen') /\ Closed seen'.
Proof.
  induction fuel as [|f IH]; intros todo seen Hsub Hinv H; cbn [explore] in H; [discriminate|].
  destruct todo as [|s rest].
  - exists seen. split; [auto|]. intros x Hx. destruct (Hinv x Hx) as [[]|Hd]. exact Hd.
  - destruct (bad s) eqn:Eb; [discriminate|].
    set (new := add_new (map (fun c => succ c s) bytes) seen []) in *.
    destruct (IH (rest ++ new) (new ++ seen)) as (seen' & Hs' & Hc'); [| |exact H|].
    + intros x Hx. apply in_app_or in Hx as [Hx|Hx]; apply in_or_app; [right; apply Hsub; right; exact Hx|left; exact Hx].
    + intros x Hx. apply in_app_or in Hx as [Hx|Hx]; [left; apply in_or_app; right; exact Hx|].
      destruct (Hinv x Hx) as [[<-|Hr]|Hd].
      * right. split; [exact Eb|]. intros c Hc.
        destruct (add_new_covers (map (fun c => succ c s) bytes) seen [] (succ c s)) as [Hd|[Hd|Hd]];
          [apply in_map_iff; eauto|left; exact Hd|right; apply in_or_app; right; exact Hd|right; apply in_or_app; left; exact Hd].
      * left. apply in_or_app. left. exact Hr.
      * right. apply (done_mono seen); [intros y Hy; apply in_or_app; right; exact Hy|exact Hd].
    + exists seen'. split; [|exact Hc']. intros x Hx. apply Hs'. apply in_or_app. right. exact Hx.
Qed.

Lemma closed_sound seen : Closed seen -> forall w a b h, In (a, b, h) seen ->
  Forall (fun c => (c < 256)%N) w -> matches a w -> matches b w -> matches h w.
Proof.
  intros Hc. induction w as [|c t IH]; intros a b h Hin Hw Ha Hb.
  - destruct (Hc _ Hin) as [Hbad _]. cbn [bad] in Hbad.
    apply nullable_spec in Ha, Hb. rewrite Ha, Hb in Hbad. cbn [andb] in Hbad.
    apply negb_false_iff in Hbad. apply nullable_spec. exact Hbad.
  - inversion Hw as [|? ? Hc256 Ht]; subst.
    destruct (Hc _ Hin) as [_ Hs]. specialize (Hs c (bytes_in c Hc256)). cbn [succ] in Hs.
    apply sderiv_spec in Ha, Hb. apply sderiv_spec.
    destruct Hs as [Hd|Hs].
    + cbn [dead] in Hd. apply orb_true_iff in Hd as [Hd|Hd].
      * destruct (sderiv c a); try discriminate. destruct (none_inv _ Ha).
      * destruct (sderiv c b); try discriminate. destruct (none_inv _ Hb).
    + exact (IH _ _ _ Hs Ht Ha Hb).
Qed.

Definition disjoint_check (fuel : nat) (r1 r2 h : re) : option bool := explore fuel [(r1, r2, h)] [(r1, r2, h)].

(** [Some true]: every byte string matched by r1 and by r2 is matched by h; with h = RNone: r1 and r2
    have no byte string in common *)
Theorem disjoint_check_sound fuel r1 r2 h : disjoint_check fuel r1 r2 h = Some true ->
  forall w, Forall (fun c => (c < 256)%N) w -> matches r1 w -> matches r2 w -> matches h w.
Proof.
  intros H. unfold disjoint_check in H.
  destruct (explore_closed fuel [(r1, r2, h)] [(r1, r2, h)] (fun s Hs => Hs) (fun s Hs => or_introl Hs) H) as (seen' & Hs & Hc).
  intros w Hw H1 H2. apply (closed_sound seen' Hc w r1 r2 h); auto. apply Hs. left. reflexivity.
Qed.

Corollary no_common_string fuel r1 r2 : disjoint_check fuel r1 r2 RNone = Some true ->
  forall w, Forall (fun c => (c < 256)%N) w -> ~ (matches r1 w /\ matches r2 w).
Proof.
  intros H w Hw [H1 H2]. exact (none_inv _ (disjoint_check_sound fuel r1 r2 RNone H w Hw H1 H2)).
Qed.

(* the other answer is meaningful too: [Some false] only after a triple reachable by some string w was
   found with both sides nullable -- this direction is re-checked on a concrete witness by the caller *)

(** non-vacuity: keywords against identifiers *)
Example ident_vs_digits :
  disjoint_check 50 (RPlus (RRange 97 122)) (RPlus (RRange 48 57)) RNone = Some true.
Proof. vm_compute. reflexivity. Qed.
Example ident_vs_keyword_overlap :
  disjoint_check 50 (RPlus (RRange 97 122)) (RLit [105; 102]%N) RNone = Some false.
Proof. vm_compute. reflexivity. Qed.
Example overlap_shadowed :
  disjoint_check 50 (RPlus (RRange 97 122)) (RCat (RRange 105 105) (RRange 97 122)) (RLit [105; 102]%N) = Some false.
Proof. vm_compute. reflexivity. Qed.
