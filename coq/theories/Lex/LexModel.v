(** Model of lalrpop-util/src/lexer.rs [Matcher::next]: at the current position take the longest
    prefix matched by any pattern; among the patterns matching exactly that prefix the one with the
    largest index wins; skip patterns yield no token; a zero-length match (of any pattern) and
    "nothing matches" are InvalidToken at the current offset.  Patterns are [re] over bytes, in the order of the
    generated [__strs] table.  No proofs in this file. *)
From Coq Require Import List NArith Bool Arith.
From LV Require Import Lex.Regex.
Import ListNotations.

(* the largest index of a nullable expression in the list (indices start at [i]) *)
Fixpoint max_nullable (rs : list re) (i : nat) : option nat :=
  match rs with
  | [] => None
  | r :: t => match max_nullable t (S i) with
              | Some j => Some j
              | None => if nullable r then Some i else None
              end
  end.

(* the DFA walk: [rs] are the derivatives of all patterns by the bytes consumed so far *)
Fixpoint scan (rs : list re) (text : list N) (pos : nat) (best : option (nat * nat)) : option (nat * nat) :=
  let best' := match max_nullable rs 0 with Some j => Some (pos, j) | None => best end in
  match text with
  | [] => best'
  | b :: t => scan (map (deriv b) rs) t (S pos) best'
  end.

Inductive lexres :=
| LTok (start : nat) (index : nat) (len : nat)      (* Some(Ok((start, Token(index, text[..len]), start+len))) *)
| LInvalid (loc : nat)                              (* Some(Err(InvalidToken { location })) *)
| LEnd                                              (* None *)
| LFuel.

(* [Matcher::next]; [fuel] bounds the number of skipped matches (each consumes at least one byte) *)
Fixpoint lex_next (pats : list (re * bool)) (fuel : nat) (text : list N) (consumed : nat)
  : lexres * list N * nat :=
  match fuel with
  | O => (LFuel, text, consumed)
  | S fuel' =>
    match text with
    | [] => (LEnd, text, consumed)
    | _ =>
      match scan (map fst pats) text 0 None with
      | None => (LInvalid consumed, text, consumed)
      | Some (len, idx) =>
        let remaining := skipn len text in
        if Nat.eqb len 0 then (LInvalid consumed, remaining, consumed + len)
        else if snd (nth idx pats (RNone, false)) then lex_next pats fuel' remaining (consumed + len)
        else (LTok consumed idx len, remaining, consumed + len)
      end
    end
  end.

(* the whole token stream, as the parser would pull it: stops at the first error *)
Fixpoint tokens (pats : list (re * bool)) (fuel : nat) (text : list N) (consumed : nat) : list lexres :=
  match fuel with
  | O => [LFuel]
  | S fuel' =>
    match lex_next pats (S (length text)) text consumed with
    | (LTok s i l, text', c') => LTok s i l :: tokens pats fuel' text' c'
    | (LEnd, _, _) => []
    | (r, _, _) => [r]
    end
  end.
