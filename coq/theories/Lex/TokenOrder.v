(** Precedence of built-in lexer terminals (normalize/token_check MatchBlock + the sort in
    `construct` + the implicit whitespace skip of lexer/intern_token): a function from the position of
    an entry in the `match` block to its precedence, and what the order of the generated pattern table
    means for the runtime's "largest index wins" rule. *)
From Coq Require Import List Arith Bool Lia.
From LV Require Import Lex.Regex Lex.LexModel Lex.LexProps.
Import ListNotations.

(* an entry: the rung (0 = first `match` block) it belongs to -- for literals collected through `_`
   the rung of `_`; with no match block everything is in rung 0 of 0 rungs -- and whether it is a
   quoted literal *)
Record entry := { e_rung : nat; e_lit : bool }.

(* MatchBlock::new: precedence = (n_rungs - idx) * 2 + base_precedence *)
Definition prec (n_rungs : nat) (e : entry) : nat := (n_rungs - e_rung e) * 2 + (if e_lit e then 1 else 0).

Lemma earlier_rung_wins n e1 e2 : e_rung e1 < e_rung e2 -> e_rung e2 <= n -> prec n e2 < prec n e1.
Proof. unfold prec. intros H1 H2. destruct (e_lit e1), (e_lit e2); lia. Qed.

Lemma literal_beats_regex n e1 e2 : e_rung e1 = e_rung e2 -> e_lit e1 = true -> e_lit e2 = false ->
  prec n e2 < prec n e1.
Proof. unfold prec. intros -> -> ->. lia. Qed.

(* the generated table lists the entries by non-decreasing precedence *)
Fixpoint sorted_by_prec (n : nat) (l : list entry) : bool :=
  match l with
  | [] => true
  | a :: r => match r with
              | [] => true
              | b :: _ => (prec n a <=? prec n b) && sorted_by_prec n r
              end
  end.

Lemma sorted_nth n : forall l i j, sorted_by_prec n l = true -> i <= j -> j < length l ->
  prec n (nth i l {| e_rung := 0; e_lit := false |}) <= prec n (nth j l {| e_rung := 0; e_lit := false |}).
Proof.
  induction l as [|a r IH]; intros i j Hs Hij Hj; [simpl in Hj; lia|].
  simpl in Hs. destruct r as [|b r'].
  - simpl in Hj. assert (j = 0) by lia. assert (i = 0) by lia. subst. lia.
  - apply andb_true_iff in Hs as [Hab Hs]. apply Nat.leb_le in Hab.
    destruct i as [|i], j as [|j]; try lia.
    + transitivity (prec n b); [exact Hab|].
      apply (IH 0 j Hs); simpl in *; lia.
    + apply (IH i j Hs); simpl in *; lia.
Qed.

(* consequence for the runtime: in a table sorted by precedence, a pattern with strictly higher
   precedence than another has the larger index, so among the patterns matching the longest prefix the
   winner (largest index) has the highest precedence *)
Theorem higher_precedence_larger_index n l i j :
  sorted_by_prec n l = true -> i < length l -> j < length l ->
  prec n (nth i l {| e_rung := 0; e_lit := false |}) < prec n (nth j l {| e_rung := 0; e_lit := false |}) ->
  i < j.
Proof.
  intros Hs Hi Hj Hp. destruct (Nat.lt_ge_cases i j) as [|Hge]; [assumption|].
  pose proof (sorted_nth n l j i Hs Hge Hi). lia.
Qed.

Theorem winner_has_highest_precedence n (ents : list entry) pats text len idx j :
  length ents = length pats -> sorted_by_prec n ents = true ->
  pick pats text = Some (len, idx) -> j < length pats ->
  matches (pat pats j) (firstn len text) ->
  prec n (nth j ents {| e_rung := 0; e_lit := false |}) <= prec n (nth idx ents {| e_rung := 0; e_lit := false |}).
Proof.
  intros Hl Hs Hp Hj Hm. destruct (pick_longest_max _ _ _ _ Hp) as (_ & Hidx & _ & _ & Hmax).
  destruct (Nat.le_gt_cases j idx) as [Hle|Hgt].
  - apply sorted_nth; auto. lia.
  - exfalso. eapply Hmax; eauto.
Qed.
