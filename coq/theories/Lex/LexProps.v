(** Longest match with maximal index: what [scan] (the DFA walk of Matcher::next) computes. *)
From Coq Require Import List NArith Bool Arith Lia.
From LV Require Import Lex.Regex Lex.LexModel.
Import ListNotations.

Definition derivs (rs : list re) (w : list N) : list re := fold_left (fun rs b => map (deriv b) rs) w rs.

Lemma derivs_cons rs b w : derivs rs (b :: w) = derivs (map (deriv b) rs) w.
Proof. reflexivity. Qed.
Lemma derivs_app rs u v : derivs rs (u ++ v) = derivs (derivs rs u) v.
Proof. unfold derivs. apply fold_left_app. Qed.
Lemma derivs_length rs w : length (derivs rs w) = length rs.
Proof. revert rs; induction w as [|b w IH]; intros rs; simpl; [reflexivity|]. rewrite IH. apply map_length. Qed.

Lemma nth_derivs : forall w rs j, j < length rs ->
  nullable (nth j (derivs rs w) RNone) = matchb (nth j rs RNone) w.
Proof.
  induction w as [|b w IH]; intros rs j Hj; simpl; [reflexivity|].
  rewrite IH by (rewrite map_length; exact Hj).
  f_equal. change RNone with (deriv b RNone) at 1. apply map_nth.
Qed.

(** [max_nullable] *)
Lemma max_nullable_spec : forall rs i,
  match max_nullable rs i with
  | Some j => i <= j /\ j - i < length rs /\ nullable (nth (j - i) rs RNone) = true /\
              forall k, j - i < k -> k < length rs -> nullable (nth k rs RNone) = false
  | None => forall k, k < length rs -> nullable (nth k rs RNone) = false
  end.
Proof.
  induction rs as [|r t IH]; intros i; simpl.
  - intros k Hk; lia.
  - specialize (IH (S i)). destruct (max_nullable t (S i)) as [j|].
    + destruct IH as (H1 & H2 & H3 & H4). repeat split; try lia.
      * replace (j - i) with (S (j - S i)) by lia. exact H3.
      * intros k Hk Hl. destruct k as [|k]; [lia|]. apply H4; lia.
    + destruct (nullable r) eqn:Hr.
      * repeat split; try lia.
        -- rewrite Nat.sub_diag. exact Hr.
        -- intros k Hk Hl. rewrite Nat.sub_diag in Hk. destruct k as [|k]; [lia|]. apply IH. lia.
      * intros k Hk. destruct k as [|k]; [exact Hr|]. apply IH. lia.
Qed.

(* the winner after consuming [w]: the largest pattern index matching exactly [w] *)
Definition winner (rs : list re) (w : list N) : option nat := max_nullable (derivs rs w) 0.

Lemma winner_some rs w j : winner rs w = Some j ->
  j < length rs /\ matchb (nth j rs RNone) w = true /\
  forall k, j < k -> k < length rs -> matchb (nth k rs RNone) w = false.
Proof.
  unfold winner. intros H. pose proof (max_nullable_spec (derivs rs w) 0) as S. rewrite H in S.
  destruct S as (_ & H2 & H3 & H4). rewrite Nat.sub_0_r in *. rewrite derivs_length in *.
  repeat split; auto.
  - rewrite <- nth_derivs; auto.
  - intros k Hk Hl. rewrite <- nth_derivs; auto.
Qed.
Lemma winner_none rs w : winner rs w = None -> forall k, k < length rs -> matchb (nth k rs RNone) w = false.
Proof.
  unfold winner. intros H k Hk. pose proof (max_nullable_spec (derivs rs w) 0) as S. rewrite H in S.
  rewrite derivs_length in S. rewrite <- nth_derivs; auto.
Qed.

(** [scan]: the longest prefix that has a winner, with that winner *)
Lemma scan_spec : forall text rs pos best,
  match scan rs text pos best with
  | Some (p, j) =>
      (exists L, p = pos + L /\ L <= length text /\ winner rs (firstn L text) = Some j /\
                 forall L', L < L' -> L' <= length text -> winner rs (firstn L' text) = None)
      \/ (best = Some (p, j) /\ forall L, L <= length text -> winner rs (firstn L text) = None)
  | None => best = None /\ forall L, L <= length text -> winner rs (firstn L text) = None
  end.
Proof.
  induction text as [|b t IH]; intros rs pos best; simpl.
  - unfold winner at 1. destruct (max_nullable rs 0) as [j|] eqn:Hm.
    + left. exists 0. simpl. unfold winner, derivs. simpl. repeat split; auto; try lia.
    + destruct best as [[p j]|].
      * right. split; [reflexivity|]. intros L HL. assert (L = 0) by lia. subst. exact Hm.
      * split; [reflexivity|]. intros L HL. assert (L = 0) by lia. subst. exact Hm.
  - set (best' := match max_nullable rs 0 with Some j => Some (pos, j) | None => best end).
    specialize (IH (map (deriv b) rs) (S pos) best').
    assert (Hw : forall L, winner rs (firstn (S L) (b :: t)) = winner (map (deriv b) rs) (firstn L t)).
    { intros L. reflexivity. }
    destruct (scan (map (deriv b) rs) t (S pos) best') as [[p j]|].
    + destruct IH as [(L & -> & HL & Hwin & Hmax)|[Hb Hnone]].
      * left. exists (S L). repeat split; try lia; [rewrite Hw; exact Hwin|].
        intros L' H1 H2. destruct L' as [|L']; [lia|]. rewrite Hw. apply Hmax; simpl in *; lia.
      * unfold best' in Hb. destruct (max_nullable rs 0) as [j0|] eqn:Hm.
        -- inversion Hb; subst. left. exists 0. repeat split; try lia; [exact Hm|].
           intros L' H1 H2. destruct L' as [|L']; [lia|]. rewrite Hw. apply Hnone. simpl in *; lia.
        -- right. split; [exact Hb|]. intros L HL. destruct L as [|L]; [exact Hm|].
           rewrite Hw. apply Hnone. simpl in *; lia.
    + destruct IH as [Hb Hnone]. unfold best' in Hb. destruct (max_nullable rs 0) eqn:Hm; [discriminate|].
      split; [exact Hb|]. intros L HL. destruct L as [|L]; [exact Hm|]. rewrite Hw. apply Hnone. simpl in *; lia.
Qed.

(** what one call of the matcher picks at a position *)
Definition pick (pats : list (re * bool)) (text : list N) : option (nat * nat) :=
  scan (map fst pats) text 0 None.
Definition pat (pats : list (re * bool)) (j : nat) : re := nth j (map fst pats) RNone.

Theorem pick_longest_max pats text len idx :
  pick pats text = Some (len, idx) ->
  len <= length text /\ idx < length pats /\
  matches (pat pats idx) (firstn len text) /\
  (* longest: no pattern matches a longer prefix *)
  (forall j L, j < length pats -> len < L -> L <= length text -> ~ matches (pat pats j) (firstn L text)) /\
  (* among the patterns matching exactly this prefix, the largest index wins *)
  (forall j, idx < j -> j < length pats -> ~ matches (pat pats j) (firstn len text)).
Proof.
  unfold pick. intros H. pose proof (scan_spec text (map fst pats) 0 None) as S. rewrite H in S.
  destruct S as [(L & -> & HL & Hwin & Hmax)|[Hb _]]; [|discriminate]. simpl.
  apply winner_some in Hwin as (Hi & Hm & Hk). rewrite map_length in *.
  repeat split; auto.
  - apply matchb_spec. exact Hm.
  - intros j L' Hj H1 H2 Hc. specialize (Hmax L' H1 H2).
    pose proof (winner_none _ _ Hmax j) as Hn. rewrite map_length in Hn. specialize (Hn Hj).
    apply matchb_spec in Hc. unfold pat in Hc. congruence.
  - intros j H1 H2 Hc. specialize (Hk j H1 H2). apply matchb_spec in Hc. unfold pat in Hc. congruence.
Qed.

Theorem pick_none pats text :
  pick pats text = None ->
  forall j L, j < length pats -> L <= length text -> ~ matches (pat pats j) (firstn L text).
Proof.
  unfold pick. intros H j L Hj HL Hc. pose proof (scan_spec text (map fst pats) 0 None) as S. rewrite H in S.
  destruct S as [_ Hnone]. specialize (Hnone L HL). pose proof (winner_none _ _ Hnone j) as Hn.
  rewrite map_length in Hn. specialize (Hn Hj). apply matchb_spec in Hc. unfold pat in Hc. congruence.
Qed.

(** [lex_next]: a token is the pick at the position reached after skipping; offsets are byte offsets *)
Inductive skips (pats : list (re * bool)) : list N -> nat -> list N -> nat -> Prop :=
| sk_nil text c : skips pats text c text c
| sk_cons text c len idx text' c' :
    text <> [] -> pick pats text = Some (len, idx) -> snd (nth idx pats (RNone, false)) = true -> 0 < len ->
    skips pats (skipn len text) (c + len) text' c' -> skips pats text c text' c'.

Lemma lex_next_S pats fuel text consumed :
  lex_next pats (S fuel) text consumed =
  match text with
  | [] => (LEnd, text, consumed)
  | _ =>
    match pick pats text with
    | None => (LInvalid consumed, text, consumed)
    | Some (len, idx) =>
      if Nat.eqb len 0 then (LInvalid consumed, skipn len text, consumed + len)
      else if snd (nth idx pats (RNone, false)) then lex_next pats fuel (skipn len text) (consumed + len)
      else (LTok consumed idx len, skipn len text, consumed + len)
    end
  end.
Proof. destruct text; reflexivity. Qed.

Theorem lex_next_spec : forall fuel pats text consumed r text' c',
  lex_next pats fuel text consumed = (r, text', c') ->
  match r with
  | LTok start idx len =>
      exists t0, skips pats text consumed t0 start /\ t0 <> [] /\ 0 < len /\
                 pick pats t0 = Some (len, idx) /\ snd (nth idx pats (RNone, false)) = false /\
                 text' = skipn len t0 /\ c' = start + len
  | LInvalid loc =>
      exists t0, skips pats text consumed t0 loc /\ t0 <> [] /\
                 (pick pats t0 = None \/ exists idx, pick pats t0 = Some (0, idx))
  | LEnd => skips pats text consumed [] c'
  | LFuel => True
  end.
Proof.
  induction fuel as [|fuel IH]; intros pats text consumed r text' c' H.
  - simpl in H. inversion H; subst. exact I.
  - rewrite lex_next_S in H. destruct (list_eq_dec N.eq_dec text []) as [->|Hne].
    + inversion H; subst. constructor.
    + assert (Hm : match pick pats text with
                 | None => (LInvalid consumed, text, consumed)
                 | Some (len, idx) =>
                   if Nat.eqb len 0 then (LInvalid consumed, skipn len text, consumed + len)
                   else if snd (nth idx pats (RNone, false)) then lex_next pats fuel (skipn len text) (consumed + len)
                   else (LTok consumed idx len, skipn len text, consumed + len)
                 end = (r, text', c')) by (destruct text; [congruence|exact H]).
      clear H.
      destruct (pick pats text) as [[len idx]|] eqn:Hp.
      * destruct (Nat.eqb len 0) eqn:Hl.
        -- apply Nat.eqb_eq in Hl. subst len. inversion Hm; subst r text' c'.
           exists text. split; [constructor|]. split; [exact Hne|]. right. eauto.
        -- apply Nat.eqb_neq in Hl. destruct (snd (nth idx pats (RNone, false))) eqn:Hs.
           ++ apply IH in Hm. destruct r as [start i l|loc| |]; auto.
              ** destruct Hm as (t0 & Hsk & Hrest). exists t0. split; [|exact Hrest].
                 eapply sk_cons; eauto. lia.
              ** destruct Hm as (t0 & Hsk & Hrest). exists t0. split; [|exact Hrest].
                 eapply sk_cons; eauto. lia.
              ** eapply sk_cons; eauto. lia.
           ++ inversion Hm; subst r text' c'. exists text. repeat split; auto; [constructor|lia].
      * inversion Hm; subst r text' c'. exists text. split; [constructor|]. split; [exact Hne|]. left. exact Hp.
Qed.

(** progress: every match that is used consumes at least one byte, so the matcher needs at most
    |text|+1 rounds, every token strictly shortens the remaining text, and a token stream has at
    most |text| tokens *)
Lemma lex_next_fuel_enough : forall fuel pats text consumed,
  length text < fuel -> fst (fst (lex_next pats fuel text consumed)) <> LFuel.
Proof.
  induction fuel as [|fuel IH]; intros pats text consumed Hf; [lia|]. rewrite lex_next_S.
  destruct text as [|b t] eqn:Et; [simpl; discriminate|]. rewrite <- Et in *.
  destruct (pick pats text) as [[len idx]|] eqn:Hp; [|simpl; discriminate].
  destruct (Nat.eqb len 0) eqn:Hl; [simpl; discriminate|]. apply Nat.eqb_neq in Hl.
  destruct (snd (nth idx pats (RNone, false))); [|simpl; discriminate].
  assert (1 <= length text) by (rewrite Et; simpl; lia).
  apply IH. rewrite skipn_length. lia.
Qed.

Lemma skips_shorter pats text c t0 c0 : skips pats text c t0 c0 -> length t0 <= length text.
Proof.
  induction 1 as [|text c len idx text' c' Hne Hp Hs Hl Hsk IH]; [lia|].
  rewrite skipn_length in IH. lia.
Qed.

Theorem token_progress fuel pats text consumed start idx len text' c' :
  lex_next pats fuel text consumed = (LTok start idx len, text', c') ->
  0 < len /\ length text' < length text.
Proof.
  intros H. apply lex_next_spec in H as (t0 & Hsk & Hne & Hl & Hp & _ & -> & _).
  split; [exact Hl|]. apply skips_shorter in Hsk. rewrite skipn_length.
  assert (1 <= length t0) by (destruct t0; [congruence|simpl; lia]). lia.
Qed.

Lemma tokens_S pats fuel text c :
  tokens pats (S fuel) text c =
  match lex_next pats (S (length text)) text c with
  | (LTok s i l, text', c') => LTok s i l :: tokens pats fuel text' c'
  | (LEnd, _, _) => []
  | (r, _, _) => [r]
  end.
Proof. reflexivity. Qed.

Theorem tokens_terminate : forall fuel pats text consumed,
  length text < fuel -> ~ In LFuel (tokens pats fuel text consumed).
Proof.
  induction fuel as [|fuel IH]; intros pats text consumed Hf; [lia|]. rewrite tokens_S.
  destruct (lex_next pats (S (length text)) text consumed) as [[r text'] c'] eqn:Hn.
  pose proof (lex_next_fuel_enough (S (length text)) pats text consumed (Nat.lt_succ_diag_r _)) as Hnf.
  rewrite Hn in Hnf. simpl in Hnf.
  destruct r as [s i l|loc| |]; simpl.
  - intros [Hd|Hin]; [discriminate|]. apply token_progress in Hn as [_ Hlt].
    eapply IH; [|exact Hin]. lia.
  - intros [Hd|[]]. discriminate.
  - intros [].
  - congruence.
Qed.
