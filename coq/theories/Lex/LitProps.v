From Coq Require Import List NArith Bool Lia.
From LV Require Import Lex.Regex.
Import ListNotations.

Lemma range_single b w : matches (RRange b b) w <-> w = [b].
Proof.
  split.
  - intros H. inversion H; subst. f_equal. lia.
  - intros ->. constructor; lia.
Qed.

Lemma lit_exact : forall bs w, matches (RLit bs) w <-> w = bs.
Proof.
  induction bs as [|b r IH]; intros w; simpl.
  - split; intros H; [inversion H; reflexivity|subst; constructor].
  - destruct r as [|b' r'].
    + apply range_single.
    + split.
      * intros H. apply cat_inv in H as (u & v & -> & Hu & Hv).
        apply range_single in Hu. subst u. apply IH in Hv. subst v. reflexivity.
      * intros ->. change (b :: b' :: r') with ([b] ++ b' :: r'). constructor.
        -- apply range_single. reflexivity.
        -- apply IH. reflexivity.
Qed.
