(** C25: the unique prefix of parser/mod.rs:parse_grammar ("__", extended by '_' while the input text
    contains it) and the freshness of every name built from it. *)
From Coq Require Import List Ascii Arith Bool Lia.
Import ListNotations.

Definition text := list ascii.
Definition us : ascii := "_"%char.

Fixpoint starts_with (p t : text) : bool :=
  match p, t with
  | [], _ => true
  | _, [] => false
  | a :: p', b :: t' => Ascii.eqb a b && starts_with p' t'
  end.
Fixpoint contains (t p : text) : bool :=
  starts_with p t || match t with [] => false | _ :: t' => contains t' p end.

(* while input.contains(&prefix) { prefix.push('_') } *)
Fixpoint find_prefix (fuel : nat) (input p : text) : option text :=
  if contains input p then match fuel with O => None | S f => find_prefix f input (p ++ [us]) end
  else Some p.
Definition prefix_of (input : text) : option text := find_prefix (S (length input)) input [us; us].

Lemma starts_with_length p t : starts_with p t = true -> length p <= length t.
Proof.
  revert t. induction p as [|a p IH]; intros [|b t] H; simpl in *; try lia; try discriminate.
  apply andb_prop in H. destruct H as [_ H]. specialize (IH _ H). lia.
Qed.

Lemma contains_length t p : contains t p = true -> length p <= length t.
Proof.
  induction t as [|b t IH]; intros H; cbn [contains] in H.
  - rewrite orb_false_r in H. apply starts_with_length in H. exact H.
  - apply orb_prop in H. destruct H as [H|H]; [apply starts_with_length in H; exact H|].
    specialize (IH H). simpl. lia.
Qed.

(* the loop terminates: a run of more underscores than the input has characters cannot occur in it *)
Lemma find_prefix_total fuel input : forall p, length input < length p + fuel ->
  exists q, find_prefix fuel input p = Some q.
Proof.
  induction fuel as [|f IH]; intros p H; cbn [find_prefix].
  - destruct (contains input p) eqn:E; [|eauto]. apply contains_length in E. lia.
  - destruct (contains input p) eqn:E; [|eauto]. apply IH. rewrite app_length. simpl. lia.
Qed.

Theorem prefix_exists input : exists q, prefix_of input = Some q.
Proof. apply find_prefix_total. simpl. lia. Qed.

Lemma find_prefix_absent fuel input : forall p q, find_prefix fuel input p = Some q -> contains input q = false.
Proof.
  induction fuel as [|f IH]; intros p q H; cbn [find_prefix] in H.
  - destruct (contains input p) eqn:E; [discriminate|]. inversion H. subst. exact E.
  - destruct (contains input p) eqn:E; [eapply IH; exact H|]. inversion H. subst. exact E.
Qed.

Theorem prefix_absent input q : prefix_of input = Some q -> contains input q = false.
Proof. apply find_prefix_absent. Qed.

(* anything that occurs in the input (every user identifier does) differs from every generated name *)
Lemma starts_with_app p s : starts_with p (p ++ s) = true.
Proof. induction p as [|a p IH]; simpl; [reflexivity|]. rewrite Ascii.eqb_refl, IH. reflexivity. Qed.

Lemma contains_app_mid t1 u t2 p : contains u p = true -> contains (t1 ++ u ++ t2) p = true.
Proof.
  intros H. induction t1 as [|a t1 IH]; cbn [app].
  - revert H. induction u as [|b u IHu]; intros H; cbn [contains app] in *.
    + rewrite orb_false_r in H. destruct p; [destruct t2; reflexivity|discriminate].
    + apply orb_prop in H. destruct H as [H|H].
      * assert (Hs : forall p' x y, starts_with p' x = true -> starts_with p' (x ++ y) = true).
        { clear. induction p' as [|a p' IH]; intros [|b x] y H; simpl in *; try reflexivity; try discriminate.
          apply andb_prop in H. destruct H as [H1 H2]. rewrite H1, (IH _ _ H2). reflexivity. }
        change (b :: u ++ t2) with ((b :: u) ++ t2). rewrite (Hs _ _ _ H). reflexivity.
      * rewrite (IHu H). apply orb_true_r.
  - cbn [contains]. rewrite IH. apply orb_true_r.
Qed.

Theorem generated_names_are_fresh input q : prefix_of input = Some q ->
  forall t1 u t2 s, input = t1 ++ u ++ t2 -> u <> q ++ s.
Proof.
  intros Hq t1 u t2 s Hin Hu. pose proof (prefix_absent _ _ Hq) as Ha.
  rewrite Hin, Hu in Ha.
  rewrite (contains_app_mid t1 (q ++ s) t2 q) in Ha; [discriminate|].
  destruct (q ++ s) eqn:E; cbn [contains]; rewrite <- E, starts_with_app; reflexivity.
Qed.

(* the prefix is a run of underscores, at least two *)
Lemma find_prefix_shape fuel input : forall p q, Forall (fun c => c = us) p -> find_prefix fuel input p = Some q ->
  Forall (fun c => c = us) q /\ length p <= length q.
Proof.
  induction fuel as [|f IH]; intros p q Hp H; cbn [find_prefix] in H.
  - destruct (contains input p); [discriminate|]. inversion H. subst. auto.
  - destruct (contains input p).
    + destruct (IH (p ++ [us]) q) as [H1 H2]; [apply Forall_app; split; [exact Hp|repeat constructor]|exact H|].
      split; [exact H1|]. rewrite app_length in H2. simpl in H2. lia.
    + inversion H. subst. auto.
Qed.
