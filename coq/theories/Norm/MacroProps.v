(** The cache key of macro expansion (the canonical form) is injective on source symbols: two uses
    share an expansion iff they are the same symbol.  Plus: replacing sub-symbols by their created
    nonterminals does not change the key; the semantics of the repeat expansions. *)
From Coq Require Import List String Bool Arith Lia.
From LV Require Import Norm.Macro.
Import ListNotations.

(** source symbols: no created nonterminals inside *)
Fixpoint src (s : sym) : Prop :=
  match s with
  | SMacro _ args => (fix all (l : list sym) : Prop := match l with [] => True | a :: r => src a /\ all r end) args
  | SExpr ss => (fix all (l : list sym) : Prop := match l with [] => True | a :: r => src a /\ all r end) ss
  | SRepeat a _ => src a
  | SChoose a => src a
  | SGen _ => False
  | _ => True
  end.
Fixpoint src_all (l : list sym) : Prop := match l with [] => True | a :: r => src a /\ src_all r end.
Lemma src_macro n args : src (SMacro n args) = src_all args.
Proof. cbn [src]. induction args as [|a r IH]; cbn [src_all]; [reflexivity|]. rewrite <- IH. reflexivity. Qed.
Lemma src_expr ss : src (SExpr ss) = src_all ss.
Proof. cbn [src]. induction ss as [|a r IH]; cbn [src_all]; [reflexivity|]. rewrite <- IH. reflexivity. Qed.

Fixpoint size (s : sym) : nat :=
  match s with
  | SMacro _ args => S (fold_right (fun a n => size a + n) 0 args)
  | SExpr ss => S (fold_right (fun a n => size a + n) 0 ss)
  | SRepeat a _ => S (size a)
  | SChoose a => S (size a)
  | _ => 1
  end.
Definition size_all (l : list sym) : nat := fold_right (fun a n => size a + n) 0 l.

(* a symbol is an atom followed by postfix operators *)
Definition is_atom (s : sym) : Prop := match s with SRepeat _ _ => False | _ => True end.

(* what may follow a symbol inside a canonical form (besides a postfix operator) *)
Definition sepish (t : tok) : Prop := t = KComma \/ t = KSp \/ t = KGt \/ t = KRp.
Definition follow (r : list tok) : Prop := match r with [] => True | t :: _ => sepish t end.
Definition follow_op (r : list tok) : Prop := match r with [] => True | KOp _ :: _ => True | t :: _ => sepish t end.

Lemma follow_follow_op r : follow r -> follow_op r.
Proof. destruct r as [|t r]; [trivial|]. unfold follow, follow_op, sepish. intros [-> | [-> | [-> | -> ]]]; auto. Qed.

(* the first token of a source symbol starts an atom *)
Definition starts (t : tok) : Prop :=
  match t with KLit _ | KRe _ | KId _ | KErr | KLp | KLt => True | _ => False end.

Lemma canon_first s : src s -> exists t r, canon s = t :: r /\ starts t.
Proof.
  induction s as [x|x|x|n args|ss|a IH o|a IH| |k]; intros Hs; cbn [canon]; try (eexists; eexists; split; [reflexivity|exact I]).
  - destruct (IH Hs) as (t & r & E & St). rewrite E. exists t, (r ++ [KOp o]). split; [reflexivity|exact St].
  - destruct Hs.
Qed.

Lemma starts_not_sepish t : starts t -> ~ sepish t.
Proof. destruct t; cbn; intros H [E|[E|[E|E]]]; try discriminate; exact H. Qed.

Lemma starts_not_op t o : starts t -> t <> KOp o.
Proof. destruct t; cbn; intros H E; try discriminate; exact H. Qed.

(** the main lemma, by induction on the size of the first symbol *)
Lemma atoms_ops s : exists a ops, is_atom a /\ canon s = canon a ++ map KOp ops /\ size a <= size s /\ (src s -> src a) /\
  s = fold_left (fun x o => SRepeat x o) ops a.
Proof.
  induction s as [x|x|x|n args|ss|a IH o|a _| |k];
    try (eexists; exists []; repeat split; [exact I|cbn [map]; rewrite app_nil_r; reflexivity|lia|trivial]).
  destruct IH as (a0 & ops & Ha & Ec & Hsz & Hsrc & Ef).
  exists a0, (ops ++ [o]). repeat split; auto.
  - cbn [canon]. rewrite Ec, map_app, app_assoc. reflexivity.
  - cbn [size]. lia.
  - rewrite fold_left_app. cbn [fold_left]. rewrite <- Ef. reflexivity.
Qed.

Lemma ops_prefix ops1 : forall ops2 r1 r2, follow r1 -> follow r2 ->
  map KOp ops1 ++ r1 = map KOp ops2 ++ r2 -> ops1 = ops2 /\ r1 = r2.
Proof.
  induction ops1 as [|o ops1 IH]; intros [|o2 ops2] r1 r2 F1 F2 E; cbn [map app] in E.
  - auto.
  - subst r1. cbn in F1. destruct F1 as [H|[H|[H|H]]]; discriminate.
  - subst r2. cbn in F2. destruct F2 as [H|[H|[H|H]]]; discriminate.
  - inversion E. destruct (IH _ _ _ F1 F2 H1) as [-> ->]. auto.
Qed.

Section Inj.
(* induction hypothesis: injectivity (with remainders) for all symbols smaller than n *)
Variable n : nat.
Hypothesis IHn : forall s1, size s1 < n -> forall s2 r1 r2, src s1 -> src s2 -> follow r1 -> follow r2 ->
  canon s1 ++ r1 = canon s2 ++ r2 -> s1 = s2 /\ r1 = r2.

Lemma join_inj (sep : list tok) (close : tok) :
  (sep = [KComma; KSp] \/ sep = [KSp]) -> (close = KGt \/ close = KRp) ->
  forall l1, size_all l1 < n -> forall l2 r1 r2, src_all l1 -> src_all l2 ->
  join sep (map canon l1) ++ close :: r1 = join sep (map canon l2) ++ close :: r2 -> l1 = l2 /\ r1 = r2.
Proof.
  intros Hsep Hclose.
  assert (Hcs : sepish close) by (unfold sepish; destruct Hclose as [-> | -> ]; auto).
  assert (Hsep1 : exists t r, sep = t :: r /\ sepish t /\ t <> close).
  { destruct Hsep as [-> | -> ]; eexists; eexists; (split; [reflexivity|]); unfold sepish; split; auto;
      destruct Hclose as [-> | -> ]; discriminate. }
  destruct Hsep1 as (t0 & sr & Es & Ht0 & Hne).
  induction l1 as [|a l1 IH]; intros Hsz l2 r1 r2 S1 S2 E.
  - destruct l2 as [|b l2]; cbn [map join app] in E.
    + inversion E. auto.
    + exfalso. destruct S2 as [Sb _]. destruct (canon_first b Sb) as (t & r & Eb & St).
      assert (E' : exists rest, close :: r1 = t :: rest).
      { destruct l2; cbn [map join] in E; rewrite Eb in E; cbn [app] in E; eexists; exact E. }
      destruct E' as (rest & E'). inversion E'. subst t. exact (starts_not_sepish _ St Hcs).
  - destruct l2 as [|b l2].
    + exfalso. destruct S1 as [Sa _]. destruct (canon_first a Sa) as (t & r & Ea & St).
      assert (E' : exists rest, t :: rest = close :: r2).
      { destruct l1; cbn [map join] in E; rewrite Ea in E; cbn [app] in E; eexists; exact E. }
      destruct E' as (rest & E'). inversion E'. subst t. exact (starts_not_sepish _ St Hcs).
    + destruct S1 as [Sa S1]. destruct S2 as [Sb S2].
      assert (Hsa : size a < n) by (unfold size_all in Hsz; cbn [fold_right] in Hsz; lia).
      assert (Hsl : size_all l1 < n) by (unfold size_all in *; cbn [fold_right] in Hsz; lia).
      (* both sides are canon x ++ (something starting with a separator-ish token) *)
      assert (Ea : exists ra, join sep (map canon (a :: l1)) ++ close :: r1 = canon a ++ ra /\ follow ra /\
                              (l1 = [] -> ra = close :: r1) /\ (l1 <> [] -> ra = sep ++ join sep (map canon l1) ++ close :: r1)).
      { destruct l1 as [|a' l1']; cbn [map join].
        - exists (close :: r1). repeat split; auto. congruence.
        - exists (sep ++ join sep (map canon (a' :: l1')) ++ close :: r1). repeat split.
          + rewrite <- !app_assoc. reflexivity.
          + rewrite Es. cbn. exact Ht0.
          + discriminate. }
      assert (Eb : exists rb, join sep (map canon (b :: l2)) ++ close :: r2 = canon b ++ rb /\ follow rb /\
                              (l2 = [] -> rb = close :: r2) /\ (l2 <> [] -> rb = sep ++ join sep (map canon l2) ++ close :: r2)).
      { destruct l2 as [|b' l2']; cbn [map join].
        - exists (close :: r2). repeat split; auto. congruence.
        - exists (sep ++ join sep (map canon (b' :: l2')) ++ close :: r2). repeat split.
          + rewrite <- !app_assoc. reflexivity.
          + rewrite Es. cbn. exact Ht0.
          + discriminate. }
      destruct Ea as (ra & Era & Fa & Ha0 & Ha1). destruct Eb as (rb & Erb & Fb & Hb0 & Hb1).
      rewrite Era, Erb in E.
      destruct (IHn a Hsa b ra rb Sa Sb Fa Fb E) as [-> Er].
      destruct l1 as [|a' l1']; destruct l2 as [|b' l2'].
      * rewrite (Ha0 eq_refl), (Hb0 eq_refl) in Er. inversion Er. auto.
      * exfalso. rewrite (Ha0 eq_refl), (Hb1 ltac:(discriminate)), Es in Er. inversion Er. congruence.
      * exfalso. rewrite (Ha1 ltac:(discriminate)), (Hb0 eq_refl), Es in Er. inversion Er. congruence.
      * rewrite (Ha1 ltac:(discriminate)), (Hb1 ltac:(discriminate)) in Er. apply app_inv_head in Er.
        destruct (IH Hsl _ _ _ S1 S2 Er) as [El ->]. rewrite El. auto.
Qed.

Lemma atom_inj a1 a2 r1 r2 : size a1 <= n -> is_atom a1 -> is_atom a2 -> src a1 -> src a2 ->
  follow_op r1 -> follow_op r2 -> canon a1 ++ r1 = canon a2 ++ r2 -> a1 = a2 /\ r1 = r2.
Proof.
  intros Hsz A1 A2 S1 S2 F1 F2 E.
  destruct a1 as [x|x|x|m args|ss|a o|a| |k]; try destruct A1; try destruct S1;
    destruct a2 as [y|y|y|m2 args2|ss2|a2 o2|a2| |k2]; try destruct A2; try destruct S2;
    cbn [canon app] in E; try discriminate; try (inversion E; subst; auto; fail).
  - (* SId x vs SMacro: the remainder would start with `<` *)
    exfalso. inversion E. subst r1. cbn in F1. destruct F1 as [H|[H|[H|H]]]; discriminate.
  - exfalso. inversion E. subst r2. cbn in F2. destruct F2 as [H|[H|[H|H]]]; discriminate.
  - (* two macro uses *)
    inversion E as [[En Ej]]. subst m2. rewrite <- !app_assoc in Ej. cbn [app] in Ej.
    rewrite src_macro in S1, S2.
    destruct (join_inj [KComma; KSp] KGt (or_introl eq_refl) (or_introl eq_refl) args
                ltac:(cbn [size] in Hsz; unfold size_all; lia) args2 r1 r2 S1 S2 Ej) as [-> ->]. auto.
  - (* two groups *)
    inversion E as [Ej]. rewrite <- !app_assoc in Ej. cbn [app] in Ej.
    rewrite src_expr in S1, S2.
    destruct (join_inj [KSp] KRp (or_intror eq_refl) (or_intror eq_refl) ss
                ltac:(cbn [size] in Hsz; unfold size_all; lia) ss2 r1 r2 S1 S2 Ej) as [-> ->]. auto.
  - (* two <..> selections *)
    inversion E as [Ej]. rewrite <- !app_assoc in Ej. cbn [app] in Ej. cbn [src] in S1, S2.
    destruct (IHn a ltac:(cbn [size] in Hsz; lia) a2 (KGt :: r1) (KGt :: r2) S1 S2) as [-> Er];
      [cbn; unfold sepish; auto|cbn; unfold sepish; auto|exact Ej|]. inversion Er. auto.
Qed.
End Inj.

Theorem canon_inj_rem : forall n s1, size s1 < n -> forall s2 r1 r2, src s1 -> src s2 -> follow r1 -> follow r2 ->
  canon s1 ++ r1 = canon s2 ++ r2 -> s1 = s2 /\ r1 = r2.
Proof.
  induction n as [|n IH]; intros s1 Hsz s2 r1 r2 S1 S2 F1 F2 E; [lia|].
  destruct (atoms_ops s1) as (a1 & ops1 & A1 & E1 & Z1 & Sa1 & R1).
  destruct (atoms_ops s2) as (a2 & ops2 & A2 & E2 & _ & Sa2 & R2).
  rewrite E1, E2, <- !app_assoc in E.
  assert (Fo : forall ops r, follow r -> follow_op (map KOp ops ++ r)).
  { intros [|o ops] r F; [apply follow_follow_op; exact F|exact I]. }
  destruct (atom_inj n IH a1 a2 _ _ ltac:(lia) A1 A2 (Sa1 S1) (Sa2 S2) (Fo _ _ F1) (Fo _ _ F2) E) as [Ea Er].
  destruct (ops_prefix _ _ _ _ F1 F2 Er) as [Eo ->]. subst. auto.
Qed.

(** C13: two source symbols have the same cache key iff they are the same symbol *)
Theorem canon_injective s1 s2 : src s1 -> src s2 -> canon s1 = canon s2 -> s1 = s2.
Proof.
  intros S1 S2 E.
  destruct (canon_inj_rem (S (size s1)) s1 ltac:(lia) s2 [] [] S1 S2 I I) as [H _]; [|exact H].
  rewrite !app_nil_r. exact E.
Qed.

(** before the repair the recovery symbol `!` printed as the word `error`, like a nonterminal of that
    name: two different symbols, one key *)
Definition tok_str_unrepaired (debug : string -> string) (t : tok) : string :=
  match t with KErr => "error"%string | _ => tok_str debug t end.
Example unrepaired_key_collision debug :
  SMacro "M" [SError] <> SMacro "M" [SId "error"] /\
  fold_right (fun t acc => (tok_str_unrepaired debug t ++ acc)%string) ""%string (canon (SMacro "M" [SError])) =
  fold_right (fun t acc => (tok_str_unrepaired debug t ++ acc)%string) ""%string (canon (SMacro "M" [SId "error"])).
Proof. split; [discriminate|reflexivity]. Qed.

(** an induction principle that reaches into argument lists *)
Section SymInd.
Variable P : sym -> Prop.
Hypothesis Hlit : forall x, P (SLit x).
Hypothesis Hre : forall x, P (SRe x).
Hypothesis Hid : forall x, P (SId x).
Hypothesis Hmac : forall n args, Forall P args -> P (SMacro n args).
Hypothesis Hexpr : forall ss, Forall P ss -> P (SExpr ss).
Hypothesis Hrep : forall a o, P a -> P (SRepeat a o).
Hypothesis Hcho : forall a, P a -> P (SChoose a).
Hypothesis Herr : P SError.
Hypothesis Hgen : forall k, P (SGen k).
Fixpoint sym_ind' (s : sym) : P s :=
  match s with
  | SLit x => Hlit x
  | SRe x => Hre x
  | SId x => Hid x
  | SMacro n args => Hmac n args ((fix go (l : list sym) : Forall P l :=
                                     match l with [] => Forall_nil P | a :: r => Forall_cons a (sym_ind' a) (go r) end) args)
  | SExpr ss => Hexpr ss ((fix go (l : list sym) : Forall P l :=
                             match l with [] => Forall_nil P | a :: r => Forall_cons a (sym_ind' a) (go r) end) ss)
  | SRepeat a o => Hrep a o (sym_ind' a)
  | SChoose a => Hcho a (sym_ind' a)
  | SError => Herr
  | SGen k => Hgen k
  end.
End SymInd.

(** replacing the sub-symbols by their created nonterminals keeps the key (so keys are keys of source symbols) *)
Definition go_list := fix go (l : list sym) (x : st) : list sym * st :=
  match l with
  | [] => ([], x)
  | a :: r => let '(a', x1) := replace a x in let '(r', x2) := go r x1 in (a' :: r', x2)
  end.

Lemma go_list_canon l : Forall (fun s => forall x, canon (fst (replace s x)) = canon s) l ->
  forall x, map canon (fst (go_list l x)) = map canon l.
Proof.
  induction 1 as [|a l Ha Hl IH]; intros x; [reflexivity|].
  cbn [go_list]. fold go_list. specialize (Ha x). destruct (replace a x) as [a' x1]. cbn [fst] in Ha.
  specialize (IH x1). destruct (go_list l x1) as [r' x2]. cbn [fst map] in *. rewrite Ha, IH. reflexivity.
Qed.

Lemma replace_canon s : forall x, canon (fst (replace s x)) = canon s.
Proof.
  induction s as [y|y|y|m args IH|ss IH|a o IH|a IH| |k] using sym_ind'; intros x; try reflexivity.
  - cbn [replace]. fold go_list. pose proof (go_list_canon args IH x) as H.
    destruct (go_list args x) as [args' x']. cbn [fst] in H. unfold note. cbn [fst canon]. rewrite H. reflexivity.
  - cbn [replace]. fold go_list. pose proof (go_list_canon ss IH x) as H.
    destruct (go_list ss x) as [ss' x']. cbn [fst] in H. unfold note. cbn [fst canon]. rewrite H. reflexivity.
  - cbn [replace]. specialize (IH x). destruct (replace a x) as [a' x']. cbn [fst] in IH.
    unfold note. cbn [fst canon]. rewrite IH. reflexivity.
  - cbn [replace]. specialize (IH x). destruct (replace a x) as [a' x']. cbn [fst] in *. cbn [canon]. rewrite IH. reflexivity.
Qed.

(** the expansions of the repeat operators denote lists: `X+ = X | X+ X` with the actions
    `vec![<>]` and `{ let mut v = v; v.push(e); v }` derives exactly the non-empty sequences of X,
    values in input order; `X* = | X+` adds the empty one; `X? = X | ` is Some/None *)
Section Repeat.
Variable T V : Type.
Variable D : list T -> V -> Prop.           (* what X derives, with its value *)

Inductive plus_der : list T -> list V -> Prop :=
| P1 w v : D w v -> plus_der w [v]
| P2 w1 w2 l v : plus_der w1 l -> D w2 v -> plus_der (w1 ++ w2) (l ++ [v]).
Inductive star_der : list T -> list V -> Prop :=
| S0 : star_der [] []
| S1 w l : plus_der w l -> star_der w l.
Inductive opt_der : list T -> option V -> Prop :=
| O1 w v : D w v -> opt_der w (Some v)
| O0 : opt_der [] None.

Theorem plus_der_spec w l : plus_der w l <-> l <> [] /\ exists ws, w = List.concat ws /\ Forall2 D ws l.
Proof.
  split.
  - induction 1 as [w v Hd|w1 w2 l v _ [Hne (ws & -> & Hf)] Hd].
    + split; [discriminate|]. exists [w]. split; [cbn; rewrite app_nil_r; reflexivity|]. constructor; [exact Hd|constructor].
    + split; [destruct l; discriminate|]. exists (ws ++ [w2]). split.
      * rewrite List.concat_app. cbn. rewrite app_nil_r. reflexivity.
      * apply Forall2_app; [exact Hf|]. constructor; [exact Hd|constructor].
  - intros [Hne (ws & -> & Hf)]. revert ws Hf. induction l as [|v l IH] using rev_ind; intros ws Hf; [congruence|].
    destruct (Forall2_app_inv_r _ _ Hf) as (ws1 & ws2 & H1 & H2 & ->).
    inversion H2 as [|w2 v' ws2' l2 Hd Hnil]; subst. inversion Hnil; subst.
    rewrite List.concat_app. cbn. rewrite app_nil_r.
    destruct l as [|v0 l0].
    + inversion H1; subst. cbn. apply P1. exact Hd.
    + apply P2; [|exact Hd]. apply IH; [discriminate|exact H1].
Qed.

Theorem star_der_spec w l : star_der w l <-> exists ws, w = List.concat ws /\ Forall2 D ws l.
Proof.
  split.
  - intros [|w' l' H]; [exists []; split; [reflexivity|constructor]|]. apply plus_der_spec in H. tauto.
  - intros (ws & -> & Hf). destruct l as [|v l].
    + inversion Hf; subst. constructor.
    + apply S1. apply plus_der_spec. split; [discriminate|eauto].
Qed.

Theorem opt_der_spec w o : opt_der w o <-> match o with Some v => D w v | None => w = [] end.
Proof. split; [intros [w' v H|]; auto|]. destruct o; [apply O1|intros ->; apply O0]. Qed.
End Repeat.
