From Coq Require Import List String Bool.
From LV Require Import Norm.Cfg.
Import ListNotations.

Lemma smem_in f fs : smem f fs = true <-> In f fs.
Proof.
  unfold smem. rewrite existsb_exists. split.
  - intros (x & Hin & He). apply String.eqb_eq in He. now subst.
  - intros H. exists f. split; [exact H|apply String.eqb_refl].
Qed.

Section PredInd.
  Variable P : pred -> Prop.
  Hypothesis Hf : forall f, P (PFeature f).
  Hypothesis Hn : forall l, Forall P l -> P (PNot l).
  Hypothesis Ha : forall l, Forall P l -> P (PAll l).
  Hypothesis Hy : forall l, Forall P l -> P (PAny l).
  Hypothesis Ho : P POther.
  Fixpoint pred_ind' (p : pred) : P p :=
    let go := fix go (l : list pred) : Forall P l :=
      match l with [] => Forall_nil P | a :: r => Forall_cons a (pred_ind' a) (go r) end in
    match p with
    | PFeature f => Hf f
    | PNot l => Hn l (go l)
    | PAll l => Ha l (go l)
    | PAny l => Hy l (go l)
    | POther => Ho
    end.
End PredInd.

(* the evaluator agrees with Rust's semantics on well-formed predicates *)
Theorem test_spec fs : forall p, wfp p -> (test fs p = true <-> holds fs p).
Proof.
  induction p as [f|l IH|l IH|l IH|] using pred_ind'; intros Hwf; inversion Hwf; subst.
  - simpl. apply smem_in.
  - simpl. inversion IH as [|? ? IHa _]; subst.
    match goal with Hw : wfp a |- _ => pose proof (IHa Hw) as E end.
    rewrite negb_true_iff. split.
    + intros H Hh. apply E in Hh. congruence.
    + intros H. destruct (test fs a) eqn:Ht; [|reflexivity]. exfalso. apply H. apply E. reflexivity.
  - match goal with Hw : Forall wfp l |- _ => rename Hw into HW end.
    clear Hwf. simpl. revert IH HW. induction l as [|a r IHr]; intros IH HW; [tauto|].
    inversion IH as [|? ? Ha Hr]; subst. inversion HW as [|? ? Hwa Hwr]; subst.
    rewrite andb_true_iff, (Ha Hwa), (IHr Hr Hwr). tauto.
  - match goal with Hw : Forall wfp l |- _ => rename Hw into HW end.
    clear Hwf. simpl. revert IH HW. induction l as [|a r IHr]; intros IH HW; [split; [discriminate|tauto]|].
    inversion IH as [|? ? Ha Hr]; subst. inversion HW as [|? ? Hwa Hwr]; subst.
    rewrite orb_true_iff, (Ha Hwa), (IHr Hr Hwr). tauto.
Qed.

(* several cfg attributes on one item are conjoined *)
Theorem cfg_conjoined fs c1 c2 : cfg_active fs (c1 ++ c2) = cfg_active fs c1 && cfg_active fs c2.
Proof. unfold cfg_active. apply forallb_app. Qed.

(* removal is plain filtering, hence idempotent (lower filters conversions a second time) *)
Lemma filter_idem {X} (f : X -> bool) l : filter f (filter f l) = filter f l.
Proof. induction l as [|x l IH]; simpl; [reflexivity|]. destruct (f x) eqn:H; simpl; rewrite ?H; congruence. Qed.

Theorem remove_disabled_idempotent fs g : remove_disabled fs (remove_disabled fs g) = remove_disabled fs g.
Proof.
  unfold remove_disabled.
  induction g as [|n g IH]; simpl; [reflexivity|].
  destruct (cfg_active fs (n_cfg n)) eqn:Hn; simpl; [|exact IH].
  rewrite Hn. simpl. rewrite filter_idem. f_equal. exact IH.
Qed.

(* exactly the active items survive, in order *)
Theorem survivors_spec fs g :
  survivors fs g =
  map (fun n => (n_id n, map a_id (filter (fun a => cfg_active fs (a_cfg a)) (n_alts n))))
      (filter (fun n => cfg_active fs (n_cfg n)) g).
Proof. unfold survivors, remove_disabled. rewrite map_map. reflexivity. Qed.
