(** Model of normalize/inline: [inline_order] (depth-first order over the #[inline] nonterminals with
    cycle detection), [inline_nt] / [Inliner::inline] (cross product over the occurrences), and the
    synthetic action functions of build/action.rs:emit_inline_action_code (inlined actions are applied
    left to right to their slices of the arguments, then the outer action).  No proofs here. *)
From Coq Require Import List Arith Bool.
Import ListNotations.

Inductive sym := T (t : nat) | NT (n : nat).

(* action functions: an original one, or an inline wrapper around [outer] whose argument list is
   described by [parts] *)
Inductive act :=
| AOrig (id : nat)
| AInl (outer : act) (ps : parts)
with parts :=
| PNil
| POrig (rest : parts)                       (* InlinedSymbol::Original: one argument passed through *)
| PInl (a : act) (k : nat) (rest : parts).   (* InlinedSymbol::Inlined(a, k symbols) *)

Record prod := { lhs : nat; rhs : list sym; action : act }.

Definition is_nt (a : nat) (s : sym) : bool := match s with NT n => Nat.eqb n a | T _ => false end.
Definition mentions (a : nat) (ss : list sym) : bool := existsb (is_nt a) ss.

Inductive isym := IOrig (s : sym) | IInl (a : act) (ss : list sym).

(* Inliner::inline: all ways of replacing each occurrence of [a] by one of its productions, in the
   order the recursion produces them *)
Fixpoint expand (a : nat) (ips : list prod) (into : list sym) : list (list isym) :=
  match into with
  | [] => [[]]
  | s :: r =>
    let rest := expand a ips r in
    if is_nt a s then flat_map (fun ip => map (cons (IInl (action ip) (rhs ip))) rest) ips
    else map (cons (IOrig s)) rest
  end.

Fixpoint flatten (l : list isym) : list sym :=
  match l with
  | [] => []
  | IOrig s :: r => s :: flatten r
  | IInl _ ss :: r => ss ++ flatten r
  end.
Fixpoint parts_of (l : list isym) : parts :=
  match l with
  | [] => PNil
  | IOrig _ :: r => POrig (parts_of r)
  | IInl a ss :: r => PInl a (length ss) (parts_of r)
  end.

Definition inline_into (a : nat) (ips : list prod) (p : prod) : list prod :=
  if mentions a (rhs p) then
    map (fun l => {| lhs := lhs p; rhs := flatten l; action := AInl (action p) (parts_of l) |}) (expand a ips (rhs p))
  else [p].

Definition inline_nt (g : list prod) (a : nat) : list prod :=
  let ips := filter (fun p => Nat.eqb (lhs p) a) g in
  flat_map (inline_into a ips) g.

(** inline_order: depth-first post-order over the inline nonterminals; None on a cycle *)
Definition refs (g : list prod) (inl : list nat) (a : nat) : list nat :=
  flat_map (fun p => if Nat.eqb (lhs p) a
                     then flat_map (fun s => match s with NT n => if existsb (Nat.eqb n) inl then [n] else [] | T _ => [] end) (rhs p)
                     else []) g.

Section Walk.
Variable g : list prod.
Variable inl : list nat.
(* state: visiting, visited (= result, in order) *)
Fixpoint walk (fuel : nat) (visiting : list nat) (done : list nat) (a : nat) : option (list nat) :=
  match fuel with
  | O => None
  | S f =>
    if existsb (Nat.eqb a) done then Some done
    else if existsb (Nat.eqb a) visiting then None
    else
      match fold_left (fun acc n => match acc with Some d => walk f (a :: visiting) d n | None => None end)
                      (refs g inl a) (Some done) with
      | Some d => Some (d ++ [a])
      | None => None
      end
  end.
End Walk.

Definition inline_order (g : list prod) (inl : list nat) : option (list nat) :=
  fold_left (fun acc n => match acc with Some d => walk g inl (S (length inl)) [] d n | None => None end) inl (Some []).

(* the inlined nonterminal must not refer to itself when its turn comes (guaranteed by the order on
   acyclic inline sets; checked, so that the theorem needs no side condition) *)
Definition nonrecb (g : list prod) (a : nat) : bool :=
  forallb (fun p => negb (Nat.eqb (lhs p) a && mentions a (rhs p))) g.

Fixpoint inline_all (g : list prod) (order : list nat) : option (list prod) :=
  match order with
  | [] => Some g
  | a :: r => if nonrecb g a then inline_all (inline_nt g a) r else None
  end.

Definition inline_grammar (inl : list nat) (g : list prod) : option (list prod) :=
  match inline_order g inl with
  | Some order => inline_all g order
  | None => None
  end.

(* numbering of the action functions of a source grammar, and the view without actions *)
Fixpoint number_from (i : nat) (l : list (nat * list sym)) : list prod :=
  match l with
  | [] => []
  | (n, ss) :: r => {| lhs := n; rhs := ss; action := AOrig i |} :: number_from (S i) r
  end.
Definition number := number_from 0.
Definition erase (p : prod) : nat * list sym := (lhs p, rhs p).

(** values: what the user's actions build, with failing actions *)
Inductive V := VLeaf (t : nat) | VNode (id : nat) (kids : list V).
Inductive res (X : Type) := Ok (x : X) | Err (e : nat).
Arguments Ok {X}. Arguments Err {X}.

Section Eval.
Variable fail : nat -> list V -> option nat.     (* the user's fallible actions *)

Fixpoint eval (a : act) (args : list V) : res V :=
  match a with
  | AOrig id => match fail id args with Some e => Err e | None => Ok (VNode id args) end
  | AInl o ps => match evalp ps args with Ok vs => eval o vs | Err e => Err e end
  end
with evalp (ps : parts) (args : list V) : res (list V) :=
  match ps with
  | PNil => Ok []
  | POrig r => match args with
               | x :: t => match evalp r t with Ok vs => Ok (x :: vs) | Err e => Err e end
               | [] => Ok []
               end
  | PInl a k r => match eval a (firstn k args) with
                  | Err e => Err e
                  | Ok v => match evalp r (skipn k args) with Ok vs => Ok (v :: vs) | Err e => Err e end
                  end
  end.
End Eval.
