(** Inlining preserves the language and the values: for every symbol, input and value, the inlined
    grammar derives the input with that value iff the original grammar does.  A derivation "with
    value v" means that every action on the way succeeded; the synthetic inline actions evaluate the
    inlined actions left to right on their slices and then the outer action (Inline.v: eval). *)
From Coq Require Import List Arith Bool Lia.
From LV Require Import Norm.Inline.
Import ListNotations.

Section Sem.
Variable fail : nat -> list V -> option nat.

Inductive der (g : list prod) : sym -> list nat -> V -> Prop :=
| DT t : der g (T t) [t] (VLeaf t)
| DN p w args v : In p g -> ders g (rhs p) w args -> eval fail (action p) args = Ok v -> der g (NT (lhs p)) w v
with ders (g : list prod) : list sym -> list nat -> list V -> Prop :=
| DNil : ders g [] [] []
| DCons s ss w1 w2 v vs : der g s w1 v -> ders g ss w2 vs -> ders g (s :: ss) (w1 ++ w2) (v :: vs).

Scheme der_mut := Induction for der Sort Prop
with ders_mut := Induction for ders Sort Prop.

Lemma evalp_nil args : evalp fail PNil args = Ok [].
Proof. reflexivity. Qed.
Lemma evalp_orig r x t : evalp fail (POrig r) (x :: t) = match evalp fail r t with Ok vs => Ok (x :: vs) | Err e => Err e end.
Proof. reflexivity. Qed.
Lemma evalp_inl a k r args : evalp fail (PInl a k r) args =
  match eval fail a (firstn k args) with
  | Err e => Err e
  | Ok v => match evalp fail r (skipn k args) with Ok vs => Ok (v :: vs) | Err e => Err e end
  end.
Proof. reflexivity. Qed.
Lemma eval_inl o ps args : eval fail (AInl o ps) args = match evalp fail ps args with Ok vs => eval fail o vs | Err e => Err e end.
Proof. reflexivity. Qed.

Lemma ders_length g ss w vs : ders g ss w vs -> length vs = length ss.
Proof. induction 1; simpl; congruence. Qed.

Lemma der_nt_inv g n w v : der g (NT n) w v ->
  exists p args, In p g /\ lhs p = n /\ ders g (rhs p) w args /\ eval fail (action p) args = Ok v.
Proof. intros H. inversion H; subst. eauto 7. Qed.

Lemma ders_cons_inv g s ss w vs : ders g (s :: ss) w vs ->
  exists w1 w2 v vs', w = w1 ++ w2 /\ vs = v :: vs' /\ der g s w1 v /\ ders g ss w2 vs'.
Proof. intros H. inversion H; subst. eauto 9. Qed.

Lemma ders_nil_inv g w vs : ders g [] w vs -> w = [] /\ vs = [].
Proof. intros H. inversion H; subst. auto. Qed.

Lemma ders_app g s1 : forall s2 w vs,
  ders g (s1 ++ s2) w vs ->
  exists w1 w2 v1 v2, w = w1 ++ w2 /\ vs = v1 ++ v2 /\ ders g s1 w1 v1 /\ ders g s2 w2 v2.
Proof.
  induction s1 as [|s s1 IH]; intros s2 w vs H.
  - exists [], w, [], vs. repeat split; auto. constructor.
  - simpl in H. inversion H as [|s' ss' w1 w2 v vs' Hd1 Hd2]; subst.
    destruct (IH _ _ _ Hd2) as (w1' & w2' & v1 & v2 & -> & -> & Ha & Hb).
    exists (w1 ++ w1'), w2', (v :: v1), v2. repeat split; auto.
    + rewrite app_assoc. reflexivity.
    + constructor; assumption.
Qed.

Lemma ders_app_intro g s1 s2 w1 w2 v1 v2 :
  ders g s1 w1 v1 -> ders g s2 w2 v2 -> ders g (s1 ++ s2) (w1 ++ w2) (v1 ++ v2).
Proof.
  induction 1; intros H2; simpl; [exact H2|].
  rewrite <- app_assoc. constructor; auto.
Qed.

Lemma firstn_app_exact {X} (l1 l2 : list X) : firstn (length l1) (l1 ++ l2) = l1.
Proof. induction l1; simpl; congruence. Qed.
Lemma skipn_app_exact {X} (l1 l2 : list X) : skipn (length l1) (l1 ++ l2) = l2.
Proof. induction l1; simpl; congruence. Qed.

Section Step.
Variable g : list prod.
Variable a : nat.
Let ips := filter (fun p => Nat.eqb (lhs p) a) g.
Let g' := inline_nt g a.
Hypothesis nonrec : nonrecb g a = true.

Lemma ips_spec ip : In ip ips <-> In ip g /\ lhs ip = a.
Proof. unfold ips. rewrite filter_In, Nat.eqb_eq. tauto. Qed.

Lemma ips_no_mention ip : In ip ips -> mentions a (rhs ip) = false.
Proof.
  intros H. apply ips_spec in H. destruct H as [Hin Hl].
  unfold nonrecb in nonrec. rewrite forallb_forall in nonrec. specialize (nonrec _ Hin).
  rewrite Hl, Nat.eqb_refl in nonrec. simpl in nonrec. destruct (mentions a (rhs ip)); [discriminate|reflexivity].
Qed.

Lemma in_g' p : In p g' <-> exists q, In q g /\ In p (inline_into a ips q).
Proof. unfold g', inline_nt. fold ips. apply in_flat_map. Qed.

Lemma ips_kept ip : In ip ips -> In ip g'.
Proof.
  intros H. apply in_g'. exists ip. split; [apply ips_spec in H; tauto|].
  unfold inline_into. rewrite (ips_no_mention _ H). left. reflexivity.
Qed.

Lemma lhs_inline_into q p : In p (inline_into a ips q) -> lhs p = lhs q.
Proof.
  unfold inline_into. destruct (mentions a (rhs q)).
  - intros H. apply in_map_iff in H. destruct H as (l & <- & _). reflexivity.
  - intros [<-|[]]. reflexivity.
Qed.

Lemma g'_a_prods p : In p g' -> lhs p = a -> In p ips.
Proof.
  intros H Hl. apply in_g' in H. destruct H as (q & Hq & Hp).
  assert (Hlq : lhs q = a) by (rewrite <- (lhs_inline_into _ _ Hp); exact Hl).
  assert (Hqi : In q ips) by (apply ips_spec; split; assumption).
  unfold inline_into in Hp. rewrite (ips_no_mention _ Hqi) in Hp. destruct Hp as [<-|[]]. exact Hqi.
Qed.

(** from the original grammar to the inlined one *)
Lemma choose into : forall w args,
  ders g' into w args ->
  exists l args', In l (expand a ips into) /\ ders g' (flatten l) w args' /\ evalp fail (parts_of l) args' = Ok args.
Proof.
  induction into as [|s into IH]; intros w args H.
  - apply ders_nil_inv in H. destruct H as [-> ->].
    exists [], []. repeat split; [left; reflexivity|constructor].
  - apply ders_cons_inv in H. destruct H as (w1 & w2 & v & vs & -> & -> & Hs & Hr).
    destruct (IH _ _ Hr) as (l & args' & Hl & Hd & He).
    cbn [expand]. destruct (is_nt a s) eqn:Es.
    + destruct s as [t|n]; [discriminate|]. cbn [is_nt] in Es. apply Nat.eqb_eq in Es.
      rewrite Es in Hs. apply der_nt_inv in Hs. destruct Hs as (p & args0 & Hp & Hlp & Hd0 & He0).
      pose proof (g'_a_prods p Hp Hlp) as Hip.
      exists (IInl (action p) (rhs p) :: l), (args0 ++ args'). repeat split.
      * apply in_flat_map. exists p. split; [exact Hip|]. apply in_map. exact Hl.
      * cbn [flatten]. apply ders_app_intro; assumption.
      * cbn [parts_of]. rewrite evalp_inl, <- (ders_length _ _ _ _ Hd0).
        rewrite firstn_app_exact, skipn_app_exact. rewrite He0, He. reflexivity.
    + exists (IOrig s :: l), (v :: args'). repeat split.
      * apply in_map. exact Hl.
      * cbn [flatten]. constructor; assumption.
      * cbn [parts_of]. rewrite evalp_orig, He. reflexivity.
Qed.

Lemma to_inlined : forall s w v, der g s w v -> der g' s w v.
Proof.
  apply (der_mut g (fun s w v _ => der g' s w v) (fun ss w vs _ => ders g' ss w vs)).
  - constructor.
  - intros p w args v Hin Hd IH He.
    destruct (mentions a (rhs p)) eqn:Em.
    + destruct (choose _ _ _ IH) as (l & args' & Hl & Hd' & Hev).
      set (p' := {| lhs := lhs p; rhs := flatten l; action := AInl (action p) (parts_of l) |}).
      change (lhs p) with (lhs p').
      apply (DN g' p' w args' v).
      * apply in_g'. exists p. split; [exact Hin|]. unfold inline_into. rewrite Em.
        apply in_map_iff. exists l. split; [reflexivity|exact Hl].
      * exact Hd'.
      * cbn [p' action]. rewrite eval_inl, Hev. exact He.
    + apply (DN g' p w args v); [|exact IH|exact He].
      apply in_g'. exists p. split; [exact Hin|]. unfold inline_into. rewrite Em. left. reflexivity.
  - constructor.
  - intros. constructor; assumption.
Qed.

(** from the inlined grammar back to the original one *)
Lemma unchoose into : forall l w args' args,
  In l (expand a ips into) -> ders g (flatten l) w args' -> evalp fail (parts_of l) args' = Ok args ->
  ders g into w args.
Proof.
  induction into as [|s into IH]; intros l w args' args Hl Hd He; cbn [expand] in Hl.
  - destruct Hl as [<-|[]]. cbn in *. apply ders_nil_inv in Hd. destruct Hd as [-> ->]. inversion He. constructor.
  - destruct (is_nt a s) eqn:Es.
    + destruct s as [t|n]; [discriminate|]. cbn [is_nt] in Es. apply Nat.eqb_eq in Es. rewrite Es.
      apply in_flat_map in Hl. destruct Hl as (ip & Hip & Hl).
      apply in_map_iff in Hl. destruct Hl as (l0 & <- & Hl0).
      cbn [flatten parts_of] in *. rewrite evalp_inl in He.
      destruct (ders_app _ _ _ _ _ Hd) as (w1 & w2 & v1 & v2 & -> & -> & H1 & H2).
      rewrite <- (ders_length _ _ _ _ H1), firstn_app_exact, skipn_app_exact in He.
      destruct (eval fail (action ip) v1) as [v|e] eqn:Ev; [|discriminate].
      destruct (evalp fail (parts_of l0) v2) as [vs|e] eqn:Evs; [|discriminate].
      inversion He; subst. constructor.
      * apply ips_spec in Hip. destruct Hip as [Hin Hlip]. rewrite <- Hlip. apply (DN g ip w1 v1 v); assumption.
      * eapply IH; eauto.
    + apply in_map_iff in Hl. destruct Hl as (l0 & <- & Hl0).
      cbn [flatten parts_of] in *.
      apply ders_cons_inv in Hd. destruct Hd as (w1 & w2 & v & vs & -> & -> & Hs & Hr).
      rewrite evalp_orig in He.
      destruct (evalp fail (parts_of l0) vs) as [vs'|e] eqn:Evs; [|discriminate].
      inversion He; subst. constructor; [assumption|]. eapply IH; eauto.
Qed.

Lemma from_inlined : forall s w v, der g' s w v -> der g s w v.
Proof.
  apply (der_mut g' (fun s w v _ => der g s w v) (fun ss w vs _ => ders g ss w vs)).
  - constructor.
  - intros p w args v Hin Hd IH He.
    apply in_g' in Hin. destruct Hin as (q & Hq & Hp). unfold inline_into in Hp.
    destruct (mentions a (rhs q)) eqn:Em.
    + apply in_map_iff in Hp. destruct Hp as (l & <- & Hl). cbn [lhs rhs action] in *. rewrite eval_inl in He.
      destruct (evalp fail (parts_of l) args) as [args0|e] eqn:Ep; [|discriminate].
      apply (DN g q w args0 v); [exact Hq| |exact He].
      eapply unchoose; eauto.
    + destruct Hp as [<-|[]]. apply (DN g q w args v); assumption.
  - constructor.
  - intros. constructor; assumption.
Qed.
End Step.

Theorem inline_nt_preserves g a : nonrecb g a = true ->
  forall s w v, der (inline_nt g a) s w v <-> der g s w v.
Proof. intros H s w v. split; [apply from_inlined|apply to_inlined]; exact H. Qed.

Theorem inline_all_preserves order : forall g g', inline_all g order = Some g' ->
  forall s w v, der g' s w v <-> der g s w v.
Proof.
  induction order as [|a order IH]; intros g g' H s w v; cbn [inline_all] in H.
  - inversion H. tauto.
  - destruct (nonrecb g a) eqn:En; [|discriminate].
    rewrite (IH _ _ H). apply inline_nt_preserves. exact En.
Qed.

Theorem inline_grammar_preserves inl g g' : inline_grammar inl g = Some g' ->
  forall s w v, der g' s w v <-> der g s w v.
Proof.
  unfold inline_grammar. destruct (inline_order g inl) as [order|]; [|discriminate].
  apply inline_all_preserves.
Qed.
End Sem.

(** the language (no action ever fails) is preserved as a special case *)
Corollary inline_grammar_language inl g g' : inline_grammar inl g = Some g' ->
  forall s w, (exists v, der (fun _ _ => None) g' s w v) <-> (exists v, der (fun _ _ => None) g s w v).
Proof.
  intros H s w. split; intros [v Hv]; exists v; apply (inline_grammar_preserves _ _ _ _ H); exact Hv.
Qed.

(** the inlined nonterminals no longer occur on any right-hand side of the other nonterminals *)
Lemma flatten_no_mention a ips into : (forall ip, In ip ips -> mentions a (rhs ip) = false) ->
  forall l, In l (expand a ips into) -> mentions a (flatten l) = false.
Proof.
  intros Hips. induction into as [|s into IH]; intros l Hl; cbn [expand] in Hl.
  - destruct Hl as [<-|[]]. reflexivity.
  - destruct (is_nt a s) eqn:Es.
    + apply in_flat_map in Hl. destruct Hl as (ip & Hip & Hl).
      apply in_map_iff in Hl. destruct Hl as (l0 & <- & Hl0). cbn [flatten].
      unfold mentions in *. rewrite existsb_app, (Hips _ Hip), (IH _ Hl0). reflexivity.
    + apply in_map_iff in Hl. destruct Hl as (l0 & <- & Hl0). cbn [flatten].
      unfold mentions in *. cbn [existsb]. rewrite Es, (IH _ Hl0). reflexivity.
Qed.

Theorem inline_nt_removes g a : nonrecb g a = true ->
  forall p, In p (inline_nt g a) -> mentions a (rhs p) = false.
Proof.
  intros Hn p Hp. unfold inline_nt in Hp. apply in_flat_map in Hp. destruct Hp as (q & Hq & Hp).
  unfold inline_into in Hp. destruct (mentions a (rhs q)) eqn:Em.
  - apply in_map_iff in Hp. destruct Hp as (l & <- & Hl). cbn [rhs].
    eapply flatten_no_mention; [|exact Hl].
    intros ip Hip. apply filter_In in Hip. destruct Hip as [Hin Hl']. apply Nat.eqb_eq in Hl'.
    unfold nonrecb in Hn. rewrite forallb_forall in Hn. specialize (Hn _ Hin).
    rewrite Hl', Nat.eqb_refl in Hn. simpl in Hn. destruct (mentions a (rhs ip)); [discriminate|reflexivity].
  - destruct Hp as [<-|[]]. exact Em.
Qed.

(** non-vacuity: a repeated, two-symbol inlined nonterminal with a failing alternative *)
Example inline_example :
  let g := number [(0, [NT 1; T 9; NT 1]); (1, [T 5; T 6]); (1, [])] in
  exists g', inline_grammar [1] g = Some g' /\ length g' = 6 /\
  der (fun id _ => if Nat.eqb id 2 then Some 7 else None) g (NT 0) [5; 6; 9; 5; 6]
      (VNode 0 [VNode 1 [VLeaf 5; VLeaf 6]; VLeaf 9; VNode 1 [VLeaf 5; VLeaf 6]]).
Proof.
  eexists. split; [reflexivity|]. split; [reflexivity|].
  apply (DN _ _ {| lhs := 0; rhs := [NT 1; T 9; NT 1]; action := AOrig 0 |} _ [VNode 1 [VLeaf 5; VLeaf 6]; VLeaf 9; VNode 1 [VLeaf 5; VLeaf 6]]).
  - simpl. auto.
  - apply (DCons _ _ (NT 1) _ [5; 6] [9; 5; 6]).
    + apply (DN _ _ {| lhs := 1; rhs := [T 5; T 6]; action := AOrig 1 |} _ [VLeaf 5; VLeaf 6]); [simpl; auto| |reflexivity].
      apply (DCons _ _ (T 5) _ [5] [6]); [constructor|]. apply (DCons _ _ (T 6) _ [6] []); constructor.
    + apply (DCons _ _ (T 9) _ [9] [5; 6]); [constructor|].
      apply (DCons _ _ (NT 1) _ [5; 6] []); [|constructor].
      apply (DN _ _ {| lhs := 1; rhs := [T 5; T 6]; action := AOrig 1 |} _ [VLeaf 5; VLeaf 6]); [simpl; auto| |reflexivity].
      apply (DCons _ _ (T 5) _ [5] [6]); [constructor|]. apply (DCons _ _ (T 6) _ [6] []); constructor.
  - reflexivity.
Qed.

(** the order of the inlined actions: within one inlining step they run left to right (evalp), but two
    different #[inline] nonterminals are inlined in two steps and the later step wraps the earlier
    one, so its actions run first.  Witness: S = B C, both inlined, both actions failing (11 for B,
    22 for C): the synthetic action of S reports 22. *)
Definition order_witness_fail (id : nat) (_ : list V) : option nat :=
  if Nat.eqb id 1 then Some 11 else if Nat.eqb id 2 then Some 22 else None.
Example inlined_actions_not_left_to_right_across_nonterminals :
  let g := number [(0, [NT 1; NT 2]); (1, [T 5]); (2, [T 6])] in
  exists g' p, inline_grammar [1; 2] g = Some g' /\ In p g' /\ lhs p = 0 /\ rhs p = [T 5; T 6] /\
               eval order_witness_fail (action p) [VLeaf 5; VLeaf 6] = Err 22.
Proof.
  eexists. eexists. split; [reflexivity|]. split; [left; reflexivity|]. repeat split.
Qed.
