(** The worklist of macro expansion (model Norm/Macro.v) leaves nothing unexpanded and nothing undefined:
    when [expand] succeeds, every symbol of every resulting definition is flat (no macro use, group or
    repetition remains; only [<..>] selections around flat symbols) and every created nonterminal it
    mentions is defined by one of the resulting items. *)
From Coq Require Import List String Bool Arith Lia.
From LV Require Import Norm.Macro Norm.MacroProps.
Import ListNotations.

Fixpoint flat (s : sym) : Prop :=
  match s with
  | SMacro _ _ | SExpr _ | SRepeat _ _ => False
  | SChoose a => flat a
  | _ => True
  end.

(* the created nonterminals mentioned anywhere in a symbol *)
Fixpoint G (s : sym) : list (list tok) :=
  match s with
  | SGen k => [k]
  | SMacro _ args => (fix go (l : list sym) : list (list tok) := match l with [] => [] | a :: r => G a ++ go r end) args
  | SExpr ss => (fix go (l : list sym) : list (list tok) := match l with [] => [] | a :: r => G a ++ go r end) ss
  | SRepeat a _ => G a
  | SChoose a => G a
  | _ => []
  end.
Definition Gs (l : list sym) : list (list tok) := flat_map G l.
Lemma G_macro n args : G (SMacro n args) = Gs args.
Proof. cbn [G]. unfold Gs. induction args as [|a r IH]; cbn [flat_map]; [reflexivity|]. now rewrite IH. Qed.
Lemma G_expr ss : G (SExpr ss) = Gs ss.
Proof. cbn [G]. unfold Gs. induction ss as [|a r IH]; cbn [flat_map]; [reflexivity|]. now rewrite IH. Qed.

Lemma incl_app_l {X} (a b c : list X) : incl a b -> incl a (b ++ c).
Proof. intros H x Hx. apply in_or_app. left. exact (H x Hx). Qed.
Lemma incl_app_r' {X} (a b c : list X) : incl a c -> incl a (b ++ c).
Proof. intros H x Hx. apply in_or_app. right. exact (H x Hx). Qed.
Lemma incl_app3 {X} (a b c d : list X) : incl a (b ++ d) -> incl a ((c ++ b) ++ d).
Proof. intros H x Hx. apply H in Hx. apply in_app_or in Hx as [Hx|Hx]; apply in_or_app; [left; apply in_or_app; right|right]; exact Hx. Qed.

(** the state only grows: symbols are pushed together with their keys; what a pushed symbol mentions
    is already known (seen, or in the base set B of names defined elsewhere) *)
Definition Ext (B : list (list tok)) (x x' : st) : Prop :=
  exists pushed, stack x' = pushed ++ stack x /\ seen x' = map canon pushed ++ seen x /\
                 Forall (fun s0 => incl (G s0) (seen x' ++ B)) pushed.

Lemma Ext_refl B x : Ext B x x.
Proof. exists []. repeat split; constructor. Qed.

Lemma Ext_trans B x x1 x2 : Ext B x x1 -> Ext B x1 x2 -> Ext B x x2.
Proof.
  intros (p1 & S1 & K1 & F1) (p2 & S2 & K2 & F2). exists (p2 ++ p1). split; [|split].
  - rewrite S2, S1, app_assoc. reflexivity.
  - rewrite K2, K1, map_app, app_assoc. reflexivity.
  - apply Forall_app. split; [exact F2|].
    eapply Forall_impl; [|exact F1]. intros s0 H. rewrite K2. apply incl_app3. exact H.
Qed.

Lemma Ext_seen B x x' : Ext B x x' -> incl (seen x) (seen x').
Proof. intros (p & _ & K & _). rewrite K. apply incl_appr, incl_refl. Qed.

Lemma key_eqb_eq a b : key_eqb a b = true -> a = b.
Proof. unfold key_eqb. destruct (list_eq_dec _ a b); [auto|discriminate]. Qed.

Lemma note_spec B s x : incl (G s) (seen x ++ B) ->
  fst (note s x) = SGen (canon s) /\ In (canon s) (seen (snd (note s x))) /\ Ext B x (snd (note s x)).
Proof.
  intros HG. unfold note. cbn [fst snd]. split; [reflexivity|].
  destruct (existsb (key_eqb (canon s)) (seen x)) eqn:E.
  - split; [|apply Ext_refl]. apply existsb_exists in E as (k & Hk & He). apply key_eqb_eq in He. subst k. exact Hk.
  - split; [cbn; auto|]. exists [s]. cbn [stack seen map app]. repeat split.
    constructor; [|constructor]. intros k Hk. apply HG in Hk. cbn [app]. right. exact Hk.
Qed.

Definition rspec (B : list (list tok)) (s : sym) : Prop :=
  forall x, incl (G s) B ->
    flat (fst (replace s x)) /\ incl (G (fst (replace s x))) (seen (snd (replace s x)) ++ B) /\ Ext B x (snd (replace s x)).

Lemma go_list_spec B l : Forall (rspec B) l -> forall x, incl (Gs l) B ->
  Forall flat (fst (go_list l x)) /\ incl (Gs (fst (go_list l x))) (seen (snd (go_list l x)) ++ B) /\ Ext B x (snd (go_list l x)).
Proof.
  induction 1 as [|a l Ha Hl IH]; intros x HG.
  - cbn. repeat split; [constructor|intros k []|apply Ext_refl].
  - cbn [go_list]. fold go_list. unfold Gs in HG. cbn [flat_map] in HG.
    destruct (Ha x (fun k Hk => HG k (in_or_app _ _ _ (or_introl Hk)))) as (F1 & G1 & E1).
    destruct (replace a x) as [a' x1]. cbn [fst snd] in *.
    destruct (IH x1 (fun k Hk => HG k (in_or_app _ _ _ (or_intror Hk)))) as (F2 & G2 & E2).
    destruct (go_list l x1) as [r' x2]. cbn [fst snd] in *.
    split; [constructor; assumption|]. split; [|exact (Ext_trans _ _ _ _ E1 E2)].
    unfold Gs. cbn [flat_map]. intros k Hk. apply in_app_or in Hk as [Hk|Hk]; [|exact (G2 k Hk)].
    apply G1 in Hk. apply in_app_or in Hk as [Hk|Hk]; apply in_or_app; [left; exact (Ext_seen _ _ _ E2 k Hk)|right; exact Hk].
Qed.

Lemma replace_spec B s : rspec B s.
Proof.
  induction s as [y|y|y|m args IH|ss IH|a o IH|a IH| |k] using sym_ind'; intros x HG;
    try (cbn [replace fst snd flat G]; repeat split; [intros k0 []|apply Ext_refl]).
  - (* macro use *)
    rewrite G_macro in HG. cbn [replace]. fold go_list.
    destruct (go_list_spec B args IH x HG) as (F1 & G1 & E1).
    destruct (go_list args x) as [args' x1]. cbn [fst snd] in *.
    assert (HGn : incl (G (SMacro m args')) (seen x1 ++ B)) by (rewrite G_macro; exact G1).
    destruct (note_spec B (SMacro m args') x1 HGn) as (N1 & N2 & N3).
    destruct (note (SMacro m args') x1) as [s' x2]. cbn [fst snd] in *. subst s'.
    split; [exact I|]. split; [|exact (Ext_trans _ _ _ _ E1 N3)].
    cbn [G]. intros k [<-|[]]. apply in_or_app. left. exact N2.
  - rewrite G_expr in HG. cbn [replace]. fold go_list.
    destruct (go_list_spec B ss IH x HG) as (F1 & G1 & E1).
    destruct (go_list ss x) as [ss' x1]. cbn [fst snd] in *.
    assert (HGn : incl (G (SExpr ss')) (seen x1 ++ B)) by (rewrite G_expr; exact G1).
    destruct (note_spec B (SExpr ss') x1 HGn) as (N1 & N2 & N3).
    destruct (note (SExpr ss') x1) as [s' x2]. cbn [fst snd] in *. subst s'.
    split; [exact I|]. split; [|exact (Ext_trans _ _ _ _ E1 N3)].
    cbn [G]. intros k [<-|[]]. apply in_or_app. left. exact N2.
  - cbn [G] in HG. cbn [replace]. destruct (IH x HG) as (F1 & G1 & E1).
    destruct (replace a x) as [a' x1]. cbn [fst snd] in *.
    destruct (note_spec B (SRepeat a' o) x1 G1) as (N1 & N2 & N3).
    destruct (note (SRepeat a' o) x1) as [s' x2]. cbn [fst snd] in *. subst s'.
    split; [exact I|]. split; [|exact (Ext_trans _ _ _ _ E1 N3)].
    cbn [G]. intros k [<-|[]]. apply in_or_app. left. exact N2.
  - cbn [G] in HG. cbn [replace]. destruct (IH x HG) as (F1 & G1 & E1).
    destruct (replace a x) as [a' x1]. cbn [fst snd flat G] in *. auto.
  - subst. apply in_or_app. right. apply HG. left. reflexivity.
  - destruct H.
Qed.

(** lists of symbols, alternatives, items *)
Lemma replace_list_spec B : forall l x, incl (Gs l) B ->
  Forall flat (fst (replace_list l x)) /\ incl (Gs (fst (replace_list l x))) (seen (snd (replace_list l x)) ++ B) /\
  Ext B x (snd (replace_list l x)).
Proof.
  induction l as [|a l IH]; intros x HG.
  - cbn. repeat split; [constructor|intros k []|apply Ext_refl].
  - cbn [replace_list]. unfold Gs in HG. cbn [flat_map] in HG.
    destruct (replace_spec B a x (fun k Hk => HG k (in_or_app _ _ _ (or_introl Hk)))) as (F1 & G1 & E1).
    destruct (replace a x) as [a' x1]. cbn [fst snd] in *.
    destruct (IH x1 (fun k Hk => HG k (in_or_app _ _ _ (or_intror Hk)))) as (F2 & G2 & E2).
    destruct (replace_list l x1) as [r' x2]. cbn [fst snd] in *.
    split; [constructor; assumption|]. split; [|exact (Ext_trans _ _ _ _ E1 E2)].
    unfold Gs. cbn [flat_map]. intros k Hk. apply in_app_or in Hk as [Hk|Hk]; [|exact (G2 k Hk)].
    apply G1 in Hk. apply in_app_or in Hk as [Hk|Hk]; apply in_or_app; [left; exact (Ext_seen _ _ _ E2 k Hk)|right; exact Hk].
Qed.

Definition Ga (alts : list (list sym)) : list (list tok) := flat_map Gs alts.
Definition flat_alts (alts : list (list sym)) : Prop := Forall (Forall flat) alts.

Lemma replace_alts_spec B : forall l x, incl (Ga l) B ->
  flat_alts (fst (replace_alts l x)) /\ incl (Ga (fst (replace_alts l x))) (seen (snd (replace_alts l x)) ++ B) /\
  Ext B x (snd (replace_alts l x)).
Proof.
  induction l as [|a l IH]; intros x HG.
  - cbn. repeat split; [constructor|intros k []|apply Ext_refl].
  - cbn [replace_alts]. unfold Ga in HG. cbn [flat_map] in HG.
    destruct (replace_list_spec B a x (fun k Hk => HG k (in_or_app _ _ _ (or_introl Hk)))) as (F1 & G1 & E1).
    destruct (replace_list a x) as [a' x1]. cbn [fst snd] in *.
    destruct (IH x1 (fun k Hk => HG k (in_or_app _ _ _ (or_intror Hk)))) as (F2 & G2 & E2).
    destruct (replace_alts l x1) as [r' x2]. cbn [fst snd] in *.
    split; [constructor; assumption|]. split; [|exact (Ext_trans _ _ _ _ E1 E2)].
    unfold Ga. cbn [flat_map]. intros k Hk. apply in_app_or in Hk as [Hk|Hk]; [|exact (G2 k Hk)].
    apply G1 in Hk. apply in_app_or in Hk as [Hk|Hk]; apply in_or_app; [left; exact (Ext_seen _ _ _ E2 k Hk)|right; exact Hk].
Qed.

Definition ikey (it : item) : list tok := fst (fst it).
Definition ialts (it : item) : list (list sym) := snd it.
Definition keys (l : list item) : list (list tok) := map ikey l.
Definition Gi (l : list item) : list (list tok) := flat_map (fun it => Ga (ialts it)) l.
(* an item is closed w.r.t. a set of defined names *)
Definition closed (K : list (list tok)) (it : item) : Prop := flat_alts (ialts it) /\ incl (Ga (ialts it)) K.

Lemma replace_items_spec B : forall l x, incl (Gi l) B ->
  keys (fst (replace_items l x)) = keys l /\
  Forall (closed (seen (snd (replace_items l x)) ++ B)) (fst (replace_items l x)) /\
  Ext B x (snd (replace_items l x)).
Proof.
  induction l as [|[[n k] alts] l IH]; intros x HG.
  - cbn. repeat split; [constructor|apply Ext_refl].
  - cbn [replace_items]. unfold Gi in HG. cbn [flat_map ialts snd] in HG.
    destruct (replace_alts_spec B alts x (fun k0 Hk => HG k0 (in_or_app _ _ _ (or_introl Hk)))) as (F1 & G1 & E1).
    destruct (replace_alts alts x) as [alts' x1]. cbn [fst snd] in *.
    destruct (IH x1 (fun k0 Hk => HG k0 (in_or_app _ _ _ (or_intror Hk)))) as (K2 & F2 & E2).
    destruct (replace_items l x1) as [r' x2]. cbn [fst snd] in *.
    split; [unfold keys in *; cbn [map ikey fst]; rewrite K2; reflexivity|].
    split; [|exact (Ext_trans _ _ _ _ E1 E2)].
    constructor; [|exact F2]. split; [exact F1|]. cbn [ialts snd].
    intros k0 Hk. apply G1 in Hk. apply in_app_or in Hk as [Hk|Hk]; apply in_or_app; [left; exact (Ext_seen _ _ _ E2 k0 Hk)|right; exact Hk].
Qed.

Lemma closed_mono K K' it : incl K K' -> closed K it -> closed K' it.
Proof. intros H [F Gc]. split; [exact F|]. intros k Hk. exact (H k (Gc k Hk)). Qed.

(** one expansion step *)
Lemma lookup_in {X} n (l : list (string * X)) a : lookup n l = Some a -> In a (map snd l).
Proof.
  induction l as [|[m x] r IH]; cbn [lookup]; [discriminate|].
  destruct (String.eqb n m); [intros H; inversion H; left; reflexivity|intros H; right; exact (IH H)].
Qed.

Lemma subst_G env : forall s, incl (G (subst env s)) (G s ++ flat_map G (map snd env)).
Proof.
  assert (HL : forall l, Forall (fun s => incl (G (subst env s)) (G s ++ flat_map G (map snd env))) l ->
                         incl (Gs (map (subst env) l)) (Gs l ++ flat_map G (map snd env))).
  { induction 1 as [|a l Ha Hl IH]; [intros k []|]. unfold Gs in *. cbn [map flat_map].
    intros k Hk. apply in_app_or in Hk as [Hk|Hk].
    - apply Ha in Hk. apply in_app_or in Hk as [Hk|Hk]; apply in_or_app; [left; apply in_or_app; left; exact Hk|right; exact Hk].
    - apply IH in Hk. apply in_app_or in Hk as [Hk|Hk]; apply in_or_app; [left; apply in_or_app; right; exact Hk|right; exact Hk]. }
  induction s as [y|y|y|m args IH|ss IH|a o IH|a IH| |k] using sym_ind'; cbn [subst]; try (intros k0 Hk; apply in_or_app; left; exact Hk).
  - destruct (lookup y env) as [a|] eqn:E; [|intros k0 []].
    intros k0 Hk. apply in_or_app. right. apply in_flat_map. exists a. split; [exact (lookup_in _ _ _ E)|exact Hk].
  - rewrite !G_macro. exact (HL args IH).
  - rewrite !G_expr. exact (HL ss IH).
  - cbn [G]. exact IH.
  - cbn [G]. exact IH.
Qed.

Section Step.
Variable re_match : string -> string -> bool.
Variable defs : list (string * mdef).
(* the macro definitions are source text: they mention no created nonterminal *)
Hypothesis defs_src : forall n d, lookup n defs = Some d -> forall c ss, In (c, ss) (m_alts d) -> Gs ss = [].

Lemma keep_alts_spec env : forall l i ks alts, keep_alts re_match env i l = Some (ks, alts) ->
  forall alt, In alt alts -> exists c ss, In (c, ss) l /\ alt = map (subst env) ss.
Proof.
  induction l as [|[c ss] r IH]; intros i ks alts H alt Hin; cbn [keep_alts] in H.
  - inversion H; subst. destruct Hin.
  - destruct (eval_cond re_match env c); [| |discriminate].
    + destruct (keep_alts re_match env (S i) r) as [[ks' as']|] eqn:E; [|discriminate].
      inversion H; subst. destruct Hin as [<-|Hin].
      * exists c, ss. split; [left; reflexivity|reflexivity].
      * destruct (IH _ _ _ E alt Hin) as (c' & ss' & Hi & He). exists c', ss'. split; [right; exact Hi|exact He].
    + destruct (IH _ _ _ H alt Hin) as (c' & ss' & Hi & He). exists c', ss'. split; [right; exact Hi|exact He].
Qed.

Lemma Gs_map_subst env ss : incl (Gs (map (subst env) ss)) (Gs ss ++ flat_map G (map snd env)).
Proof.
  induction ss as [|a r IH]; [intros k []|]. unfold Gs in *. cbn [map flat_map]. intros k Hk.
  apply in_app_or in Hk as [Hk|Hk].
  - apply (subst_G env a) in Hk. apply in_app_or in Hk as [Hk|Hk]; apply in_or_app; [left; apply in_or_app; left; exact Hk|right; exact Hk].
  - apply IH in Hk. apply in_app_or in Hk as [Hk|Hk]; apply in_or_app; [left; apply in_or_app; right; exact Hk|right; exact Hk].
Qed.

Lemma combine_snd_in {X Y} (p : list X) (a : list Y) y : In y (map snd (combine p a)) -> In y a.
Proof.
  revert a. induction p as [|x p IH]; intros a H; [destruct H|]. destruct a as [|y0 a]; [destruct H|].
  cbn [combine map snd] in H. destruct H as [<-|H]; [left; reflexivity|right; exact (IH a H)].
Qed.

Lemma expand1_spec s k alts : expand1 re_match defs s = XOk k alts -> incl (Ga alts) (canon s :: G s).
Proof.
  destruct s as [y|y|y|n args|ss|a o|a| |kk]; cbn [expand1]; try discriminate.
  - destruct (lookup n defs) as [d|] eqn:El; [|discriminate].
    destruct (negb (Nat.eqb (List.length (m_params d)) (List.length args))); [discriminate|].
    destruct (keep_alts re_match (combine (m_params d) args) 0 (m_alts d)) as [[ks as_]|] eqn:Ek; [|discriminate].
    intros H. inversion H; subst. intros g Hg. right. rewrite G_macro.
    unfold Ga in Hg. apply in_flat_map in Hg as (alt & Halt & Hg).
    destruct (keep_alts_spec _ _ _ _ _ Ek alt Halt) as (c & ss & Hin & ->).
    apply Gs_map_subst in Hg. rewrite (defs_src n d El c ss Hin) in Hg. cbn [app] in Hg.
    apply in_flat_map in Hg as (y & Hy & Hg). apply combine_snd_in in Hy.
    unfold Gs. apply in_flat_map. exists y. split; assumption.
  - intros H. inversion H; subst. unfold Ga. cbn [flat_map]. rewrite app_nil_r, G_expr. intros g Hg. right. exact Hg.
  - destruct o; intros H; inversion H; subst; unfold Ga, Gs; cbn [flat_map G app]; intros g Hg.
    + rewrite !app_nil_r in Hg. right. exact Hg.
    + rewrite !app_nil_r in Hg. apply in_app_or in Hg as [Hg|Hg]; [right; exact Hg|].
      destruct Hg as [<-|Hg]; [left; reflexivity|right; exact Hg].
    + rewrite !app_nil_r in Hg. right. exact Hg.
Qed.

Lemma drain_spec : forall stk new, drain re_match defs stk = inl (Some new) ->
  keys new = map canon stk /\ incl (Gi new) (map canon stk ++ Gs stk).
Proof.
  induction stk as [|s r IH]; intros new H; cbn [drain] in H.
  - inversion H; subst. split; [reflexivity|intros k []].
  - destruct (expand1 re_match defs s) as [k alts|m] eqn:E; [|discriminate].
    destruct (drain re_match defs r) as [[l|]|m] eqn:Ed; try discriminate.
    inversion H; subst. destruct (IH l eq_refl) as [K1 G1].
    split; [unfold keys in *; cbn [map ikey fst]; rewrite K1; reflexivity|].
    unfold Gi. cbn [flat_map ialts snd map]. intros g Hg. apply in_app_or in Hg as [Hg|Hg].
    + apply (expand1_spec _ _ _ E) in Hg. destruct Hg as [<-|Hg]; [left; reflexivity|].
      right. apply in_or_app. right. unfold Gs. cbn [flat_map]. apply in_or_app. left. exact Hg.
    + apply G1 in Hg. apply in_app_or in Hg as [Hg|Hg]; [right; apply in_or_app; left; exact Hg|].
      right. apply in_or_app. right. unfold Gs. cbn [flat_map]. apply in_or_app. right. exact Hg.
Qed.

Lemma rounds_unfold limit done fresh sn :
  rounds re_match defs limit done fresh sn =
  let '(fresh', x) := replace_items fresh {| seen := sn; stack := [] |} in
  match stack x with
  | [] => EOk (done ++ fresh')
  | _ => match limit with
         | O => ERecursion
         | S lim => match drain re_match defs (stack x) with
                    | inr m => EError m
                    | inl None => EError 0
                    | inl (Some new) => rounds re_match defs lim (done ++ fresh') new (seen x)
                    end
         end
  end.
Proof. destruct limit; reflexivity. Qed.

Theorem rounds_closed : forall limit done fresh sn items,
  Forall (closed (keys (done ++ fresh))) done -> incl (Gi fresh) (keys (done ++ fresh)) -> incl sn (keys (done ++ fresh)) ->
  rounds re_match defs limit done fresh sn = EOk items -> Forall (closed (keys items)) items.
Proof.
  induction limit as [|lim IH]; intros done fresh sn items Hd Hf Hs H; rewrite rounds_unfold in H.
  - destruct (replace_items_spec (keys (done ++ fresh)) fresh {| seen := sn; stack := [] |} Hf) as (K1 & F1 & E1).
    destruct (replace_items fresh {| seen := sn; stack := [] |}) as [fresh' x]. cbn [fst snd] in *.
    destruct E1 as (pushed & S1 & Kx & Fp). cbn [stack seen] in S1, Kx. rewrite app_nil_r in S1.
    destruct (stack x) as [|s0 r0] eqn:Es; [|discriminate]. inversion H; subst items. subst pushed. cbn [map app] in Kx.
    assert (Hk : keys (done ++ fresh') = keys (done ++ fresh)) by (unfold keys in *; rewrite !map_app, K1; reflexivity).
    rewrite Hk. apply Forall_app. split; [exact Hd|].
    eapply Forall_impl; [|exact F1]. intros it Hc. apply (closed_mono (seen x ++ keys (done ++ fresh))); [|exact Hc].
    rewrite Kx. intros k Hk0. apply in_app_or in Hk0 as [Hk0|Hk0]; [exact (Hs k Hk0)|exact Hk0].
  - destruct (replace_items_spec (keys (done ++ fresh)) fresh {| seen := sn; stack := [] |} Hf) as (K1 & F1 & E1).
    destruct (replace_items fresh {| seen := sn; stack := [] |}) as [fresh' x]. cbn [fst snd] in *.
    destruct E1 as (pushed & S1 & Kx & Fp). cbn [stack seen] in S1, Kx. rewrite app_nil_r in S1.
    assert (Hk : keys (done ++ fresh') = keys (done ++ fresh)) by (unfold keys in *; rewrite !map_app, K1; reflexivity).
    destruct (stack x) as [|s0 r0] eqn:Es.
    + inversion H; subst items. subst pushed. cbn [map app] in Kx.
      rewrite Hk. apply Forall_app. split; [exact Hd|].
      eapply Forall_impl; [|exact F1]. intros it Hc. apply (closed_mono (seen x ++ keys (done ++ fresh))); [|exact Hc].
      rewrite Kx. intros k Hk0. apply in_app_or in Hk0 as [Hk0|Hk0]; [exact (Hs k Hk0)|exact Hk0].
    + rewrite <- Es in *. destruct (drain re_match defs (stack x)) as [[new|]|m] eqn:Ed; try discriminate.
      destruct (drain_spec _ _ Ed) as [Kn Gn]. rewrite S1 in Kn, Gn.
      assert (HK' : keys ((done ++ fresh') ++ new) = keys (done ++ fresh) ++ map canon pushed).
      { unfold keys in *. rewrite map_app, Hk, Kn. reflexivity. }
      apply (IH (done ++ fresh') new (seen x) items); [| | |exact H]; rewrite HK'.
      * apply Forall_app. split.
        -- eapply Forall_impl; [|exact Hd]. intros it Hc. apply (closed_mono (keys (done ++ fresh))); [apply incl_appl, incl_refl|exact Hc].
        -- eapply Forall_impl; [|exact F1]. intros it Hc. apply (closed_mono (seen x ++ keys (done ++ fresh))); [|exact Hc].
           rewrite Kx. intros k Hk1. apply in_app_or in Hk1 as [Hk1|Hk1]; [|apply in_or_app; left; exact Hk1].
           apply in_app_or in Hk1 as [Hk1|Hk1]; apply in_or_app; [right; exact Hk1|left; exact (Hs k Hk1)].
      * intros g Hg. apply Gn in Hg. apply in_app_or in Hg as [Hg|Hg]; [apply in_or_app; right; exact Hg|].
        unfold Gs in Hg. apply in_flat_map in Hg as (s1 & Hs1 & Hg). rewrite Forall_forall in Fp.
        apply (Fp s1 Hs1) in Hg. rewrite Kx in Hg.
        apply in_app_or in Hg as [Hg|Hg]; [|apply in_or_app; left; exact Hg].
        apply in_app_or in Hg as [Hg|Hg]; apply in_or_app; [right; exact Hg|left; exact (Hs g Hg)].
      * rewrite Kx. intros k Hk1. apply in_app_or in Hk1 as [Hk1|Hk1]; apply in_or_app; [right; exact Hk1|left; exact (Hs k Hk1)].
Qed.

(** the result of a successful expansion is closed: every definition is flat and mentions only created
    nonterminals that are defined in the result *)
Theorem expand_closed limit user items :
  (forall u alt, In u user -> In alt (snd u) -> Gs alt = []) ->
  expand re_match defs limit user = EOk items -> Forall (closed (keys items)) items.
Proof.
  intros Hu H. unfold expand in H.
  apply (rounds_closed limit [] (map (fun u : string * list (list sym) => ([KId (fst u)], KMacro "" [], snd u)) user) [] items); [constructor| |intros k []|exact H].
  cbn [app]. intros g Hg. exfalso. unfold Gi in Hg. apply in_flat_map in Hg as (it & Hit & Hg).
  apply in_map_iff in Hit as (u & <- & Hu'). cbn [ialts snd] in Hg. unfold Ga in Hg.
  apply in_flat_map in Hg as (alt & Halt & Hg). rewrite (Hu u alt Hu' Halt) in Hg. destruct Hg.
Qed.
End Step.

(** non-vacuity: S = Comma<"a"> | "x" Comma<"a">  with  Comma<T> = (<T> ",")* T?  expands to six
    definitions (S, the macro instance shared by both uses, the group, its *, its + and "a"?) *)
Open Scope string_scope.
Example comma_expands :
  let defs := [("Comma", {| m_params := ["T"]; m_alts := [(None, [SRepeat (SExpr [SChoose (SId "T"); SLit ","]) Star; SRepeat (SId "T") Question])] |})] in
  let user := [("S", [[SMacro "Comma" [SLit "a"]]; [SLit "x"; SMacro "Comma" [SLit "a"]]])] in
  exists items, expand (fun _ _ => false) defs 10 user = EOk items /\ List.length items = 6.
Proof. cbv zeta. eexists. split; [vm_compute; reflexivity|reflexivity]. Qed.
