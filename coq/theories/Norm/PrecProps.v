(** The expansion performed by normalize/precedence is the documented tiered grammar, and it cannot
    reach its [expect] once prevalidate's rule holds. *)
From Coq Require Import List Arith Bool Lia.
From LV Require Import Norm.Prec.
Import ListNotations.

(** * the substitutions, position by position *)
Lemma fwd_every t lvl p a k n l :
  (a = AAll /\ t = OTier lvl) \/ (a = ANone /\ t = OTier p) \/ (a = ALeft /\ t = OTier p /\ k <> 0) ->
  replace_fwd (Every t) l = spec_syms lvl p a k n l.
Proof.
  revert k. induction l as [|s l IH]; intros k H; [reflexivity|].
  destruct s as [|i]; cbn [replace_fwd spec_syms].
  - f_equal.
    + destruct H as [[-> ->]|[[-> ->]|(-> & -> & Hk)]]; try reflexivity.
      destruct (Nat.eqb_spec k 0); [contradiction|reflexivity].
    + apply IH. destruct H as [H|[H|(Ha & Ht & Hk)]]; auto.
  - f_equal. apply IH. exact H.
Qed.

Lemma fwd_left lvl p n l :
  replace_fwd (OneThen (OTier lvl) (OTier p)) l = spec_syms lvl p ALeft 0 n l.
Proof.
  induction l as [|s l IH]; [reflexivity|].
  destruct s as [|i]; cbn [replace_fwd spec_syms Nat.eqb].
  - f_equal. apply fwd_every. right. right. repeat split. discriminate.
  - f_equal. exact IH.
Qed.

Definition after (s : subst) (l : list psym) : subst :=
  match s with
  | Every _ => s
  | OneThen _ b => if Nat.eqb (count_self l) 0 then s else Every b
  end.

Lemma fwd_app s l1 l2 : replace_fwd s (l1 ++ l2) = replace_fwd s l1 ++ replace_fwd (after s l1) l2.
Proof.
  revert s. induction l1 as [|x l1 IH]; intros s.
  - destruct s; reflexivity.
  - destruct x as [|i]; cbn [app replace_fwd].
    + destruct s as [t|a b]; cbn [app]; f_equal; rewrite IH; reflexivity.
    + cbn [app]. f_equal. rewrite IH. destruct s; reflexivity.
Qed.

Lemma count_self_app l1 l2 : count_self (l1 ++ l2) = count_self l1 + count_self l2.
Proof. induction l1 as [|[|i] l1 IH]; cbn [app count_self]; lia. Qed.

Lemma count_self_rev l : count_self (rev l) = count_self l.
Proof.
  induction l as [|x l IH]; [reflexivity|]. cbn [rev]. rewrite count_self_app, IH.
  destruct x; cbn [count_self]; lia.
Qed.

Lemma bwd_cons a b x l :
  replace_bwd (OneThen a b) (x :: l) =
  match x with
  | POther i => OOther i
  | PSelf => if Nat.eqb (count_self l) 0 then a else b
  end :: replace_bwd (OneThen a b) l.
Proof.
  unfold replace_bwd. cbn [rev]. rewrite fwd_app, rev_app_distr. cbn [after].
  rewrite count_self_rev. f_equal.
  destruct x as [|i]; [|destruct (count_self l =? 0); reflexivity].
  destruct (count_self l =? 0); reflexivity.
Qed.

Lemma bwd_right lvl p k l :
  replace_bwd (OneThen (OTier lvl) (OTier p)) l = spec_syms lvl p ARight k (k + count_self l) l.
Proof.
  revert k. induction l as [|x l IH]; intros k; [reflexivity|].
  rewrite bwd_cons. destruct x as [|i]; cbn [spec_syms count_self].
  - f_equal.
    + destruct (Nat.eqb_spec (count_self l) 0) as [E|E].
      * rewrite E. replace (k + 1) with (S k) by lia. rewrite Nat.eqb_refl. reflexivity.
      * destruct (Nat.eqb_spec (S k) (k + S (count_self l))); [lia|reflexivity].
    + rewrite (IH (S k)). f_equal. lia.
  - f_equal. apply IH.
Qed.

(** * the documented tiered grammar *)
Definition spec_alt (lvl : nat) (prev : option nat) (a : assoc) (syms : list psym) : list osym :=
  spec_syms lvl (match prev with Some p => p | None => lvl end) a 0 (count_self syms) syms.

Definition spec_level (ras : list (nat * assoc * list psym)) (prev : option nat) (lvl : nat) :=
  (lvl, map (fun x => spec_alt lvl prev (snd (fst x)) (snd x))
            (filter (fun a => Nat.eqb (fst (fst a)) lvl) ras)
        ++ match prev with Some p => [[OTier p]] | None => [] end).

Fixpoint spec_levels (ras : list (nat * assoc * list psym)) (prev : option nat) (lvls : list nat) :=
  match lvls with
  | [] => []
  | l :: r => spec_level ras prev l :: spec_levels ras (Some l) r
  end.

Definition spec_expand (alts : list palt) :=
  let ras := resolve 0 AAll alts in spec_levels ras None (levels ras).

Lemma expand_alt_spec lvl prev a syms r :
  expand_alt lvl prev a syms = Ok r -> r = spec_alt lvl prev a syms.
Proof.
  unfold expand_alt, spec_alt. destruct a, prev as [p|]; intros H; inversion H; subst; clear H.
  - apply fwd_left.
  - apply (bwd_right lvl p 0).
  - apply fwd_every. right. left. split; reflexivity.
  - apply fwd_every. left. split; reflexivity.
  - apply fwd_every. left. split; reflexivity.
Qed.

Lemma collect_spec {X Y} (f : Y -> res X) (g : Y -> X) l r :
  (forall y x, f y = Ok x -> x = g y) -> collect (map f l) = Ok r -> r = map g l.
Proof.
  intros Hf. revert r. induction l as [|y l IH]; intros r H; cbn [map collect] in *.
  - inversion H. reflexivity.
  - destruct (f y) as [x|] eqn:E; [|discriminate].
    destruct (collect (map f l)) as [xs|]; [|discriminate].
    inversion H. rewrite (Hf _ _ E), (IH xs eq_refl). reflexivity.
Qed.

Lemma expand_levels_spec ras lvls : forall prev r,
  expand_levels ras prev lvls = Ok r -> r = spec_levels ras prev lvls.
Proof.
  induction lvls as [|l lvls IH]; intros prev r H; cbn [expand_levels spec_levels] in *.
  - inversion H. reflexivity.
  - destruct (expand_level ras prev l) as [x|] eqn:E1; [|discriminate].
    destruct (expand_levels ras (Some l) lvls) as [xs|] eqn:E2; [|discriminate].
    inversion H. rewrite (IH _ _ E2). f_equal.
    unfold expand_level in E1. unfold spec_level.
    destruct (collect _) as [alts|] eqn:Ec in E1; [|discriminate]. inversion E1. f_equal. f_equal.
    eapply collect_spec; [|exact Ec]. intros y0 x0 Hy. eapply expand_alt_spec. exact Hy.
Qed.

Theorem expand_is_tiered alts r : expand alts = Ok r -> r = spec_expand alts.
Proof. apply expand_levels_spec. Qed.

(** * levels: sorted without duplicates, exactly the effective levels of the alternatives *)
Lemma insert_sorted_in x y l : In y (insert_sorted x l) <-> y = x \/ In y l.
Proof.
  induction l as [|z l IH]; cbn [insert_sorted].
  - simpl. intuition.
  - destruct (Nat.ltb_spec x z); [simpl; intuition|].
    destruct (Nat.eqb_spec x z); [subst; simpl; intuition|].
    simpl. rewrite IH. intuition.
Qed.

Lemma levels_in ras l : In l (levels ras) <-> exists x, In x ras /\ fst (fst x) = l.
Proof.
  unfold levels. induction ras as [|a ras IH]; cbn [fold_right].
  - split; [intros []|intros (x & [] & _)].
  - rewrite insert_sorted_in, IH. split.
    + intros [->|(x & Hx & E)]; [exists a; split; [left|]; reflexivity|exists x; split; [right|]; assumption].
    + intros (x & [->|Hx] & E); [left; symmetry; exact E|right; exists x; split; assumption].
Qed.

Fixpoint increasing (l : list nat) : Prop :=
  match l with
  | [] => True
  | x :: r => (match r with y :: _ => x < y | [] => True end) /\ increasing r
  end.

Lemma insert_sorted_increasing x l : increasing l -> increasing (insert_sorted x l).
Proof.
  induction l as [|y l IH]; intros H; cbn [insert_sorted].
  - simpl. auto.
  - destruct (Nat.ltb_spec x y); [simpl; split; [exact H0|exact H]|].
    destruct (Nat.eqb_spec x y); [exact H|].
    destruct H as [Hy Hl]. specialize (IH Hl). cbn [increasing]. split; [|exact IH].
    destruct l as [|z l]; cbn [insert_sorted] in *; [lia|].
    destruct (Nat.ltb_spec x z); [lia|]. destruct (Nat.eqb_spec x z); lia.
Qed.

Lemma levels_increasing ras : increasing (levels ras).
Proof.
  unfold levels. induction ras as [|a ras IH]; cbn [fold_right]; [exact I|].
  apply insert_sorted_increasing. exact IH.
Qed.

(** * no panic under prevalidate's rule *)
Lemma resolve_origin alts : forall ll la x,
  In x (resolve ll la alts) -> snd (fst x) <> AAll ->
  (fst (fst x) = ll /\ la <> AAll) \/ In (fst (fst x), true) (explicit ll alts).
Proof.
  induction alts as [|a alts IH]; intros ll la x Hin Hne; [destruct Hin|].
  cbn [resolve explicit] in *.
  destruct (p_prec a) as [l|] eqn:Ep; destruct (p_assoc a) as [e|] eqn:Ea; cbn [In] in *.
  - destruct Hin as [<-|Hin]; [right; left; reflexivity|].
    destruct (IH _ _ _ Hin Hne) as [[E _]|H]; [right; left; rewrite E; reflexivity|right; right; exact H].
  - destruct Hin as [<-|Hin]; [exfalso; apply Hne; reflexivity|].
    destruct (IH _ _ _ Hin Hne) as [[_ E]|H]; [exfalso; apply E; reflexivity|right; right; exact H].
  - destruct Hin as [<-|Hin]; [right; left; reflexivity|].
    destruct (IH _ _ _ Hin Hne) as [[E _]|H]; [right; left; rewrite E; reflexivity|right; right; exact H].
  - destruct Hin as [<-|Hin]; [left; split; [reflexivity|exact Hne]|].
    destruct (IH _ _ _ Hin Hne) as [[E E2]|H]; [left; split; assumption|right; right; exact H].
Qed.

(* validate_precedence (after the repair): no alternative whose effective level is the minimum
   carries an assoc attribute *)
Definition prevalid (alts : list palt) : Prop :=
  forall l, In (l, true) (explicit 0 alts) -> l <> hd 0 (levels (resolve 0 AAll alts)).

Lemma prevalidb_spec alts : prevalidb alts = true <-> prevalid alts.
Proof.
  unfold prevalidb, prevalid. cbv zeta. rewrite forallb_forall. split.
  - intros H l Hin E. specialize (H _ Hin). cbn [fst snd] in H. rewrite E, Nat.eqb_refl in H. discriminate.
  - intros H [l b] Hin. cbn [fst snd]. destruct b; [|reflexivity].
    destruct (Nat.eqb_spec l (hd 0 (levels (resolve 0 AAll alts)))) as [E|E]; [|reflexivity].
    exfalso. exact (H _ Hin E).
Qed.

Lemma collect_ok {X} (l : list (res X)) : (forall x, In x l -> x <> Panic) -> exists r, collect l = Ok r.
Proof.
  induction l as [|x l IH]; intros H; cbn [collect]; [eauto|].
  destruct x as [x|]; [|exfalso; apply (H Panic); [left; reflexivity|reflexivity]].
  destruct IH as [r Hr]; [intros y Hy; apply H; right; exact Hy|]. rewrite Hr. eauto.
Qed.

Lemma expand_alt_some lvl p a syms : expand_alt lvl (Some p) a syms <> Panic.
Proof. destruct a; discriminate. Qed.

Lemma expand_levels_some ras lvls : forall p, exists r, expand_levels ras (Some p) lvls = Ok r.
Proof.
  induction lvls as [|l lvls IH]; intros p; cbn [expand_levels]; [eauto|].
  destruct (IH l) as [xs ->].
  unfold expand_level.
  destruct (collect_ok (map (fun a => expand_alt l (Some p) (snd (fst a)) (snd a))
                            (filter (fun a => fst (fst a) =? l) ras))) as [r ->]; [|eauto].
  intros x Hx. apply in_map_iff in Hx. destruct Hx as (y & <- & _). apply expand_alt_some.
Qed.

Theorem prevalid_no_panic alts : prevalid alts -> exists r, expand alts = Ok r.
Proof.
  intros Hv. unfold expand, prevalid in *. cbv zeta. set (ras := resolve 0 AAll alts) in *.
  destruct (levels ras) as [|l lvls] eqn:El; cbn [expand_levels]; [eauto|].
  destruct (expand_levels_some ras lvls l) as [xs ->].
  unfold expand_level.
  destruct (collect_ok (map (fun a => expand_alt l None (snd (fst a)) (snd a))
                            (filter (fun a => fst (fst a) =? l) ras))) as [r ->]; [|eauto].
  intros x Hx. apply in_map_iff in Hx. destruct Hx as (y & <- & Hy).
  apply filter_In in Hy. destruct Hy as [Hy Hl]. apply Nat.eqb_eq in Hl.
  destruct (snd (fst y)) eqn:Ea; try discriminate; exfalso.
  all: destruct (resolve_origin alts 0 AAll y Hy) as [[_ E]|H];
    [rewrite Ea; discriminate|apply E; reflexivity|].
  all: apply (Hv _ H); cbn [hd]; exact Hl.
Qed.

(* conversely the [expect] is reached exactly when the rule is violated at the first level *)
Theorem panic_iff_first_level alts :
  expand alts = Panic <->
  exists x, In x (resolve 0 AAll alts) /\ fst (fst x) = hd 0 (levels (resolve 0 AAll alts)) /\ snd (fst x) <> AAll.
Proof.
  unfold expand. cbv zeta. set (ras := resolve 0 AAll alts).
  destruct (levels ras) as [|l lvls] eqn:El; cbn [expand_levels hd].
  - split; [discriminate|]. intros (x & Hx & _).
    assert (In (fst (fst x)) (levels ras)) by (apply levels_in; eauto). rewrite El in H. destruct H.
  - destruct (expand_levels_some ras lvls l) as [xs ->].
    unfold expand_level.
    set (f := fun a : nat * assoc * list psym => expand_alt l None (snd (fst a)) (snd a)).
    set (fl := filter (fun a => fst (fst a) =? l) ras).
    split.
    + intros H.
      assert (Hex : exists y, In y fl /\ f y = Panic).
      { assert (Hc : collect (map f fl) = Panic) by (destruct (collect (map f fl)); [discriminate|reflexivity]).
        clear -Hc. induction fl as [|y fl IH]; cbn [map collect] in Hc; [discriminate|].
        destruct (f y) eqn:E; [|exists y; split; [left; reflexivity|exact E]].
        destruct (collect (map f fl)) eqn:Ec; [discriminate|].
        destruct IH as (z & Hz & Ez); [reflexivity|]. exists z. split; [right; exact Hz|exact Ez]. }
      destruct Hex as (y & Hy & Ey). apply filter_In in Hy. destruct Hy as [Hy Hl].
      apply Nat.eqb_eq in Hl. exists y. repeat split; auto.
      intros Ea. unfold f, expand_alt in Ey. rewrite Ea in Ey. discriminate.
    + intros (x & Hx & Hl & Ha).
      assert (Hin : In x fl) by (apply filter_In; split; [exact Hx|apply Nat.eqb_eq; exact Hl]).
      assert (Hp : f x = Panic) by (unfold f, expand_alt; destruct (snd (fst x)); congruence).
      assert (Hc : collect (map f fl) = Panic).
      { clear -Hin Hp. induction fl as [|y fl IH]; [destruct Hin|]. cbn [map collect].
        destruct Hin as [->|Hin]; [rewrite Hp; reflexivity|].
        destruct (f y); [|reflexivity]. rewrite (IH Hin). reflexivity. }
      rewrite Hc. reflexivity.
Qed.

(** non-vacuity: the calculator layout of the documentation *)
Example doc_layout :
  let alts := [ {| p_prec := Some 0; p_assoc := None; p_syms := [POther 0] |};
                {| p_prec := Some 1; p_assoc := Some ALeft; p_syms := [PSelf; POther 1; PSelf] |};
                {| p_prec := None; p_assoc := None; p_syms := [PSelf; POther 2; PSelf] |};
                {| p_prec := Some 2; p_assoc := Some ARight; p_syms := [PSelf; POther 3; PSelf] |} ] in
  prevalid alts /\
  expand alts = Ok [ (0, [[OOther 0]]);
                     (1, [[OTier 1; OOther 1; OTier 0]; [OTier 1; OOther 2; OTier 0]; [OTier 0]]);
                     (2, [[OTier 1; OOther 3; OTier 2]; [OTier 1]]) ].
Proof.
  split; [|reflexivity].
  intros l H. simpl in H. intuition; inversion H0; subst; simpl; discriminate.
Qed.
