(** Model of normalize/macro_expand: symbols, their canonical form (grammar/parse_tree.rs Display
    impls) as a token list, substitution of macro arguments, condition evaluation, and the worklist
    expansion keyed by canonical forms.  No proofs here. *)
From Coq Require Import List String Ascii Bool Arith.
Import ListNotations.
Local Open Scope string_scope.

Inductive rop := Star | Plus | Question.

Inductive tok :=
| KId (s : string)        (* nonterminal / bare terminal / macro name *)
| KLit (s : string)       (* "..." with Debug escaping: self-delimiting *)
| KRe (s : string)        (* r#"..."# *)
| KErr                    (* the word `error` printed for the recovery symbol *)
| KLp | KRp | KLt | KGt | KSp | KComma
| KOp (o : rop).

Inductive sym :=
| SLit (s : string)
| SRe (s : string)
| SId (s : string)                       (* nonterminal, macro parameter or bare terminal *)
| SMacro (name : string) (args : list sym)
| SExpr (ss : list sym)
| SRepeat (s : sym) (o : rop)
| SChoose (s : sym)                      (* <s> inside a group *)
| SError
| SGen (k : list tok).                   (* a nonterminal created by the expansion, named by its key *)

Fixpoint join (sep : list tok) (l : list (list tok)) : list tok :=
  match l with
  | [] => []
  | [a] => a
  | a :: r => a ++ sep ++ join sep r
  end.

(* Display: `(a b)`, `M<a, b>`, `s*`; a created nonterminal prints its name, i.e. its key *)
Fixpoint canon (s : sym) : list tok :=
  match s with
  | SLit x => [KLit x]
  | SRe x => [KRe x]
  | SId x => [KId x]
  | SMacro n args => KId n :: KLt :: join [KComma; KSp] (map canon args) ++ [KGt]
  | SExpr ss => KLp :: join [KSp] (map canon ss) ++ [KRp]
  | SRepeat a o => canon a ++ [KOp o]
  | SChoose a => KLt :: canon a ++ [KGt]
  | SError => [KErr]
  | SGen k => k
  end.

(* the printed text (what NonterminalString holds) *)
Definition op_str (o : rop) : string := match o with Star => "*" | Plus => "+" | Question => "?" end.
Definition tok_str (debug : string -> string) (t : tok) : string :=
  match t with
  | KId s => s
  | KLit s => debug s
  | KRe s => "r#" ++ debug s ++ "#"
  | KErr => "!"                (* after the repair; it used to be "error", see MacroProps.v *)
  | KLp => "(" | KRp => ")" | KLt => "<" | KGt => ">" | KSp => " " | KComma => ","
  | KOp o => op_str o
  end.
Definition key_str (debug : string -> string) (k : list tok) : string :=
  fold_right (fun t acc => tok_str debug t ++ acc) "" k.

(** substitution of macro arguments (macro_expand_symbol) *)
Fixpoint lookup {X} (n : string) (l : list (string * X)) : option X :=
  match l with
  | [] => None
  | (m, x) :: r => if String.eqb n m then Some x else lookup n r
  end.

Fixpoint subst (env : list (string * sym)) (s : sym) : sym :=
  match s with
  | SId x => match lookup x env with Some a => a | None => s end
  | SMacro n args => SMacro n (map (subst env) args)
  | SExpr ss => SExpr (map (subst env) ss)
  | SRepeat a o => SRepeat (subst env a) o
  | SChoose a => SChoose (subst env a)
  | _ => s
  end.

(** conditions *)
Inductive cop := CEq | CNe | CMatch | CNotMatch.
Record cond := { c_lhs : string; c_op : cop; c_rhs : string }.

Section Expand.
Variable re_match : string -> string -> bool.      (* regex::Regex::is_match, abstracted *)

Inductive cres := CTrue | CFalse | CErr.           (* CErr: "invalid condition LHS" *)
Definition eval_cond (env : list (string * sym)) (c : option cond) : cres :=
  match c with
  | None => CTrue
  | Some c =>
    match lookup (c_lhs c) env with
    | Some (SLit l) =>
      let b := match c_op c with
               | CEq => String.eqb l (c_rhs c)
               | CNe => negb (String.eqb l (c_rhs c))
               | CMatch => re_match (c_rhs c) l
               | CNotMatch => negb (re_match (c_rhs c) l)
               end in if b then CTrue else CFalse
    | _ => CErr
    end
  end.

Record mdef := { m_params : list string; m_alts : list (option cond * list sym) }.

(** replace_symbol: rewrite a symbol bottom-up; every macro use, group and repeat is replaced by the
    nonterminal named by its canonical form and pushed for expansion unless its key was seen *)
Definition key_eqb (a b : list tok) : bool :=
  if list_eq_dec (fun x y : tok => ltac:(decide equality; try apply string_dec; decide equality)) a b then true else false.

Record st := { seen : list (list tok); stack : list sym }.

Definition note (s : sym) (x : st) : sym * st :=
  let k := canon s in
  (SGen k, if existsb (key_eqb k) (seen x) then x else {| seen := k :: seen x; stack := s :: stack x |}).

Fixpoint replace (s : sym) (x : st) : sym * st :=
  match s with
  | SMacro n args =>
    let '(args', x') := (fix go (l : list sym) (x : st) : list sym * st :=
                           match l with
                           | [] => ([], x)
                           | a :: r => let '(a', x1) := replace a x in let '(r', x2) := go r x1 in (a' :: r', x2)
                           end) args x in
    note (SMacro n args') x'
  | SExpr ss =>
    let '(ss', x') := (fix go (l : list sym) (x : st) : list sym * st :=
                         match l with
                         | [] => ([], x)
                         | a :: r => let '(a', x1) := replace a x in let '(r', x2) := go r x1 in (a' :: r', x2)
                         end) ss x in
    note (SExpr ss') x'
  | SRepeat a o => let '(a', x') := replace a x in note (SRepeat a' o) x'
  | SChoose a => let '(a', x') := replace a x in (SChoose a', x')
  | _ => (s, x)
  end.

Fixpoint replace_list (l : list sym) (x : st) : list sym * st :=
  match l with
  | [] => ([], x)
  | a :: r => let '(a', x1) := replace a x in let '(r', x2) := replace_list r x1 in (a' :: r', x2)
  end.

Fixpoint replace_alts (l : list (list sym)) (x : st) : list (list sym) * st :=
  match l with
  | [] => ([], x)
  | a :: r => let '(a', x1) := replace_list a x in let '(r', x2) := replace_alts r x1 in (a' :: r', x2)
  end.

(** the definition created for one popped symbol (expand_macro_symbol / expand_expr_symbol /
    expand_repeat_symbol), before its own symbols are replaced in the next round *)
Inductive kind := KMacro (name : string) (kept : list nat) | KGroup | KStar | KPlus | KQuestion.
Inductive xres := XOk (k : kind) (alts : list (list sym)) | XErr (msg : nat).
(* messages: 1 no macro definition, 2 wrong number of arguments, 3 invalid condition LHS *)

Fixpoint keep_alts (env : list (string * sym)) (i : nat) (l : list (option cond * list sym))
  : option (list nat * list (list sym)) :=
  match l with
  | [] => Some ([], [])
  | (c, ss) :: r =>
    match eval_cond env c with
    | CErr => None
    | CFalse => keep_alts env (S i) r
    | CTrue => match keep_alts env (S i) r with
               | Some (ks, as_) => Some (i :: ks, map (subst env) ss :: as_)
               | None => None
               end
    end
  end.

Definition expand1 (defs : list (string * mdef)) (s : sym) : xres :=
  match s with
  | SMacro n args =>
    match lookup n defs with
    | None => XErr 1
    | Some d =>
      if negb (Nat.eqb (List.length (m_params d)) (List.length args)) then XErr 2
      else match keep_alts (combine (m_params d) args) 0 (m_alts d) with
           | None => XErr 3
           | Some (ks, alts) => XOk (KMacro n ks) alts
           end
    end
  | SExpr ss => XOk KGroup [ss]
  | SRepeat a Star => XOk KStar [[]; [SRepeat a Plus]]
  | SRepeat a Plus => XOk KPlus [[a]; [SGen (canon s); a]]
  | SRepeat a Question => XOk KQuestion [[a]; []]
  | _ => XErr 0
  end.

(** the rounds of MacroExpander::expand: [items] are (name key, kind, alternatives) in creation order *)
Definition item := (list tok * kind * list (list sym))%type.

Fixpoint drain (defs : list (string * mdef)) (stk : list sym) : option (list item) + nat :=
  match stk with
  | [] => inl (Some [])
  | s :: r =>
    match expand1 defs s with
    | XErr m => inr m
    | XOk k alts =>
      match drain defs r with
      | inl (Some l) => inl (Some ((canon s, k, alts) :: l))
      | other => other
      end
    end
  end.

Fixpoint replace_items (l : list item) (x : st) : list item * st :=
  match l with
  | [] => ([], x)
  | (n, k, alts) :: r =>
    let '(alts', x1) := replace_alts alts x in
    let '(r', x2) := replace_items r x1 in ((n, k, alts') :: r', x2)
  end.

Inductive eres := EOk (items : list item) | ERecursion | EError (msg : nat).

(* [fresh]: the items added in the last round whose symbols still have to be replaced *)
Fixpoint rounds (defs : list (string * mdef)) (limit : nat) (done fresh : list item) (sn : list (list tok)) : eres :=
  let '(fresh', x) := replace_items fresh {| seen := sn; stack := [] |} in
  match stack x with
  | [] => EOk (done ++ fresh')
  | _ =>
    match limit with
    | O => ERecursion
    | S lim =>
      (* the stack is drained by pop: last pushed first *)
      match drain defs (stack x) with
      | inr m => EError m
      | inl None => EError 0
      | inl (Some new) => rounds defs lim (done ++ fresh') new (seen x)
      end
    end
  end.

(* the user's nonterminals enter as items of kind KGroup-less "user" entries; we reuse KMacro "" [] *)
Definition expand (defs : list (string * mdef)) (limit : nat) (user : list (string * list (list sym))) : eres :=
  rounds defs limit [] (map (fun u => ([KId (fst u)], KMacro "" [], snd u)) user) [].
End Expand.
