(** Model of normalize/precedence (expand_nonterm, replace_symbols) and of the tiered grammar the
    documentation promises.  An alternative is a list of symbols that are either an occurrence of the
    annotated nonterminal itself ([PSelf]) or anything else. *)
From Coq Require Import List Arith Bool.
Import ListNotations.

Inductive assoc := ALeft | ARight | ANone | AAll.
Inductive psym := PSelf | POther (id : nat).

Record palt := { p_prec : option nat; p_assoc : option assoc; p_syms : list psym }.

(* output symbols: [OTier l] is the derived nonterminal of level l (the top level keeps the
   original name; that renaming is done by the printer, not here) *)
Inductive osym := OTier (l : nat) | OOther (id : nat).

(** attribute inheritance: the fold over the alternatives *)
Fixpoint resolve (last_lvl : nat) (last_assoc : assoc) (alts : list palt) : list (nat * assoc * list psym) :=
  match alts with
  | [] => []
  | a :: r =>
    let '(lvl, la) := match p_prec a with Some l => (l, AAll) | None => (last_lvl, last_assoc) end in
    let asc := match p_assoc a with Some x => x | None => la end in
    (lvl, asc, p_syms a) :: resolve lvl asc r
  end.

(** replace_symbols with the OneThen / Every substitutions *)
Inductive subst := Every (t : osym) | OneThen (fst snd : osym).

Fixpoint replace_fwd (s : subst) (l : list psym) : list osym :=
  match l with
  | [] => []
  | PSelf :: r => match s with
                  | Every t => t :: replace_fwd s r
                  | OneThen a b => a :: replace_fwd (Every b) r
                  end
  | POther i :: r => OOther i :: replace_fwd s r
  end.
Definition replace_bwd (s : subst) (l : list psym) : list osym := rev (replace_fwd s (rev l)).

Inductive res (X : Type) := Ok (x : X) | Panic.
Arguments Ok {X}. Arguments Panic {X}.

(* one alternative of level [lvl] whose previous (tighter) level is [prev] *)
Definition expand_alt (lvl : nat) (prev : option nat) (a : assoc) (syms : list psym) : res (list osym) :=
  match a, prev with
  | AAll, _ => Ok (replace_fwd (Every (OTier lvl)) syms)
  | ALeft, Some p => Ok (replace_fwd (OneThen (OTier lvl) (OTier p)) syms)
  | ARight, Some p => Ok (replace_bwd (OneThen (OTier lvl) (OTier p)) syms)
  | ANone, Some p => Ok (replace_fwd (Every (OTier p)) syms)
  | _, None => Panic             (* expect("unexpected associativity attribute on the first precedence level") *)
  end.

Fixpoint insert_sorted (x : nat) (l : list nat) : list nat :=
  match l with
  | [] => [x]
  | y :: r => if x <? y then x :: l else if x =? y then l else y :: insert_sorted x r
  end.
Definition levels (ras : list (nat * assoc * list psym)) : list nat :=
  fold_right (fun a acc => insert_sorted (fst (fst a)) acc) [] ras.

Fixpoint collect {X} (l : list (res X)) : res (list X) :=
  match l with
  | [] => Ok []
  | Panic :: _ => Panic
  | Ok x :: r => match collect r with Ok xs => Ok (x :: xs) | Panic => Panic end
  end.

(* the derived nonterminal of level [lvl]: its alternatives in source order, then the fall-through to
   the previous level *)
Definition expand_level (ras : list (nat * assoc * list psym)) (prev : option nat) (lvl : nat)
  : res (nat * list (list osym)) :=
  match collect (map (fun a => expand_alt lvl prev (snd (fst a)) (snd a))
                     (filter (fun a => Nat.eqb (fst (fst a)) lvl) ras)) with
  | Panic => Panic
  | Ok alts => Ok (lvl, alts ++ match prev with Some p => [[OTier p]] | None => [] end)
  end.

Fixpoint expand_levels (ras : list (nat * assoc * list psym)) (prev : option nat) (lvls : list nat)
  : res (list (nat * list (list osym))) :=
  match lvls with
  | [] => Ok []
  | l :: r => match expand_level ras prev l, expand_levels ras (Some l) r with
              | Ok x, Ok xs => Ok (x :: xs)
              | _, _ => Panic
              end
  end.

Definition expand (alts : list palt) : res (list (nat * list (list osym))) :=
  let ras := resolve 0 AAll alts in expand_levels ras None (levels ras).

(** the documented semantics, position by position: an occurrence of the nonterminal stays at the
    current level if the associativity is `all`, or `left` and it is the first occurrence, or `right`
    and it is the last one; every other occurrence denotes the next tighter level *)
Fixpoint count_self (l : list psym) : nat :=
  match l with [] => 0 | PSelf :: r => S (count_self r) | _ :: r => count_self r end.

(* [k]: number of occurrences already seen, [n]: total number of occurrences *)
Fixpoint spec_syms (lvl p : nat) (a : assoc) (k n : nat) (l : list psym) : list osym :=
  match l with
  | [] => []
  | POther i :: r => OOther i :: spec_syms lvl p a k n r
  | PSelf :: r =>
    (match a with
     | AAll => OTier lvl
     | ALeft => if Nat.eqb k 0 then OTier lvl else OTier p
     | ARight => if Nat.eqb (S k) n then OTier lvl else OTier p
     | ANone => OTier p
     end) :: spec_syms lvl p a (S k) n r
  end.

(** validate_precedence's rule on associativity, as a decision procedure: no alternative whose
    effective level is the smallest one carries an assoc attribute *)
Fixpoint explicit (last_lvl : nat) (alts : list palt) : list (nat * bool) :=
  match alts with
  | [] => []
  | a :: r =>
    let lvl := match p_prec a with Some l => l | None => last_lvl end in
    (lvl, match p_assoc a with Some _ => true | None => false end) :: explicit lvl r
  end.
Definition prevalidb (alts : list palt) : bool :=
  let m := hd 0 (levels (resolve 0 AAll alts)) in
  forallb (fun x => negb (snd x && Nat.eqb (fst x) m)) (explicit 0 alts).
