(** C19 (model part): the types lalrpop declares for the nonterminals it creates -- Vec<T> for X* and
    X+, Option<T> for X?, the tuple (or the single type) of the selected symbols of a group -- and the
    values their generated actions build.  A value typing relation, and the typing of those actions. *)
From Coq Require Import List.
Import ListNotations.

Inductive ty := TAtom (id : nat) | TTuple (l : list ty) | TVec (t : ty) | TOpt (t : ty).

(* maybe_tuple: one selected symbol keeps its type, otherwise a tuple (the empty tuple for none) *)
Definition maybe_tuple (l : list ty) : ty := match l with [t] => t | _ => TTuple l end.

Inductive val := VAtom (id : nat) (payload : nat) | VTuple (l : list val) | VVec (l : list val) | VSome (v : val) | VNone.

Inductive has_type : val -> ty -> Prop :=
| HT_atom id p : has_type (VAtom id p) (TAtom id)
| HT_tuple vs ts : Forall2 has_type vs ts -> has_type (VTuple vs) (TTuple ts)
| HT_vec vs t : Forall (fun v => has_type v t) vs -> has_type (VVec vs) (TVec t)
| HT_some v t : has_type v t -> has_type (VSome v) (TOpt t)
| HT_none t : has_type VNone (TOpt t).

(* the actions of the created nonterminals *)
Definition act_vec_one (e : val) : val := VVec [e].                               (* alloc::vec![<>] *)
Definition act_vec_push (v e : val) : val := match v with VVec l => VVec (l ++ [e]) | _ => v end.  (* { let mut v = v; v.push(e); v } *)
Definition act_vec_empty : val := VVec [].                                        (* alloc::vec![] *)
Definition act_some (e : val) : val := VSome e.                                   (* Some(<>) *)
Definition act_none : val := VNone.
Definition act_group (sel : list val) : val := match sel with [v] => v | _ => VTuple sel end.   (* <> / (<>) *)

Lemma vec_one_typed e t : has_type e t -> has_type (act_vec_one e) (TVec t).
Proof. intros H. constructor. constructor; [exact H|constructor]. Qed.

Lemma vec_push_typed v e t : has_type v (TVec t) -> has_type e t -> has_type (act_vec_push v e) (TVec t).
Proof.
  intros Hv He. inversion Hv; subst. cbn. constructor. apply Forall_app. split; [assumption|].
  constructor; [exact He|constructor].
Qed.

Lemma vec_empty_typed t : has_type act_vec_empty (TVec t).
Proof. constructor. constructor. Qed.

Lemma some_typed e t : has_type e t -> has_type (act_some e) (TOpt t).
Proof. intros H. constructor. exact H. Qed.

Lemma none_typed t : has_type act_none (TOpt t).
Proof. constructor. Qed.

Lemma group_typed sel ts : Forall2 has_type sel ts -> has_type (act_group sel) (maybe_tuple ts).
Proof.
  intros H. destruct H as [|v t sel' ts' Hv Hr]; [cbn; constructor; constructor|].
  destruct Hr as [|v2 t2 sel2 ts2 Hv2 Hr2]; cbn; [exact Hv|].
  constructor. constructor; [exact Hv|]. constructor; assumption.
Qed.
