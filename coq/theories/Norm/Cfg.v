(** Model of normalize/cond_comp: evaluation of #[cfg(..)] predicates against a feature set and
    removal of disabled declarations. *)
From Coq Require Import List String Bool.
Import ListNotations.

Inductive pred :=
| PFeature (f : string)
| PNot (args : list pred)
| PAll (args : list pred)
| PAny (args : list pred)
| POther.                          (* anything else evaluates to false *)

Definition smem (f : string) (fs : list string) : bool := existsb (String.eqb f) fs.

(* test_feat_attr *)
Fixpoint test (fs : list string) (p : pred) : bool :=
  match p with
  | PFeature f => smem f fs
  | PNot args => match args with a :: _ => negb (test fs a) | [] => false end
  | PAll args => (fix all (l : list pred) : bool := match l with [] => true | a :: r => test fs a && all r end) args
  | PAny args => (fix any (l : list pred) : bool := match l with [] => false | a :: r => test fs a || any r end) args
  | POther => false
  end.

(* cfg_active: every #[cfg(..)] attribute of the item must hold; an attribute holds iff its first
   argument does *)
Definition cfg_active (fs : list string) (cfgs : list (list pred)) : bool :=
  forallb (fun args => match args with a :: _ => test fs a | [] => false end) cfgs.

(** the reference semantics: Rust's cfg for well-formed predicates *)
Inductive wfp : pred -> Prop :=
| wf_feature f : wfp (PFeature f)
| wf_not a : wfp a -> wfp (PNot [a])
| wf_all l : Forall wfp l -> wfp (PAll l)
| wf_any l : Forall wfp l -> wfp (PAny l).

Fixpoint holds (fs : list string) (p : pred) : Prop :=
  match p with
  | PFeature f => In f fs
  | PNot args => match args with [a] => ~ holds fs a | _ => False end
  | PAll args => (fix all (l : list pred) : Prop := match l with [] => True | a :: r => holds fs a /\ all r end) args
  | PAny args => (fix any (l : list pred) : Prop := match l with [] => False | a :: r => holds fs a \/ any r end) args
  | POther => False
  end.

(** items of a grammar: nonterminals with alternatives, each with cfg attributes *)
Record alt := { a_cfg : list (list pred); a_id : nat }.
Record nonterm := { n_cfg : list (list pred); n_id : nat; n_alts : list alt }.

(* remove_disabled_decls on the nonterminal items *)
Definition remove_disabled (fs : list string) (g : list nonterm) : list nonterm :=
  map (fun n => {| n_cfg := n_cfg n; n_id := n_id n; n_alts := filter (fun a => cfg_active fs (a_cfg a)) (n_alts n) |})
      (filter (fun n => cfg_active fs (n_cfg n)) g).

(* what survives, as identifiers: (nonterminal id, [alternative ids]) *)
Definition survivors (fs : list string) (g : list nonterm) : list (nat * list nat) :=
  map (fun n => (n_id n, map a_id (n_alts n))) (remove_disabled fs g).
