(** Whole-tree span rule of the table-driven driver (C06), for ANY tables without error recovery:
    the spans the parser computes for all nodes of the returned tree -- observable as the Act events,
    one per node in post-order -- are those of the documented rule, stated once for the whole tree:
      - a token has the span the lexer supplied;
      - a node with children spans from the start of its first child to the end of its last child;
      - a node without children gets the zero-width span at the start of the next input token, or, at
        the end of the input, at the end of the symbol to its left (the default location 0 if none). *)
From Coq Require Import List ZArith Bool Arith Lia.
From LV Require Import LR.Driver LR.Soundness LR.Locality.
Import ListNotations.

Definition ev3 := (nat * Z * Z)%type.

(* start of the first token of a sequence of trees, else of what follows *)
Definition first_lo (ts : list tree) (a : option Z) : option Z :=
  match flat_map yield ts with k :: _ => Some (tk_lo k) | [] => a end.

Lemma first_lo_app l1 l2 a : first_lo (l1 ++ l2) a = first_lo l1 (first_lo l2 a).
Proof. unfold first_lo. rewrite flat_map_app. destruct (flat_map yield l1); reflexivity. Qed.
Lemma first_lo_nil a : first_lo [] a = a.
Proof. reflexivity. Qed.
Lemma first_lo_node p kids a : first_lo [Node p kids] a = first_lo kids a.
Proof. unfold first_lo. cbn [flat_map]. rewrite app_nil_r, yield_node. reflexivity. Qed.

(** the rule: [Sp t b a lo hi evs] -- with [b] the end of the symbol to the left of t (0 if none) and
    [a] the start of the first input token after t (None at the end of the input), the subtree t has
    span (lo, hi) and its nodes, in post-order, have the spans listed in evs *)
Inductive Sp : tree -> Z -> option Z -> Z -> Z -> list ev3 -> Prop :=
| Sp_leaf k b a : Sp (Leaf k) b a (tk_lo k) (tk_hi k) []
| Sp_empty p b a : let pos := match a with Some l => l | None => b end in
    Sp (Node p []) b a pos pos [(p, pos, pos)]
| Sp_node p k ks b a lo hi evs : SpL (k :: ks) b a lo hi evs ->
    Sp (Node p (k :: ks)) b a lo hi (evs ++ [(p, lo, hi)])
with SpL : list tree -> Z -> option Z -> Z -> Z -> list ev3 -> Prop :=
| SpL_one t b a lo hi ev : Sp t b a lo hi ev -> SpL [t] b a lo hi ev
| SpL_cons t r b a lo hi lo2 hi2 ev evs : r <> [] ->
    Sp t b (first_lo r a) lo hi ev -> SpL r hi a lo2 hi2 evs -> SpL (t :: r) b a lo hi2 (ev ++ evs).

Lemma SpL_snoc : forall l b a' lo hi evs, SpL l b a' lo hi evs ->
  forall t a lo' hi' ev, a' = first_lo [t] a -> Sp t hi a lo' hi' ev -> SpL (l ++ [t]) b a lo hi' (evs ++ ev).
Proof.
  induction 1 as [t0 b a' lo hi ev0 H0|t0 r b a' lo hi lo2 hi2 ev0 evs0 Hr H0 Hrest IH]; intros t a lo' hi' ev Ha Ht.
  - cbn [app]. apply (SpL_cons t0 [t] b a lo hi lo' hi' ev0 ev); [discriminate| |apply SpL_one; exact Ht]. rewrite <- Ha. exact H0.
  - cbn [app]. rewrite <- app_assoc. apply (SpL_cons t0 (r ++ [t]) b a lo hi lo2 hi' ev0 (evs0 ++ ev)).
    + destruct r; [congruence|discriminate].
    + rewrite first_lo_app, <- Ha. exact H0.
    + apply (IH t a lo' hi' ev Ha Ht).
Qed.

Definition top_hi (st : list entry) : Z := match st with e :: _ => e_hi e | [] => 0%Z end.

(* the stack, top first: every entry carries the span the rule gives its tree in its context *)
Inductive StackOK : list entry -> option Z -> list ev3 -> Prop :=
| SO_nil a : StackOK [] a []
| SO_cons e below a ev evs : Sp (e_tree e) (top_hi below) a (e_lo e) (e_hi e) ev ->
    StackOK below (first_lo [e_tree e] a) evs -> StackOK (e :: below) a (evs ++ ev).

Lemma hd_rev {X} (l : list X) d : hd d (rev l) = last l d.
Proof.
  induction l as [|x l IH]; [reflexivity|]. cbn [rev]. destruct l as [|y l'].
  - reflexivity.
  - cbn [rev] in *. destruct (rev l' ++ [y]) eqn:E; [destruct (rev l'); discriminate|]. cbn [app hd] in *. exact IH.
Qed.
Lemma last_rev {X} (l : list X) d : last (rev l) d = hd d l.
Proof. destruct l as [|x l]; [reflexivity|]. cbn [rev]. apply last_last. Qed.

(* the topmost entries of the stack are the children of a node: their recorded spans chain up *)
Lemma stack_split : forall ents below a evs d, ents <> [] -> StackOK (ents ++ below) a evs ->
  exists evs_b evs_k, evs = evs_b ++ evs_k /\
    StackOK below (first_lo (map e_tree (rev ents)) a) evs_b /\
    SpL (map e_tree (rev ents)) (top_hi below) a (e_lo (last ents d)) (e_hi (hd d ents)) evs_k.
Proof.
  induction ents as [|e ents IH]; intros below a evs d Hne H; [congruence|].
  cbn [app] in H. inversion H as [|e0 below0 a0 ev evs' Hsp Hrest]; subst.
  destruct ents as [|e2 r].
  - cbn [app] in *. exists evs', ev. split; [reflexivity|]. cbn [rev app map]. split; [exact Hrest|].
    cbn [last hd]. apply SpL_one. exact Hsp.
  - destruct (IH below _ _ d ltac:(discriminate) Hrest) as (evs_b & evs_k & -> & Hb & Hk).
    exists evs_b, (evs_k ++ ev). split; [rewrite app_assoc; reflexivity|].
    change (rev (e :: e2 :: r)) with (rev (e2 :: r) ++ [e]). rewrite map_app. cbn [map].
    split.
    + rewrite first_lo_app. exact Hb.
    + change (last (e :: e2 :: r) d) with (last (e2 :: r) d). cbn [hd].
      apply (SpL_snoc _ _ _ _ _ _ Hk (e_tree e) a (e_lo e) (e_hi e) ev eq_refl).
      cbn [app top_hi hd] in Hsp. exact Hsp.
Qed.

Definition acts3 (tr : list event) : list ev3 :=
  flat_map (fun e => match e with Act p lo hi => [(p, lo, hi)] | _ => [] end) (rev tr).
Lemma acts3_cons ev tr : acts3 (ev :: tr) = acts3 tr ++ match ev with Act p lo hi => [(p, lo, hi)] | _ => [] end.
Proof. unfold acts3. cbn [rev]. rewrite flat_map_app. cbn [flat_map]. now rewrite app_nil_r. Qed.

(* what reduce does, in full *)
Lemma reduce_shape A orc p la st :
  match reduce A orc p la st with
  | (RdPanic, _) => True
  | (RdDone (ROk v), ev) => ev = None /\ exists nt rhs, nth_error (prods A) p = Some (nt, rhs) /\ length rhs <= length st /\
                              v = Node p (map e_tree (rev (firstn (length rhs) st)))
  | (RdDone _, ev) => exists e, ev = Some (ActFail p e)
  | (RdCont st', ev) => exists nt rhs lo hi, nth_error (prods A) p = Some (nt, rhs) /\ length rhs <= length st /\
      st' = (goto_at A (top_state (skipn (length rhs) st)) nt, Node p (map e_tree (rev (firstn (length rhs) st))), lo, hi) :: skipn (length rhs) st /\
      ev = Some (Act p lo hi) /\
      (lo, hi) = match rev (firstn (length rhs) st) with
                 | [] => let l := match la with Some l => l | None => top_hi st end in (l, l)
                 | e :: _ => (e_lo e, e_hi (last (rev (firstn (length rhs) st)) e))
                 end
  end.
Proof.
  unfold reduce. destruct (nth_error (prods A) p) as [[nt rhs]|]; [|exact I].
  destruct (length st <? length rhs) eqn:El; [exact I|]. apply Nat.ltb_ge in El.
  destruct (negb (syms_match A (rev (firstn (length rhs) st)) rhs)); [exact I|].
  destruct (match rev (firstn (length rhs) st) with [] => _ | e :: _ => _ end) as [lo hi] eqn:Esp.
  destruct (Nat.eqb p (start_prod A)).
  - split; [reflexivity|]. exists nt, rhs. auto.
  - destruct (orc p _) as [e|]; [eauto|].
    exists nt, rhs, lo, hi. repeat split; auto; try (rewrite <- Esp; unfold top_hi; reflexivity).
Qed.

Section Run.
Variable A : tables.
Hypothesis Hnorec : uses_recovery A = false.
Variable orc : oracle.
Variable fuel : nat.

(* start of the next input token, as the mode and the unread input determine it *)
Definition next_lo (m : mode) (s : pst) : option Z :=
  match m with
  | MHave k _ => Some (tk_lo k)
  | MEof => None
  | MNeed => match rest s with IOk k :: _ => Some (tk_lo k) | _ => None end
  end.

Definition SInv (m : mode) (s : pst) : Prop := StackOK (stk s) (next_lo m s) (acts3 (trace s)).

(* the accepted tree: the children popped by the accepting reduction, spans per the rule, and the Act
   events of the run are exactly those of the nodes below the root, in post-order *)
Definition sfin (r : result) (s : pst) : Prop :=
  match r with
  | ROk (Node p (k :: ks)) => exists evs_b evs_k b lo hi, acts3 (trace s) = evs_b ++ evs_k /\ SpL (k :: ks) b None lo hi evs_k /\
                              (length (k :: ks) = length (stk s) -> b = 0%Z /\ evs_b = [])
  | _ => True
  end.

Lemma reduce_SInv m s p la a st' ev : (m = MEof \/ exists k i, m = MHave k i) ->
  a = next_lo m s -> la = a ->
  StackOK (stk s) a (acts3 (trace s)) ->
  reduce A orc p la (stk s) = (RdCont st', ev) ->
  StackOK st' a (acts3 (trace (logo s ev))).
Proof.
  intros Hm Ha Hla HS E. pose proof (reduce_shape A orc p la (stk s)) as Hsh. rewrite E in Hsh.
  destruct Hsh as (nt & rhs & lo & hi & Hp & Hlen & -> & -> & Hspan).
  cbn [logo trace log]. rewrite acts3_cons.
  set (n := length rhs) in *.
  rewrite <- (firstn_skipn n (stk s)) in HS.
  destruct (firstn n (stk s)) as [|e ents] eqn:Ef.
  - (* no children *)
    cbn [rev app] in *. cbn [map]. inversion Hspan; subst lo hi.
    apply SO_cons; cbn [e_tree e_lo e_hi].
    + assert (Hskip : skipn n (stk s) = stk s).
      { destruct n; [reflexivity|]. destruct (stk s); [reflexivity|discriminate]. }
      rewrite Hskip. subst la. destruct a as [l|]; apply Sp_empty.
    + rewrite first_lo_node, first_lo_nil. exact HS.
  - destruct (stack_split (e :: ents) (skipn n (stk s)) a _ e ltac:(discriminate) HS) as (evs_b & evs_k & Heq & Hb & Hk).
    rewrite Heq, <- app_assoc.
    apply SO_cons; cbn [e_tree e_lo e_hi].
    + destruct (rev (e :: ents)) as [|e1 r1] eqn:Er; [cbn [rev] in Er; destruct (rev ents); discriminate|].
      cbn [map] in *.
      assert (H1 : last (e :: ents) e = e1) by (rewrite <- (hd_rev (e :: ents) e), Er; reflexivity).
      assert (H2 : last (e1 :: r1) e1 = e).
      { rewrite <- Er. rewrite last_rev. reflexivity. }
      pose proof (f_equal fst Hspan) as Hlo. pose proof (f_equal snd Hspan) as Hhi. cbn [fst snd] in Hlo, Hhi. subst lo hi. rewrite H2. rewrite H1 in Hk. cbn [hd] in Hk.
      apply Sp_node. exact Hk.
    + rewrite first_lo_node. exact Hb.
Qed.

Lemma step_SInv m s : SInv m s ->
  match step A orc fuel m s with
  | Cont m' s' => SInv m' s'
  | Fin r s' => sfin r s'
  end.
Proof.
  unfold SInv. intros HS. unfold step. destruct m as [|k i|].
  - unfold next_token. destruct (rest s) as [|[k|e] r] eqn:Hr; cbn [next_lo] in HS; rewrite Hr in HS.
    + cbn [next_lo stk log trace]. rewrite acts3_cons, app_nil_r. exact HS.
    + destruct (tk_idx k) as [i|].
      * cbn [next_lo stk trace]. rewrite acts3_cons, app_nil_r. exact HS.
      * unfold unrec_error. destruct (expected_tokens _ _ _); exact I.
    + exact I.
  - cbn [next_lo] in HS.
    destruct (act_at A (top_state (stk s)) i) as [a|]; [|exact I].
    destruct (as_shift a) as [target|].
    + cbn [stk log set_stk trace]. rewrite acts3_cons, app_nil_r.
      rewrite <- (app_nil_r (acts3 (trace s))). apply SO_cons; cbn [e_tree e_lo e_hi].
      * apply Sp_leaf.
      * unfold first_lo. cbn. exact HS.
    + destruct (as_reduce a) as [p|].
      * pose proof (reduce_shape A orc p (Some (tk_lo k)) (stk s)) as Hsh.
        destruct (reduce A orc p (Some (tk_lo k)) (stk s)) as [[|r|st'] ev] eqn:E; [exact I| |].
        -- destruct r as [v| | |]; try exact I.
        -- cbn [stk set_stk].
           pose proof (reduce_SInv (MHave k i) s p _ _ st' ev (or_intror (ex_intro _ k (ex_intro _ i eq_refl))) eq_refl eq_refl HS E) as H.
           destruct ev; exact H.
      * rewrite (error_recovery_norec A Hnorec orc). unfold unrec_error. destruct (expected_tokens _ _ _); exact I.
  - cbn [next_lo] in HS.
    destruct (eof_at A (top_state (stk s))) as [a|]; [|exact I].
    destruct (as_reduce a) as [p|].
    + pose proof (reduce_shape A orc p None (stk s)) as Hsh.
      destruct (reduce A orc p None (stk s)) as [[|r|st'] ev] eqn:E; [exact I| |].
      * destruct r as [v| | |]; try exact I. destruct Hsh as (-> & nt & rhs & Hp & Hlen & ->).
        cbn [logo]. cbn [sfin].
        destruct (map e_tree (rev (firstn (length rhs) (stk s)))) as [|k0 ks] eqn:Ek; [exact I|].
        assert (Hne : firstn (length rhs) (stk s) <> []) by (intros Hx; rewrite Hx in Ek; discriminate).
        rewrite <- (firstn_skipn (length rhs) (stk s)) in HS.
        destruct (firstn (length rhs) (stk s)) as [|e0 ents0] eqn:Ef; [congruence|].
        destruct (stack_split (e0 :: ents0) _ None _ e0 Hne HS) as (evs_b & evs_k & Heq & Hb & Hk).
        rewrite Ek in Hk. exists evs_b, evs_k, (top_hi (skipn (length rhs) (stk s))), (e_lo (last (e0 :: ents0) e0)), (e_hi (hd e0 (e0 :: ents0))).
        split; [exact Heq|]. split; [exact Hk|].
        intros Hl. assert (Hall : skipn (length rhs) (stk s) = []).
        { assert (Hl2 : length (firstn (length rhs) (stk s)) = length (stk s)).
          { rewrite Ef. rewrite <- Hl, <- Ek, map_length, rev_length. reflexivity. }
          rewrite firstn_length in Hl2. apply skipn_all2. lia. }
        rewrite Hall in *. split; [reflexivity|]. inversion Hb. reflexivity.
      * cbn [stk set_stk].
        pose proof (reduce_SInv MEof s p _ _ st' ev (or_introl eq_refl) eq_refl eq_refl HS E) as H.
        destruct ev; exact H.
    + rewrite (error_recovery_norec A Hnorec orc). unfold unrec_error. destruct (expected_tokens _ _ _); exact I.
Qed.

Lemma run_SInv : forall n m s r s', SInv m s -> run A orc fuel n m s = (r, s') -> sfin r s'.
Proof.
  induction n as [|n IH]; intros m s r s' HS H; cbn [run] in H.
  - inversion H; subst. exact I.
  - pose proof (step_SInv m s HS) as Hst.
    destruct (step A orc fuel m s) as [m1 s1|r1 s1].
    + eapply IH; eauto.
    + inversion H; subst. exact Hst.
Qed.

Theorem whole_tree_spans input p k ks s :
  drive A orc fuel input = (ROk (Node p (k :: ks)), s) ->
  exists evs_b evs_k b lo hi, acts3 (trace s) = evs_b ++ evs_k /\ SpL (k :: ks) b None lo hi evs_k /\
     (length (k :: ks) = length (stk s) -> b = 0%Z /\ evs_b = []).
Proof.
  intros H. unfold drive in H.
  apply (run_SInv fuel MNeed (init input) (ROk (Node p (k :: ks))) s); [|exact H].
  unfold SInv. cbn. constructor.
Qed.
End Run.

(** on validated tables the accepting reduction pops the whole stack, so the statement is about the
    whole tree with nothing to its left: the children of the root start from the default location 0,
    and the Act events of the run are exactly the spans of all nodes below the root, in post-order *)
From LV Require Import LR.Validator LR.Safety LR.ValidatorSpec.
Section Valid.
Variable A : tables.
Variable C : cert.
Hypothesis Hshape : shape A C = true.
Hypothesis Hexact : exact A C = true.
Hypothesis Hnorec : uses_recovery A = false.
Variable orc : oracle.
Variable fuel : nat.

Definition pops_all (r : result) (s : pst) : Prop :=
  match r with ROk (Node p kids) => length kids = length (stk s) | _ => True end.

Lemma step_pops_all w m s : Inv A C w m s ->
  match step A orc fuel m s with Fin r s' => pops_all r s' | _ => True end.
Proof.
  intros (HL & _ & _ & _ & _ & Hm). unfold step. destruct m as [|k i|].
  - unfold next_token. destruct (rest s) as [|[k|e] r]; [exact I| |exact I].
    destruct (tk_idx k); [exact I|]. unfold unrec_error. destruct (expected_tokens _ _ _); exact I.
  - destruct (act_at A (top_state (stk s)) i) as [a|]; [|exact I].
    destruct (as_shift a); [exact I|]. destruct (as_reduce a) as [p|].
    + destruct (reduce A orc p (Some (tk_lo k)) (stk s)) as [[|r|st'] ev]; try exact I. destruct r; exact I.
    + rewrite (error_recovery_norec A Hnorec orc). unfold unrec_error. destruct (expected_tokens _ _ _); exact I.
  - destruct (eof_at A (top_state (stk s))) as [a|] eqn:Ea; [|exact I].
    destruct (as_reduce a) as [p|] eqn:Er.
    + assert (Ht : tact A (top_state (stk s)) None = AReduce p).
      { unfold tact. rewrite Ea. unfold decode.
        assert (Hs : as_shift a = None).
        { unfold as_reduce in Er. unfold as_shift. destruct (a <? 0)%Z eqn:H1; [|discriminate].
          apply Z.ltb_lt in H1. destruct (0 <? a)%Z eqn:H2; [apply Z.ltb_lt in H2; lia|reflexivity]. }
        rewrite Hs, Er. reflexivity. }
      pose proof (reduce_facts A C Hshape Hexact orc (stk s) None p None HL I Ht) as Hred.
      inversion Hred as [e kids Ho Hne Heq|kids Hst Hwf Hkids Hlen Heq|st' lo hi kids Hne Ho Hkids Hst' HL' Hlen Heq].
      * exact I.
      * cbn [pops_all logo]. subst kids. rewrite map_length, rev_length. reflexivity.
      * exact I.
    + rewrite (error_recovery_norec A Hnorec orc). unfold unrec_error. destruct (expected_tokens _ _ _); exact I.
Qed.

Lemma run_pops_all w : forall n m s r s', Inv A C w m s -> run A orc fuel n m s = (r, s') -> pops_all r s'.
Proof.
  induction n as [|n IH]; intros m s r s' HI H; cbn [run] in H.
  - inversion H; subst. exact I.
  - pose proof (step_pops_all w m s HI) as Hp.
    pose proof (step_inv A C Hshape Hexact Hnorec orc fuel w m s HI) as Hinv.
    destruct (step A orc fuel m s) as [m1 s1|r1 s1].
    + eapply IH; eauto.
    + inversion H; subst. exact Hp.
Qed.

Theorem whole_tree_spans_valid w p k ks s :
  Forall (fun k => match tk_idx k with Some t => t < tn_names A | None => True end) w ->
  drive A orc fuel (map IOk w) = (ROk (Node p (k :: ks)), s) ->
  exists lo hi, SpL (k :: ks) 0%Z None lo hi (acts3 (trace s)).
Proof.
  intros Hw H.
  destruct (whole_tree_spans A Hnorec orc fuel _ _ _ _ _ H) as (evs_b & evs_k & b & lo & hi & Heq & Hsp & Hall).
  assert (HI : Inv A C w MNeed (init (map IOk w))).
  { refine (conj _ (conj _ (conj _ (conj _ (conj _ _))))); cbn; auto.
    - rewrite toks_map_ok. reflexivity.
    - apply Forall_forall. intros i Hi. apply in_map_iff in Hi as (k0 & <- & Hk). rewrite Forall_forall in Hw. apply (Hw k0 Hk). }
  pose proof (run_pops_all w fuel MNeed _ _ _ HI H) as Hp. cbn [pops_all] in Hp.
  destruct (Hall Hp) as [-> ->]. cbn [app] in Heq. rewrite Heq. eauto.
Qed.
End Valid.

(** non-vacuity: S' -> S ; S -> A "x" B ; A -> eps ; B -> eps  on the input x@[5,7]: A is empty before the
    token (span 5,5), B is empty at the end of the input (span 7,7, the end of x), S spans (5,7) *)
Definition mk3 (p : nat) (lo hi : Z) : ev3 := (p, lo, hi).
Example rule_example :
  let x := {| tk_idx := Some 0; tk_id := 0%N; tk_lo := 5%Z; tk_hi := 7%Z |} in
  SpL [Node 1 [Node 2 []; Leaf x; Node 3 []]] 0%Z None 5%Z 7%Z [mk3 2 5 5; mk3 3 7 7; mk3 1 5 7].
Proof.
  intros x. apply SpL_one.
  change [mk3 2 5 5; mk3 3 7 7; mk3 1 5 7] with (([mk3 2 5 5] ++ ([] ++ [mk3 3 7 7])) ++ [(1, 5%Z, 7%Z)]).
  apply Sp_node.
  apply (SpL_cons (Node 2 []) [Leaf x; Node 3 []] 0%Z None 5%Z 5%Z 5%Z 7%Z [mk3 2 5 5] ([] ++ [mk3 3 7 7])); [discriminate| |].
  - exact (Sp_empty 2 0%Z (Some 5%Z)).
  - apply (SpL_cons (Leaf x) [Node 3 []] 5%Z None 5%Z 7%Z 7%Z 7%Z [] [mk3 3 7 7]); [discriminate| |].
    + exact (Sp_leaf x 5%Z None).
    + apply SpL_one. exact (Sp_empty 3 7%Z None).
Qed.
