(** C17: errors from the token stream and from fallible actions end the parse at once and are
    returned verbatim.  Holds for ANY tables (no validity hypothesis), any oracle, any fuel. *)
From Coq Require Import List ZArith Bool Arith Lia.
From LV Require Import LR.Driver.
Import ListNotations.

Section Errors.
Variable A : tables.
Variable orc : oracle.
Variable fuel : nat.
Variable input : list item.

Definition all_ok (n : nat) : Prop := forall j, j < n -> exists k, nth_error input j = Some (IOk k).
Definition no_fail (tr : list event) : Prop := forall p e, ~ In (ActFail p e) tr.

(* nothing has gone wrong so far *)
Definition good (s : pst) : Prop :=
  rest s = skipn (npulled s) input /\ all_ok (npulled s) /\ no_fail (trace s).

(* the run has just ended because of a stream error or a failing action *)
Definition halted (s : pst) (r : result) : Prop :=
  (exists k e tr, nth_error input k = Some (IErr e) /\ npulled s = S k /\ all_ok k /\
                  r = RErr e /\ trace s = Pull k :: tr /\ no_fail tr)
  \/ (exists p e tr, trace s = ActFail p e :: tr /\ r = RErr (PUser e) /\ no_fail tr /\
                     rest s = skipn (npulled s) input /\ all_ok (npulled s)).

Lemma skipn_cons_nth {X} (l : list X) n x r : skipn n l = x :: r -> nth_error l n = Some x /\ skipn (S n) l = r.
Proof.
  revert l; induction n as [|n IH]; intros [|y l] H; simpl in *; try discriminate.
  - inversion H; auto.
  - apply IH; assumption.
Qed.

Lemma no_fail_cons ev tr : no_fail tr -> (forall p e, ev <> ActFail p e) -> no_fail (ev :: tr).
Proof. intros H Hne p e [Heq|Hin]; [eapply Hne; eauto | eapply H; eauto]. Qed.

Lemma good_log s ev : good s -> (forall p e, ev <> ActFail p e) -> good (log s ev).
Proof. intros (H1 & H2 & H3) Hne. repeat split; simpl; auto using no_fail_cons. Qed.

Lemma good_set_stk s k : good s -> good (set_stk s k).
Proof. intros (H1 & H2 & H3). repeat split; simpl; auto. Qed.

Lemma all_ok_S n k : all_ok n -> nth_error input n = Some (IOk k) -> all_ok (S n).
Proof. intros H Hn j Hj. destruct (Nat.eq_dec j n) as [->|]; [eauto | apply H; lia]. Qed.

Lemma next_token_spec s n s' :
  good s -> next_token A fuel s = (n, s') ->
  good s' \/ (exists r, n = NDone r /\ halted s' r).
Proof.
  intros G H. pose proof G as (Hr & Hok & Hnf). unfold next_token in H.
  destruct (rest s) as [|[k|e] r] eqn:Hrest.
  - inversion H; subst. left. apply good_log; [exact G | discriminate].
  - symmetry in Hr. apply skipn_cons_nth in Hr as [Hn Hs].
    assert (G1 : good {| stk := stk s; rest := r; npulled := S (npulled s); last_loc := tk_hi k;
                        trace := Pull (npulled s) :: trace s |}).
    { repeat split; simpl; auto. eapply all_ok_S; eauto. apply no_fail_cons; [auto|discriminate]. }
    destruct (tk_idx k); inversion H; subst; left; exact G1.
  - symmetry in Hr. apply skipn_cons_nth in Hr as [Hn Hs].
    inversion H; subst. right. eexists; split; [reflexivity|]. left.
    exists (npulled s), e, (trace s). simpl. repeat split; auto.
Qed.

Definition quiet (ev : option event) : Prop := match ev with Some (ActFail _ _) => False | _ => True end.

Lemma reduce_spec p la st rr ev :
  reduce A orc p la st = (rr, ev) ->
  (exists e, ev = Some (ActFail p e) /\ rr = RdDone (RErr (PUser e))) \/ quiet ev.
Proof.
  unfold reduce. intros H.
  destruct (nth_error (prods A) p) as [[nt rhs]|]; [|inversion H; right; exact I].
  destruct (length st <? length rhs); [inversion H; right; exact I|].
  destruct (negb _); [inversion H; right; exact I|].
  destruct (match rev (firstn (length rhs) st) with [] => _ | e :: _ => _ end) as [lo hi].
  destruct (Nat.eqb p (start_prod A)); [inversion H; right; exact I|].
  destruct (orc p _) as [e|]; inversion H; subst; [left; eauto | right; exact I].
Qed.

Lemma good_logo s ev : good s -> quiet ev -> good (logo s ev).
Proof.
  intros G Q. destruct ev as [ev|]; [|exact G]. simpl. apply good_log; auto.
  intros p e ->. exact Q.
Qed.

Lemma halted_fail s p e : good s -> halted (logo s (Some (ActFail p e))) (RErr (PUser e)).
Proof.
  intros (H1 & H2 & H3). right. exists p, e, (trace s). simpl. repeat split; auto.
Qed.

Lemma pre_reduce_spec : forall n la s res,
  good s -> pre_reduce A orc n la s = res ->
  match res with
  | PrDone r s' => good s' \/ halted s' r
  | PrBreak s' => good s'
  | _ => True
  end.
Proof.
  induction n as [|n IH]; intros la s res G H; simpl in H; [subst; exact I|].
  destruct (act_at A (top_state (stk s)) (err_col A)) as [a|]; [|subst; exact I].
  destruct (as_reduce a) as [p|]; [|subst; exact G].
  destruct (reduce A orc p la (stk s)) as [rr ev] eqn:Hred.
  apply reduce_spec in Hred as [(e & -> & ->)|Q].
  - subst. right. apply halted_fail; exact G.
  - destruct rr as [|r|k]; subst; [exact I | left; apply good_logo; auto |].
    eapply IH; [|reflexivity]. apply good_set_stk, good_logo; auto.
Qed.

Lemma find_loop_spec : forall n err la dropped s res,
  good s -> find_loop A fuel n err la dropped s = res ->
  match res with
  | FlDone r s' => good s' \/ halted s' r
  | FlFound _ _ _ s' => good s'
  | _ => True
  end.
Proof.
  induction n as [|n IH]; intros err la dropped s res G H; simpl in H.
  - destruct (find_state A fuel (stk s) 0 (option_map snd la)); subst; auto.
    destruct la as [[k i]|]; auto.
  - destruct (find_state A fuel (stk s) 0 (option_map snd la)); subst; auto.
    destruct la as [[k i]|]; auto.
    destruct (next_token A fuel (log s (Drop (npulled s - 1)))) as [nx s1] eqn:Hnx.
    apply next_token_spec in Hnx; [|apply good_log; [exact G|discriminate]].
    destruct nx as [k' i'| |r].
    + destruct Hnx as [G1|(r & Hr & _)]; [|discriminate]. eapply IH; [exact G1|reflexivity].
    + destruct Hnx as [G1|(r & Hr & _)]; [|discriminate]. eapply IH; [exact G1|reflexivity].
    + destruct Hnx as [G1|(r' & Hr & Hh)]; [left; exact G1|]. inversion Hr; subst. right; exact Hh.
Qed.

Lemma error_recovery_spec la s n s' :
  good s -> error_recovery A orc fuel la s = (n, s') ->
  good s' \/ (exists r, n = NDone r /\ halted s' r).
Proof.
  intros G H. unfold error_recovery in H.
  destruct (negb (uses_recovery A)); [inversion H; subst; left; exact G|].
  destruct (unrec_error A fuel s (option_map fst la)) as [v|err| |];
    try (inversion H; subst; left; exact G).
  destruct (pre_reduce A orc fuel _ s) as [| |r s1|s1] eqn:Hpre;
    try (inversion H; subst; left; exact G).
  - apply pre_reduce_spec in Hpre; [|exact G]. inversion H; subst.
    destruct Hpre as [G1|Hh]; [left; exact G1 | right; eauto].
  - apply pre_reduce_spec in Hpre; [|exact G].
    destruct (find_loop A fuel _ err la [] s1) as [| |r s2|j la' dropped s2] eqn:Hfl;
      try (inversion H; subst; left; exact Hpre).
    + apply find_loop_spec in Hfl; [|exact Hpre]. inversion H; subst.
      destruct Hfl as [G2|Hh]; [left; exact G2 | right; eauto].
    + apply find_loop_spec in Hfl; [|exact Hpre].
      destruct (act_at A _ (err_col A)) as [a|]; [|inversion H; subst; left; exact Hfl].
      destruct (as_shift a) as [es|]; [|inversion H; subst; left; exact Hfl].
      destruct la' as [[k i]|]; inversion H; subst; left; apply good_set_stk; exact Hfl.
Qed.

Lemma step_spec m s :
  good s ->
  match step A orc fuel m s with
  | Cont _ s' => good s'
  | Fin r s' => good s' \/ halted s' r
  end.
Proof.
  intros G. unfold step. destruct m as [|k i|].
  - destruct (next_token A fuel s) as [nx s1] eqn:Hnx. apply next_token_spec in Hnx; [|exact G].
    destruct nx; destruct Hnx as [G1|(r' & Hr & Hh)]; try discriminate; auto.
    inversion Hr; subst; auto.
  - destruct (act_at A (top_state (stk s)) i) as [a|]; [|left; exact G].
    destruct (as_shift a) as [tg|].
    { apply good_log; [apply good_set_stk; exact G|discriminate]. }
    destruct (as_reduce a) as [p|].
    + destruct (reduce A orc p (Some (tk_lo k)) (stk s)) as [rr ev] eqn:Hred.
      apply reduce_spec in Hred as [(e & -> & ->)|Q].
      * right. apply halted_fail; exact G.
      * destruct rr as [|[v|e| |]|st']; try (left; apply good_logo; auto; fail); [left; exact G|].
        apply good_set_stk, good_logo; auto.
    + destruct (error_recovery A orc fuel (Some (k, i)) s) as [nx s1] eqn:Her.
      apply error_recovery_spec in Her; [|exact G].
      destruct nx; destruct Her as [G1|(r' & Hr & Hh)]; try discriminate; auto.
      inversion Hr; subst; auto.
  - destruct (eof_at A (top_state (stk s))) as [a|]; [|left; exact G].
    destruct (as_reduce a) as [p|].
    + destruct (reduce A orc p None (stk s)) as [rr ev] eqn:Hred.
      apply reduce_spec in Hred as [(e & -> & ->)|Q].
      * right. apply halted_fail; exact G.
      * destruct rr as [|r|st']; [left; exact G | left; apply good_logo; auto |].
        apply good_set_stk, good_logo; auto.
    + destruct (error_recovery A orc fuel None s) as [nx s1] eqn:Her.
      apply error_recovery_spec in Her; [|exact G].
      destruct nx; destruct Her as [G1|(r' & Hr & Hh)]; try discriminate; auto.
      inversion Hr; subst; auto.
Qed.

Lemma run_spec : forall n m s r s',
  good s -> run A orc fuel n m s = (r, s') -> good s' \/ halted s' r.
Proof.
  induction n as [|n IH]; intros m s r s' G H; simpl in H.
  - inversion H; subst; left; exact G.
  - pose proof (step_spec m s G) as Hs.
    destruct (step A orc fuel m s) as [m' s1|r1 s1].
    + eapply IH; eauto.
    + inversion H; subst. exact Hs.
Qed.

Lemma good_init : good (init input).
Proof. repeat split; simpl; auto. - intros j Hj; lia. - intros p e []. Qed.

(** A stream error that the run reaches is returned verbatim, is the last item pulled, and
    nothing (no action, no shift, no drop) happens after it. *)
Theorem stream_error_verbatim r s k e :
  drive A orc fuel input = (r, s) ->
  nth_error input k = Some (IErr e) -> k < npulled s ->
  r = RErr e /\ npulled s = S k /\ exists tr, trace s = Pull k :: tr.
Proof.
  intros H Hk Hlt. apply run_spec in H; [|apply good_init].
  destruct H as [(_ & Hok & _)|[(k' & e' & tr & Hn & Hp & Hok & -> & Htr & _)|(p & e' & tr & Htr & -> & _ & _ & Hok)]].
  - destruct (Hok k Hlt) as [t Ht]. congruence.
  - assert (k = k').
    { destruct (Nat.lt_ge_cases k k') as [Hl|Hg]; [|lia].
      destruct (Hok k Hl) as [t Ht]. congruence. }
    subst k'. rewrite Hn in Hk. inversion Hk; subst. eauto.
  - destruct (Hok k Hlt) as [t Ht]. congruence.
Qed.

(** A failing action ends the run with exactly its error, and is the last event. *)
Theorem action_error_verbatim r s p e :
  drive A orc fuel input = (r, s) -> In (ActFail p e) (trace s) ->
  r = RErr (PUser e) /\ exists tr, trace s = ActFail p e :: tr /\ no_fail tr.
Proof.
  intros H Hin. apply run_spec in H; [|apply good_init].
  destruct H as [(_ & _ & Hnf)|[(k' & e' & tr & _ & _ & _ & _ & Htr & Hnf)|(p' & e' & tr & Htr & -> & Hnf & _)]].
  - exfalso; eapply Hnf; eauto.
  - rewrite Htr in Hin. destruct Hin as [Hd|Hin]; [discriminate|]. exfalso; eapply Hnf; eauto.
  - rewrite Htr in Hin. destruct Hin as [Hd|Hin].
    + inversion Hd; subst. eauto.
    + exfalso; eapply Hnf; eauto.
Qed.

(** Only items before the first stream error are ever read. *)
Theorem never_reads_past_error r s k e :
  drive A orc fuel input = (r, s) -> nth_error input k = Some (IErr e) -> npulled s <= S k.
Proof.
  intros H Hk. destruct (Nat.le_gt_cases (npulled s) k) as [|Hlt]; [lia|].
  destruct (stream_error_verbatim _ _ _ _ H Hk Hlt) as (_ & -> & _). lia.
Qed.
End Errors.

(* a fallible action's error comes from the oracle on the production's own children: the event is
   logged exactly when [orc] fails *)
Lemma reduce_fail_iff A orc p la st rr e :
  reduce A orc p la st = (rr, Some (ActFail p e)) ->
  exists kids, orc p kids = Some e.
Proof.
  unfold reduce. intros H.
  destruct (nth_error (prods A) p) as [[nt rhs]|]; [|inversion H].
  destruct (length st <? length rhs); [inversion H|].
  destruct (negb _); [inversion H|].
  destruct (match rev (firstn (length rhs) st) with [] => _ | e :: _ => _ end) as [lo hi].
  destruct (Nat.eqb p (start_prod A)); [inversion H|].
  destruct (orc p _) as [e'|] eqn:Ho; inversion H; subst. eauto.
Qed.
