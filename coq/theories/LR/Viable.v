(** Viable prefixes: with a validated, productive certificate, what the parser has consumed can always
    be completed to a sentence.  Used for the second half of C04 (the prefix before the error token is
    a prefix of a sentence) . *)
From Coq Require Import List ZArith Bool Arith Lia Wf_nat.
From LV Require Import LR.Driver LR.Validator LR.Safety LR.ValidatorSpec LR.Soundness LR.Completeness LR.ErrorPos.
Import ListNotations.

Section Viable.
Variable A : tables.
Variable C : cert.
Hypothesis Hshape : shape A C = true.
Hypothesis Hexact : exact A C = true.
Hypothesis Hprod : productive A C = true.
Hypothesis Hnorec : uses_recovery A = false.

Notation core := (core C).
Notation Linked := (Linked A core).
Notation wf := (wf A).
Notation wfp := (wfp A).
Notation rhs := (rhs A).
Notation lhs := (lhs A).
Notation yields := (yields).

Definition mk (t : nat) : token := {| tk_idx := Some t; tk_id := 0%N; tk_lo := 0%Z; tk_hi := 0%Z |}.

(** * every nonterminal that occurs derives a terminal string *)
Lemma sym_ok_of p x : p < n_prods A -> In x (rhs p) -> sym_ok A x = true.
Proof.
  intros Hp Hx. pose proof (prod_shape_of A C Hshape p Hp) as H. unfold prod_shape in H.
  rewrite !andb_true_iff in H. destruct H as ((((_ & H) & _) & _) & _).
  rewrite forallb_forall in H. exact (H x Hx).
Qed.

Lemma occurs_rhs p m : p < n_prods A -> In (Nt m) (rhs p) -> occurs A m = true.
Proof.
  intros Hp Hin. unfold occurs. apply existsb_exists. exists p. split; [apply seq_in; exact Hp|].
  apply orb_true_iff. right. apply existsb_exists. exists (Nt m). split; [exact Hin|apply sym_eqb_refl].
Qed.

Lemma occurs_lhs p : p < n_prods A -> occurs A (lhs p) = true.
Proof.
  intros Hp. unfold occurs. apply existsb_exists. exists p. split; [apply seq_in; exact Hp|].
  apply orb_true_iff. left. apply Nat.eqb_refl.
Qed.

Lemma names_term' : tn_names A = tn_term A.
Proof. exact (names_term A C Hshape Hnorec). Qed.

Lemma prod_tree : forall r n, prank C n < r -> n < n_nt A -> occurs A n = true -> exists t, wfp t (Nt n).
Proof.
  induction r as [|r IH]; intros n Hr Hn Ho; [lia|].
  unfold productive in Hprod. rewrite forallb_forall in Hprod.
  specialize (Hprod n (proj2 (seq_in _ _) Hn)). rewrite Ho in Hprod. cbn [negb orb] in Hprod.
  apply existsb_exists in Hprod. destruct Hprod as (q & Hq & Hall).
  unfold prods_of in Hq. apply filter_In in Hq. destruct Hq as [Hq Hl].
  apply seq_in in Hq. apply Nat.eqb_eq in Hl.
  rewrite forallb_forall in Hall.
  assert (Hk : exists kids, Forall2 wfp kids (rhs q)).
  { assert (Hsub : forall x, In x (rhs q) -> In x (rhs q)) by auto.
    revert Hsub. generalize (rhs q) at 1 3 as l.
    induction l as [|x l IHl]; intros Hsub; [exists []; constructor|].
    destruct IHl as [ks Hks]; [intros y Hy; apply Hsub; right; exact Hy|].
    assert (Hx : In x (rhs q)) by (apply Hsub; left; reflexivity).
    pose proof (Hall x Hx) as Hax. pose proof (sym_ok_of q x Hq Hx) as Hok.
    destruct x as [t|m].
    - exists (Leaf (mk t) :: ks). constructor; [|exact Hks]. constructor; [reflexivity|].
      rewrite names_term'. cbn in Hok. apply Nat.ltb_lt in Hok. exact Hok.
    - apply Nat.ltb_lt in Hax. cbn in Hok. apply Nat.ltb_lt in Hok.
      destruct (IH m) as [tm Htm]; [lia|exact Hok|exact (occurs_rhs q m Hq Hx)|].
      exists (tm :: ks). constructor; assumption. }
  destruct Hk as [kids Hk]. exists (Node q kids). rewrite <- Hl. constructor; [exact Hq|exact Hk].
Qed.

Lemma sym_tree p x : p < n_prods A -> In x (rhs p) -> exists t, wfp t x.
Proof.
  intros Hp Hx. pose proof (sym_ok_of p x Hp Hx) as Hok. destruct x as [t|m]; cbn in Hok.
  - exists (Leaf (mk t)). constructor; [reflexivity|]. rewrite names_term'. apply Nat.ltb_lt in Hok. exact Hok.
  - apply Nat.ltb_lt in Hok. apply (prod_tree (S (prank C m)) m); [lia|exact Hok|exact (occurs_rhs p m Hp Hx)].
Qed.

Lemma suffix_trees p d : p < n_prods A -> exists ts, Forall2 wfp ts (skipn d (rhs p)).
Proof.
  intros Hp.
  assert (Hsub : forall x, In x (skipn d (rhs p)) -> In x (rhs p)).
  { intros x Hx. rewrite <- (firstn_skipn d (rhs p)). apply in_or_app. right. exact Hx. }
  revert Hsub. generalize (skipn d (rhs p)) as l.
  induction l as [|x l IH]; intros Hsub; [exists []; constructor|].
  destruct IH as [ts Hts]; [intros y Hy; apply Hsub; right; exact Hy|].
  destruct (sym_tree p x Hp (Hsub x (or_introl eq_refl))) as [t Ht].
  exists (t :: ts). constructor; assumption.
Qed.

(** * completing an item of the top state to a sentence *)
Definition flat (ts : list tree) : list token := flat_map yield ts.

Definition Q (st : list entry) (it : citem) : Prop :=
  forall ts, Forall2 wfp ts (skipn (i_dot it) (rhs (i_prod it))) ->
  exists t v', wfp t (Nt (start_nt A)) /\ yield t = yields st ++ flat ts ++ v'.

Definition good (st : list entry) : Prop := Linked st /\ Forall (fun e => pure (e_tree e)) st.

Lemma good_skipn k st : good st -> good (skipn k st).
Proof. intros [H1 H2]. split; [apply linked_skipn; exact H1|apply Forall_skipn; exact H2]. Qed.

Lemma wf_pure_wfp' t X : wf t X -> pure t -> wfp t X.
Proof.
  revert X. induction t as [k|e d lo0 hi0|p kids IH] using tree_ind'; intros X Hwf Hp.
  - inversion Hwf; subst. constructor; [assumption|]. rewrite names_term'. assumption.
  - destruct Hp.
  - inversion Hwf as [| |p' kids' Hlt Hk]; subst. constructor; [exact Hlt|].
    apply pure_node in Hp. clear Hwf Hlt. revert IH Hp.
    induction Hk as [|t Y ts beta Ht _ IHk]; intros IH Hp; constructor.
    + inversion IH; inversion Hp; subst. auto.
    + inversion IH; inversion Hp; subst. auto.
Qed.

(* the entries popped for the part of the rhs before the dot, as trees *)
Lemma popped_trees st p d : good st -> core (top_state st) p d ->
  d <= length st /\ core (top_state (skipn d st)) p 0 /\
  Forall2 wfp (map e_tree (rev (firstn d st))) (firstn d (rhs p)).
Proof.
  intros [HL Hpu] Hc.
  destruct (walk_back A core (EXK A C Hshape Hexact) (EX0 A C Hshape Hexact) st p d HL Hc) as [Hlen Hall].
  destruct (Hall d (le_n _)) as [Hc0 Hsy]. rewrite Nat.sub_diag in Hc0, Hsy. cbn [skipn] in Hsy.
  split; [exact Hlen|]. split; [exact Hc0|].
  rewrite <- Hsy. clear Hsy Hall.
  assert (Hf : Forall (fun e => wfp (e_tree e) (esym A e)) (rev (firstn d st))).
  { apply Forall_rev'. apply Forall_firstn.
    pose proof (linked_forall A core st HL) as Hw. rewrite Forall_forall in *.
    intros e He. apply wf_pure_wfp'; [apply Hw; exact He|apply Hpu; exact He]. }
  generalize dependent (rev (firstn d st)). intros L Hf.
  induction Hf as [|e l He _ IH]; cbn [map]; constructor; assumption.
Qed.

Lemma Forall2_app_wfp l1 l2 s1 s2 : Forall2 wfp l1 s1 -> Forall2 wfp l2 s2 -> Forall2 wfp (l1 ++ l2) (s1 ++ s2).
Proof. apply Forall2_app. Qed.

Lemma flat_app a b : flat (a ++ b) = flat a ++ flat b.
Proof. unfold flat. apply flat_map_app. Qed.

Lemma skipn_cons_nth {X} (l : list X) d x : nth_error l d = Some x -> skipn d l = x :: skipn (S d) l.
Proof.
  revert l; induction d as [|d IH]; intros [|y l] H; cbn in *; try discriminate.
  - inversion H. reflexivity.
  - apply IH. exact H.
Qed.

(* one level up: the item's production is reduced (as a tree) and handed to a parent item of the
   state exposed below it *)
Lemma climb st it : good st -> In it (items_of C (top_state st)) ->
  (forall it0, In it0 (items_of C (top_state (skipn (i_dot it) st))) -> i_prod it0 = i_prod it -> i_dot it0 = 0 ->
     (top_state (skipn (i_dot it) st) = 0 /\ i_prod it = start_prod A) \/
     exists par, In par (items_of C (top_state (skipn (i_dot it) st))) /\
                 nth_error (rhs (i_prod par)) (i_dot par) = Some (Nt (lhs (i_prod it))) /\
                 Q (skipn (i_dot it) st) par) ->
  Q st it.
Proof.
  intros Hg Hin Hup ts Hts.
  set (p := i_prod it) in *. set (d := i_dot it) in *.
  pose proof (in_core C _ _ Hin) as Hc. fold p d in Hc.
  destruct (popped_trees st p d Hg Hc) as (Hlen & Hc0 & Hpop).
  assert (Hp : p < n_prods A) by (exact (core_lt A C Hshape _ _ _ Hc)).
  set (T := Node p (map e_tree (rev (firstn d st)) ++ ts)).
  assert (HT : wfp T (Nt (lhs p))).
  { constructor; [exact Hp|]. rewrite <- (firstn_skipn d (rhs p)). apply Forall2_app_wfp; assumption. }
  assert (HyT : yields st ++ flat ts = yields (skipn d st) ++ yield T).
  { rewrite (yields_split d st). unfold T. rewrite yield_node. change (flat_map yield) with flat.
    rewrite flat_app, <- app_assoc. reflexivity. }
  destruct (core_in C _ _ _ Hc0) as (it0 & Hin0 & Hp0 & Hd0).
  destruct (Hup it0 Hin0 Hp0 Hd0) as [[Hz Hs]|(par & Hpar & Hn & HQ)].
  - exists T, []. split.
    + unfold start_nt. rewrite <- Hs. exact HT.
    + rewrite app_nil_r, HyT.
      rewrite (top_zero_nil A core (E0 A C Hshape Hexact) (skipn d st) (proj1 (good_skipn d st Hg)) Hz). reflexivity.
  - assert (Hpp : i_prod par < n_prods A) by (exact (core_lt A C Hshape _ _ _ (in_core C _ _ Hpar))).
    destruct (suffix_trees (i_prod par) (S (i_dot par)) Hpp) as [rest Hrest].
    destruct (HQ (T :: rest)) as (t & v' & Ht & Hy).
    + rewrite (skipn_cons_nth _ _ _ Hn). constructor; assumption.
    + exists t, (flat rest ++ v'). split; [exact Ht|].
      rewrite Hy. cbn [flat flat_map]. change (flat_map yield rest) with (flat rest).
      rewrite <- !app_assoc. rewrite (app_assoc (yields st) (flat ts)), HyT. rewrite <- !app_assoc. reflexivity.
Qed.

Lemma complete_item : forall n st, length st <= n -> good st ->
  forall it, In it (items_of C (top_state st)) -> Q st it.
Proof.
  induction n as [n IHn] using lt_wf_ind. intros st Hlen Hg.
  (* items with the dot inside: the stack below is shorter *)
  assert (Hpos : forall it, In it (items_of C (top_state st)) -> 0 < i_dot it -> Q st it).
  { intros it Hin Hd. apply climb; [exact Hg|exact Hin|].
    intros it0 Hin0 Hp0 Hd0.
    pose proof (closure_spec A C Hshape Hexact _ it0 Hin0) as Hcl. rewrite Hd0 in Hcl.
    destruct Hcl as [[Hz Hs]|(par & Hpar & Hn & _)]; [left; split; [exact Hz|congruence]|].
    right. exists par. split; [exact Hpar|]. split; [rewrite <- Hp0; exact Hn|].
    destruct (popped_trees st (i_prod it) (i_dot it) Hg (in_core C _ _ Hin)) as (Hl & _).
    assert (Hsk : length (skipn (i_dot it) st) < length st) by (rewrite skipn_length; lia).
    apply (IHn (length (skipn (i_dot it) st))); [lia|lia|apply good_skipn; exact Hg|exact Hpar]. }
  (* closure items: by the rank of the certificate *)
  assert (Hrank : forall r it, i_rank it < r -> In it (items_of C (top_state st)) -> i_dot it = 0 -> Q st it).
  { induction r as [|r IHr]; intros it Hr Hin Hd; [lia|].
    apply climb; [exact Hg|exact Hin|]. rewrite Hd. cbn [skipn].
    intros it0 Hin0 Hp0 Hd0.
    (* use the item itself, whose rank is known *)
    pose proof (closure_spec A C Hshape Hexact _ it Hin) as Hcl. rewrite Hd in Hcl.
    destruct Hcl as [[Hz Hs]|(par & Hpar & Hn & Hrk)]; [left; split; assumption|].
    right. exists par. split; [exact Hpar|]. split; [exact Hn|].
    destruct (i_dot par) as [|dp] eqn:Edp.
    - apply (IHr par); [specialize (Hrk eq_refl); lia|exact Hpar|exact Edp].
    - apply Hpos; [exact Hpar|lia]. }
  intros it Hin. destruct (i_dot it) as [|d] eqn:Ed.
  - apply (Hrank (S (i_rank it))); [lia|exact Hin|exact Ed].
  - apply Hpos; [exact Hin|lia].
Qed.

(** * what has been consumed is a prefix of a sentence *)
Definition sentence_ (w : list token) : Prop := exists t, wfp t (Nt (start_nt A)) /\ yield t = w.
Definition viable (u : list token) : Prop := exists v', sentence_ (u ++ v').

(* a state of a linked stack holds an item (state 0: the start item; otherwise a kernel item) *)
Hypothesis Hstart : core 0 (start_prod A) 0.

Lemma viable_stack st : good st -> (exists it, In it (items_of C (top_state st))) -> viable (yields st).
Proof.
  intros Hg [it Hin].
  assert (Hp : i_prod it < n_prods A) by (exact (core_lt A C Hshape _ _ _ (in_core C _ _ Hin))).
  destruct (suffix_trees (i_prod it) (i_dot it) Hp) as [ts Hts].
  destruct (complete_item (length st) st (le_n _) Hg it Hin ts Hts) as (t & v' & Ht & Hy).
  exists (flat ts ++ v'). exists t. split; [exact Ht|exact Hy].
Qed.

(* shifting a token: the state expects it, so the consumed input followed by it is viable *)
Lemma viable_shift st k i s' : good st -> tk_idx k = Some i -> i < tn_term A ->
  tact A (top_state st) (Some i) = AShift s' -> viable (yields st ++ [k]).
Proof.
  intros Hg Hk Hi Ha.
  assert (Hs : top_state st < n_states A).
  { eapply (tact_state A C Hshape (top_state st) (Some i) (AShift s')); [exact Ha|discriminate|left; lia]. }
  destruct (exact_state A C Hexact _ Hs) as (He & _ & _). unfold edges_ok in He.
  apply andb_true_iff in He as [He _]. rewrite forallb_forall in He.
  specialize (He i (proj2 (seq_in _ _) Hi)). rewrite Ha in He.
  apply andb_true_iff in He as [Hex _]. apply expects_spec in Hex. destruct Hex as (p & d & Hc & Hn).
  destruct (core_in C _ _ _ Hc) as (it & Hin & Hpi & Hdi).
  assert (Hp : p < n_prods A) by (exact (core_lt A C Hshape _ _ _ Hc)).
  destruct (suffix_trees p (S d) Hp) as [ts Hts].
  destruct (complete_item (length st) st (le_n _) Hg it Hin (Leaf k :: ts)) as (t & v' & Ht & Hy).
  - rewrite Hpi, Hdi, (skipn_cons_nth _ _ _ Hn). constructor; [|exact Hts].
    constructor; [exact Hk|]. rewrite names_term'. exact Hi.
  - exists (flat ts ++ v'). exists t. split; [exact Ht|].
    rewrite Hy. cbn [flat flat_map yield]. rewrite <- !app_assoc. reflexivity.
Qed.

(** * the [accepts] simulation of the expected-token computation: if it says that terminal [i] would
    be shifted, then after the reductions it simulates the stack really shifts [i], and nothing of
    what was consumed changes *)
Hypothesis Hseo : start_eof_only A = true.

Lemma states_of_skipn k st : k <= length st -> skipn k (states_of st) = states_of (skipn k st).
Proof.
  unfold states_of. revert st. induction k as [|k IH]; intros st Hk; [reflexivity|].
  destruct st as [|e st]; [cbn in Hk; lia|]. cbn [map app skipn]. apply IH. cbn in Hk. lia.
Qed.

Lemma hd_states_of st : hd 0 (states_of st) = top_state st.
Proof. destruct st; reflexivity. Qed.

Lemma accepts_shift : forall f st i, good st -> i < tn_term A ->
  accepts A f (states_of st) (Some i) = ATrue ->
  exists st' target, good st' /\ yields st' = yields st /\ tact A (top_state st') (Some i) = AShift target.
Proof.
  induction f as [|f IH]; intros st i Hg Hi H; cbn [accepts] in H; [discriminate|].
  assert (Hst : states_of st = top_state st :: tl (states_of st)) by (destruct st; reflexivity).
  rewrite Hst in H. rewrite <- Hst in H.
  destruct (act_at A (top_state st) i) as [a|] eqn:Ea; [|discriminate].
  destruct (a =? 0)%Z eqn:Ez; [discriminate|].
  destruct (as_reduce a) as [p|] eqn:Er.
  - (* a simulated reduction *)
    assert (Hsh : as_shift a = None).
    { unfold as_reduce in Er. unfold as_shift. destruct (a <? 0)%Z eqn:Hn; [|discriminate].
      apply Z.ltb_lt in Hn. destruct (0 <? a)%Z eqn:Hp; [apply Z.ltb_lt in Hp; lia|reflexivity]. }
    assert (Ht : tact A (top_state st) (Some i) = AReduce p) by (unfold tact, decode; rewrite Ea, Hsh, Er; reflexivity).
    destruct Hg as [HL Hpu].
    assert (Hla : la_ok A (Some i)) by exact Hi.
    destruct (RJ A C Hshape Hexact (top_state st) (Some i) p Hi Ht) as [Hcp Hp].
    pose proof (prod_shape_of A C Hshape p Hp) as Hps. unfold prod_shape in Hps.
    rewrite !andb_true_iff in Hps. destruct Hps as ((((_ & _) & Hsim) & _) & _).
    destruct (shape_proj A C Hshape) as (_&_&_&_&_&_&_&_&_&Hlp&Hln&_).
    apply Nat.eqb_eq in Hlp, Hln.
    assert (Hnp : nth_error (sim_pop A) p = Some (nth p (sim_pop A) 0)) by (apply nth_error_nth'; unfold n_prods in *; lia).
    assert (Hnn : nth_error (sim_nt A) p = Some (nth p (sim_nt A) None)) by (apply nth_error_nth'; unfold n_prods in *; lia).
    rewrite Hnp, Hnn in H.
    destruct (nth p (sim_nt A) None) as [nt|] eqn:Ent.
    + rewrite !andb_true_iff in Hsim. destruct Hsim as ((Hns & Hnt) & Hpop).
      apply Nat.eqb_eq in Hnt, Hpop. apply negb_true_iff, Nat.eqb_neq in Hns.
      rewrite Hpop in H. subst nt.
      pose proof (reduce_linked A core (EXK A C Hshape Hexact) (EXC A C Hshape Hexact) (EX0 A C Hshape Hexact)
                    (E0 A C Hshape Hexact) (RJ A C Hshape Hexact) (start_fresh A C Hshape) (core_lt A C Hshape)
                    no_fail st (Some i) p None HL Hla Ht) as Hred.
      inversion Hred as [e kids Ho Hne Heq|kids Hst' Hwf Hkids Hlen Heq|st' lo hi kids Hne Ho Hkids Hst' HL' Hlen Heq]; try discriminate.
      * congruence.
      * destruct (length (states_of st) <=? length (rhs p)) eqn:El; [discriminate|].
        rewrite (states_of_skipn _ _ Hlen), hd_states_of in H.
        assert (Hg' : good st').
        { split; [exact HL'|]. subst st'. constructor; [|apply Forall_skipn; exact Hpu].
          cbn [e_tree]. apply pure_node. subst kids. apply Forall_forall. intros t Hin.
          apply in_map_iff in Hin as (e & <- & Hin). apply in_rev in Hin. apply firstn_In in Hin.
          rewrite Forall_forall in Hpu. auto. }
        assert (Hy' : yields st' = yields st).
        { subst st'. rewrite yields_cons. cbn [e_tree]. rewrite yield_node. subst kids.
          rewrite (yields_split (length (rhs p)) st). reflexivity. }
        assert (Hso : states_of st' = goto_at A (top_state (skipn (length (rhs p)) st)) (lhs p) :: states_of (skipn (length (rhs p)) st))
          by (subst st'; reflexivity).
        rewrite <- Hso in H.
        destruct (IH st' i Hg' Hi H) as (st2 & target & Hg2 & Hy2 & Ht2).
        exists st2, target. repeat split; [apply Hg2|apply Hg2|congruence|exact Ht2].
    + (* the accept production on a real lookahead: excluded by start_eof_only *)
      exfalso. apply Nat.eqb_eq in Hsim.
      assert (Hs : top_state st < n_states A).
      { eapply (tact_state A C Hshape _ (Some i) _ Ht); [discriminate|left; lia]. }
      unfold start_eof_only in Hseo. rewrite forallb_forall in Hseo.
      specialize (Hseo _ (proj2 (seq_in _ _) Hs)). rewrite forallb_forall in Hseo.
      specialize (Hseo i (proj2 (seq_in _ _) Hi)). rewrite Ht, Hsim, Nat.eqb_refl in Hseo. discriminate.
  - (* the entry is a shift *)
    exists st. assert (Hp : (0 < a)%Z).
    { unfold as_reduce in Er. destruct (a <? 0)%Z eqn:Hn; [discriminate|]. apply Z.ltb_ge in Hn.
      apply Z.eqb_neq in Ez. lia. }
    exists (Z.to_nat (a - 1)). repeat split; try apply Hg.
    unfold tact, decode. rewrite Ea. unfold as_shift. apply Z.ltb_lt in Hp. rewrite Hp. reflexivity.
Qed.

Lemma expected_go_in f l : forall n i L x, expected_go A f l i n = EList L -> In x L -> accepts A f l (Some x) = ATrue /\ i <= x < i + n.
Proof.
  induction n as [|n IH]; intros i L x H Hx; cbn [expected_go] in H.
  - inversion H; subst. destruct Hx.
  - destruct (accepts A f l (Some i)) eqn:Ea; try discriminate.
    + destruct (expected_go A f l (S i) n) as [L'| |] eqn:E; try discriminate. inversion H; subst.
      destruct Hx as [<-|Hx]; [split; [exact Ea|lia]|]. destruct (IH _ _ _ E Hx) as [H1 H2]. split; [exact H1|lia].
    + destruct (IH _ _ _ H Hx) as [H1 H2]. split; [exact H1|lia].
Qed.

(* every terminal of an expected list computed on a good stack is a viable continuation *)
Lemma expected_viable f st L x k : good st ->
  expected_go A f (states_of st) 0 (tn_names A) = EList L -> In x L -> tk_idx k = Some x ->
  viable (yields st ++ [k]).
Proof.
  intros Hg HL Hx Hk. destruct (expected_go_in f _ _ _ _ _ HL Hx) as [Ha Hr].
  rewrite names_term' in Hr.
  destruct (accepts_shift f st x Hg ltac:(lia) Ha) as (st' & target & Hg' & Hy' & Ht').
  rewrite <- Hy'. apply (viable_shift st' k x target Hg' Hk ltac:(lia) Ht').
Qed.
End Viable.
