(** Stack invariant of the table-driven parser under the [exact] validator conditions (given here as
    section hypotheses; LR/ValidatorSpec.v derives them from [valid A C = true]):
    consecutive stack entries are linked by justified automaton edges, every tree on the stack is
    well formed for its edge label, a reduce pops exactly its right-hand side and never panics. *)
From Coq Require Import List ZArith Bool Arith Lia.
From LV Require Import LR.Driver LR.Validator.
Import ListNotations.

Section Safety.
Variable A : tables.
Notation lhs := (lhs A).
Notation rhs := (rhs A).
Notation tact := (tact A).

(** well-formed trees *)
Inductive wf : tree -> sym -> Prop :=
| wf_leaf k t : tk_idx k = Some t -> t < tn_term A -> wf (Leaf k) (Tm t)
| wf_err e d lo hi : wf (ErrLeaf e d lo hi) (Tm (err_col A))
| wf_node p kids : p < length (prods A) -> Forall2 wf kids (rhs p) -> wf (Node p kids) (Nt (lhs p)).

Lemma nth_error_prods p : p < length (prods A) -> nth_error (prods A) p = Some (lhs p, rhs p).
Proof.
  intros H. unfold Validator.lhs, Validator.rhs.
  rewrite (nth_error_nth' _ (0, []) H). destruct (nth p (prods A) (0, [])); reflexivity.
Qed.

Lemma wf_sym_of t X : wf t X -> sym_of A t = Some X.
Proof.
  destruct 1 as [k t Hk Ht|e d lo hi|p kids Hp Hk]; simpl.
  - now rewrite Hk.
  - reflexivity.
  - now rewrite (nth_error_prods _ Hp).
Qed.

(** certificate cores and the [exact] conditions *)
Variable core : nat -> nat -> nat -> Prop.      (* state, production, dot *)

Inductive edge : nat -> sym -> nat -> Prop :=
| e_shift s x s' : x < tn_term A -> tact s (Some x) = AShift s' -> edge s (Tm x) s'
| e_goto s B p d : core s p d -> nth_error (rhs p) d = Some (Nt B) -> edge s (Nt B) (goto_at A s B).

Hypothesis EXK : forall s X s', edge s X s' -> forall p d', core s' p d' -> 0 < d' ->
  exists d, d' = S d /\ nth_error (rhs p) d = Some X /\ core s p d.
Hypothesis EXC : forall s q, core s q 0 ->
  (s = 0 /\ q = start_prod A) \/
  exists p d, core s p d /\ nth_error (rhs p) d = Some (Nt (lhs q)).
Hypothesis EX0 : forall p d, core 0 p d -> d = 0.
Hypothesis E0 : forall s X s', edge s X s' -> s' <> 0.
Definition la_ok (a : la) : Prop := match a with Some t => t < tn_term A | None => True end.
Hypothesis RJ : forall s a p, la_ok a -> tact s a = AReduce p -> core s p (length (rhs p)) /\ p < length (prods A).
Hypothesis start_fresh : forall p, p < length (prods A) -> ~ In (Nt (lhs (start_prod A))) (rhs p).
Hypothesis core_lt : forall s p d, core s p d -> p < length (prods A).

(** entry-level invariant *)
Definition esym (e : entry) : sym := match sym_of A (e_tree e) with Some X => X | None => Tm 0 end.

Fixpoint Linked (st : list entry) : Prop :=
  match st with
  | [] => True
  | e :: below => wf (e_tree e) (esym e) /\ edge (top_state below) (esym e) (e_state e) /\ Linked below
  end.

Lemma linked_skipn k st : Linked st -> Linked (skipn k st).
Proof.
  revert st; induction k as [|k IH]; intros st H; [exact H|].
  destruct st as [|e st]; [exact H|]. simpl. apply IH. apply H.
Qed.

Lemma linked_top_nonzero e below : Linked (e :: below) -> e_state e <> 0.
Proof. intros (_ & He & _). eapply E0; eauto. Qed.

Lemma top_zero_nil st : Linked st -> top_state st = 0 -> st = [].
Proof.
  destruct st as [|e below]; [reflexivity|]. intros H Hz. exfalso. eapply linked_top_nonzero; eauto.
Qed.

(* walking back from an item over the stack: the dot never exceeds the stack height, the exposed
   state holds the item with the dot moved back, and the popped labels spell that part of the rhs *)
Lemma walk_back : forall st p d, Linked st -> core (top_state st) p d ->
  d <= length st /\
  forall k, k <= d ->
    core (top_state (skipn k st)) p (d - k) /\
    map esym (rev (firstn k st)) = firstn k (skipn (d - k) (rhs p)).
Proof.
  induction st as [|e below IH]; intros p d HL Hc.
  - simpl in Hc. pose proof (EX0 _ _ Hc) as Hd. subst d. split; [simpl; lia|].
    intros k Hk. assert (k = 0) by lia. subst k. simpl. split; [exact Hc|reflexivity].
  - destruct d as [|d].
    + split; [lia|]. intros k Hk. assert (k = 0) by lia. subst k. simpl. split; [exact Hc|reflexivity].
    + destruct HL as (Hwf & He & HL). simpl in Hc.
      destruct (EXK _ _ _ He _ _ Hc) as (d0 & Heq & Hn & Hc0); [lia|]. inversion Heq; subst d0.
      destruct (IH p d HL Hc0) as [Hlen Hall].
      split; [simpl; lia|].
      intros k Hk. destruct k as [|k].
      * simpl. split; [exact Hc|reflexivity].
      * destruct (Hall k) as [Hck Hsy]; [lia|].
        simpl skipn. replace (S d - S k) with (d - k) by lia. split; [exact Hck|].
        simpl firstn. simpl rev. rewrite map_app, Hsy. simpl.
        clear - Hn Hk.
        assert (Hd : d = (d - k) + k) by lia.
        remember (d - k) as j eqn:Hj. clear Hj. subst d.
        revert Hn. generalize (rhs p) as l. clear.
        induction j as [|j IHj]; intros l Hn.
        -- simpl in *. revert l Hn. induction k as [|k IHk]; intros l Hn.
           ++ destruct l; simpl in *; [discriminate|]. now inversion Hn.
           ++ destruct l; simpl in *; [discriminate|]. f_equal. now apply IHk.
        -- destruct l; simpl in *; [discriminate|]. now apply IHj.
Qed.

Lemma syms_match_spec : forall popped l,
  Forall (fun e => wf (e_tree e) (esym e)) popped ->
  map esym popped = l -> syms_match A popped l = true.
Proof.
  induction popped as [|e ps IH]; intros l HF Hm; simpl in Hm; subst l; [reflexivity|].
  inversion HF as [|? ? Hwf HF']; subst. simpl.
  rewrite (wf_sym_of _ _ Hwf).
  assert (Hx : sym_eqb (esym e) (esym e) = true) by (destruct (esym e); simpl; apply Nat.eqb_refl).
  rewrite Hx. simpl. now apply IH.
Qed.

Lemma linked_forall st : Linked st -> Forall (fun e => wf (e_tree e) (esym e)) st.
Proof. induction st as [|e st IH]; intros H; constructor; [apply H | apply IH, H]. Qed.

Lemma Forall_firstn {X} (P : X -> Prop) k l : Forall P l -> Forall P (firstn k l).
Proof. revert l; induction k; intros [|x l] H; simpl; auto. inversion H; subst. constructor; auto. Qed.
Lemma Forall_rev' {X} (P : X -> Prop) l : Forall P l -> Forall P (rev l).
Proof. intros H. apply Forall_forall. intros x Hx. apply in_rev in Hx. rewrite Forall_forall in H. auto. Qed.

Lemma Forall2_wf_kids : forall popped l,
  Forall (fun e => wf (e_tree e) (esym e)) popped -> map esym popped = l ->
  Forall2 wf (map e_tree popped) l.
Proof.
  induction popped as [|e ps IH]; intros l HF Hm; simpl in Hm; subst l; simpl; constructor.
  - inversion HF; auto.
  - apply IH; [inversion HF; auto|reflexivity].
Qed.

(** The generated reduce, under the invariant: it never panics; it pops exactly the right-hand
    side; what it pushes keeps the invariant; for the start production the stack is emptied. *)
Inductive reduce_ok (orc : oracle) (p : nat) (st : list entry) : rres * option event -> Prop :=
| ro_fail e kids : orc p kids = Some e -> p <> start_prod A ->
    reduce_ok orc p st (RdDone (RErr (PUser e)), Some (ActFail p e))
| ro_accept kids : p = start_prod A -> wf (Node p kids) (Nt (lhs p)) ->
    kids = map e_tree (rev st) -> length st = length (rhs p) ->
    reduce_ok orc p st (RdDone (ROk (Node p kids)), None)
| ro_cont st' lo hi kids : p <> start_prod A -> orc p kids = None ->
    kids = map e_tree (rev (firstn (length (rhs p)) st)) ->
    st' = (goto_at A (top_state (skipn (length (rhs p)) st)) (lhs p), Node p kids, lo, hi)
            :: skipn (length (rhs p)) st ->
    Linked st' -> length (rhs p) <= length st ->
    reduce_ok orc p st (RdCont st', Some (Act p lo hi)).

Lemma reduce_linked orc st a p la_start :
  Linked st -> la_ok a -> tact (top_state st) a = AReduce p ->
  reduce_ok orc p st (reduce A orc p la_start st).
Proof.
  intros HL Hla Ha. destruct (RJ _ _ _ Hla Ha) as [Hc Hp].
  destruct (walk_back st p (length (rhs p)) HL Hc) as [Hlen Hall].
  destruct (Hall (length (rhs p)) (le_n _)) as [Hc0 Hsy].
  rewrite Nat.sub_diag in Hc0, Hsy. simpl in Hsy. rewrite firstn_all in Hsy.
  unfold reduce. rewrite (nth_error_prods _ Hp).
  replace (length st <? length (rhs p)) with false by (symmetry; apply Nat.ltb_ge; exact Hlen).
  assert (HF : Forall (fun e => wf (e_tree e) (esym e)) (rev (firstn (length (rhs p)) st))).
  { apply Forall_rev', Forall_firstn, linked_forall, HL. }
  rewrite (syms_match_spec _ _ HF Hsy). simpl negb. cbv iota.
  set (popped := rev (firstn (length (rhs p)) st)) in *.
  destruct (match popped with [] => _ | e :: _ => _ end) as [lo hi].
  assert (Hwfn : wf (Node p (map e_tree popped)) (Nt (lhs p))).
  { constructor; [exact Hp|]. apply Forall2_wf_kids; auto. }
  destruct (Nat.eqb p (start_prod A)) eqn:Hst.
  - apply Nat.eqb_eq in Hst.
    (* the exposed state holds (start_prod, 0): it must be state 0, so the stack is emptied *)
    assert (Hbelow : skipn (length (rhs p)) st = []).
    { apply top_zero_nil; [apply linked_skipn, HL|].
      destruct (EXC _ _ Hc0) as [[Hz _]|(p' & d' & Hc' & Hn)]; [exact Hz|].
      exfalso. apply (start_fresh p' (core_lt _ _ _ Hc')). rewrite <- Hst.
      eapply nth_error_In; eauto. }
    assert (Hl : length st = length (rhs p)).
    { pose proof (skipn_length (length (rhs p)) st) as Hs. rewrite Hbelow in Hs. simpl in Hs. lia. }
    eapply ro_accept; eauto. unfold popped. rewrite <- Hl, firstn_all. reflexivity.
  - apply Nat.eqb_neq in Hst.
    destruct (orc p (map e_tree popped)) as [e|] eqn:Ho.
    + eapply ro_fail; eauto.
    + eapply ro_cont; eauto.
      simpl. split; [|split; [|apply linked_skipn, HL]].
      * unfold esym. simpl. rewrite (nth_error_prods _ Hp). simpl. exact Hwfn.
      * unfold esym. simpl. rewrite (nth_error_prods _ Hp). simpl.
        destruct (EXC _ _ Hc0) as [[_ Hq]|(p' & d' & Hc' & Hn)]; [congruence|].
        eapply e_goto; eauto.
Qed.

(** shifting keeps the invariant *)
Lemma shift_linked st k i s' :
  Linked st -> tk_idx k = Some i -> i < tn_term A -> tact (top_state st) (Some i) = AShift s' ->
  Linked ((s', Leaf k, tk_lo k, tk_hi k) :: st).
Proof.
  intros HL Hk Hi Ha. simpl. unfold esym. simpl. rewrite Hk. simpl.
  split; [constructor; assumption|]. split; [constructor; assumption|exact HL].
Qed.
End Safety.
