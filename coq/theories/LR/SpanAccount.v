(** Span accounting of error recovery (C16), for ANY tables: on an input whose tokens carry
    non-negative, well-formed, pairwise ordered spans, a returned tree accounts for a contiguous part
    of the input token by token -- every token is a leaf, or belongs to exactly the error node that
    swallowed it (as a dropped token or as a token of a popped stack entry) and then lies inside that
    node's span; error-node spans are well-formed, ordered and disjoint. *)
From Coq Require Import List ZArith Bool Arith Lia.
From LV Require Import LR.Driver LR.Soundness LR.SpanTree.
Import ListNotations.
Local Open Scope Z_scope.

Definition within (lo hi : Z) (k : token) : Prop := lo <= tk_lo k /\ tk_hi k <= hi.
Definition Within (lo hi : Z) (l : list token) : Prop := Forall (within lo hi) l.

Lemma Within_weaken lo hi lo' hi' l : lo' <= lo -> hi <= hi' -> Within lo hi l -> Within lo' hi' l.
Proof. intros H1 H2 H. eapply Forall_impl; [|exact H]. intros k [A B]. split; lia. Qed.
Lemma Within_app lo hi a b : Within lo hi (a ++ b) <-> Within lo hi a /\ Within lo hi b.
Proof. apply Forall_app. Qed.

(** [Acc t seg lo hi]: the tree t accounts for exactly the tokens seg (a contiguous piece of the
    input), and (lo, hi) is the span it was given *)
Inductive Acc : tree -> list token -> Z -> Z -> Prop :=
| Acc_leaf k : Acc (Leaf k) [k] (tk_lo k) (tk_hi k)
| Acc_err e d lo hi pp : lo <= hi -> Within lo hi (pp ++ d) -> Acc (ErrLeaf e d lo hi) (pp ++ d) lo hi
| Acc_empty p l : Acc (Node p []) [] l l
| Acc_node p k ks segs lo hi : AccL (k :: ks) segs lo hi -> Acc (Node p (k :: ks)) (concat segs) lo hi
with AccL : list tree -> list (list token) -> Z -> Z -> Prop :=
| AccL_one t seg lo hi : Acc t seg lo hi -> AccL [t] [seg] lo hi
| AccL_cons t r seg segs lo hi lo2 hi2 : r <> [] -> Acc t seg lo hi -> AccL r segs lo2 hi2 -> hi <= lo2 ->
    AccL (t :: r) (seg :: segs) lo hi2.

Scheme Acc_mut := Induction for Acc Sort Prop
with AccL_mut := Induction for AccL Sort Prop.

Definition tok_wf (k : token) : Prop := 0 <= tk_lo k /\ tk_lo k <= tk_hi k.

(* a well-accounted tree has a well-formed span containing all its tokens *)
Lemma acc_facts : forall t seg lo hi, Acc t seg lo hi -> Forall tok_wf seg -> lo <= hi /\ Within lo hi seg.
Proof.
  apply (Acc_mut (fun t seg lo hi _ => Forall tok_wf seg -> lo <= hi /\ Within lo hi seg)
                 (fun ts segs lo hi _ => Forall tok_wf (concat segs) -> lo <= hi /\ Within lo hi (concat segs))).
  - intros k Hw. inversion Hw as [|? ? [H0 H1] _]; subst. split; [exact H1|]. constructor; [split; lia|constructor].
  - intros e d lo hi pp Hle Hwi _. auto.
  - intros p l _. split; [lia|constructor].
  - intros p k ks segs lo hi _ IH Hw. exact (IH Hw).
  - intros t seg lo hi _ IH Hw. cbn [concat] in *. rewrite app_nil_r in *. exact (IH Hw).
  - intros t r seg segs lo hi lo2 hi2 Hr _ IH1 _ IH2 Hle Hw. cbn [concat] in *.
    apply Forall_app in Hw as [Hw1 Hw2]. destruct (IH1 Hw1) as [A1 B1]. destruct (IH2 Hw2) as [A2 B2].
    split; [lia|]. apply Within_app. split; [eapply Within_weaken; [| |exact B1]; lia|eapply Within_weaken; [| |exact B2]; lia].
Qed.

Lemma accl_facts : forall ts segs lo hi, AccL ts segs lo hi -> Forall tok_wf (concat segs) -> lo <= hi /\ Within lo hi (concat segs).
Proof.
  apply (AccL_mut (fun t seg lo hi _ => Forall tok_wf seg -> lo <= hi /\ Within lo hi seg)
                  (fun ts segs lo hi _ => Forall tok_wf (concat segs) -> lo <= hi /\ Within lo hi (concat segs))).
  - intros k Hw. inversion Hw as [|? ? [H0 H1] _]; subst. split; [exact H1|]. constructor; [split; lia|constructor].
  - intros e d lo hi pp Hle Hwi _. auto.
  - intros p l _. split; [lia|constructor].
  - intros p k ks segs lo hi _ IH Hw. exact (IH Hw).
  - intros t seg lo hi _ IH Hw. cbn [concat] in *. rewrite app_nil_r in *. exact (IH Hw).
  - intros t r seg segs lo hi lo2 hi2 Hr _ IH1 _ IH2 Hle Hw. cbn [concat] in *.
    apply Forall_app in Hw as [Hw1 Hw2]. destruct (IH1 Hw1) as [A1 B1]. destruct (IH2 Hw2) as [A2 B2].
    split; [lia|]. apply Within_app. split; [eapply Within_weaken; [| |exact B1]; lia|eapply Within_weaken; [| |exact B2]; lia].
Qed.

Lemma last_in {X} (l : list X) d : l <> [] -> In (last l d) l.
Proof.
  induction l as [|x r IH]; [congruence|]. intros _. destruct r as [|y r']; [left; reflexivity|].
  right. change (last (x :: y :: r') d) with (last (y :: r') d). apply IH. discriminate.
Qed.
Lemma last_dflt {X} (l : list X) a b : l <> [] -> last l a = last l b.
Proof. induction l as [|x r IH]; [congruence|]. intros _. destruct r as [|y r']; [reflexivity|]. cbn [last] in *. apply IH. discriminate. Qed.

Lemma AccL_snoc : forall l segs lo hi, AccL l segs lo hi ->
  forall t seg lo' hi', Acc t seg lo' hi' -> hi <= lo' -> AccL (l ++ [t]) (segs ++ [seg]) lo hi'.
Proof.
  induction 1 as [t0 seg0 lo hi H0|t0 r seg0 segs0 lo hi lo2 hi2 Hr H0 Hrest IH Hle]; intros t seg lo' hi' Ht Hord.
  - cbn [app]. apply (AccL_cons t0 [t] seg0 [seg] lo hi lo' hi'); [discriminate|exact H0|apply AccL_one; exact Ht|exact Hord].
  - cbn [app]. apply (AccL_cons t0 (r ++ [t]) seg0 (segs0 ++ [seg]) lo hi lo2 hi'); [|exact H0|exact (IH t seg lo' hi' Ht Hord)|exact Hle].
    destruct r; [congruence|discriminate].
Qed.

(* the stack, top first, accounts for the consumed tokens [pre], entry by entry, spans ordered *)
Inductive StackAcc : list entry -> list token -> Prop :=
| SA_nil : StackAcc [] []
| SA_cons e below pre seg : StackAcc below pre -> Acc (e_tree e) seg (e_lo e) (e_hi e) ->
    top_hi below <= e_lo e -> StackAcc (e :: below) (pre ++ seg).

Lemma stack_pop : forall ents below pre d, ents <> [] -> StackAcc (ents ++ below) pre ->
  exists pre_b segs, pre = pre_b ++ concat segs /\ StackAcc below pre_b /\
    AccL (map e_tree (rev ents)) segs (e_lo (last ents d)) (e_hi (hd d ents)) /\
    top_hi below <= e_lo (last ents d).
Proof.
  induction ents as [|e ents IH]; intros below pre d Hne H; [congruence|].
  cbn [app] in H. inversion H as [|e0 below0 pre0 seg Hrest Hacc Hord]; subst.
  destruct ents as [|e2 r].
  - cbn [app] in *. exists pre0, [seg]. cbn [concat rev app map last hd]. rewrite app_nil_r.
    repeat split; auto. apply AccL_one. exact Hacc.
  - destruct (IH below pre0 d ltac:(discriminate) Hrest) as (pre_b & segs & -> & Hb & Hk & Hord2).
    exists pre_b, (segs ++ [seg]). rewrite concat_app. cbn [concat]. rewrite app_nil_r, app_assoc.
    split; [reflexivity|]. split; [exact Hb|].
    change (rev (e :: e2 :: r)) with (rev (e2 :: r) ++ [e]). rewrite map_app. cbn [map].
    change (last (e :: e2 :: r) d) with (last (e2 :: r) d). cbn [hd]. split; [|exact Hord2].
    apply (AccL_snoc _ _ _ _ Hk (e_tree e) seg (e_lo e) (e_hi e) Hacc).
    cbn [app top_hi hd] in Hord. exact Hord.
Qed.

Lemma stackacc_wf st pre : StackAcc st pre -> Forall tok_wf pre -> top_hi st >= 0 /\ Within 0 (top_hi st) pre.
Proof.
  induction 1 as [|e below pre seg Hb IH Hacc Hord]; intros Hw.
  - cbn. split; [lia|constructor].
  - apply Forall_app in Hw as [Hw1 Hw2]. destruct (IH Hw1) as [A B]. destruct (acc_facts _ _ _ _ Hacc Hw2) as [C D].
    cbn [top_hi]. split; [lia|]. apply Within_app. split; [eapply Within_weaken; [| |exact B]; lia|eapply Within_weaken; [| |exact D]; lia].
Qed.

(** error-node spans of a tree, left to right, are well-formed, ordered and disjoint, inside the span *)
Fixpoint errspans (t : tree) : list (Z * Z) :=
  match t with
  | Leaf _ => []
  | ErrLeaf _ _ lo hi => [(lo, hi)]
  | Node _ kids => (fix go (l : list tree) : list (Z * Z) :=
                      match l with [] => [] | x :: r => errspans x ++ go r end) kids
  end.
Lemma errspans_node p kids : errspans (Node p kids) = flat_map errspans kids.
Proof. cbn [errspans]. induction kids as [|k r IH]; cbn [flat_map]; [reflexivity|]. now rewrite IH. Qed.

Fixpoint spchain (lo : Z) (l : list (Z * Z)) (hi : Z) : Prop :=
  match l with [] => lo <= hi | (a, b) :: r => lo <= a /\ a <= b /\ spchain b r hi end.
Lemma spchain_le : forall l lo hi, spchain lo l hi -> lo <= hi.
Proof. induction l as [|[a b] r IH]; cbn [spchain]; intros lo hi H; [exact H|]. destruct H as (A & B & C). specialize (IH _ _ C). lia. Qed.
Lemma spchain_app : forall l1 l2 lo m m' hi, spchain lo l1 m -> m <= m' -> spchain m' l2 hi -> spchain lo (l1 ++ l2) hi.
Proof.
  induction l1 as [|[a b] r IH]; cbn [spchain app]; intros l2 lo m m' hi H1 Hm H2.
  - destruct l2 as [|[a2 b2] r2]; cbn [spchain] in *; [lia|]. destruct H2 as (A & B & C). repeat split; auto; lia.
  - destruct H1 as (A & B & C). repeat split; auto. eapply IH; eauto.
Qed.

Lemma acc_chain : forall t seg lo hi, Acc t seg lo hi -> Forall tok_wf seg -> spchain lo (errspans t) hi.
Proof.
  apply (Acc_mut (fun t seg lo hi _ => Forall tok_wf seg -> spchain lo (errspans t) hi)
                 (fun ts segs lo hi _ => Forall tok_wf (concat segs) -> spchain lo (flat_map errspans ts) hi)).
  - intros k Hw. inversion Hw as [|? ? [H0 H1] _]; subst. cbn. exact H1.
  - intros e d lo hi pp Hle _ _. cbn. lia.
  - intros p l _. cbn. lia.
  - intros p k ks segs lo hi _ IH Hw. rewrite errspans_node. exact (IH Hw).
  - intros t seg lo hi _ IH Hw. cbn [concat flat_map] in *. rewrite app_nil_r in *. exact (IH Hw).
  - intros t r seg segs lo hi lo2 hi2 Hr _ IH1 _ IH2 Hle Hw. cbn [concat flat_map] in *.
    apply Forall_app in Hw as [Hw1 Hw2]. exact (spchain_app _ _ _ _ _ _ (IH1 Hw1) Hle (IH2 Hw2)).
Qed.

(** * the input *)
Fixpoint sorted (l : list token) : Prop :=
  match l with [] => True | k :: r => tok_wf k /\ Forall (fun k' => tk_hi k <= tk_lo k') r /\ sorted r end.
Lemma sorted_wf l : sorted l -> Forall tok_wf l.
Proof. induction l as [|k r IH]; cbn [sorted]; intros H; constructor; tauto. Qed.
Lemma sorted_app a b : sorted (a ++ b) -> sorted a /\ sorted b /\ forall x y, In x a -> In y b -> tk_hi x <= tk_lo y.
Proof.
  induction a as [|k r IH]; cbn [app sorted]; intros H.
  - repeat split; auto; intros x y [].
  - destruct H as (Hk & Hall & Hs). destruct (IH Hs) as (Ha & Hb & Hab). apply Forall_app in Hall as [H1 H2].
    split; [cbn [sorted]; split; [exact Hk|split; [exact H1|exact Ha]]|]. split; [exact Hb|].
    intros x y [<-|Hx] Hy; [rewrite Forall_forall in H2; exact (H2 y Hy)|exact (Hab x y Hx Hy)].
Qed.
Lemma sorted_within : forall d x, sorted d -> In x d -> tk_lo (hd x d) <= tk_lo x /\ tk_hi x <= tk_hi (last d x).
Proof.
  induction d as [|k r IH]; intros x Hs Hin; [destruct Hin|].
  cbn [sorted] in Hs. destruct Hs as ([W0 W1] & Hall & Hs). cbn [hd]. destruct Hin as [<-|Hin].
  - split; [lia|]. destruct r as [|k2 r2]; [cbn; lia|].
    change (last (k :: k2 :: r2) k) with (last (k2 :: r2) k).
    assert (Hl : In (last (k2 :: r2) k) (k2 :: r2)).
    { clear. generalize k2. induction r2 as [|a r IH]; intros b; [left; reflexivity|]. right. apply (IH a). }
    rewrite Forall_forall in Hall. specialize (Hall _ Hl).
    pose proof (sorted_wf _ Hs) as Hwf. rewrite Forall_forall in Hwf. destruct (Hwf _ Hl). lia.
  - destruct (IH x Hs Hin) as [A B]. rewrite Forall_forall in Hall. specialize (Hall x Hin).
    split; [lia|]. destruct r as [|k2 r2]; [destruct Hin|]. exact B.
Qed.

Section Acct.
Variable A : tables.
Variable orc : oracle.
Variable fuel : nat.
Variable w : list token.
Hypothesis Hsorted : sorted w.

Definition latok (la : option (token * nat)) : list token := match la with Some (k, _) => [k] | None => [] end.

(* [pre]: tokens accounted for by the stack; [d]: tokens dropped by the recovery in progress *)
Definition R (pre d : list token) (la : option (token * nat)) (s : pst) : Prop :=
  (pre ++ d) ++ latok la ++ toks (rest s) = w /\ StackAcc (stk s) pre /\
  match d ++ latok la ++ toks (rest s) with k :: _ => top_hi (stk s) <= tk_lo k | [] => True end.

(* the answer: the children of the root account for a contiguous part of the input; [lafin] is a
   lookahead that was pending when the tree was returned (none on validated tables) *)
Definition afin (r : result) (s : pst) : Prop :=
  match r with
  | ROk (Node p (k :: ks)) => exists pre_b segs lo hi lafin, AccL (k :: ks) segs lo hi /\
      (pre_b ++ concat segs) ++ latok lafin ++ toks (rest s) = w /\ (length (k :: ks) = length (stk s) -> pre_b = [])
  | _ => True
  end.

Lemma R_wf pre d la s : R pre d la s -> Forall tok_wf pre.
Proof.
  intros (Hw & _). pose proof (sorted_wf _ Hsorted) as H. rewrite <- Hw in H.
  apply Forall_app in H as [H _]. apply Forall_app in H as [H _]. exact H.
Qed.

Lemma unrec_afin s tok s' : afin (unrec_error A fuel s tok) s'.
Proof. unfold unrec_error. destruct (expected_tokens _ _ _); cbn; auto. destruct tok; exact I. Qed.

Lemma next_token_R pre d s : R pre d None s ->
  match next_token A fuel s with
  | (Found k i, s1) => stk s1 = stk s /\ R pre d (Some (k, i)) s1
  | (NEof, s1) => stk s1 = stk s /\ R pre d None s1
  | (NDone r, s1) => afin r s1
  end.
Proof.
  intros (Hw & Hs & Hn). unfold next_token. destruct (rest s) as [|[k|e] r] eqn:Hr.
  - cbn [stk log]. split; [reflexivity|]. split; [cbn [rest log latok app]; rewrite Hr; exact Hw|]. split; [exact Hs|].
    cbn [rest log stk]. rewrite Hr. exact Hn.
  - destruct (tk_idx k) as [i|] eqn:Hi.
    + cbn [stk]. split; [reflexivity|]. split; [|split; [exact Hs|]].
      * cbn [rest latok]. cbn [latok app toks flat_map] in Hw. exact Hw.
      * cbn [rest latok stk]. cbn [latok app toks flat_map] in Hn. exact Hn.
    + apply unrec_afin.
  - exact I.
Qed.

(* one reduction keeps the accounting: the popped entries become the children of the new node *)
Definition la_lo (la : option (token * nat)) : option Z := match la with Some (k, _) => Some (tk_lo k) | None => None end.

Lemma reduce_R pre la s p st' ev :
  R pre [] la s -> reduce A orc p (la_lo la) (stk s) = (RdCont st', ev) -> R pre [] la (set_stk (logo s ev) st').
Proof.
  intros (Hw & HS & Hn) E. cbn [app] in *. remember (la_lo la) as la_start eqn:Hla.
  pose proof (reduce_shape A orc p la_start (stk s)) as Hsh. rewrite E in Hsh.
  destruct Hsh as (nt & rhs & lo & hi & Hp & Hlen & -> & -> & Hspan).
  assert (Hwf : Forall tok_wf pre) by (eapply (R_wf pre [] la s); repeat split; cbn [app]; eauto).
  split; [cbn [rest set_stk logo log]; exact Hw|].
  cbn [stk set_stk]. set (n := length rhs) in *.
  rewrite <- (firstn_skipn n (stk s)) in HS.
  destruct (firstn n (stk s)) as [|e ents] eqn:Ef.
  - (* no children *)
    cbn [rev app map] in *.
    assert (Hskip : skipn n (stk s) = stk s).
    { destruct n; [reflexivity|]. destruct (stk s); [reflexivity|discriminate]. }
    rewrite Hskip in *.
    pose proof (f_equal fst Hspan) as Hlo. pose proof (f_equal snd Hspan) as Hhi. cbn [fst snd] in Hlo, Hhi. subst lo hi.
    split.
    + rewrite <- (app_nil_r pre). apply SA_cons; cbn [e_tree e_lo e_hi]; [exact HS|apply Acc_empty|].
      subst la_start. destruct la as [[k i]|]; cbn [la_lo]; [cbn [latok app] in Hn; exact Hn|lia].
    + cbn [top_hi e_hi rest set_stk logo log]. subst la_start. destruct la as [[k i]|]; cbn [latok app la_lo] in *; [lia|exact Hn].
  - destruct (stack_pop (e :: ents) (skipn n (stk s)) pre e ltac:(discriminate) HS) as (pre_b & segs & Hpre & Hb & Hk & Hord).
    destruct (rev (e :: ents)) as [|e1 r1] eqn:Er; [cbn [rev] in Er; destruct (rev ents); discriminate|].
    assert (H1 : last (e :: ents) e = e1) by (rewrite <- (hd_rev (e :: ents) e), Er; reflexivity).
    assert (H2 : last (e1 :: r1) e1 = e) by (rewrite <- Er; rewrite last_rev; reflexivity).
    pose proof (f_equal fst Hspan) as Hlo. pose proof (f_equal snd Hspan) as Hhi. cbn [fst snd] in Hlo, Hhi. subst lo hi. rewrite H2.
    rewrite H1 in Hk, Hord. cbn [hd] in Hk. cbn [map] in *.
    split.
    + rewrite Hpre. apply SA_cons; cbn [e_tree e_lo e_hi]; [exact Hb|apply Acc_node; exact Hk|exact Hord].
    + cbn [top_hi e_hi rest set_stk logo log]. rewrite <- (firstn_skipn n (stk s)), Ef in Hn. cbn [app top_hi] in Hn. exact Hn.
Qed.

Lemma reduce_afin pre la s p la_start v ev : R pre [] la s ->
  reduce A orc p la_start (stk s) = (RdDone (ROk v), ev) ->
  match v with
  | Node p (k :: ks) => exists pre_b segs lo hi, AccL (k :: ks) segs lo hi /\ pre = pre_b ++ concat segs /\
                         (length (k :: ks) = length (stk s) -> pre_b = [])
  | _ => True
  end /\ ev = None.
Proof.
  intros (Hw & HS & Hn) E. cbn [app] in *.
  pose proof (reduce_shape A orc p la_start (stk s)) as Hsh. rewrite E in Hsh.
  destruct Hsh as (-> & nt & rhs & Hp & Hlen & ->). split; [|reflexivity].
  destruct (map e_tree (rev (firstn (length rhs) (stk s)))) as [|k0 ks] eqn:Ek; [exact I|].
  rewrite <- (firstn_skipn (length rhs) (stk s)) in HS.
  destruct (firstn (length rhs) (stk s)) as [|e0 ents0] eqn:Ef; [discriminate|].
  destruct (stack_pop (e0 :: ents0) _ pre e0 ltac:(discriminate) HS) as (pre_b & segs & Hpre & Hb & Hk & Hord).
  rewrite Ek in Hk. exists pre_b, segs, (e_lo (last (e0 :: ents0) e0)), (e_hi (hd e0 (e0 :: ents0))).
  split; [exact Hk|]. split; [exact Hpre|].
  intros Hl. assert (Hall : skipn (length rhs) (stk s) = []).
  { assert (Hl2 : length (firstn (length rhs) (stk s)) = length (stk s)).
    { rewrite Ef. rewrite <- Hl, <- Ek, map_length, rev_length. reflexivity. }
    rewrite firstn_length in Hl2. apply skipn_all2. lia. }
  rewrite Hall in Hb. inversion Hb. reflexivity.
Qed.

Lemma logo_stk s ev : stk (logo s ev) = stk s.
Proof. destruct ev; reflexivity. Qed.
Lemma logo_rest s ev : rest (logo s ev) = rest s.
Proof. destruct ev; reflexivity. Qed.

Lemma done_afin pre la s p la_start r ev : R pre [] la s ->
  reduce A orc p la_start (stk s) = (RdDone r, ev) -> afin r (logo s ev).
Proof.
  intros HR E. destruct r as [v| | |]; try exact I.
  destruct (reduce_afin pre la s p la_start v ev HR E) as [Hv ->]. cbn [logo].
  destruct v as [k|e d lo hi|p0 kids]; try exact I. destruct kids as [|k0 ks]; [exact I|].
  destruct Hv as (pre_b & segs & lo & hi & Hk & Hpre & Hall).
  exists pre_b, segs, lo, hi, la. split; [exact Hk|]. split; [|exact Hall].
  destruct HR as (Hw & _). rewrite app_nil_r in Hw. rewrite <- Hpre. exact Hw.
Qed.

Lemma pre_reduce_R pre la : forall f s, R pre [] la s ->
  match pre_reduce A orc f (la_lo la) s with
  | PrBreak s1 => R pre [] la s1 /\ rest s1 = rest s
  | PrDone r s1 => afin r s1
  | _ => True
  end.
Proof.
  induction f as [|f IH]; intros s HR; cbn [pre_reduce]; [exact I|].
  destruct (act_at A (top_state (stk s)) (err_col A)) as [a|]; [|exact I].
  destruct (as_reduce a) as [p|]; [|split; [exact HR|reflexivity]].
  destruct (reduce A orc p (la_lo la) (stk s)) as [[|r|st'] ev] eqn:E.
  - exact I.
  - exact (done_afin pre la s p _ r ev HR E).
  - pose proof (reduce_R pre la s p st' ev HR E) as HR'.
    specialize (IH _ HR'). destruct (pre_reduce A orc f (la_lo la) (set_stk (logo s ev) st')); try exact IH.
    destruct IH as [H1 H2]. split; [exact H1|]. rewrite H2. cbn [rest set_stk]. apply logo_rest.
Qed.

Lemma find_loop_R : forall n err pre d la s, R pre d la s -> (la = None -> rest s = []) ->
  match find_loop A fuel n err la d s with
  | FlFound j la' d' s2 => R pre d' la' s2 /\ stk s2 = stk s /\ (la' = None -> rest s2 = [])
  | FlDone r s2 => afin r s2
  | _ => True
  end.
Proof.
  induction n as [|n IH]; intros err pre d la s HR Hla; cbn [find_loop].
  - destruct (find_state A fuel (stk s) 0 (option_map snd la)); try exact I; [auto|].
    destruct la as [[k i]|]; exact I.
  - destruct (find_state A fuel (stk s) 0 (option_map snd la)); try exact I; [auto|].
    destruct la as [[k i]|]; [|exact I].
    assert (HR0 : R pre (d ++ [k]) None (log s (Drop (npulled s - 1)))).
    { destruct HR as (Hw & HS & Hn). split; [|split; [exact HS|]].
      - cbn [latok rest log app]. rewrite <- Hw. cbn [latok]. rewrite <- !app_assoc. reflexivity.
      - cbn [latok rest log stk app]. cbn [latok] in Hn. rewrite <- app_assoc. exact Hn. }
    pose proof (next_token_R _ _ _ HR0) as Hnt.
    destruct (next_token A fuel (log s (Drop (npulled s - 1)))) as [[k' i'| |r] s1] eqn:En.
    + destruct Hnt as [Hs HR1]. specialize (IH err _ _ _ _ HR1 ltac:(discriminate)).
      destruct (find_loop A fuel n err (Some (k', i')) (d ++ [k]) s1); try exact IH.
      destruct IH as (H1 & H2 & H3). split; [exact H1|]. split; [rewrite H2, Hs; reflexivity|exact H3].
    + destruct Hnt as [Hs HR1].
      assert (Hr1 : rest s1 = []).
      { unfold next_token in En. cbn [rest log] in En. destruct (rest s) as [|[k0|e0] r0] eqn:Er; [inversion En; subst; cbn [rest log]; exact Er| |discriminate].
        destruct (tk_idx k0); discriminate. }
      specialize (IH err _ _ _ _ HR1 (fun _ => Hr1)).
      destruct (find_loop A fuel n err None (d ++ [k]) s1); try exact IH.
      destruct IH as (H1 & H2 & H3). split; [exact H1|]. split; [rewrite H2, Hs; reflexivity|exact H3].
    + exact Hnt.
Qed.

(* the error node built by a recovery accounts for the popped entries' tokens and the dropped tokens *)
Lemma recovery_entry pre d la' s2 j err es : R pre d la' s2 ->
  let st := stk s2 in
  let popped := firstn j st in
  let kept := skipn j st in
  let start := match rev popped with
               | e :: _ => e_lo e
               | [] => match d with d1 :: _ => tk_lo d1 | [] => match kept with e :: _ => e_hi e | [] => 0 end end
               end in
  let end_ := match rev d with
              | dl :: _ => tk_hi dl
              | [] => match popped with
                      | e :: _ => e_hi e
                      | [] => match la' with Some (k, _) => tk_lo k | None => start end
                      end
              end in
  exists pre', R pre' [] la' (set_stk s2 ((es, ErrLeaf err d start end_, start, end_) :: kept)).
Proof.
  intros (Hw & HS & Hn). cbv zeta.
  set (st := stk s2) in *. set (P := firstn j st). set (K := skipn j st).
  pose proof (sorted_wf _ Hsorted) as Hwf. rewrite <- Hw in Hwf.
  apply Forall_app in Hwf as [Hwf_pd Hwf_rest]. apply Forall_app in Hwf_pd as [Hwf_pre Hwf_d].
  rewrite <- Hw in Hsorted. destruct (sorted_app _ _ Hsorted) as (Hs_pd & Hs_rest & Hx_rest).
  destruct (sorted_app _ _ Hs_pd) as (Hs_pre & Hs_d & Hx_d).
  assert (Hsplit : st = P ++ K) by (symmetry; apply firstn_skipn).
  (* facts about the dropped tokens *)
  assert (Hd_facts : forall d1 d', d = d1 :: d' ->
            Within (tk_lo d1) (tk_hi (last d d1)) d /\ tk_lo d1 <= tk_hi (last d d1) /\ top_hi st <= tk_lo d1 /\
            match latok la' ++ toks (rest s2) with k :: _ => tk_hi (last d d1) <= tk_lo k | [] => True end).
  { intros d1 d' Ed. split; [|split; [|split]].
    - apply Forall_forall. intros x Hx. destruct (sorted_within d x Hs_d Hx) as [Xa Xb].
      rewrite Ed in Xa. cbn [hd] in Xa. rewrite (last_dflt d x d1) in Xb by (rewrite Ed; discriminate). split; assumption.
    - assert (Hin : In d1 d) by (rewrite Ed; left; reflexivity).
      destruct (sorted_within d d1 Hs_d Hin) as [_ Xb]. rewrite Forall_forall in Hwf_d. destruct (Hwf_d d1 Hin). lia.
    - rewrite Ed in Hn. cbn [app] in Hn. exact Hn.
    - destruct (latok la' ++ toks (rest s2)) as [|k r] eqn:Er; [exact I|].
      apply Hx_rest; [apply in_or_app; right|left; reflexivity].
      apply last_in. rewrite Ed. discriminate. }
  destruct P as [|e P'] eqn:EP.
  - (* nothing popped *)
    assert (HK : K = st) by (rewrite Hsplit; reflexivity). cbn [rev].
    exists (pre ++ d). split; [|split].
    + cbn [rest set_stk]. rewrite app_nil_r. exact Hw.
    + cbn [stk set_stk]. rewrite HK.
      destruct d as [|d1 d'] eqn:Ed.
      * cbn [rev]. apply SA_cons; cbn [e_tree e_lo e_hi]; [exact HS| |].
        -- apply (Acc_err err [] _ _ []); [|constructor].
           fold (top_hi st). destruct la' as [[k i]|]; [cbn [latok app] in Hn; exact Hn|lia].
        -- fold (top_hi st). lia.
      * destruct (Hd_facts d1 d' eq_refl) as (Fa & Fb & Fc & Fd).
        destruct (rev (d1 :: d')) as [|dl rl] eqn:Er; [cbn [rev] in Er; destruct (rev d'); discriminate|].
        assert (Hdl : dl = last (d1 :: d') d1) by (rewrite <- (hd_rev (d1 :: d') d1), Er; reflexivity). subst dl.
        apply SA_cons; cbn [e_tree e_lo e_hi]; [exact HS| |exact Fc].
        apply (Acc_err err (d1 :: d') _ _ []); [exact Fb|exact Fa].
    + cbn [stk set_stk rest top_hi e_hi app]. destruct d as [|d1 d'] eqn:Ed.
      * cbn [rev]. cbn [app] in Hn. destruct la' as [[k i]|]; cbn [latok app] in *; [lia|].
        destruct (toks (rest s2)) as [|k0 r0]; [exact I|]. rewrite HK. fold (top_hi st). exact Hn.
      * destruct (Hd_facts d1 d' eq_refl) as (Fa & Fb & Fc & Fd).
        destruct (rev (d1 :: d')) as [|dl rl] eqn:Er; [cbn [rev] in Er; destruct (rev d'); discriminate|].
        assert (Hdl : dl = last (d1 :: d') d1) by (rewrite <- (hd_rev (d1 :: d') d1), Er; reflexivity). subst dl.
        exact Fd.
  - (* entries popped: their tokens go to the error node *)
    rewrite Hsplit in HS.
    destruct (stack_pop (e :: P') K pre e ltac:(discriminate) HS) as (pre_b & segs & Hpre & Hb & Hk & Hord).
    assert (Hwf_pp : Forall tok_wf (concat segs)) by (rewrite Hpre in Hwf_pre; apply Forall_app in Hwf_pre as [_ H]; exact H).
    destruct (accl_facts _ _ _ _ Hk Hwf_pp) as [Hle Hwi]. cbn [hd] in Hle, Hwi.
    assert (Htop : top_hi st = e_hi e) by (rewrite Hsplit; reflexivity).
    destruct (rev (e :: P')) as [|e1 r1] eqn:Er; [cbn [rev] in Er; destruct (rev P'); discriminate|].
    assert (He1 : e1 = last (e :: P') e) by (rewrite <- (hd_rev (e :: P') e), Er; reflexivity). subst e1.
    set (lo_p := e_lo (last (e :: P') e)) in *.
    exists (pre_b ++ (concat segs ++ d)). split; [|split].
    + cbn [rest set_stk]. rewrite app_nil_r. rewrite <- Hw, Hpre. rewrite <- !app_assoc. reflexivity.
    + cbn [stk set_stk]. destruct d as [|d1 d'] eqn:Ed.
      * cbn [rev]. apply SA_cons; cbn [e_tree e_lo e_hi]; [exact Hb| |exact Hord].
        apply Acc_err; [exact Hle|]. rewrite app_nil_r. exact Hwi.
      * destruct (Hd_facts d1 d' eq_refl) as (Fa & Fb & Fc & Fd).
        destruct (rev (d1 :: d')) as [|dl rl] eqn:Erd; [cbn [rev] in Erd; destruct (rev d'); discriminate|].
        assert (Hdl : dl = last (d1 :: d') d1) by (rewrite <- (hd_rev (d1 :: d') d1), Erd; reflexivity). subst dl.
        apply SA_cons; cbn [e_tree e_lo e_hi]; [exact Hb| |exact Hord].
        apply Acc_err; [lia|]. apply Within_app. split.
        -- eapply Within_weaken; [| |exact Hwi]; lia.
        -- eapply Within_weaken; [| |exact Fa]; lia.
    + cbn [stk set_stk rest top_hi e_hi app]. destruct d as [|d1 d'] eqn:Ed.
      * cbn [rev]. cbn [app] in Hn. rewrite Htop in Hn. exact Hn.
      * destruct (Hd_facts d1 d' eq_refl) as (Fa & Fb & Fc & Fd).
        destruct (rev (d1 :: d')) as [|dl rl] eqn:Erd; [cbn [rev] in Erd; destruct (rev d'); discriminate|].
        assert (Hdl : dl = last (d1 :: d') d1) by (rewrite <- (hd_rev (d1 :: d') d1), Erd; reflexivity). subst dl.
        exact Fd.
Qed.

Lemma la_lo_eq la : option_map (fun l : token * nat => tk_lo (fst l)) la = la_lo la.
Proof. destruct la as [[k i]|]; reflexivity. Qed.

Lemma error_recovery_R pre la s : R pre [] la s -> (la = None -> rest s = []) ->
  match error_recovery A orc fuel la s with
  | (Found k i, s1) => exists pre', R pre' [] (Some (k, i)) s1
  | (NEof, s1) => (exists pre', R pre' [] None s1) /\ rest s1 = []
  | (NDone r, s1) => afin r s1
  end.
Proof.
  intros HR Hla. unfold error_recovery.
  destruct (negb (uses_recovery A)); [apply unrec_afin|].
  pose proof (unrec_afin s (option_map fst la) s) as Hun.
  destruct (unrec_error A fuel s (option_map fst la)) as [v|err| |]; try exact Hun.
  rewrite la_lo_eq.
  pose proof (pre_reduce_R pre la fuel s HR) as Hpre.
  destruct (pre_reduce A orc fuel (la_lo la) s) as [| |r s1|s1]; try exact I; [exact Hpre|].
  destruct Hpre as [HR1 Hr1].
  pose proof (find_loop_R (S (length (rest s1))) err pre [] la s1 HR1 ltac:(intros E; rewrite Hr1; exact (Hla E))) as Hfl.
  destruct (find_loop A fuel (S (length (rest s1))) err la [] s1) as [| |r s2|j la' dropped s2]; try exact I; [exact Hfl|].
  destruct Hfl as (HR2 & Hs2 & Hla').
  destruct (act_at A (top_state (skipn j (stk s2))) (err_col A)) as [a|]; [|exact I].
  destruct (as_shift a) as [es|]; [|exact I].
  pose proof (recovery_entry pre dropped la' s2 j err es HR2) as Hent. cbv zeta in Hent.
  destruct la' as [[k i]|].
  - exact Hent.
  - split; [exact Hent|]. cbn [rest set_stk]. exact (Hla' eq_refl).
Qed.

Definition mla (m : mode) : option (token * nat) := match m with MHave k i => Some (k, i) | _ => None end.
Definition T (m : mode) (s : pst) : Prop := (exists pre, R pre [] (mla m) s) /\ (m = MEof -> rest s = []).

Lemma step_T m s : T m s ->
  match step A orc fuel m s with
  | Cont m' s' => T m' s'
  | Fin r s' => afin r s'
  end.
Proof.
  intros [[pre HR] Heof]. unfold step. destruct m as [|k i|]; cbn [mla] in HR.
  - pose proof (next_token_R _ _ _ HR) as Hnt.
    destruct (next_token A fuel s) as [[k i| |r] s1] eqn:En.
    + split; [exists pre; exact (proj2 Hnt)|discriminate].
    + split; [exists pre; exact (proj2 Hnt)|]. intros _.
      unfold next_token in En. destruct (rest s) as [|[k0|e0] r0] eqn:Er; [inversion En; subst; cbn [rest log]; exact Er| |discriminate].
      destruct (tk_idx k0); discriminate.
    + exact Hnt.
  - destruct (act_at A (top_state (stk s)) i) as [a|]; [|exact I].
    destruct (as_shift a) as [target|].
    + split; [|discriminate]. exists (pre ++ [k]). destruct HR as (Hw & HS & Hn). rewrite app_nil_r in Hw. cbn [latok app] in *.
      split; [|split].
      * cbn [mla latok rest log set_stk app]. rewrite app_nil_r, <- app_assoc. exact Hw.
      * cbn [stk log set_stk]. apply SA_cons; cbn [e_tree e_lo e_hi]; [exact HS|apply Acc_leaf|exact Hn].
      * cbn [stk log set_stk rest mla latok app top_hi e_hi].
        destruct (toks (rest s)) as [|k0 r0] eqn:Et; [exact I|].
        rewrite <- Hw in Hsorted. apply sorted_app in Hsorted as (_ & Hs2 & _). cbn [sorted app] in Hs2.
        destruct Hs2 as (_ & Hall & _). inversion Hall; assumption.
    + destruct (as_reduce a) as [p|].
      * change (Some (tk_lo k)) with (la_lo (Some (k, i))).
        destruct (reduce A orc p (la_lo (Some (k, i))) (stk s)) as [[|r|st'] ev] eqn:E; [exact I| |].
        -- destruct r; exact I.
        -- split; [|discriminate]. exists pre. exact (reduce_R pre (Some (k, i)) s p st' ev HR E).
      * pose proof (error_recovery_R pre (Some (k, i)) s HR ltac:(discriminate)) as Her.
        destruct (error_recovery A orc fuel (Some (k, i)) s) as [[k' i'| |r] s1].
        -- split; [exact Her|discriminate].
        -- split; [exact (proj1 Her)|intros _; exact (proj2 Her)].
        -- exact Her.
  - destruct (eof_at A (top_state (stk s))) as [a|]; [|exact I].
    destruct (as_reduce a) as [p|].
    + change (@None Z) with (la_lo None).
      destruct (reduce A orc p (la_lo None) (stk s)) as [[|r|st'] ev] eqn:E; [exact I| |].
      * exact (done_afin pre None s p _ r ev HR E).
      * split; [exists pre; exact (reduce_R pre None s p st' ev HR E)|].
        intros _. cbn [rest set_stk]. rewrite logo_rest. exact (Heof eq_refl).
    + pose proof (error_recovery_R pre None s HR (fun _ => Heof eq_refl)) as Her.
      destruct (error_recovery A orc fuel None s) as [[k' i'| |r] s1]; [exact I| |exact Her].
      split; [exact (proj1 Her)|intros _; exact (proj2 Her)].
Qed.

Lemma run_T : forall n m s r s', T m s -> run A orc fuel n m s = (r, s') -> afin r s'.
Proof.
  induction n as [|n IH]; intros m s r s' HT H; cbn [run] in H.
  - inversion H; subst. exact I.
  - pose proof (step_T m s HT) as Hst.
    destruct (step A orc fuel m s) as [m1 s1|r1 s1].
    + eapply IH; eauto.
    + inversion H; subst. exact Hst.
Qed.
End Acct.

(** every token of the input is accounted for: by a leaf, or by the one error node that swallowed it *)
Theorem tokens_accounted_with_spans A orc fuel input p k ks s :
  sorted (toks input) ->
  drive A orc fuel input = (ROk (Node p (k :: ks)), s) ->
  exists pre_b segs lo hi lafin, AccL (k :: ks) segs lo hi /\
    (pre_b ++ concat segs) ++ latok lafin ++ toks (rest s) = toks input /\
    (length (k :: ks) = length (stk s) -> pre_b = []).
Proof.
  intros Hs H. unfold drive in H.
  apply (run_T A orc fuel (toks input) Hs fuel MNeed (init input) (ROk (Node p (k :: ks))) s); [|exact H].
  split; [|discriminate]. exists []. split; [reflexivity|]. split; [constructor|].
  cbn [app latok mla rest init stk top_hi]. destruct (toks input) as [|k0 r0] eqn:E; [exact I|]. cbn [sorted] in Hs. destruct Hs as ([H0 _] & _). exact H0.
Qed.

Lemma accl_chain : forall ts segs lo hi, AccL ts segs lo hi -> Forall tok_wf (concat segs) -> spchain lo (flat_map errspans ts) hi.
Proof.
  apply (AccL_mut (fun t seg lo hi _ => Forall tok_wf seg -> spchain lo (errspans t) hi)
                  (fun ts segs lo hi _ => Forall tok_wf (concat segs) -> spchain lo (flat_map errspans ts) hi)).
  - intros k Hw. inversion Hw as [|? ? [H0 H1] _]; subst. cbn. exact H1.
  - intros e d lo hi pp Hle _ _. cbn. lia.
  - intros p l _. cbn. lia.
  - intros p k ks segs lo hi _ IH Hw. rewrite errspans_node. exact (IH Hw).
  - intros t seg lo hi _ IH Hw. cbn [concat flat_map] in *. rewrite app_nil_r in *. exact (IH Hw).
  - intros t r seg segs lo hi lo2 hi2 Hr _ IH1 _ IH2 Hle Hw. cbn [concat flat_map] in *.
    apply Forall_app in Hw as [Hw1 Hw2]. exact (spchain_app _ _ _ _ _ _ (IH1 Hw1) Hle (IH2 Hw2)).
Qed.

(* ordered spans are pairwise disjoint for tokens of positive width: a token lies inside at most one of them *)
Lemma spchain_later_starts_after : forall l lo hi a b, spchain lo l hi -> In (a, b) l -> lo <= a /\ b <= hi.
Proof.
  induction l as [|[a0 b0] r IH]; intros lo hi a b H Hin; [destruct Hin|].
  cbn [spchain] in H. destruct H as (H1 & H2 & H3). destruct Hin as [E|Hin].
  - inversion E; subst. split; [exact H1|]. apply spchain_le in H3. exact H3.
  - destruct (IH _ _ _ _ H3 Hin) as [A1 A2]. split; lia.
Qed.

Lemma spchain_disjoint : forall l lo hi i j s1 s2 k, spchain lo l hi -> (i < j)%nat ->
  nth_error l i = Some s1 -> nth_error l j = Some s2 -> tk_lo k < tk_hi k ->
  within (fst s1) (snd s1) k -> within (fst s2) (snd s2) k -> False.
Proof.
  induction l as [|[a0 b0] r IH]; intros lo hi i j s1 s2 k H Hij H1 H2 Hk W1 W2; [destruct i; discriminate|].
  cbn [spchain] in H. destruct H as (A1 & A2 & A3).
  destruct i as [|i].
  - cbn in H1. inversion H1; subst s1. destruct j as [|j]; [lia|]. cbn [nth_error] in H2.
    apply nth_error_In in H2. destruct s2 as [a2 b2].
    destruct (spchain_later_starts_after _ _ _ _ _ A3 H2) as [B1 _].
    unfold within in *. cbn [fst snd] in *. lia.
  - destruct j as [|j]; [lia|]. cbn [nth_error] in H1, H2.
    exact (IH _ _ i j s1 s2 k A3 ltac:(lia) H1 H2 Hk W1 W2).
Qed.

(** on validated tables (with `!`) the statement is about the whole input: the children of the root
    partition it exactly *)
From LV Require Import LR.Validator LR.Safety LR.ValidatorSpec LR.NoPanic LR.RecoverySound LR.NoPanicRec.
Section Valid.
Variable A : tables.
Variable C : cert.
Hypothesis Hshape : shape A C = true.
Hypothesis Hexact : exact A C = true.
Hypothesis Hseo : start_eof_only A = true.
Variable orc : oracle.
Variable fuel : nat.

Notation Linked := (Linked A (core C)).
Notation L := (L A C).
Notation errc := (err_col_lt A C Hshape).

Lemma not_start_on_token st i p : Linked st -> (i < tn_term A)%nat -> tact A (top_state st) (Some i) = AReduce p -> p <> start_prod A.
Proof.
  intros HL Hi Ht ->. pose proof (linked_top_lt A C Hshape _ HL) as Hst.
  unfold start_eof_only in Hseo. rewrite forallb_forall in Hseo.
  specialize (Hseo _ (proj2 (seq_in _ _) Hst)). rewrite forallb_forall in Hseo.
  specialize (Hseo i (proj2 (seq_in _ _) Hi)). rewrite Ht, Nat.eqb_refl in Hseo. discriminate.
Qed.

Definition not_ok (r : result) : Prop := match r with ROk _ => False | _ => True end.

Lemma unrec_not_ok' s tok : not_ok (unrec_error A fuel s tok).
Proof. unfold unrec_error. destruct (expected_tokens _ _ _); cbn; auto. destruct tok; exact I. Qed.

Lemma pre_reduce_not_ok : forall f la s, uses_recovery A = true -> Linked (stk s) ->
  match pre_reduce A orc f la s with PrDone r _ => not_ok r | _ => True end.
Proof.
  induction f as [|f IH]; intros la s Hu HL; cbn [pre_reduce]; [exact I|].
  destruct (act_at A (top_state (stk s)) (err_col A)) as [a|] eqn:Ea; [|exact I].
  destruct (as_reduce a) as [p|] eqn:Er; [|exact I].
  assert (Ht : tact A (top_state (stk s)) (Some (err_col A)) = AReduce p).
  { unfold tact. apply (tact_reduce 0 _ a); [exact Ea|exact (ars_no_shift _ _ Er)|exact Er]. }
  pose proof (red_facts A C Hshape Hexact orc (stk s) (Some (err_col A)) p la HL (errc Hu) Ht) as Hred.
  inversion Hred as [e kids Ho Hne Heq|kids Hst Hwf Hkids Hlen Heq|st' lo hi kids Hne Ho Hkids Hst' HL' Hlen Heq].
  - exact I.
  - exfalso. exact (not_start_on_token _ _ _ HL (errc Hu) Ht Hst).
  - apply (IH la (set_stk (logo s (Some (Act p lo hi))) st') Hu HL').
Qed.

Lemma find_loop_not_ok : forall n err la d s, match find_loop A fuel n err la d s with FlDone r _ => not_ok r | _ => True end.
Proof.
  induction n as [|n IH]; intros err la d s; cbn [find_loop].
  - destruct (find_state A fuel (stk s) 0 (option_map snd la)); try exact I. destruct la as [[k i]|]; exact I.
  - destruct (find_state A fuel (stk s) 0 (option_map snd la)); try exact I. destruct la as [[k i]|]; [|exact I].
    destruct (next_token A fuel (log s (Drop (npulled s - 1)))) as [[k' i'| |r] s1] eqn:En; try apply IH.
    unfold next_token in En. destruct (rest (log s (Drop (npulled s - 1)))) as [|[k0|e0] r0]; [discriminate| |inversion En; exact I].
    destruct (tk_idx k0); [discriminate|]. inversion En; subst. apply unrec_not_ok'.
Qed.

Lemma error_recovery_not_ok la s : Linked (stk s) ->
  match error_recovery A orc fuel la s with (NDone r, _) => not_ok r | _ => True end.
Proof.
  intros HL. unfold error_recovery.
  case_eq (uses_recovery A); intros Hu; cbn [negb]; [|apply unrec_not_ok'].
  pose proof (unrec_not_ok' s (option_map fst la)) as Hun.
  destruct (unrec_error A fuel s (option_map fst la)) as [v|err| |]; try exact Hun.
  pose proof (pre_reduce_not_ok fuel (option_map (fun l => tk_lo (fst l)) la) s Hu HL) as Hp.
  destruct (pre_reduce A orc fuel _ s) as [| |r s1|s1]; try exact I; [exact Hp|].
  pose proof (find_loop_not_ok (S (length (rest s1))) err la [] s1) as Hfl.
  destruct (find_loop A fuel (S (length (rest s1))) err la [] s1) as [| |r s2|j la' dropped s2]; try exact I; [exact Hfl|].
  destruct (act_at A (top_state (skipn j (stk s2))) (err_col A)) as [a|]; [|exact I].
  destruct (as_shift a); [|exact I]. destruct la' as [[k i]|]; exact I.
Qed.

(* an Ok answer is produced only by the accepting reduction at the end of the input, which pops the
   whole stack *)
Lemma ok_is_eof_accept m s v s' : L m s -> step A orc fuel m s = Fin (ROk v) s' ->
  m = MEof /\ s' = s /\ exists p, reduce A orc p None (stk s) = (RdDone (ROk v), None) /\
  match v with Node _ kids => length kids = length (stk s) | _ => True end.
Proof.
  intros (HL & Hok & Hm). unfold step. destruct m as [|k i|].
  - unfold next_token. destruct (rest s) as [|[k|e] r]; [discriminate| |discriminate].
    destruct (tk_idx k); [discriminate|]. intros H. inversion H as [[H1 H2]].
    pose proof (unrec_not_ok' {| stk := stk s; rest := r; npulled := S (npulled s); last_loc := tk_hi k; trace := Pull (npulled s) :: trace s |} (Some k)) as Hn.
    rewrite H1 in Hn. destruct Hn.
  - destruct (act_at A (top_state (stk s)) i) as [a|]; [|discriminate].
    destruct (as_shift a); [discriminate|]. destruct (as_reduce a) as [p|].
    + destruct (reduce A orc p (Some (tk_lo k)) (stk s)) as [[|[v0|e| |]|st'] ev]; discriminate.
    + pose proof (error_recovery_not_ok (Some (k, i)) s HL) as Hn.
      destruct (error_recovery A orc fuel (Some (k, i)) s) as [[k' i'| |r] s1]; try discriminate.
      intros H. inversion H; subst. destruct Hn.
  - destruct (eof_at A (top_state (stk s))) as [a|] eqn:Ea; [|discriminate].
    destruct (as_reduce a) as [p|] eqn:Er.
    + assert (Ht : tact A (top_state (stk s)) None = AReduce p)
        by (unfold tact; apply (tact_reduce 0 _ a); [exact Ea|exact (ars_no_shift _ _ Er)|exact Er]).
      pose proof (red_facts A C Hshape Hexact orc (stk s) None p None HL I Ht) as Hred.
      destruct (reduce A orc p None (stk s)) as [[|r|st'] ev] eqn:E; try discriminate.
      intros H. inversion H; subst.
      inversion Hred as [e kids Ho Hne Heq|kids Hst Hwf Hkids Hlen Heq|]; subst.
      split; [reflexivity|]. split; [reflexivity|]. exists (start_prod A). split; [exact E|].
      rewrite map_length, rev_length. reflexivity.
    + pose proof (error_recovery_not_ok None s HL) as Hn.
      destruct (error_recovery A orc fuel None s) as [[k' i'| |r] s1]; try discriminate.
      intros H. inversion H; subst. destruct Hn.
Qed.

Variable w : list token.
Hypothesis Hsorted : sorted w.

Definition afinV (r : result) : Prop :=
  match r with
  | ROk (Node p (k :: ks)) => exists segs lo hi, AccL (k :: ks) segs lo hi /\ concat segs = w
  | _ => True
  end.

Lemma run_V : forall n m s r s', T w m s -> L m s -> run A orc fuel n m s = (r, s') -> afinV r.
Proof.
  induction n as [|n IH]; intros m s r s' HT HL H; cbn [run] in H.
  - inversion H; subst. exact I.
  - pose proof (step_T A orc fuel w Hsorted m s HT) as HsT.
    pose proof (step_L A C Hshape Hexact errc orc fuel m s HL) as HsL.
    destruct (step A orc fuel m s) as [m1 s1|r1 s1] eqn:E.
    + eapply IH; eauto.
    + inversion H; subst. destruct r as [v| | |]; try exact I.
      destruct (ok_is_eof_accept m s v s' HL E) as (-> & -> & p & Ered & Hlen).
      destruct HT as [[pre HR] Heof].
      destruct (reduce_afin A orc w pre None s p None v None HR Ered) as [Hv _].
      destruct v as [k|e d lo hi|p0 kids]; try exact I. destruct kids as [|k0 ks]; [exact I|].
      destruct Hv as (pre_b & segs & lo & hi & Hk & Hpre & Hall). specialize (Hall Hlen). subst pre_b.
      exists segs, lo, hi. split; [exact Hk|].
      destruct HR as (Hw & _). rewrite (Heof eq_refl) in Hw. cbn [latok toks flat_map app] in Hw.
      rewrite !app_nil_r in Hw. rewrite <- Hw, Hpre. reflexivity.
Qed.
End Valid.

Theorem tokens_accounted_on_validated_tables A C orc fuel w p k ks s :
  shape A C = true -> exact A C = true -> start_eof_only A = true ->
  Forall (tok_ok A) w -> sorted w ->
  drive A orc fuel (map IOk w) = (ROk (Node p (k :: ks)), s) ->
  exists segs lo hi, AccL (k :: ks) segs lo hi /\ concat segs = w /\ spchain lo (flat_map errspans (k :: ks)) hi.
Proof.
  intros Hs He Hseo Hw Hso H. unfold drive in H.
  assert (HT : T w MNeed (init (map IOk w))).
  { split; [|discriminate]. exists []. split; [cbn [app latok mla rest init]; rewrite toks_map_ok; reflexivity|]. split; [constructor|].
    cbn [app latok mla rest init stk top_hi]. rewrite toks_map_ok. destruct w as [|k0 r0]; [exact I|].
    cbn [sorted] in Hso. destruct Hso as ([H0 _] & _). exact H0. }
  assert (HL : RecoverySound.L A C MNeed (init (map IOk w))).
  { repeat split; cbn; auto. apply Forall_forall. intros i Hi. apply in_map_iff in Hi as (k1 & <- & Hk).
    rewrite Forall_forall in Hw. exact (Hw k1 Hk). }
  destruct (run_V A C Hs He Hseo orc fuel w Hso fuel MNeed _ _ _ HT HL H) as (segs & lo & hi & Hk & Hc).
  exists segs, lo, hi. split; [exact Hk|]. split; [exact Hc|].
  apply (accl_chain _ _ _ _ Hk). rewrite Hc. apply sorted_wf. exact Hso.
Qed.

(** non-vacuity: the run of LR/TokenAccount.v's example ( ( ) ) + N  on  E = E "+" T | T; T = N | "(" E ")" | ! ):
    the error node with span (0,5) accounts for the two popped tokens and the dropped one, all inside
    its span; the remaining two tokens are leaves *)
From LV Require Import LR.TokenAccount.
Example recovery_accounts_for_every_token :
  let t := fun i n => ex_tk i n in
  AccL [Node 2 [Node 3 [Node 6 [ErrLeaf (PUnrecTok (t 2%nat 2) [0%nat]) [t 2%nat 2] 0 5]]; Leaf (t 0%nat 3); Node 4 [Leaf (t 3%nat 4)]]]
       [concat [concat [concat [[t 1%nat 0; t 2%nat 1] ++ [t 2%nat 2]]]; [t 0%nat 3]; concat [[t 3%nat 4]]]] 0 9.
Proof.
  intros t. apply AccL_one. apply Acc_node.
  apply (AccL_cons _ _ _ _ 0 5 6 9); [discriminate| | |lia].
  - apply Acc_node. apply AccL_one. apply Acc_node. apply AccL_one.
    apply Acc_err; [lia|]. repeat constructor; cbn; lia.
  - apply (AccL_cons _ _ _ _ 6 7 8 9); [discriminate|exact (Acc_leaf (t 0%nat 3))| |lia].
    apply AccL_one. apply Acc_node. apply AccL_one. exact (Acc_leaf (t 3%nat 4)).
Qed.
