(** Where a syntax error is reported (grammars without error recovery), for ANY parse tables:
    [UnrecognizedToken] carries the most recently pulled token, unchanged, and nothing beyond it has
    been read; [UnrecognizedEof] is raised only after the whole input was read and carries the end
    location of the last token (the default location 0 for empty input).  With the validator's
    [start_eof_only] condition, [ExtraToken] is never returned. *)
From Coq Require Import List ZArith Bool Arith Lia.
From LV Require Import LR.Driver LR.Validator.
Import ListNotations.

Definition last_hi (l : list token) : Z := match rev l with k :: _ => tk_hi k | [] => 0%Z end.
Lemma last_hi_snoc l k : last_hi (l ++ [k]) = tk_hi k.
Proof. unfold last_hi. rewrite rev_app_distr. reflexivity. Qed.

Section ErrorPos.
Variable A : tables.
Hypothesis Hnorec : uses_recovery A = false.
Variable orc : oracle.
Variable fuel : nat.
Variable w : list token.

Definition pend (m : mode) : list token := match m with MHave k _ => [k] | _ => [] end.

(* [u]: the tokens already shifted *)
Definition K (m : mode) (s : pst) : Prop :=
  exists u v, w = u ++ pend m ++ v /\ rest s = map IOk v /\
              npulled s = length u + length (pend m) /\
              last_loc s = last_hi (u ++ pend m) /\
              (m = MEof -> v = []) /\
              (forall k i, m = MHave k i -> tk_idx k = Some i).

(* an expected list: strictly increasing terminal indices below the number of named terminals
   (hence no duplicates and never the error pseudo-terminal, whose column is tn_names) *)
Definition exp_ok (exp : list nat) : Prop :=
  NoDup exp /\ forall x, In x exp -> x < tn_names A.

Definition fin_ok (r : result) (s : pst) : Prop :=
  match r with
  | RErr (PUnrecTok k exp) => (exists u v, w = u ++ k :: v /\ npulled s = S (length u)) /\ exp_ok exp
  | RErr (PUnrecEof loc exp) => (npulled s = length w /\ loc = last_hi w) /\ exp_ok exp
  | RErr (PExtra k) => exists u v i p, w = u ++ k :: v /\ tk_idx k = Some i /\
                        tact A (top_state (stk s)) (Some i) = AReduce p /\ p = start_prod A
  | _ => True
  end.

Lemma expected_go_range l : forall n i L, expected_go A fuel l i n = EList L ->
  (forall x, In x L -> i <= x < i + n) /\ NoDup L.
Proof.
  induction n as [|n IH]; intros i L H; simpl in H.
  - inversion H; subst. split; [intros x []|constructor].
  - destruct (accepts A fuel l (Some i)); try discriminate.
    + destruct (expected_go A fuel l (S i) n) as [L'| |] eqn:HL; try discriminate.
      inversion H; subst. destruct (IH (S i) L' HL) as [Hr Hnd]. split.
      * intros x [<-|Hx]; [lia|]. specialize (Hr x Hx). lia.
      * constructor; [|exact Hnd]. intros Hin. specialize (Hr i Hin). lia.
    + destruct (IH (S i) L H) as [Hr Hnd]. split; [|exact Hnd].
      intros x Hx. specialize (Hr x Hx). lia.
Qed.

Lemma unrec_shape s tok :
  match unrec_error A fuel s tok with
  | RErr (PUnrecTok k exp) => tok = Some k /\ exp_ok exp
  | RErr (PUnrecEof loc exp) => (tok = None /\ loc = last_loc s) /\ exp_ok exp
  | RErr _ => False
  | ROk _ => False
  | _ => True
  end.
Proof.
  unfold unrec_error, expected_tokens.
  destruct (expected_go A fuel (states_of (stk s)) 0 (tn_names A)) as [L| |] eqn:HL; auto.
  destruct (expected_go_range _ _ _ _ HL) as [Hr Hnd].
  assert (He : exp_ok L) by (split; [exact Hnd|intros x Hx; specialize (Hr x Hx); lia]).
  destruct tok; auto.
Qed.

Lemma reduce_ok_start p la st r ev :
  reduce A orc p la st = (RdDone (ROk r), ev) -> p = start_prod A.
Proof.
  unfold reduce. destruct (nth_error (prods A) p) as [[nt rhs]|]; [|discriminate].
  destruct (length st <? length rhs); [discriminate|]. destruct (negb _); [discriminate|].
  destruct (match rev (firstn (length rhs) st) with [] => _ | e :: _ => _ end) as [lo hi].
  destruct (Nat.eqb p (start_prod A)) eqn:Hp; [intros _; apply Nat.eqb_eq; exact Hp|].
  destruct (orc p _); discriminate.
Qed.

Lemma reduce_err_user p la st e ev :
  reduce A orc p la st = (RdDone (RErr e), ev) -> exists x, e = PUser x.
Proof.
  unfold reduce. destruct (nth_error (prods A) p) as [[nt rhs]|]; [|discriminate].
  destruct (length st <? length rhs); [discriminate|]. destruct (negb _); [discriminate|].
  destruct (match rev (firstn (length rhs) st) with [] => _ | e :: _ => _ end) as [lo hi].
  destruct (Nat.eqb p (start_prod A)); [discriminate|].
  destruct (orc p _); [|discriminate]. intros H; inversion H; eauto.
Qed.

Lemma reduce_done_cases p la st r ev :
  reduce A orc p la st = (RdDone r, ev) ->
  (exists v, r = ROk v) \/ (exists x, r = RErr (PUser x)).
Proof.
  intros H. destruct r as [v|e| |].
  - left; eauto.
  - right. apply reduce_err_user in H as [x ->]. eauto.
  - exfalso. revert H. unfold reduce. destruct (nth_error (prods A) p) as [[nt rhs]|]; [|discriminate].
    destruct (length st <? length rhs); [discriminate|]. destruct (negb _); [discriminate|].
    destruct (match rev (firstn (length rhs) st) with [] => _ | e :: _ => _ end) as [lo hi].
    destruct (Nat.eqb p (start_prod A)); [discriminate|]. destruct (orc p _); discriminate.
  - exfalso. revert H. unfold reduce. destruct (nth_error (prods A) p) as [[nt rhs]|]; [|discriminate].
    destruct (length st <? length rhs); [discriminate|]. destruct (negb _); [discriminate|].
    destruct (match rev (firstn (length rhs) st) with [] => _ | e :: _ => _ end) as [lo hi].
    destruct (Nat.eqb p (start_prod A)); [discriminate|]. destruct (orc p _); discriminate.
Qed.

Lemma step_K m s : K m s ->
  match step A orc fuel m s with
  | Cont m' s' => K m' s'
  | Fin r s' => fin_ok r s'
  end.
Proof.
  intros (u & v & Hw & Hr & Hn & Hl & He & Hi). unfold step. destruct m as [|k i|].
  - (* MNeed *)
    unfold next_token. rewrite Hr. simpl in *. destruct v as [|k v']; simpl.
    + exists u, []. simpl. repeat split; auto. discriminate.
    + destruct (tk_idx k) as [i|] eqn:Hk.
      * exists u, v'. simpl. repeat split; auto.
        -- lia.
        -- rewrite last_hi_snoc. reflexivity.
        -- discriminate.
        -- intros k0 i0 H. inversion H; subst. exact Hk.
      * pose proof (unrec_shape {| stk := stk s; rest := map IOk v'; npulled := S (npulled s);
                                   last_loc := tk_hi k; trace := Pull (npulled s) :: trace s |} (Some k)) as Hu.
        destruct (unrec_error _ _ _ _) as [?|[k' ?|? ?|?|?|?]| |]; simpl; auto; try contradiction.
        -- destruct Hu as [Hu He']. inversion Hu; subst k'. split; [|exact He']. exists u, v'. split; [exact Hw|lia].
        -- destruct Hu as [[Hu _] _]; discriminate.
  - (* MHave *)
    simpl in *. specialize (Hi k i eq_refl).
    destruct (act_at A (top_state (stk s)) i) as [a|] eqn:Ha; [|exact I].
    destruct (as_shift a) as [tg|] eqn:Hs.
    + exists (u ++ [k]), v. simpl. rewrite <- app_assoc. simpl. repeat split; auto.
      * rewrite app_length. simpl. lia.
      * rewrite app_nil_r. exact Hl.
      * discriminate.
      * discriminate.
    + destruct (as_reduce a) as [p|] eqn:Hrd.
      * destruct (reduce A orc p (Some (tk_lo k)) (stk s)) as [[|r|st'] ev] eqn:Hred; [exact I| |].
        -- destruct (reduce_done_cases _ _ _ _ _ Hred) as [[v0 ->]|[x ->]]; simpl; [|exact I].
           exists u, v, i, p. repeat split; auto.
           ++ destruct ev; simpl; unfold tact; rewrite Ha; unfold decode; rewrite Hs, Hrd; reflexivity.
           ++ eapply reduce_ok_start; eauto.
        -- exists u, v. simpl. repeat split; auto; try discriminate.
           ++ destruct ev; simpl; exact Hr.
           ++ destruct ev; simpl; exact Hn.
           ++ destruct ev; simpl; exact Hl.
           ++ intros k0 i0 H. inversion H; subst. exact Hi.
      * unfold error_recovery. rewrite Hnorec. simpl.
        pose proof (unrec_shape s (Some k)) as Hu.
        destruct (unrec_error _ _ _ _) as [?|[k' ?|? ?|?|?|?]| |]; simpl; auto; try contradiction.
        -- destruct Hu as [Hu He']. inversion Hu; subst k'. split; [|exact He']. exists u, v. split; [exact Hw|lia].
        -- destruct Hu as [[Hu _] _]; discriminate.
  - (* MEof *)
    simpl in *. specialize (He eq_refl). subst v. rewrite !app_nil_r in *.
    destruct (eof_at A (top_state (stk s))) as [a|] eqn:Ha; [|exact I].
    destruct (as_reduce a) as [p|] eqn:Hrd.
    + destruct (reduce A orc p None (stk s)) as [[|r|st'] ev] eqn:Hred; [exact I| |].
      * destruct (reduce_done_cases _ _ _ _ _ Hred) as [[v0 ->]|[x ->]]; simpl; exact I.
      * exists u, []. simpl. rewrite !app_nil_r. repeat split; auto; try discriminate.
        -- destruct ev; simpl; exact Hr.
        -- destruct ev; simpl; exact Hn.
        -- destruct ev; simpl; exact Hl.
    + unfold error_recovery. rewrite Hnorec. simpl.
      pose proof (unrec_shape s None) as Hu.
      destruct (unrec_error _ _ _ _) as [?|[k' ?|? ?|?|?|?]| |]; simpl; auto; try contradiction.
      * destruct Hu as [Hu _]; discriminate.
      * destruct Hu as [[_ ->] He']. split; [|exact He']. split; [rewrite Hn, Hw; lia|rewrite Hw; exact Hl].
Qed.

Lemma run_K : forall n m s r s', K m s -> run A orc fuel n m s = (r, s') -> fin_ok r s'.
Proof.
  induction n as [|n IH]; intros m s r s' HK H; simpl in H.
  - inversion H; subst. exact I.
  - pose proof (step_K m s HK) as Hs.
    destruct (step A orc fuel m s) as [m' s1|r1 s1].
    + eapply IH; eauto.
    + inversion H; subst. exact Hs.
Qed.

Lemma K_init : K MNeed (init (map IOk w)).
Proof. exists [], w. simpl. repeat split; auto; discriminate. Qed.
End ErrorPos.

(** The error token is the input token at the position reached, with its own index, id and span;
    exactly the tokens up to and including it have been pulled. *)
Theorem unrecognized_token_position A orc fuel w k exp s :
  uses_recovery A = false ->
  drive A orc fuel (map IOk w) = (RErr (PUnrecTok k exp), s) ->
  (exists u v, w = u ++ k :: v /\ npulled s = S (length u)) /\ exp_ok A exp.
Proof.
  intros Hn H. unfold drive in H. apply (run_K A Hn orc fuel w) in H; [exact H|apply K_init].
Qed.

Theorem unrecognized_eof_position A orc fuel w loc exp s :
  uses_recovery A = false ->
  drive A orc fuel (map IOk w) = (RErr (PUnrecEof loc exp), s) ->
  (npulled s = length w /\ loc = last_hi w) /\ exp_ok A exp.
Proof.
  intros Hn H. unfold drive in H. apply (run_K A Hn orc fuel w) in H; [exact H|apply K_init].
Qed.

(** ExtraToken can only come from reducing the start production on a real lookahead, which the
    validator's [start_eof_only] condition excludes for every in-range state and terminal. *)
Theorem extra_token_only_from_start_reduce A orc fuel w k s :
  uses_recovery A = false ->
  drive A orc fuel (map IOk w) = (RErr (PExtra k), s) ->
  In k w /\ exists i, tk_idx k = Some i /\ tact A (top_state (stk s)) (Some i) = AReduce (start_prod A).
Proof.
  intros Hn H. unfold drive in H. apply (run_K A Hn orc fuel w) in H; [|apply K_init].
  destruct H as (u & v & i & p & -> & Hi & Ht & ->). split; [apply in_or_app; right; left; reflexivity|eauto].
Qed.
