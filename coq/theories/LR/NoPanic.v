(** On validated tables the driver never reaches a panic site (grammars without error recovery):
    table indices stay in range, every reduce finds its right-hand side on the stack, and the
    [accepts] simulation behind the expected-token lists never pops below the stack bottom. *)
From Coq Require Import List ZArith Bool Arith Lia.
From LV Require Import LR.Driver LR.Validator LR.Safety LR.ValidatorSpec LR.Soundness.
Import ListNotations.

Section NoPanic.
Variable A : tables.
Variable C : cert.
Hypothesis Hshape : shape A C = true.
Hypothesis Hexact : exact A C = true.

Notation core := (core C).
Notation edge := (edge A core).
Notation Linked := (Linked A core).

Lemma nstates_pos : 0 < n_states A.
Proof. destruct (shape_proj A C Hshape) as (H & _). apply Nat.ltb_lt in H. exact H. Qed.

Lemma act_some s i : s < n_states A -> i < tn_term A -> exists a, act_at A s i = Some a.
Proof.
  intros Hs Hi. unfold act_at.
  destruct (nth_error (action A) (s * tn_term A + i)) as [a|] eqn:Hn; [eauto|].
  apply nth_error_None in Hn.
  destruct (shape_proj A C Hshape) as (_ & Hl & _). apply Nat.eqb_eq in Hl. rewrite Hl in Hn. nia.
Qed.
Lemma eof_some s : s < n_states A -> exists a, eof_at A s = Some a.
Proof.
  intros Hs. unfold eof_at. destruct (nth_error (eof_action A) s) eqn:Hn; [eauto|].
  apply nth_error_None in Hn. unfold n_states in Hs. lia.
Qed.

Lemma act_ok_of s a : s < n_states A -> la_ok A a -> act_ok A s a = true.
Proof.
  intros Hs Ha. destruct (shape_proj A C Hshape) as (_&_&_&_&_&_&_&_&_&_&_&_&_&H&_).
  rewrite forallb_forall in H. specialize (H s (proj2 (seq_in _ _) Hs)).
  rewrite forallb_forall in H. apply H. apply all_la_in. exact Ha.
Qed.

Lemma goto_lt s B : goto_at A s B < n_states A.
Proof.
  unfold goto_at. destruct (shape_proj A C Hshape) as (_&_&_&_&_&_&_&_&_&_&_&_&Hg&_).
  rewrite forallb_forall in Hg.
  destruct (nth_in_or_default B (goto_tbl A) []) as [Hin|Hd].
  - specialize (Hg _ Hin). rewrite forallb_forall in Hg.
    destruct (nth_in_or_default s (nth B (goto_tbl A) []) 0) as [Hin2|Hd2].
    + apply Nat.ltb_lt. apply Hg. exact Hin2.
    + rewrite Hd2. apply nstates_pos.
  - rewrite Hd. destruct s; simpl; apply nstates_pos.
Qed.

Lemma edge_target_lt s X s' : edge s X s' -> s' < n_states A.
Proof.
  intros He. destruct He as [s x s' Hx Ha|s B p d Hc Hn].
  - assert (Hs : s < n_states A).
    { eapply (tact_state A C Hshape s (Some x) (AShift s')); [exact Ha|discriminate|left; lia]. }
    pose proof (act_ok_of s (Some x) Hs Hx) as Hok. unfold act_ok in Hok. rewrite Ha in Hok.
    apply andb_true_iff in Hok as [Hok _]. apply Nat.ltb_lt in Hok. exact Hok.
  - apply goto_lt.
Qed.

Lemma linked_top_lt st : Linked st -> top_state st < n_states A.
Proof.
  destruct st as [|e below]; simpl; [intros _; apply nstates_pos|].
  intros (_ & He & _). eapply edge_target_lt; eauto.
Qed.

(** state-level paths: the [states] vector of a linked stack, and what [accepts] does to it *)
Fixpoint SLinked (l : list nat) : Prop :=
  match l with
  | [] => False
  | s' :: r => match r with
               | [] => s' = 0
               | s :: _ => (exists X, edge s X s') /\ SLinked r
               end
  end.

Lemma slinked_of_linked st : Linked st -> SLinked (states_of st).
Proof.
  induction st as [|e below IH]; simpl; [reflexivity|].
  intros (_ & He & HL). unfold states_of in *. simpl.
  destruct below as [|e' below']; simpl in *.
  - split; [eauto|reflexivity].
  - split; [eauto|]. apply IH. exact HL.
Qed.

Lemma slinked_hd_lt l : SLinked l -> hd 0 l < n_states A.
Proof.
  destruct l as [|s' r]; simpl; [intros []|]. destruct r as [|s r'].
  - intros ->. apply nstates_pos.
  - intros [(X & He) _]. eapply edge_target_lt; eauto.
Qed.

Lemma slinked_skipn k l : SLinked l -> k < length l -> SLinked (skipn k l).
Proof.
  revert l; induction k as [|k IH]; intros l H Hk; [exact H|].
  destruct l as [|s' r]; [simpl in Hk; lia|]. simpl. apply IH; [|simpl in Hk; lia].
  simpl in H. destruct r as [|s r']; [simpl in Hk; lia|]. apply H.
Qed.

Lemma walk_back_s : forall l p d, SLinked l -> core (hd 0 l) p d ->
  d < length l /\ forall k, k <= d -> core (hd 0 (skipn k l)) p (d - k).
Proof.
  induction l as [|s' r IH]; intros p d HL Hc; [destruct HL|].
  simpl in HL. destruct r as [|s r'].
  - subst s'. simpl in Hc. pose proof (EX0 A C Hshape Hexact _ _ Hc) as Hd. subst d.
    split; [simpl; lia|]. intros k Hk. assert (k = 0) by lia. subst k. exact Hc.
  - destruct HL as [(X & He) HL]. destruct d as [|d].
    + split; [simpl; lia|]. intros k Hk. assert (k = 0) by lia. subst k. exact Hc.
    + simpl in Hc. destruct (EXK A C Hshape Hexact _ _ _ He _ _ Hc) as (d0 & Heq & _ & Hc0); [lia|].
      inversion Heq; subst d0.
      destruct (IH p d HL Hc0) as [Hlen Hall]. split; [simpl in *; lia|].
      intros k Hk. destruct k as [|k]; [exact Hc|].
      simpl skipn. replace (S d - S k) with (d - k) by lia. apply Hall. lia.
Qed.

Lemma decode_reduce_raw a p : (a =? 0)%Z = false -> as_reduce a = Some p -> decode (Some a) = AReduce p.
Proof.
  intros H0 Hr. unfold decode.
  assert (Hs : as_shift a = None).
  { unfold as_reduce in Hr. unfold as_shift. destruct (a <? 0)%Z eqn:Hlt; [|discriminate].
    apply Z.ltb_lt in Hlt. destruct (0 <? a)%Z eqn:Hgt; [apply Z.ltb_lt in Hgt; lia|reflexivity]. }
  rewrite Hs, Hr. reflexivity.
Qed.

Lemma sim_of_prod p : p < n_prods A ->
  match nth_error (sim_nt A) p with
  | Some None => p = start_prod A
  | Some (Some n) => p <> start_prod A /\ n = lhs A p /\ nth_error (sim_pop A) p = Some (length (rhs A p))
  | None => False
  end /\ exists k, nth_error (sim_pop A) p = Some k.
Proof.
  intros Hp. pose proof (prod_shape_of A C Hshape p Hp) as Hps. unfold prod_shape in Hps.
  rewrite !andb_true_iff in Hps. destruct Hps as ((((_ & _) & Hsim) & _) & _).
  destruct (shape_proj A C Hshape) as (_&_&_&_&_&_&_&_&_&Hl1&Hl2&_).
  apply Nat.eqb_eq in Hl1, Hl2.
  assert (H1 : p < length (sim_nt A)) by (rewrite Hl2; exact Hp).
  assert (H2 : p < length (sim_pop A)) by (rewrite Hl1; exact Hp).
  rewrite (nth_error_nth' _ None H1). split.
  - destruct (nth p (sim_nt A) None) as [n|].
    + rewrite !andb_true_iff in Hsim. destruct Hsim as [[Hne Hn] Hk].
      apply negb_true_iff, Nat.eqb_neq in Hne. apply Nat.eqb_eq in Hn, Hk.
      repeat split; auto. rewrite (nth_error_nth' _ 0 H2). congruence.
    + apply Nat.eqb_eq in Hsim. exact Hsim.
  - rewrite (nth_error_nth' _ 0 H2). eauto.
Qed.

Lemma accepts_no_panic : forall fuel l a, SLinked l -> la_ok A a -> accepts A fuel l a <> APanic.
Proof.
  induction fuel as [|fuel IH]; intros l a HL Ha; simpl; [discriminate|].
  destruct l as [|top r] eqn:El; [destruct HL|]. rewrite <- El in HL.
  assert (Htop : top < n_states A) by (pose proof (slinked_hd_lt l HL) as H; rewrite El in H; exact H).
  assert (Hsome : exists z, (match a with None => eof_at A top | Some t => act_at A top t end) = Some z).
  { destruct a as [t|]; [apply act_some; auto|apply eof_some; auto]. }
  destruct Hsome as [z Hz]. rewrite Hz.
  destruct (z =? 0)%Z eqn:H0; [discriminate|].
  destruct (as_reduce z) as [p|] eqn:Hr; [|discriminate].
  assert (Ht : tact A top a = AReduce p).
  { unfold tact. rewrite Hz. apply decode_reduce_raw; auto. }
  destruct (RJ A C Hshape Hexact _ _ _ Ha Ht) as [Hc Hp].
  destruct (sim_of_prod p Hp) as [Hsim [k Hk]]. rewrite Hk.
  destruct (nth_error (sim_nt A) p) as [[n|]|]; [|discriminate|destruct Hsim].
  destruct Hsim as (Hne & -> & Hk'). rewrite Hk in Hk'. inversion Hk'; subst k.
  assert (Hc' : core (hd 0 l) p (length (rhs A p))) by (rewrite El; exact Hc).
  destruct (walk_back_s l p _ HL Hc') as [Hlen Hall].
  rewrite <- El.
  replace (length l <=? length (rhs A p)) with false by (symmetry; apply Nat.leb_gt; exact Hlen).
  apply IH; [|exact Ha].
  specialize (Hall _ (le_n _)). rewrite Nat.sub_diag in Hall.
  pose proof (slinked_skipn _ _ HL Hlen) as HL'.
  destruct (skipn (length (rhs A p)) l) as [|b r'] eqn:Es; [destruct HL'|].
  simpl hd in *. simpl. split; [|exact HL'].
  destruct (EXC A C Hshape Hexact _ _ Hall) as [[_ Hq]|(p' & d' & Hc2 & Hn)]; [congruence|].
  exists (Nt (lhs A p)). eapply e_goto; eauto.
Qed.

Lemma expected_go_no_panic fuel l : SLinked l -> forall n i, i + n <= tn_term A ->
  expected_go A fuel l i n <> EPanic.
Proof.
  intros HL. induction n as [|n IH]; intros i Hi; simpl; [discriminate|].
  pose proof (accepts_no_panic fuel l (Some i) HL) as Hacc.
  destruct (accepts A fuel l (Some i)); try discriminate.
  - specialize (IH (S i)). destruct (expected_go A fuel l (S i) n); try discriminate. apply IH. lia.
  - apply IH. lia.
  - exfalso. apply Hacc; [simpl; lia|reflexivity].
Qed.

Lemma names_le : tn_names A <= tn_term A.
Proof. destruct (shape_proj A C Hshape) as (_ & _ & H & _). apply Nat.eqb_eq in H. lia. Qed.

Lemma unrec_no_panic fuel s tok : Linked (stk s) -> unrec_error A fuel s tok <> RPanic.
Proof.
  intros HL. unfold unrec_error, expected_tokens.
  pose proof (expected_go_no_panic fuel _ (slinked_of_linked _ HL) (tn_names A) 0) as H.
  destruct (expected_go A fuel (states_of (stk s)) 0 (tn_names A)); try discriminate.
  - destruct tok; discriminate.
  - exfalso. apply H; [pose proof names_le; lia|reflexivity].
Qed.

Hypothesis Hnorec : uses_recovery A = false.
Variable orc : oracle.

(* the Soundness invariant, at any point of the run, excludes every panic outcome *)
Lemma step_no_panic fuel w m s :
  Inv A C w m s ->
  match step A orc fuel m s with
  | Cont _ _ => True
  | Fin r _ => r <> RPanic
  end.
Proof.
  intros (HL & _ & _ & Hok & _ & Hm). unfold step. destruct m as [|k i|].
  - unfold next_token. destruct (rest s) as [|[k|e] r] eqn:Hrest; [exact I| |discriminate].
    destruct (tk_idx k); [exact I|]. apply unrec_no_panic. exact HL.
  - destruct Hm as [Hk Hi].
    destruct (act_some _ i (linked_top_lt _ HL) Hi) as [a Ha]. rewrite Ha.
    destruct (as_shift a) eqn:Hs; [exact I|].
    destruct (as_reduce a) as [p|] eqn:Hr.
    + assert (Ht : tact A (top_state (stk s)) (Some i) = AReduce p).
      { unfold tact. rewrite Ha. unfold decode. rewrite Hs, Hr. reflexivity. }
      pose proof (reduce_facts A C Hshape Hexact orc (stk s) (Some i) p (Some (tk_lo k)) HL Hi Ht) as Hred.
      inversion Hred; try discriminate; exact I.
    + unfold error_recovery. rewrite Hnorec. simpl. apply unrec_no_panic. exact HL.
  - destruct (eof_some _ (linked_top_lt _ HL)) as [a Ha]. rewrite Ha.
    destruct (as_reduce a) as [p|] eqn:Hr.
    + assert (Ht : tact A (top_state (stk s)) None = AReduce p).
      { unfold tact. rewrite Ha. unfold decode.
        assert (Hs : as_shift a = None).
        { unfold as_reduce in Hr. unfold as_shift. destruct (a <? 0)%Z eqn:H1; [|discriminate].
          apply Z.ltb_lt in H1. destruct (0 <? a)%Z eqn:H2; [apply Z.ltb_lt in H2; lia|reflexivity]. }
        rewrite Hs, Hr. reflexivity. }
      pose proof (reduce_facts A C Hshape Hexact orc (stk s) None p None HL I Ht) as Hred.
      inversion Hred; try discriminate; exact I.
    + unfold error_recovery. rewrite Hnorec. simpl. apply unrec_no_panic. exact HL.
Qed.

Lemma run_no_panic fuel w : forall n m s r s',
  Inv A C w m s -> run A orc fuel n m s = (r, s') -> r <> RPanic.
Proof.
  induction n as [|n IH]; intros m s r s' HI H; simpl in H.
  - inversion H; subst. discriminate.
  - pose proof (step_no_panic fuel w m s HI) as Hnp.
    pose proof (step_inv A C Hshape Hexact Hnorec orc fuel w m s HI) as Hinv.
    destruct (step A orc fuel m s) as [m' s1|r1 s1].
    + eapply IH; eauto.
    + inversion H; subst. exact Hnp.
Qed.

Theorem no_panic fuel w r s :
  Forall (fun k => match tk_idx k with Some t => t < tn_names A | None => True end) w ->
  drive A orc fuel (map IOk w) = (r, s) -> r <> RPanic.
Proof.
  intros Hw H. unfold drive in H. eapply (run_no_panic fuel w); [|exact H].
  refine (conj _ (conj _ (conj _ (conj _ (conj _ _))))); simpl; auto.
  - rewrite toks_map_ok. reflexivity.
  - apply Forall_forall. intros i Hi. apply in_map_iff in Hi as (k & <- & Hk).
    rewrite Forall_forall in Hw. apply (Hw k Hk).
Qed.
End NoPanic.
