(** The run-level invariant for C04: at every point of a parse (validated, productive tables, no
    recovery) the tokens consumed so far are a prefix of some sentence; hence the prefix that
    precedes the token reported by [UnrecognizedToken] is viable. *)
From Coq Require Import List ZArith Bool Arith Lia.
From LV Require Import LR.Driver LR.Validator LR.Safety LR.ValidatorSpec LR.Soundness LR.Completeness LR.ErrorPos LR.Locality LR.Viable.
Import ListNotations.

Section VR.
Variable A : tables.
Variable C : cert.
Hypothesis Hshape : shape A C = true.
Hypothesis Hexact : exact A C = true.
Hypothesis Hprod : productive A C = true.
Hypothesis Hnorec : uses_recovery A = false.
Hypothesis Hstart : exists it, In it (items_of C 0).
Hypothesis Hseo : start_eof_only A = true.
Variable orc : oracle.
Variable fuel : nat.
Variable w : list token.

Notation viable := (viable A).

Definition J (m : mode) (s : pst) : Prop :=
  Inv A C w m s /\ viable (yields (stk s)) /\
  npulled s = length (yields (stk s)) + length (pending m) /\
  exists v, rest s = map IOk v.

Definition finV (r : result) (s' : pst) : Prop :=
  match r with
  | RErr (PUnrecTok k exp) =>
    exists u v, w = u ++ k :: v /\ viable u /\ npulled s' = S (length u) /\
                forall x kx, In x exp -> tk_idx kx = Some x -> viable (u ++ [kx])
  | RErr (PUnrecEof _ exp) => forall x kx, In x exp -> tk_idx kx = Some x -> viable (w ++ [kx])
  | _ => True
  end.

(* the expected list of an error raised on a good stack names viable continuations only *)
Lemma unrec_expected s0 tok :
  good A C (stk s0) ->
  match unrec_error A fuel s0 tok with
  | RErr (PUnrecTok _ exp) | RErr (PUnrecEof _ exp) =>
    forall x kx, In x exp -> tk_idx kx = Some x -> viable (yields (stk s0) ++ [kx])
  | _ => True
  end.
Proof.
  intros Hg. unfold unrec_error, expected_tokens.
  destruct (expected_go A fuel (states_of (stk s0)) 0 (tn_names A)) as [L| |] eqn:E; try exact I.
  destruct tok; intros x kx Hx Hk; exact (expected_viable A C Hshape Hexact Hprod Hnorec Hseo fuel (stk s0) L x kx Hg E Hx Hk).
Qed.

Lemma toks_map v : toks (map IOk v) = v.
Proof. induction v; simpl; congruence. Qed.

Lemma inv_good m s : Inv A C w m s -> good A C (stk s).
Proof. intros (HL & Hpu & _). split; assumption. Qed.

Lemma tact_shift top i a target : act_at A top i = Some a -> as_shift a = Some target ->
  tact A top (Some i) = AShift target.
Proof. intros Ha Hs. unfold tact, decode. rewrite Ha, Hs. reflexivity. Qed.

Lemma step_J m s : J m s ->
  match step A orc fuel m s with
  | Cont m' s' => J m' s'
  | Fin r s' => finV r s'
  end.
Proof.
  intros (HI & HV & HN & (v & Hv)).
  pose proof (step_inv A C Hshape Hexact Hnorec orc fuel w m s HI) as HS.
  pose proof HI as (HL & Hpu & Hy & Hok & Hacts & Hm).
  destruct m as [|k i|].
  - (* MNeed *)
    unfold step, next_token in *. rewrite Hv in *. destruct v as [|k v']; cbn [map] in *.
    + split; [exact HS|]. cbn [stk log]. split; [exact HV|].
      split; [cbn [npulled log pending length] in *; lia|]. exists []. cbn [rest log]. exact Hv.
    + destruct (tk_idx k) as [i|] eqn:Hi.
      * split; [exact HS|]. cbn [stk]. split; [exact HV|].
        split; [cbn [npulled pending length] in *; lia|]. exists v'. reflexivity.
      * set (s1 := {| stk := stk s; rest := map IOk v'; npulled := S (npulled s); last_loc := tk_hi k; trace := Pull (npulled s) :: trace s |}).
        pose proof (unrec_shape A fuel s1 (Some k)) as Hsh.
        pose proof (unrec_expected s1 (Some k) (inv_good _ _ HI)) as Hex.
        destruct (unrec_error A fuel s1 (Some k)) as [t|e0| |]; try exact I.
        destruct e0; try exact I; [|destruct Hsh as [[Hk0 _] _]; discriminate]. cbn [finV].
        destruct Hsh as [Hk0 _]. injection Hk0 as Hk0. rewrite <- Hk0.
        exists (yields (stk s)), v'. cbn in Hy. rewrite toks_map in Hy. split; [symmetry; exact Hy|].
        split; [exact HV|]. split; [cbn in *; lia|exact Hex].
  - (* MHave *)
    destruct Hm as [Hk Hi].
    assert (Hkeep : forall m' s', step A orc fuel (MHave k i) s = Cont m' s' -> rest s' = rest s /\ npulled s' = npulled s).
    { intros m' s' E. apply (step_keeps A Hnorec orc fuel (MHave k i) s m' s'); [discriminate|exact E]. }
    unfold step in *.
    destruct (act_at A (top_state (stk s)) i) as [a|] eqn:Ea; [|exact I].
    destruct (as_shift a) as [target|] eqn:Es.
    + (* shift *)
      split; [exact HS|]. cbn [stk log set_stk npulled rest pending length].
      rewrite yields_cons. cbn [e_tree yield fst].
      split.
      * apply (viable_shift A C Hshape Hexact Hprod Hnorec (stk s) k i target (inv_good _ _ HI) Hk Hi).
        apply (tact_shift _ _ a); assumption.
      * split; [rewrite app_length; cbn in *; lia|exists v; exact Hv].
    + destruct (as_reduce a) as [p|] eqn:Er.
      * destruct (reduce A orc p (Some (tk_lo k)) (stk s)) as [[|r|st'] ev] eqn:Ered; [exact I| |].
        -- destruct (reduce_done_cases A orc _ _ _ _ _ Ered) as [[t ->]|[x ->]]; exact I.
        -- (* reduce and continue: what has been consumed does not change *)
           destruct (Hkeep _ _ eq_refl) as [Hr' Hn'].
           pose proof HS as (_ & _ & Hy' & _).
           assert (Heq : yields (stk (set_stk (logo s ev) st')) = yields (stk s)).
           { rewrite Hr' in Hy'. rewrite <- Hy in Hy'. apply app_inv_tail in Hy'. exact Hy'. }
           split; [exact HS|]. rewrite Heq. split; [exact HV|]. split; [rewrite Hn'; exact HN|].
           exists v. rewrite Hr'. exact Hv.
      * rewrite (error_recovery_norec A Hnorec orc fuel (Some (k, i)) s). cbn [option_map fst].
        pose proof (unrec_shape A fuel s (Some k)) as Hsh.
        pose proof (unrec_expected s (Some k) (inv_good _ _ HI)) as Hex.
        destruct (unrec_error A fuel s (Some k)) as [t|e0| |]; try exact I.
        destruct e0; try exact I; [|destruct Hsh as [[Hk0 _] _]; discriminate]. cbn [finV].
        destruct Hsh as [Hk0 _]. injection Hk0 as Hk0. rewrite <- Hk0.
        exists (yields (stk s)), v. cbn in Hy. rewrite Hv, toks_map in Hy. split; [symmetry; exact Hy|].
        split; [exact HV|]. split; [cbn in HN; lia|exact Hex].
  - (* MEof *)
    assert (Hkeep : forall m' s', step A orc fuel MEof s = Cont m' s' -> rest s' = rest s /\ npulled s' = npulled s).
    { intros m' s' E. apply (step_keeps A Hnorec orc fuel MEof s m' s'); [discriminate|exact E]. }
    unfold step in *.
    destruct (eof_at A (top_state (stk s))) as [a|] eqn:Ea; [|exact I].
    destruct (as_reduce a) as [p|] eqn:Er.
    + destruct (reduce A orc p None (stk s)) as [[|r|st'] ev] eqn:Ered; [exact I| |].
      * destruct (reduce_done_cases A orc _ _ _ _ _ Ered) as [[t ->]|[x ->]]; exact I.
      * destruct (Hkeep _ _ eq_refl) as [Hr' Hn'].
        pose proof HS as (_ & _ & Hy' & _).
        assert (Heq : yields (stk (set_stk (logo s ev) st')) = yields (stk s)).
        { rewrite Hr' in Hy'. rewrite <- Hy in Hy'. apply app_inv_tail in Hy'. exact Hy'. }
        split; [exact HS|]. rewrite Heq. split; [exact HV|]. split; [rewrite Hn'; exact HN|].
        exists v. rewrite Hr'. exact Hv.
    + rewrite (error_recovery_norec A Hnorec orc fuel None s). cbn [option_map].
      pose proof (unrec_shape A fuel s None) as Hsh.
      pose proof (unrec_expected s None (inv_good _ _ HI)) as Hex.
      destruct (unrec_error A fuel s None) as [t|e0| |]; try exact I.
      destruct e0; try exact I; [destruct Hsh as [Hk' _]; discriminate|]. cbn [finV].
      (* at end of input everything has been consumed *)
      assert (Hw : yields (stk s) = w).
      { cbn in Hy. rewrite Hm in Hy. cbn in Hy. rewrite app_nil_r in Hy. exact Hy. }
      rewrite <- Hw. exact Hex.
Qed.

Lemma run_J : forall n m s r s', J m s -> run A orc fuel n m s = (r, s') -> finV r s'.
Proof.
  induction n as [|n IH]; intros m s r s' HJ H; cbn [run] in H.
  - inversion H; subst. exact I.
  - pose proof (step_J m s HJ) as Hs.
    destruct (step A orc fuel m s) as [m1 s1|r1 s1].
    + eapply IH; eauto.
    + inversion H; subst. exact Hs.
Qed.
End VR.
