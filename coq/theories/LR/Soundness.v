(** Soundness of the table-driven parser on validated tables: a successful run returns a derivation
    tree of the start symbol whose leaves are exactly the input tokens, in order; user actions run
    in post-order of that tree.  (Grammars without error recovery; recovery is handled in
    LR/Recovery.v.) *)
From Coq Require Import List ZArith Bool Arith Lia.
From LV Require Import LR.Driver LR.Validator LR.Safety LR.ValidatorSpec.
Import ListNotations.

Section TreeInd.
  Variable P : tree -> Prop.
  Hypothesis HL : forall k, P (Leaf k).
  Hypothesis HE : forall e d lo hi, P (ErrLeaf e d lo hi).
  Hypothesis HN : forall p kids, Forall P kids -> P (Node p kids).
  Fixpoint tree_ind' (t : tree) : P t :=
    match t with
    | Leaf k => HL k
    | ErrLeaf e d lo hi => HE e d lo hi
    | Node p kids =>
      HN p kids ((fix go l : Forall P l :=
                    match l with [] => Forall_nil P | k :: r => Forall_cons k (tree_ind' k) (go r) end) kids)
    end.
End TreeInd.

Fixpoint yield (t : tree) : list token :=
  match t with
  | Leaf k => [k]
  | ErrLeaf _ _ _ _ => []
  | Node _ kids => (fix go (l : list tree) : list token :=
                      match l with [] => [] | x :: r => yield x ++ go r end) kids
  end.
Lemma yield_node p kids : yield (Node p kids) = flat_map yield kids.
Proof. simpl. induction kids as [|k r IH]; simpl; [reflexivity|]. now rewrite IH. Qed.

(* post-order list of the productions of the tree's nodes *)
Fixpoint postorder (t : tree) : list nat :=
  match t with
  | Leaf _ | ErrLeaf _ _ _ _ => []
  | Node p kids => (fix go (l : list tree) : list nat :=
                      match l with [] => [] | x :: r => postorder x ++ go r end) kids ++ [p]
  end.
Lemma postorder_node p kids : postorder (Node p kids) = flat_map postorder kids ++ [p].
Proof. simpl. f_equal. Qed.

(* no error-recovery leaves *)
Fixpoint pure (t : tree) : Prop :=
  match t with
  | Leaf _ => True
  | ErrLeaf _ _ _ _ => False
  | Node _ kids => (fix go (l : list tree) : Prop := match l with [] => True | x :: r => pure x /\ go r end) kids
  end.
Lemma pure_node p kids : pure (Node p kids) <-> Forall pure kids.
Proof.
  simpl. induction kids as [|k r IH]; simpl; split; intros H; auto.
  - destruct H as [H1 H2]. constructor; [exact H1|apply IH; exact H2].
  - inversion H; subst. split; [assumption|apply IH; assumption].
Qed.

Definition toks (l : list item) : list token :=
  flat_map (fun i => match i with IOk k => [k] | IErr _ => [] end) l.
Definition acts (tr : list event) : list nat :=
  flat_map (fun e => match e with Act p _ _ => [p] | ActFail p _ => [p] | _ => [] end) (rev tr).

Section Sound.
Variable A : tables.
Variable C : cert.
Hypothesis Hshape : shape A C = true.
Hypothesis Hexact : exact A C = true.
Hypothesis Hnorec : uses_recovery A = false.
Variable orc : oracle.
Variable fuel : nat.

Notation core := (core C).
Notation Linked := (Linked A core).
Notation wf := (wf A).

Definition item_ok (i : item) : Prop :=
  match i with IOk k => match tk_idx k with Some t => t < tn_names A | None => True end | IErr _ => True end.

Lemma names_term : tn_names A = tn_term A.
Proof.
  destruct (shape_proj A C Hshape) as (_ & _ & H & _). apply Nat.eqb_eq in H.
  rewrite Hnorec in H. lia.
Qed.

Definition yields (st : list entry) : list token := flat_map (fun e => yield (e_tree e)) (rev st).
Definition posts (st : list entry) : list nat := flat_map (fun e => postorder (e_tree e)) (rev st).
Definition pending (m : mode) : list token := match m with MHave k _ => [k] | _ => [] end.

Definition Inv (w : list token) (m : mode) (s : pst) : Prop :=
  Linked (stk s) /\ Forall (fun e => pure (e_tree e)) (stk s) /\
  yields (stk s) ++ pending m ++ toks (rest s) = w /\
  Forall item_ok (rest s) /\
  acts (trace s) = posts (stk s) /\
  match m with
  | MHave k i => tk_idx k = Some i /\ i < tn_term A
  | MEof => rest s = []
  | MNeed => True
  end.

Lemma reduce_facts st a p la_start :
  Linked st -> la_ok A a -> tact A (top_state st) a = AReduce p ->
  reduce_ok A core orc p st (reduce A orc p la_start st).
Proof.
  intros. eapply reduce_linked; eauto using EXK, EXC, EX0, E0, start_fresh, core_lt.
  intros s a0 p0 Hla Ht. eapply RJ; eauto.
Qed.

Lemma yields_cons e st : yields (e :: st) = yields st ++ yield (e_tree e).
Proof. unfold yields. simpl. rewrite flat_map_app. simpl. now rewrite app_nil_r. Qed.
Lemma posts_cons e st : posts (e :: st) = posts st ++ postorder (e_tree e).
Proof. unfold posts. simpl. rewrite flat_map_app. simpl. now rewrite app_nil_r. Qed.

Lemma flat_map_rev_split {X Y} (f : X -> list Y) k (st : list X) :
  flat_map f (rev st) = flat_map f (rev (skipn k st)) ++ flat_map f (rev (firstn k st)).
Proof.
  rewrite <- (firstn_skipn k st) at 1. rewrite rev_app_distr, flat_map_app. reflexivity.
Qed.

Lemma flat_map_map {X Y Z} (f : X -> Y) (g : Y -> list Z) l :
  flat_map g (map f l) = flat_map (fun x => g (f x)) l.
Proof. induction l; simpl; congruence. Qed.
Lemma yields_split k st :
  yields st = yields (skipn k st) ++ flat_map yield (map e_tree (rev (firstn k st))).
Proof. unfold yields. rewrite (flat_map_rev_split _ k st), flat_map_map. reflexivity. Qed.
Lemma posts_split k st :
  posts st = posts (skipn k st) ++ flat_map postorder (map e_tree (rev (firstn k st))).
Proof. unfold posts. rewrite (flat_map_rev_split _ k st), flat_map_map. reflexivity. Qed.

Lemma Forall_skipn {X} (Q : X -> Prop) k l : Forall Q l -> Forall Q (skipn k l).
Proof. revert l; induction k; intros [|x l] H; simpl; auto. inversion H; auto. Qed.
Lemma firstn_In {X} (x : X) k l : In x (firstn k l) -> In x l.
Proof. revert l; induction k; intros [|y l] H; simpl in *; try tauto. destruct H; auto. Qed.

Lemma acts_cons ev tr : acts (ev :: tr) =
  acts tr ++ match ev with Act p _ _ => [p] | ActFail p _ => [p] | _ => [] end.
Proof. unfold acts. simpl. rewrite flat_map_app. simpl. now rewrite app_nil_r. Qed.
Lemma acts_log s ev : acts (trace (log s ev)) =
  acts (trace s) ++ match ev with Act p _ _ => [p] | ActFail p _ => [p] | _ => [] end.
Proof. apply acts_cons. Qed.

(* the observable result of a finished run *)
Definition final_ok (w : list token) (r : result) (s : pst) : Prop :=
  match r with
  | ROk v => wf v (Nt (start_nt A)) /\ pure v /\ yield v = w /\
             acts (trace s) ++ [start_prod A] = postorder v
  | _ => True
  end.

Lemma unrec_not_ok s tok : match unrec_error A fuel s tok with ROk _ => False | _ => True end.
Proof. unfold unrec_error. destruct (expected_tokens _ _ _); auto. destruct tok; exact I. Qed.
Ltac unrec := match goal with |- context [unrec_error ?a ?f ?s ?t] =>
  let H := fresh in pose proof (unrec_not_ok s t) as H; destruct (unrec_error a f s t); [contradiction|exact I..] end.

Lemma decode_cases o :
  match decode o with
  | AShift s' => exists a, o = Some a /\ as_shift a = Some s'
  | AReduce p => exists a, o = Some a /\ as_shift a = None /\ as_reduce a = Some p
  | AErr => exists a, o = Some a /\ as_shift a = None /\ as_reduce a = None
  | ABad => o = None
  end.
Proof.
  destruct o as [a|]; simpl; [|reflexivity].
  destruct (as_shift a) eqn:Hs; [eauto|]. destruct (as_reduce a) eqn:Hr; eauto.
Qed.

Lemma step_inv w m s :
  Inv w m s ->
  match step A orc fuel m s with
  | Cont m' s' => Inv w m' s'
  | Fin r s' => final_ok w r s'
  end.
Proof.
  intros (HL & Hpu & Hy & Hok & Hacts & Hm). unfold step. destruct m as [|k i|].
  - (* MNeed *)
    unfold next_token. destruct (rest s) as [|[k|e] r] eqn:Hrest.
    + repeat split; simpl; auto.
      * simpl in Hy. rewrite Hrest. exact Hy.
      * rewrite Hrest. constructor.
      * rewrite acts_cons. simpl. rewrite app_nil_r. exact Hacts.
    + inversion Hok as [|? ? Hk Hok']; subst. simpl in Hk.
      destruct (tk_idx k) as [i|] eqn:Hi.
      * repeat split; simpl; auto.
        -- rewrite acts_cons. simpl. rewrite app_nil_r. exact Hacts.
        -- rewrite <- names_term. exact Hk.
      * simpl. unrec.
    + exact I.
  - (* MHave *)
    destruct Hm as [Hk Hi].
    pose proof (decode_cases (act_at A (top_state (stk s)) i)) as Hd.
    assert (Ht : tact A (top_state (stk s)) (Some i) = decode (act_at A (top_state (stk s)) i)) by reflexivity.
    destruct (decode (act_at A (top_state (stk s)) i)) as [s'|p| |] eqn:Hdec.
    + destruct Hd as (a & -> & Hs). rewrite Hs.
      refine (conj _ (conj _ (conj _ (conj _ (conj _ _))))); simpl; auto.
      * eapply (shift_linked A core (stk s) k i s'); eauto.
      * constructor; [exact I|exact Hpu].
      * rewrite yields_cons. simpl. simpl in Hy. rewrite <- app_assoc. exact Hy.
      * rewrite acts_cons, posts_cons. simpl. rewrite !app_nil_r. exact Hacts.
    + destruct Hd as (a & -> & Hs & Hr). rewrite Hs, Hr.
      pose proof (reduce_facts (stk s) (Some i) p (Some (tk_lo k)) HL Hi Ht) as Hred.
      inversion Hred as [e kids Ho Hne Heq|kids Hst Hwf Hkids Hlen Heq|st' lo hi kids Hne Ho Hkids Hst' HL' Hlen Heq].
      * exact I.
      * exact I.
      * refine (conj _ (conj _ (conj _ (conj _ (conj _ _))))); simpl; auto.
        -- subst st'. constructor; [|apply Forall_skipn; exact Hpu]. simpl e_tree. apply pure_node. subst kids.
           apply Forall_forall. intros t Hin. apply in_map_iff in Hin as (e & <- & Hin).
           apply in_rev in Hin. apply firstn_In in Hin. rewrite Forall_forall in Hpu. auto.
        -- subst st'. rewrite yields_cons. simpl e_tree. rewrite yield_node. subst kids.
           rewrite <- Hy, (yields_split (length (rhs A p)) (stk s)). reflexivity.
        -- rewrite acts_cons. subst st'. rewrite posts_cons. simpl e_tree. rewrite postorder_node. subst kids.
           rewrite Hacts, (posts_split (length (rhs A p)) (stk s)), app_assoc. reflexivity.
    + destruct Hd as (a & -> & Hs & Hr). rewrite Hs, Hr.
      unfold error_recovery. rewrite Hnorec. simpl.
      unrec.
    + rewrite Hd. exact I.
  - (* MEof *)
    pose proof (decode_cases (eof_at A (top_state (stk s)))) as Hd.
    assert (Ht : tact A (top_state (stk s)) None = decode (eof_at A (top_state (stk s)))) by reflexivity.
    destruct (decode (eof_at A (top_state (stk s)))) as [s'|p| |] eqn:Hdec.
    + destruct Hd as (a & -> & Hs).
      (* a positive entry in the EOF row is not a reduce: error path *)
      assert (Hr : as_reduce a = None).
      { unfold as_shift in Hs. unfold as_reduce. destruct (0 <? a)%Z eqn:H0; [|discriminate].
        apply Z.ltb_lt in H0. destruct (a <? 0)%Z eqn:H1; [apply Z.ltb_lt in H1; lia|reflexivity]. }
      rewrite Hr. unfold error_recovery. rewrite Hnorec. simpl. unrec.
    + destruct Hd as (a & -> & Hs & Hr). rewrite Hr.
      pose proof (reduce_facts (stk s) None p None HL I Ht) as Hred.
      inversion Hred as [e kids Ho Hne Heq|kids Hst Hwf Hkids Hlen Heq|st' lo hi kids Hne Ho Hkids Hst' HL' Hlen Heq].
      * exact I.
      * unfold final_ok. cbn [logo]. rewrite Hm in Hy. simpl in Hy. rewrite app_nil_r in Hy.
        split; [subst p; exact Hwf|]. split; [|split].
        -- apply pure_node. subst kids. apply Forall_forall. intros t Hin.
           apply in_map_iff in Hin as (e & <- & Hin). apply in_rev in Hin.
           rewrite Forall_forall in Hpu. auto.
        -- rewrite yield_node. subst kids. rewrite <- Hy. unfold yields. apply flat_map_map.
        -- rewrite postorder_node. subst kids p. rewrite Hacts. unfold posts. f_equal.
           symmetry. apply flat_map_map.
      * refine (conj _ (conj _ (conj _ (conj _ (conj _ _))))); simpl; auto.
        -- subst st'. constructor; [|apply Forall_skipn; exact Hpu]. simpl e_tree. apply pure_node. subst kids.
           apply Forall_forall. intros t Hin. apply in_map_iff in Hin as (e & <- & Hin).
           apply in_rev in Hin. apply firstn_In in Hin. rewrite Forall_forall in Hpu. auto.
        -- subst st'. rewrite yields_cons. simpl e_tree. rewrite yield_node. subst kids.
           rewrite <- Hy, (yields_split (length (rhs A p)) (stk s)). reflexivity.
        -- rewrite acts_cons. subst st'. rewrite posts_cons. simpl e_tree. rewrite postorder_node. subst kids.
           rewrite Hacts, (posts_split (length (rhs A p)) (stk s)), app_assoc. reflexivity.
    + destruct Hd as (a & -> & Hs & Hr). rewrite Hr.
      unfold error_recovery. rewrite Hnorec. simpl. unrec.
    + rewrite Hd. exact I.
Qed.

Lemma run_inv w : forall n m s r s',
  Inv w m s -> run A orc fuel n m s = (r, s') -> final_ok w r s'.
Proof.
  induction n as [|n IH]; intros m s r s' HI H; simpl in H.
  - inversion H; subst. exact I.
  - pose proof (step_inv w m s HI) as Hs.
    destruct (step A orc fuel m s) as [m' s1|r1 s1].
    + eapply IH; eauto.
    + inversion H; subst. exact Hs.
Qed.

Lemma toks_map_ok w : toks (map IOk w) = w.
Proof. induction w; simpl; congruence. Qed.

(** Soundness: an accepted input is derivable from the start symbol, the tree returned is its
    derivation (its leaves are the input tokens in order), and the user actions that ran are the
    tree's productions in post-order (each node exactly once; the internal start production last). *)
Theorem sound w v s :
  Forall (fun k => match tk_idx k with Some t => t < tn_names A | None => True end) w ->
  drive A orc fuel (map IOk w) = (ROk v, s) ->
  wf v (Nt (start_nt A)) /\ pure v /\ yield v = w /\ acts (trace s) ++ [start_prod A] = postorder v.
Proof.
  intros Hw H. unfold drive in H.
  apply (run_inv w) in H; [exact H|].
  repeat split; simpl; auto.
  - rewrite toks_map_ok. reflexivity.
  - apply Forall_forall. intros i Hi. apply in_map_iff in Hi as (k & <- & Hk).
    rewrite Forall_forall in Hw. apply (Hw k Hk).
Qed.
End Sound.
