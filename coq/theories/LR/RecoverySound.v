(** Soundness of the shape of results WITH error recovery (C16): whatever the input and whatever is
    dropped or popped during recovery, a tree that the parser returns is a derivation tree of the start
    symbol in which every error node stands exactly where the grammar has the recovery symbol `!`
    (i.e. [wf], which reads an [ErrLeaf] as the terminal in the error column). *)
From Coq Require Import List ZArith Bool Arith Lia.
From LV Require Import LR.Driver LR.Validator LR.Safety LR.ValidatorSpec LR.Soundness.
Import ListNotations.

Section RS.
Variable A : tables.
Variable C : cert.
Hypothesis Hshape : shape A C = true.
Hypothesis Hexact : exact A C = true.
Hypothesis Herr : uses_recovery A = true -> err_col A < tn_term A.
Variable orc : oracle.
Variable fuel : nat.

Notation core := (core C).
Notation Linked := (Linked A core).
Notation wf := (wf A).

Definition tok_ok (k : token) : Prop := match tk_idx k with Some t => t < tn_term A | None => True end.
Definition item_ok (i : item) : Prop := match i with IOk k => tok_ok k | IErr _ => True end.

Definition L (m : mode) (s : pst) : Prop :=
  Linked (stk s) /\ Forall item_ok (rest s) /\
  match m with MHave k i => tk_idx k = Some i /\ i < tn_term A | _ => True end.

Definition fin (r : result) : Prop := match r with ROk v => wf v (Nt (start_nt A)) | _ => True end.

Lemma red_facts st a p la_start : Linked st -> la_ok A a -> tact A (top_state st) a = AReduce p ->
  reduce_ok A core orc p st (reduce A orc p la_start st).
Proof.
  intros. eapply reduce_linked; eauto using EXK, EXC, EX0, E0, start_fresh, core_lt.
  intros s a0 p0 Hla Ht. eapply RJ; eauto.
Qed.

Lemma tact_reduce (top : nat) o a p : o = Some a -> as_shift a = None -> as_reduce a = Some p ->
  decode o = AReduce p.
Proof. intros -> Hs Hr. unfold decode. rewrite Hs, Hr. reflexivity. Qed.

Lemma tact_shift' (top : nat) o a t : o = Some a -> as_shift a = Some t -> decode o = AShift t.
Proof. intros -> Hs. unfold decode. rewrite Hs. reflexivity. Qed.

Lemma as_reduce_no_shift a p : as_reduce a = Some p -> as_shift a = None.
Proof.
  unfold as_reduce, as_shift. destruct (a <? 0)%Z eqn:Hn; [|discriminate]. intros _.
  apply Z.ltb_lt in Hn. destruct (0 <? a)%Z eqn:Hp; [apply Z.ltb_lt in Hp; lia|reflexivity].
Qed.

(* next_token keeps the stack and the well-formedness of what is still to be read *)
Lemma next_token_L s : Linked (stk s) -> Forall item_ok (rest s) ->
  match next_token A fuel s with
  | (Found k i, s1) => stk s1 = stk s /\ Forall item_ok (rest s1) /\ tk_idx k = Some i /\ i < tn_term A
  | (NEof, s1) => stk s1 = stk s /\ Forall item_ok (rest s1)
  | (NDone r, s1) => fin r
  end.
Proof.
  intros HL Hok. unfold next_token. destruct (rest s) as [|[k|e] r] eqn:Hr.
  - cbn. rewrite Hr. auto.
  - inversion Hok as [|? ? Hk Hok']; subst. cbn in Hk. unfold tok_ok in Hk.
    destruct (tk_idx k) as [i|] eqn:Hi; cbn.
    + repeat split; auto.
    + unfold unrec_error. destruct (expected_tokens _ _ _); cbn; auto.
  - exact I.
Qed.

Lemma unrec_fin s tok : fin (unrec_error A fuel s tok).
Proof. unfold unrec_error. destruct (expected_tokens _ _ _); cbn; auto. destruct tok; exact I. Qed.

(* the reductions that error recovery performs with the error terminal as lookahead *)
Lemma pre_reduce_L : forall f la s, uses_recovery A = true -> Linked (stk s) ->
  match pre_reduce A orc f la s with
  | PrDone r s1 => fin r
  | PrBreak s1 => Linked (stk s1) /\ rest s1 = rest s
  | _ => True
  end.
Proof.
  induction f as [|f IH]; intros la s Hu HL; cbn [pre_reduce]; [exact I|].
  destruct (act_at A (top_state (stk s)) (err_col A)) as [a|] eqn:Ea; [|exact I].
  destruct (as_reduce a) as [p|] eqn:Er; [|split; [exact HL|reflexivity]].
  assert (Ht : tact A (top_state (stk s)) (Some (err_col A)) = AReduce p).
  { unfold tact. apply (tact_reduce 0 _ a); [exact Ea|exact (as_reduce_no_shift _ _ Er)|exact Er]. }
  pose proof (red_facts (stk s) (Some (err_col A)) p la HL (Herr Hu) Ht) as Hred.
  inversion Hred as [e kids Ho Hne Heq|kids Hst Hwf Hkids Hlen Heq|st' lo hi kids Hne Ho Hkids Hst' HL' Hlen Heq].
  - exact I.
  - cbn. subst p. exact Hwf.
  - specialize (IH la (set_stk (logo s (Some (Act p lo hi))) st') Hu HL').
    destruct (pre_reduce A orc f la (set_stk (logo s (Some (Act p lo hi))) st')); auto.
Qed.

Lemma find_loop_L : forall n err la dropped s, Linked (stk s) -> Forall item_ok (rest s) ->
  (forall k i, la = Some (k, i) -> tk_idx k = Some i /\ i < tn_term A) ->
  match find_loop A fuel n err la dropped s with
  | FlDone r s1 => fin r
  | FlFound j la' dropped' s1 =>
      stk s1 = stk s /\ Forall item_ok (rest s1) /\ (forall k i, la' = Some (k, i) -> tk_idx k = Some i /\ i < tn_term A)
  | _ => True
  end.
Proof.
  induction n as [|n IH]; intros err la dropped s HL Hok Hla; cbn [find_loop].
  - destruct (find_state A fuel (stk s) 0 (option_map snd la)); auto.
    destruct la as [[k i]|]; [exact I|exact I].
  - destruct (find_state A fuel (stk s) 0 (option_map snd la)); auto.
    destruct la as [[k i]|]; [|exact I].
    pose proof (next_token_L (log s (Drop (npulled s - 1))) HL Hok) as Hn.
    destruct (next_token A fuel (log s (Drop (npulled s - 1)))) as [[k' i'| |r] s1].
    + destruct Hn as (Hs & Hok1 & Hk & Hi).
      assert (HL1 : Linked (stk s1)) by (rewrite Hs; exact HL).
      specialize (IH err (Some (k', i')) (dropped ++ [k]) s1 HL1 Hok1).
      destruct (find_loop A fuel n err (Some (k', i')) (dropped ++ [k]) s1); auto.
      * apply IH. intros k0 i0 E. inversion E; subst. auto.
      * destruct IH as (H1 & H2 & H3); [intros k0 i0 E; inversion E; subst; auto|].
        split; [rewrite H1, Hs; reflexivity|]. split; [exact H2|exact H3].
    + destruct Hn as (Hs & Hok1).
      assert (HL1 : Linked (stk s1)) by (rewrite Hs; exact HL).
      specialize (IH err None (dropped ++ [k]) s1 HL1 Hok1).
      destruct (find_loop A fuel n err None (dropped ++ [k]) s1); auto.
      * apply IH. intros k0 i0 E. discriminate.
      * destruct IH as (H1 & H2 & H3); [intros k0 i0 E; discriminate|].
        split; [rewrite H1, Hs; reflexivity|]. split; [exact H2|exact H3].
    + exact Hn.
Qed.

Lemma error_recovery_L la s : Linked (stk s) -> Forall item_ok (rest s) ->
  (forall k i, la = Some (k, i) -> tk_idx k = Some i /\ i < tn_term A) ->
  match error_recovery A orc fuel la s with
  | (Found k i, s1) => L (MHave k i) s1
  | (NEof, s1) => L MEof s1
  | (NDone r, s1) => fin r
  end.
Proof.
  intros HL Hok Hla. unfold error_recovery.
  case_eq (uses_recovery A); intros Hu; cbn [negb]; [|apply unrec_fin].
  pose proof (unrec_fin s (option_map fst la)) as Hun.
  destruct (unrec_error A fuel s (option_map fst la)) as [v|err| |]; try exact Hun.
  pose proof (pre_reduce_L fuel (option_map (fun l => tk_lo (fst l)) la) s Hu HL) as Hpre.
  destruct (pre_reduce A orc fuel _ s) as [| |r s1|s1]; try exact I; [exact Hpre|].
  destruct Hpre as [HL1 Hr1].
  assert (Hok1 : Forall item_ok (rest s1)) by (rewrite Hr1; exact Hok).
  pose proof (find_loop_L (S (length (rest s1))) err la [] s1 HL1 Hok1 Hla) as Hfl.
  destruct (find_loop A fuel (S (length (rest s1))) err la [] s1) as [| |r s2|j la' dropped s2]; try exact I; [exact Hfl|].
  destruct Hfl as (Hs2 & Hok2 & Hla').
  destruct (act_at A (top_state (skipn j (stk s2))) (err_col A)) as [a|] eqn:Ea; [|exact I].
  destruct (as_shift a) as [es|] eqn:Es; [|exact I].
  assert (HLk : Linked (skipn j (stk s2))) by (rewrite Hs2; apply linked_skipn; exact HL1).
  assert (Ht : tact A (top_state (skipn j (stk s2))) (Some (err_col A)) = AShift es).
  { unfold tact. apply (tact_shift' 0 _ a); assumption. }
  match goal with |- context [set_stk s2 (?e :: _)] => set (entry := e) end.
  assert (HLn : Linked (entry :: skipn j (stk s2))).
  { cbn [Safety.Linked]. unfold entry, esym. cbn [e_tree e_state sym_of].
    split; [constructor|]. split; [|exact HLk].
    apply e_shift; [exact (Herr Hu)|exact Ht]. }
  destruct la' as [[k i]|].
  - destruct (Hla' k i eq_refl) as [Hk Hi].
    split; [exact HLn|]. split; [exact Hok2|]. split; assumption.
  - split; [exact HLn|]. split; [exact Hok2|exact I].
Qed.

Lemma step_L m s : L m s ->
  match step A orc fuel m s with
  | Cont m' s' => L m' s'
  | Fin r s' => fin r
  end.
Proof.
  intros (HL & Hok & Hm). unfold step. destruct m as [|k i|].
  - pose proof (next_token_L s HL Hok) as Hn.
    destruct (next_token A fuel s) as [[k i| |r] s1].
    + destruct Hn as (Hs & Hok1 & Hk & Hi). split; [rewrite Hs; exact HL|]. split; [exact Hok1|]. split; assumption.
    + destruct Hn as (Hs & Hok1). split; [rewrite Hs; exact HL|]. split; [exact Hok1|exact I].
    + exact Hn.
  - destruct Hm as [Hk Hi].
    destruct (act_at A (top_state (stk s)) i) as [a|] eqn:Ea; [|exact I].
    destruct (as_shift a) as [target|] eqn:Es.
    + split; [|split; [exact Hok|exact I]]. cbn [stk log set_stk].
      apply (shift_linked A core (stk s) k i target HL Hk Hi). unfold tact. apply (tact_shift' 0 _ a); assumption.
    + destruct (as_reduce a) as [p|] eqn:Er.
      * assert (Ht : tact A (top_state (stk s)) (Some i) = AReduce p) by (unfold tact; apply (tact_reduce 0 _ a); assumption).
        pose proof (red_facts (stk s) (Some i) p (Some (tk_lo k)) HL Hi Ht) as Hred.
        inversion Hred as [e kids Ho Hne Heq|kids Hst Hwf Hkids Hlen Heq|st' lo hi kids Hne Ho Hkids Hst' HL' Hlen Heq].
        -- exact I.
        -- exact I.
        -- split; [exact HL'|]. split; [exact Hok|]. split; assumption.
      * pose proof (error_recovery_L (Some (k, i)) s HL Hok ltac:(intros k0 i0 E; inversion E; subst; auto)) as Her.
        destruct (error_recovery A orc fuel (Some (k, i)) s) as [[k' i'| |r] s1]; exact Her.
  - destruct (eof_at A (top_state (stk s))) as [a|] eqn:Ea; [|exact I].
    destruct (as_reduce a) as [p|] eqn:Er.
    + assert (Ht : tact A (top_state (stk s)) None = AReduce p)
        by (unfold tact; apply (tact_reduce 0 _ a); [exact Ea|exact (as_reduce_no_shift _ _ Er)|exact Er]).
      pose proof (red_facts (stk s) None p None HL I Ht) as Hred.
      inversion Hred as [e kids Ho Hne Heq|kids Hst Hwf Hkids Hlen Heq|st' lo hi kids Hne Ho Hkids Hst' HL' Hlen Heq].
      * exact I.
      * cbn. subst p. exact Hwf.
      * split; [exact HL'|]. split; [exact Hok|exact I].
    + pose proof (error_recovery_L None s HL Hok ltac:(intros k0 i0 E; discriminate)) as Her.
      destruct (error_recovery A orc fuel None s) as [[k i| |r] s1]; [exact I|exact Her|exact Her].
Qed.

Lemma run_L : forall n m s r s', L m s -> run A orc fuel n m s = (r, s') -> fin r.
Proof.
  induction n as [|n IH]; intros m s r s' HL H; cbn [run] in H.
  - inversion H; subst. exact I.
  - pose proof (step_L m s HL) as Hs.
    destruct (step A orc fuel m s) as [m1 s1|r1 s1].
    + eapply IH; eauto.
    + inversion H; subst. exact Hs.
Qed.

Theorem recovered_tree_is_a_derivation w v s :
  Forall tok_ok w ->
  drive A orc fuel (map IOk w) = (ROk v, s) -> wf v (Nt (start_nt A)).
Proof.
  intros Hw H. unfold drive in H. apply (run_L fuel MNeed (init (map IOk w)) (ROk v) s); [|exact H].
  repeat split; cbn; auto.
  apply Forall_forall. intros i Hi. apply in_map_iff in Hi as (k & <- & Hk). rewrite Forall_forall in Hw. exact (Hw k Hk).
Qed.
End RS.
