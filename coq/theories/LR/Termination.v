(** Termination of the reduce phases from the validator's [terminates] certificate (no recovery).
    Part 1: on state lists -- the sequence of reductions the tables prescribe for a fixed lookahead
    ends within an explicit bound, for every linked state list. *)
From Coq Require Import List ZArith Bool Arith Lia.
From LV Require Import LR.Driver LR.Validator LR.Safety LR.ValidatorSpec LR.NoPanic.
Import ListNotations.

Section Term.
Variable A : tables.
Variable C : cert.
Hypothesis Hshape : shape A C = true.
Hypothesis Hexact : exact A C = true.
Hypothesis Hterm : terminates A C = true.

Notation core := (core C).
Notation edge := (edge A core).
Notation SLinked := (SLinked A C).
Notation N := (n_states A).
Notation F := (c_F C).

(** one reduction on the state vector (top first, the base state 0 last); None: the phase is over
    (shift, error, accept, or the tables ask for more entries than there are) *)
Definition sred (a : la) (l : list nat) : option (list nat) :=
  match tact A (hd 0 l) a with
  | AReduce p =>
    if p =? start_prod A then None
    else let k := length (rhs A p) in
         if k <? length l then Some (goto_at A (hd 0 (skipn k l)) (lhs A p) :: skipn k l) else None
  | _ => None
  end.

(* None: halted within n steps; Some l': still running after n steps *)
Fixpoint siter (n : nat) (a : la) (l : list nat) : option (list nat) :=
  match n with
  | O => Some l
  | S n' => match sred a l with None => None | Some l' => siter n' a l' end
  end.

Lemma siter_add n1 : forall n2 a l,
  siter (n1 + n2) a l = match siter n1 a l with None => None | Some l' => siter n2 a l' end.
Proof.
  induction n1 as [|n1 IH]; intros n2 a l; cbn [Nat.add siter]; [reflexivity|].
  destruct (sred a l); [apply IH|reflexivity].
Qed.

Lemma siter_none_mono n a l k : siter n a l = None -> siter (n + k) a l = None.
Proof. intros H. rewrite siter_add, H. reflexivity. Qed.

Lemma siter_none_le n m a l : siter n a l = None -> n <= m -> siter m a l = None.
Proof. intros H Hl. replace m with (n + (m - n)) by lia. apply siter_none_mono. exact H. Qed.

(** [closed] simulates [sred] on the part of the vector above its base entry *)
Definition esc (below : list nat) (m nt : nat) : option (list nat) :=
  if m - 1 <? length below then Some (goto_at A (hd 0 (skipn (m - 1) below)) nt :: skipn (m - 1) below) else None.

Lemma hd_app_base (loc : list nat) q below : hd 0 (loc ++ q :: below) = hd q loc.
Proof. destruct loc; reflexivity. Qed.

Lemma skipn_app_le {X} k (l1 l2 : list X) : k <= length l1 -> skipn k (l1 ++ l2) = skipn k l1 ++ l2.
Proof.
  revert l1. induction k as [|k IH]; intros l1 H; [reflexivity|].
  destruct l1 as [|x l1]; [cbn in H; lia|]. cbn [app skipn]. apply IH. cbn in H. lia.
Qed.

Lemma skipn_app_gt {X} k (l1 l2 : list X) : length l1 <= k -> skipn k (l1 ++ l2) = skipn (k - length l1) l2.
Proof.
  revert l1. induction k as [|k IH]; intros l1 H.
  - destruct l1; [reflexivity|cbn in H; lia].
  - destruct l1 as [|x l1]; [reflexivity|]. cbn [app skipn length]. rewrite IH by (cbn in H; lia). reflexivity.
Qed.

Lemma closed_sim a q : forall f loc r, closed A f a q loc = r -> forall below,
  match r with
  | CEnd => exists n, n <= f /\ siter n a (loc ++ q :: below) = None
  | CEscape m nt => 1 <= m /\ exists n, n < f /\
       siter (S n) a (loc ++ q :: below) = esc below m nt
  | _ => True
  end.
Proof.
  induction f as [|f IH]; intros loc r H below; cbn [closed] in H; [subst; exact I|].
  destruct (tact A (hd q loc) a) as [s'|p| |] eqn:Et.
  - subst r. exists 1. split; [lia|]. cbn [siter]. unfold sred. rewrite hd_app_base, Et. reflexivity.
  - destruct (p =? start_prod A) eqn:Ep.
    + subst r. exists 1. split; [lia|]. cbn [siter]. unfold sred. rewrite hd_app_base, Et, Ep. reflexivity.
    + destruct (length (rhs A p) <=? length loc) eqn:Ek.
      * apply Nat.leb_le in Ek.
        specialize (IH _ _ H below).
        assert (Hstep : sred a (loc ++ q :: below) = Some ((goto_at A (hd q (skipn (length (rhs A p)) loc)) (lhs A p) :: skipn (length (rhs A p)) loc) ++ q :: below)).
        { unfold sred. rewrite hd_app_base, Et, Ep. rewrite app_length. cbn [length].
          replace (length (rhs A p) <? length loc + S (length below)) with true by (symmetry; apply Nat.ltb_lt; lia).
          rewrite (skipn_app_le _ _ _ Ek), hd_app_base. reflexivity. }
        destruct r as [|m nt| |]; try exact I.
        -- destruct IH as (n & Hn & Hs). exists (S n). split; [lia|]. cbn [siter]. rewrite Hstep. exact Hs.
        -- destruct IH as (Hm & n & Hn & Hs). split; [exact Hm|]. exists (S n). split; [lia|].
           cbn [siter]. rewrite Hstep. exact Hs.
      * apply Nat.leb_gt in Ek. subst r. split; [lia|]. exists 0. split; [lia|].
        cbn [siter]. unfold sred, esc. rewrite hd_app_base, Et, Ep. rewrite app_length. cbn [length].
        destruct (length (rhs A p) <? length loc + S (length below)) eqn:El.
        -- apply Nat.ltb_lt in El.
           replace (length (rhs A p) - length loc - 1 <? length below) with true by (symmetry; apply Nat.ltb_lt; lia).
           rewrite (skipn_app_gt (length (rhs A p)) loc (q :: below)) by lia.
           remember (length (rhs A p) - length loc - 1) as j eqn:Ej.
           replace (length (rhs A p) - length loc) with (S j) by lia.
           cbn [skipn]. reflexivity.
        -- apply Nat.ltb_ge in El.
           replace (length (rhs A p) - length loc - 1 <? length below) with false by (symmetry; apply Nat.ltb_ge; lia).
           reflexivity.
  - subst r. exists 1. split; [lia|]. cbn [siter]. unfold sred. rewrite hd_app_base, Et. reflexivity.
  - subst r. exact I.
Qed.

(** what [terminates] gives *)
Lemma la_in_all a : la_ok A a -> In a (all_la A).
Proof. apply all_la_in. Qed.

Lemma term_closed a q : la_ok A a -> q < N ->
  match closed A F a q [] with CFuel | CBad => False | _ => True end.
Proof.
  intros Ha Hq. unfold terminates in Hterm. rewrite forallb_forall in Hterm.
  specialize (Hterm a (la_in_all a Ha)). apply andb_true_iff in Hterm as [H1 _].
  rewrite forallb_forall in H1. specialize (H1 q (proj2 (seq_in _ _) Hq)).
  destruct (closed A F a q []); try discriminate; exact I.
Qed.

Lemma term_chain a s0 q : la_ok A a -> s0 < N -> In q (succs A s0) -> chain A C (S N) a s0 q = true.
Proof.
  intros Ha Hs Hq. unfold terminates in Hterm. rewrite forallb_forall in Hterm.
  specialize (Hterm a (la_in_all a Ha)). apply andb_true_iff in Hterm as [_ H2].
  rewrite forallb_forall in H2. specialize (H2 s0 (proj2 (seq_in _ _) Hs)).
  rewrite forallb_forall in H2. exact (H2 q Hq).
Qed.

(* the nonterminal of an escape is a real one, so the goto target is a successor *)
Lemma closed_escape_nt a q : la_ok A a -> forall f loc m nt, Forall (fun s => s < N) (q :: loc) ->
  closed A f a q loc = CEscape m nt -> nt < n_nt A.
Proof.
  intros Ha. induction f as [|f IH]; intros loc m nt Hall H; cbn [closed] in H; [discriminate|].
  destruct (tact A (hd q loc) a) as [s'|p| |] eqn:Et; try discriminate.
  assert (Hhd : hd q loc < N) by (inversion Hall; subst; destruct loc; [assumption|]; cbn; inversion H3; assumption).
  assert (Hp : p < n_prods A).
  { pose proof (act_ok_of A C Hshape (hd q loc) a Hhd Ha) as Hok. unfold act_ok in Hok. rewrite Et in Hok.
    apply Nat.ltb_lt in Hok. exact Hok. }
  destruct (p =? start_prod A); [discriminate|].
  destruct (length (rhs A p) <=? length loc) eqn:Ek.
  - eapply IH; [|exact H]. inversion Hall; subst. constructor; [assumption|].
    constructor; [apply (goto_lt A C Hshape)|]. apply Forall_forall. intros x Hx.
    rewrite Forall_forall in H3. apply H3.
    rewrite <- (firstn_skipn (length (rhs A p)) loc). apply in_or_app. right. exact Hx.
  - inversion H; subst. pose proof (prod_shape_of A C Hshape p Hp) as Hps. unfold prod_shape in Hps.
    rewrite !andb_true_iff in Hps. destruct Hps as ((((Hl & _) & _) & _) & _). apply Nat.ltb_lt in Hl. exact Hl.
Qed.

Lemma goto_in_succs s0 nt : nt < n_nt A -> In (goto_at A s0 nt) (succs A s0).
Proof.
  intros H. unfold succs. apply in_or_app. right. apply in_map_iff. exists nt. split; [reflexivity|apply seq_in; exact H].
Qed.

(** the bound *)
Definition lvl (h n : nat) : nat := (n + h * (S (S N))) * S F.

Lemma halts_level : forall h n a q s0 rest, la_ok A a ->
  length (s0 :: rest) = h -> Forall (fun s => s < N) (q :: s0 :: rest) ->
  chain A C n a s0 q = true ->
  siter (lvl h n) a (q :: s0 :: rest) = None.
Proof.
  induction h as [h IHh] using lt_wf_ind. induction n as [|n IHn]; intros a q s0 rest Ha Hlen Hall Hch; [discriminate|].
  cbn [chain] in Hch. unfold repl in Hch.
  assert (Hq : q < N) by (inversion Hall; assumption).
  pose proof (term_closed a q Ha Hq) as Htc.
  pose proof (closed_sim a q F [] _ eq_refl (s0 :: rest)) as Hsim. cbn [app] in Hsim.
  destruct (closed A F a q []) as [|m nt| |] eqn:Ec; try (destruct Htc).
  - destruct Hsim as (k & Hk & Hs). apply (siter_none_le k); [exact Hs|]. unfold lvl. nia.
  - destruct Hsim as (Hm & k & Hk & Hs).
    assert (Hnt : nt < n_nt A).
    { apply (closed_escape_nt a q Ha F [] m nt); [constructor; [exact Hq|constructor]|exact Ec]. }
    unfold esc in Hs.
    destruct (m - 1 <? length (s0 :: rest)) eqn:El.
    + apply Nat.ltb_lt in El.
      (* continue from the new vector *)
      assert (Hrest : forall b, siter b a (goto_at A (hd 0 (skipn (m - 1) (s0 :: rest))) nt :: skipn (m - 1) (s0 :: rest)) = None ->
                     S k + b <= lvl h (S n) -> siter (lvl h (S n)) a (q :: s0 :: rest) = None).
      { intros b Hb Hle. apply (siter_none_le (S k + b)); [|exact Hle]. rewrite siter_add, Hs. exact Hb. }
      destruct (Nat.eq_dec m 1) as [->|Hm1].
      * (* replacement of the top entry: the chain goes on *)
        cbn [Nat.sub skipn hd] in *.
        apply (Hrest (lvl h n)).
        -- apply (IHn a (goto_at A s0 nt) s0 rest Ha Hlen); [|exact Hch].
           inversion Hall; subst. constructor; [apply (goto_lt A C Hshape)|assumption].
        -- unfold lvl. nia.
      * (* more than one entry below the base is popped: a lower level *)
        remember (skipn (m - 1) (s0 :: rest)) as below' eqn:Eb.
        assert (Hbl : length below' = h - (m - 1)) by (subst below'; rewrite skipn_length; lia).
        destruct below' as [|s0' rest']; [cbn in Hbl; lia|]. cbn [hd] in *.
        assert (Hall' : Forall (fun s => s < N) (s0' :: rest')).
        { apply Forall_forall. intros x Hx. inversion Hall as [|? ? _ Hall2]; subst. rewrite Forall_forall in Hall2. apply Hall2.
          rewrite <- (firstn_skipn (m - 1) (s0 :: rest)). apply in_or_app. right. rewrite <- Eb. exact Hx. }
        apply (Hrest (lvl (length (s0' :: rest')) (S N))).
        -- apply (IHh (length (s0' :: rest')) ltac:(lia) (S N) a (goto_at A s0' nt) s0' rest' Ha eq_refl).
           ++ constructor; [apply (goto_lt A C Hshape)|exact Hall'].
           ++ apply term_chain; [exact Ha|inversion Hall'; assumption|apply goto_in_succs; exact Hnt].
        -- unfold lvl. rewrite Hbl. nia.
    + apply (siter_none_le (S k)); [exact Hs|]. unfold lvl. nia.
Qed.

Lemma slinked_states_lt l : SLinked l -> Forall (fun s => s < N) l.
Proof.
  induction l as [|s' r IH]; intros H; [destruct H|].
  constructor; [exact (slinked_hd_lt A C Hshape (s' :: r) H)|].
  cbn [NoPanic.SLinked] in H. destruct r as [|s r']; [constructor|]. apply IH. apply H.
Qed.

Lemma edge_in_succs s X s' : edge s X s' -> In s' (succs A s).
Proof.
  intros He. destruct He as [s x s' Hx Ha|s B p d Hc Hn].
  - unfold succs. apply in_or_app. left. apply in_flat_map. exists x. split; [apply seq_in; exact Hx|].
    rewrite Ha. left. reflexivity.
  - apply goto_in_succs.
    pose proof (prod_shape_of A C Hshape p (core_lt A C Hshape _ _ _ Hc)) as Hps. unfold prod_shape in Hps.
    rewrite !andb_true_iff in Hps. destruct Hps as ((((_ & Hsy) & _) & _) & _).
    rewrite forallb_forall in Hsy. specialize (Hsy (Nt B) (nth_error_In _ _ Hn)). cbn in Hsy.
    apply Nat.ltb_lt in Hsy. exact Hsy.
Qed.

Definition bound (len : nat) : nat := lvl len (S N) + S F.

(** every reduce phase on a linked state vector ends within [bound] steps *)
Theorem reduce_phase_halts a l : la_ok A a -> SLinked l -> siter (bound (length l)) a l = None.
Proof.
  intros Ha HL. pose proof (slinked_states_lt l HL) as Hall.
  destruct l as [|q r]; [destruct HL|]. destruct r as [|s0 rest].
  - (* only the base state *)
    cbn [NoPanic.SLinked] in HL. subst q.
    pose proof (term_closed a 0 Ha (nstates_pos A C Hshape)) as Htc.
    pose proof (closed_sim a 0 F [] _ eq_refl []) as Hsim. cbn [app] in Hsim.
    destruct (closed A F a 0 []) as [|m nt| |]; try (destruct Htc).
    + destruct Hsim as (k & Hk & Hs). apply (siter_none_le k); [exact Hs|]. unfold bound, lvl. nia.
    + destruct Hsim as (Hm & k & Hk & Hs). unfold esc in Hs. cbn [length] in Hs.
      replace (m - 1 <? 0) with false in Hs by (symmetry; apply Nat.ltb_ge; lia).
      apply (siter_none_le (S k)); [exact Hs|]. unfold bound, lvl. nia.
  - cbn [NoPanic.SLinked] in HL. destruct HL as [(X & He) _].
    apply (siter_none_le (lvl (length (s0 :: rest)) (S N))).
    + apply (halts_level _ (S N) a q s0 rest Ha eq_refl Hall).
      apply term_chain; [exact Ha|inversion Hall as [|? ? _ H2]; inversion H2; assumption|exact (edge_in_succs _ _ _ He)].
    + unfold bound. cbn [length]. unfold lvl. nia.
Qed.
End Term.

(** Part 2: the driver.  Every run on validated tables without error recovery ends: a budget exists
    beyond which the answer is never "budget exhausted", whatever the input. *)
From LV Require Import LR.Soundness LR.Locality.

Section Run.
Variable A : tables.
Variable C : cert.
Hypothesis Hshape : shape A C = true.
Hypothesis Hexact : exact A C = true.
Hypothesis Hterm : terminates A C = true.
Hypothesis Hnorec : uses_recovery A = false.
Variable orc : oracle.

Notation core := (core C).
Notation Linked := (Linked A core).
Notation SLinked := (SLinked A C).
Notation Inv := (Inv A C).
Notation bnd := (bound A C).

Lemma accepts_halts : forall n l a f, SLinked l -> la_ok A a -> siter A n a l = None -> n <= f ->
  accepts A f l a <> AFuel.
Proof.
  induction n as [|n IH]; intros l a f HL Ha Hs Hf; [discriminate|].
  destruct f as [|f]; [lia|]. cbn [accepts].
  destruct l as [|top r] eqn:El; [destruct HL|]. rewrite <- El in HL.
  assert (Htop : top < n_states A) by (pose proof (slinked_hd_lt A C Hshape l HL) as H; rewrite El in H; exact H).
  assert (Hsome : exists z, (match a with None => eof_at A top | Some t => act_at A top t end) = Some z).
  { destruct a as [t|]; [apply (act_some A C Hshape); auto|apply (eof_some A); auto]. }
  destruct Hsome as [z Hz]. rewrite Hz.
  destruct (z =? 0)%Z eqn:H0; [discriminate|].
  destruct (as_reduce z) as [p|] eqn:Hr; [|discriminate].
  assert (Ht : tact A top a = AReduce p).
  { unfold tact. rewrite Hz. apply decode_reduce_raw; auto. }
  destruct (RJ A C Hshape Hexact _ _ _ Ha Ht) as [Hc Hp].
  destruct (sim_of_prod A C Hshape p Hp) as [Hsim [k Hk]]. rewrite Hk.
  destruct (nth_error (sim_nt A) p) as [[nt|]|]; [|discriminate|destruct Hsim].
  destruct Hsim as (Hne & -> & Hk'). rewrite Hk in Hk'. inversion Hk'; subst k.
  assert (Hc' : core (hd 0 l) p (length (rhs A p))) by (rewrite El; exact Hc).
  destruct (walk_back_s A C Hshape Hexact l p _ HL Hc') as [Hlen Hall].
  rewrite <- El.
  replace (length l <=? length (rhs A p)) with false by (symmetry; apply Nat.leb_gt; exact Hlen).
  assert (Hsr : sred A a l = Some (goto_at A (hd 0 (skipn (length (rhs A p)) l)) (lhs A p) :: skipn (length (rhs A p)) l)).
  { unfold sred. rewrite El. cbn [hd]. rewrite Ht. rewrite <- El.
    replace (p =? start_prod A) with false by (symmetry; apply Nat.eqb_neq; exact Hne).
    cbv zeta. replace (length (rhs A p) <? length l) with true by (symmetry; apply Nat.ltb_lt; exact Hlen). reflexivity. }
  cbn [siter] in Hs. rewrite <- El in Hs. rewrite Hsr in Hs.
  apply (IH _ a f); [|exact Ha|exact Hs|lia].
  specialize (Hall _ (le_n _)). rewrite Nat.sub_diag in Hall.
  pose proof (slinked_skipn A C _ _ HL Hlen) as HL'.
  destruct (skipn (length (rhs A p)) l) as [|b r'] eqn:Es; [destruct HL'|].
  cbn [hd] in *. cbn [NoPanic.SLinked]. split; [|exact HL'].
  destruct (EXC A C Hshape Hexact _ _ Hall) as [[_ Hq]|(p' & d' & Hc2 & Hn)]; [congruence|].
  exists (Nt (lhs A p)). eapply e_goto; eauto.
Qed.

Lemma accepts_bounded l a f : SLinked l -> la_ok A a -> bnd (length l) <= f -> accepts A f l a <> AFuel.
Proof.
  intros HL Ha Hf. exact (accepts_halts _ l a f HL Ha (reduce_phase_halts A C Hshape Hterm a l Ha HL) Hf).
Qed.

Lemma expected_go_halts f l : SLinked l -> bnd (length l) <= f -> forall n i, i + n <= tn_term A ->
  expected_go A f l i n <> EFuel.
Proof.
  intros HL Hf. induction n as [|n IH]; intros i Hi; cbn [expected_go]; [discriminate|].
  assert (Hla : la_ok A (Some i)) by (cbn; lia).
  pose proof (accepts_halts _ l (Some i) f HL Hla (reduce_phase_halts A C Hshape Hterm (Some i) l Hla HL) Hf) as Hacc.
  destruct (accepts A f l (Some i)); try discriminate.
  - specialize (IH (S i)). destruct (expected_go A f l (S i) n); try discriminate. apply IH. lia.
  - apply IH. lia.
  - exfalso. apply Hacc. reflexivity.
Qed.

Lemma unrec_halts f s tok : Linked (stk s) -> bnd (length (states_of (stk s))) <= f -> unrec_error A f s tok <> RFuel.
Proof.
  intros HL Hf. unfold unrec_error, expected_tokens.
  pose proof (expected_go_halts f _ (slinked_of_linked A C _ HL) Hf (tn_names A) 0) as H.
  destruct (expected_go A f (states_of (stk s)) 0 (tn_names A)); try discriminate.
  - destruct tok; discriminate.
  - exfalso. apply H; [pose proof (names_le A C Hshape); lia|reflexivity].
Qed.

(** halting of a configuration *)
Definition Halt (m : mode) (s : pst) : Prop := exists f n, fst (run A orc f n m s) <> RFuel.

Lemma halt_cont f m s m' s' : step A orc f m s = Cont m' s' -> Halt m' s' -> Halt m s.
Proof.
  intros E (f1 & n1 & H). exists (Nat.max f f1), (S n1). cbn [run].
  rewrite (step_mono A Hnorec orc f m s _ E I (Nat.max f f1) (Nat.le_max_l _ _)).
  destruct (run A orc f1 n1 m' s') as [r s2] eqn:Er. cbn [fst] in H.
  rewrite (run_mono A Hnorec orc f1 n1 m' s' r s2 Er H (Nat.max f f1) n1 (Nat.le_max_r _ _) (le_n _)). exact H.
Qed.

Lemma halt_fin f m s r s' : step A orc f m s = Fin r s' -> r <> RFuel -> Halt m s.
Proof. intros E H. exists f, 1. cbn [run]. rewrite E. exact H. Qed.

Lemma hd_states_of st : hd 0 (states_of st) = top_state st.
Proof. destruct st as [|e st]; reflexivity. Qed.

Lemma skipn_states_of k st : k <= length st -> skipn k (states_of st) = states_of (skipn k st).
Proof.
  intros H. unfold states_of. rewrite skipn_app_le by (rewrite map_length; exact H). rewrite skipn_map. reflexivity.
Qed.

Lemma length_states_of st : length (states_of st) = S (length st).
Proof. unfold states_of. rewrite app_length, map_length. cbn. lia. Qed.

(* a continuing reduce is one [sred] on the state vector *)
Lemma reduce_cont_sred st a p la_start st' ev : Linked st -> la_ok A a -> tact A (top_state st) a = AReduce p ->
  reduce A orc p la_start st = (RdCont st', ev) -> sred A a (states_of st) = Some (states_of st').
Proof.
  intros HL Ha Ht E.
  pose proof (reduce_facts A C Hshape Hexact orc st a p la_start HL Ha Ht) as Hred. rewrite E in Hred.
  inversion Hred as [| |st2 lo hi kids Hne Ho Hkids Hst' HL' Hlen Heq]; subst.
  unfold sred. rewrite hd_states_of, Ht.
  replace (p =? start_prod A) with false by (symmetry; apply Nat.eqb_neq; exact Hne).
  cbv zeta. rewrite length_states_of.
  replace (length (rhs A p) <? S (length st)) with true by (symmetry; apply Nat.ltb_lt; lia).
  rewrite (skipn_states_of _ _ Hlen), hd_states_of. reflexivity.
Qed.

Lemma as_reduce_no_shift a p : as_reduce a = Some p -> as_shift a = None.
Proof.
  unfold as_reduce, as_shift. intros Hr. destruct (a <? 0)%Z eqn:H1; [|discriminate].
  apply Z.ltb_lt in H1. destruct (0 <? a)%Z eqn:H2; [apply Z.ltb_lt in H2; lia|reflexivity].
Qed.

Lemma step_have_spec f w k i s : Inv w (MHave k i) s ->
  match step A orc f (MHave k i) s with
  | Cont m' s' => m' = MNeed \/ (m' = MHave k i /\ sred A (Some i) (states_of (stk s)) = Some (states_of (stk s')))
  | Fin r _ => r = unrec_error A f s (Some k) \/ r <> RFuel
  end.
Proof.
  intros (HL & _ & _ & _ & _ & Hk & Hi). unfold step.
  destruct (act_at A (top_state (stk s)) i) as [a|] eqn:Ha; [|right; discriminate].
  destruct (as_shift a) eqn:Hs; [left; reflexivity|].
  destruct (as_reduce a) as [p|] eqn:Hr.
  - assert (Ht : tact A (top_state (stk s)) (Some i) = AReduce p).
    { unfold tact. rewrite Ha. unfold decode. rewrite Hs, Hr. reflexivity. }
    destruct (reduce A orc p (Some (tk_lo k)) (stk s)) as [rr ev] eqn:E.
    destruct rr as [|r|st'].
    + right; discriminate.
    + pose proof (reduce_facts A C Hshape Hexact orc (stk s) (Some i) p (Some (tk_lo k)) HL Hi Ht) as Hred.
      rewrite E in Hred. inversion Hred; subst; right; discriminate.
    + right. split; [reflexivity|]. cbn [stk set_stk].
      eapply reduce_cont_sred; eauto.
  - rewrite (error_recovery_norec A Hnorec orc). cbn [option_map fst]. left. reflexivity.
Qed.

Lemma step_eof_spec f w s : Inv w MEof s ->
  match step A orc f MEof s with
  | Cont m' s' => m' = MEof /\ sred A None (states_of (stk s)) = Some (states_of (stk s'))
  | Fin r _ => r = unrec_error A f s None \/ r <> RFuel
  end.
Proof.
  intros (HL & _ & _ & _ & _ & _). unfold step.
  destruct (eof_at A (top_state (stk s))) as [a|] eqn:Ha; [|right; discriminate].
  destruct (as_reduce a) as [p|] eqn:Hr.
  - assert (Ht : tact A (top_state (stk s)) None = AReduce p).
    { unfold tact. rewrite Ha. unfold decode. rewrite (as_reduce_no_shift _ _ Hr), Hr. reflexivity. }
    destruct (reduce A orc p None (stk s)) as [rr ev] eqn:E.
    destruct rr as [|r|st'].
    + right; discriminate.
    + pose proof (reduce_facts A C Hshape Hexact orc (stk s) None p None HL I Ht) as Hred.
      rewrite E in Hred. inversion Hred; subst; right; discriminate.
    + split; [reflexivity|]. cbn [stk set_stk]. eapply reduce_cont_sred; eauto. exact I.
  - rewrite (error_recovery_norec A Hnorec orc). cbn [option_map]. left. reflexivity.
Qed.

Lemma inv_linked w m s : Inv w m s -> Linked (stk s).
Proof. intros (HL & _). exact HL. Qed.

Lemma halt_eof_n w : forall n s, Inv w MEof s -> siter A n None (states_of (stk s)) = None -> Halt MEof s.
Proof.
  induction n as [|n IH]; intros s HI Hs; [discriminate|].
  set (f := bnd (length (states_of (stk s)))).
  pose proof (step_eof_spec f w s HI) as Hsp.
  pose proof (step_inv A C Hshape Hexact Hnorec orc f w MEof s HI) as Hinv.
  destruct (step A orc f MEof s) as [m' s'|r s'] eqn:E.
  - destruct Hsp as [-> Hsr]. apply (halt_cont f _ _ _ _ E). apply IH; [exact Hinv|].
    cbn [siter] in Hs. rewrite Hsr in Hs. exact Hs.
  - apply (halt_fin f _ _ _ _ E). destruct Hsp as [->|H]; [|exact H].
    apply unrec_halts; [exact (inv_linked _ _ _ HI)|apply le_n].
Qed.

Lemma halt_eof w s : Inv w MEof s -> Halt MEof s.
Proof.
  intros HI. apply (halt_eof_n w _ s HI (reduce_phase_halts A C Hshape Hterm None _ I (slinked_of_linked A C _ (inv_linked _ _ _ HI)))).
Qed.

Lemma halt_have_n w k i : forall n s, (forall s', Inv w MNeed s' -> rest s' = rest s -> Halt MNeed s') ->
  Inv w (MHave k i) s -> siter A n (Some i) (states_of (stk s)) = None -> Halt (MHave k i) s.
Proof.
  induction n as [|n IH]; intros s Hneed HI Hs; [discriminate|].
  set (f := bnd (length (states_of (stk s)))).
  pose proof (step_have_spec f w k i s HI) as Hsp.
  pose proof (step_inv A C Hshape Hexact Hnorec orc f w (MHave k i) s HI) as Hinv.
  destruct (step A orc f (MHave k i) s) as [m' s'|r s'] eqn:E.
  - destruct (step_keeps A Hnorec orc f (MHave k i) s m' s' ltac:(discriminate) E) as [Hrest _].
    apply (halt_cont f _ _ _ _ E). destruct Hsp as [->|[-> Hsr]].
    + apply Hneed; assumption.
    + apply IH; [intros s2 H2 Hr2; apply Hneed; [exact H2|congruence]|exact Hinv|].
      cbn [siter] in Hs. rewrite Hsr in Hs. exact Hs.
  - apply (halt_fin f _ _ _ _ E). destruct Hsp as [->|H]; [|exact H].
    apply unrec_halts; [exact (inv_linked _ _ _ HI)|apply le_n].
Qed.

Lemma halt_need w : forall len s, length (rest s) = len -> Inv w MNeed s -> Halt MNeed s.
Proof.
  induction len as [|len IH]; intros s Hlen HI.
  - set (f := 0).
    pose proof (step_inv A C Hshape Hexact Hnorec orc f w MNeed s HI) as Hinv.
    destruct (rest s) as [|it r] eqn:Er; [|discriminate].
    assert (E : step A orc f MNeed s = Cont MEof (log s PullEof)) by (unfold step, next_token; rewrite Er; reflexivity).
    rewrite E in Hinv. apply (halt_cont f _ _ _ _ E). apply (halt_eof w). exact Hinv.
  - set (f := bnd (S (length (states_of (stk s))))).
    pose proof (step_inv A C Hshape Hexact Hnorec orc f w MNeed s HI) as Hinv.
    destruct (rest s) as [|it r] eqn:Er; [discriminate|]. cbn [length] in Hlen.
    unfold step, next_token in Hinv. rewrite Er in Hinv.
    destruct it as [k|e].
    + destruct (tk_idx k) as [i|] eqn:Ei.
      * cbn iota in Hinv.
        match type of Hinv with Inv _ _ ?s1 =>
          assert (E : step A orc f MNeed s = Cont (MHave k i) s1) by (unfold step, next_token; rewrite Er, Ei; reflexivity);
          apply (halt_cont f _ _ _ _ E);
          assert (Hla : la_ok A (Some i)) by (destruct Hinv as (_ & _ & _ & _ & _ & _ & Hi); exact Hi);
          apply (halt_have_n w k i (bnd (length (states_of (stk s1)))) s1); [|exact Hinv|
            exact (reduce_phase_halts A C Hshape Hterm (Some i) _ Hla (slinked_of_linked A C _ (inv_linked _ _ _ Hinv)))]
        end.
        intros s' HI' Hr'. apply IH; [|exact HI']. rewrite Hr'. cbn [rest]. lia.
      * match goal with |- Halt MNeed ?s0 => 
          assert (E : exists s1, step A orc f MNeed s0 = Fin (unrec_error A f s1 (Some k)) s1 /\ stk s1 = stk s0)
            by (unfold step, next_token; rewrite Er, Ei; eexists; split; reflexivity) end.
        destruct E as (s1 & E & Hstk). apply (halt_fin f _ _ _ _ E).
        apply unrec_halts; [rewrite Hstk; exact (inv_linked _ _ _ HI)|rewrite Hstk].
        unfold f. unfold bound, lvl. nia.
    + match goal with |- Halt MNeed ?s0 => 
        assert (E : exists s1, step A orc f MNeed s0 = Fin (RErr e) s1)
          by (unfold step, next_token; rewrite Er; eexists; reflexivity) end.
      destruct E as (s1 & E). apply (halt_fin f _ _ _ _ E). discriminate.
Qed.

Theorem parser_terminates (input : list item) : Forall (item_ok A) input ->
  exists n, forall fuel, n <= fuel -> fst (drive A orc fuel input) <> RFuel.
Proof.
  intros Hin.
  assert (HI : Inv (toks input) MNeed (init input)).
  { refine (conj _ (conj _ (conj _ (conj _ (conj _ _))))); cbn; auto. }
  destruct (halt_need (toks input) _ (init input) eq_refl HI) as (f & n & H).
  exists (Nat.max f n). intros fuel Hf. unfold drive.
  destruct (run A orc f n MNeed (init input)) as [r s'] eqn:Er. cbn [fst] in H.
  rewrite (run_mono A Hnorec orc f n MNeed _ r s' Er H fuel fuel); [exact H|lia|lia].
Qed.
End Run.
