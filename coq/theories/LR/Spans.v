(** The span rule of the generated reduce and of shifting, read off the model. *)
From Coq Require Import List ZArith Bool Arith.
From LV Require Import LR.Driver.
Import ListNotations.

Lemma reduce_span_rule A orc p la st s' t lo hi below ev :
  reduce A orc p la st = (RdCont ((s', t, lo, hi) :: below), ev) ->
  exists k, nth_error (prods A) p = Some k /\
  let popped := rev (firstn (length (snd k)) st) in
  match popped with
  | [] => lo = hi /\ lo = match la with
                          | Some l => l
                          | None => match st with e :: _ => e_hi e | [] => 0%Z end
                          end
  | e :: _ => lo = e_lo e /\ hi = e_hi (last popped e)
  end /\ ev = Some (Act p lo hi).
Proof.
  unfold reduce. destruct (nth_error (prods A) p) as [[nt rhs]|]; [|discriminate].
  destruct (length st <? length rhs); [discriminate|]. destruct (negb _); [discriminate|].
  intros H. exists (nt, rhs). split; [reflexivity|]. simpl snd.
  destruct (rev (firstn (length rhs) st)) as [|e r] eqn:Hp.
  - destruct (Nat.eqb p (start_prod A)); [discriminate|]. destruct (orc p _); [discriminate|].
    inversion H; subst. auto.
  - destruct (Nat.eqb p (start_prod A)); [discriminate|]. destruct (orc p _); [discriminate|].
    inversion H; subst. auto.
Qed.

Lemma shift_span_rule A orc fuel k i s m' s' :
  step A orc fuel (MHave k i) s = Cont m' s' -> m' = MNeed ->
  exists target, stk s' = (target, Leaf k, tk_lo k, tk_hi k) :: stk s.
Proof.
  unfold step. destruct (act_at A (top_state (stk s)) i) as [a|]; [|discriminate].
  destruct (as_shift a) as [tg|].
  - intros H _. inversion H; subst. simpl. eauto.
  - destruct (as_reduce a) as [p|].
    + destruct (reduce A orc p (Some (tk_lo k)) (stk s)) as [[|[v|e| |]|st'] ev]; try discriminate.
      intros H Hm. inversion H; subst. discriminate.
    + destruct (error_recovery A orc fuel (Some (k, i)) s) as [[k' i'| |r] s1]; try discriminate.
      * intros H Hm. inversion H; subst. discriminate.
      * intros H Hm. inversion H; subst. discriminate.
Qed.
