(** From the boolean validator to the propositional conditions of LR/Safety.v (exactness part). *)
From Coq Require Import List ZArith Bool Arith Lia.
From LV Require Import LR.Driver LR.Validator LR.Safety.
Import ListNotations.

Ltac bsplit :=
  repeat match goal with
         | H : _ && _ = true |- _ => apply andb_true_iff in H; destruct H
         end.

Section Spec.
Variable A : tables.
Variable C : cert.

Definition core (s p d : nat) : Prop := has_core C s p d = true.

Lemma find_some_in {X} (f : X -> bool) l x : find f l = Some x -> In x l /\ f x = true.
Proof. apply find_some. Qed.

Lemma core_in s p d : core s p d ->
  exists it, In it (items_of C s) /\ i_prod it = p /\ i_dot it = d.
Proof.
  unfold core, has_core, find_item. destruct (find _ _) as [it|] eqn:Hf; [|discriminate].
  intros _. apply find_some in Hf as [Hin Hb]. apply andb_true_iff in Hb as [H1 H2].
  apply Nat.eqb_eq in H1, H2. eauto.
Qed.

Lemma in_core s it : In it (items_of C s) -> core s (i_prod it) (i_dot it).
Proof.
  intros Hin. unfold core, has_core, find_item.
  destruct (find _ _) as [it'|] eqn:Hf; [reflexivity|].
  exfalso. eapply find_none in Hf; eauto. rewrite !Nat.eqb_refl in Hf. discriminate.
Qed.

Lemma seq_in n x : In x (seq n) <-> x < n.
Proof. unfold seq. rewrite in_seq. lia. Qed.

Hypothesis Hshape : shape A C = true.
Hypothesis Hexact : exact A C = true.

Definition prod_shape (p : nat) : bool :=
  (lhs A p <? n_nt A) && forallb (sym_ok A) (rhs A p) &&
  (match nth p (sim_nt A) None with
   | None => p =? start_prod A
   | Some n => negb (p =? start_prod A) && (n =? lhs A p) && (nth p (sim_pop A) 0 =? length (rhs A p))
   end) &&
  negb (existsb (sym_eqb (Nt (start_nt A))) (rhs A p)) &&
  (if lhs A p =? start_nt A then p =? start_prod A else true).

Lemma shape_proj :
  (0 <? n_states A) = true /\
  (length (action A) =? n_states A * tn_term A) = true /\
  (tn_names A =? tn_term A - (if uses_recovery A then 1 else 0)) = true /\
  (if uses_recovery A then 0 <? tn_term A else true) = true /\
  (length (c_items C) =? n_states A) = true /\
  (length (c_nullable C) =? n_nt A) = true /\ (length (c_first C) =? n_nt A) = true /\
  (length (c_prank C) =? n_nt A) = true /\
  (start_prod A <? n_prods A) = true /\
  (length (sim_pop A) =? n_prods A) = true /\ (length (sim_nt A) =? n_prods A) = true /\
  forallb (fun row => length row =? n_states A) (goto_tbl A) = true /\
  forallb (fun row => forallb (fun s' => s' <? n_states A) row) (goto_tbl A) = true /\
  forallb (fun s => forallb (act_ok A s) (all_la A)) (seq (n_states A)) = true /\
  forallb prod_shape (seq (n_prods A)) = true /\
  forallb (fun s => forallb (fun it => (i_prod it <? n_prods A) && (i_dot it <=? length (rhs A (i_prod it))))
                            (items_of C s)) (seq (n_states A)) = true.
Proof.
  pose proof Hshape as H. unfold shape in H. rewrite !andb_true_iff in H.
  unfold prod_shape. tauto.
Qed.

Lemma prod_shape_of p : p < n_prods A -> prod_shape p = true.
Proof.
  intros Hp. destruct shape_proj as (_&_&_&_&_&_&_&_&_&_&_&_&_&_&H&_).
  rewrite forallb_forall in H. apply H. apply seq_in. exact Hp.
Qed.

Lemma items_state s it : In it (items_of C s) -> s < n_states A.
Proof.
  intros Hin. unfold items_of in Hin.
  destruct (Nat.lt_ge_cases s (n_states A)) as [|Hge]; [assumption|].
  destruct shape_proj as (_&_&_&_&Hl&_). apply Nat.eqb_eq in Hl.
  rewrite nth_overflow in Hin by lia. destruct Hin.
Qed.

Lemma core_state s p d : core s p d -> s < n_states A.
Proof. intros H. apply core_in in H as (it & Hin & _). eapply items_state; eauto. Qed.

Lemma shape_items s it : In it (items_of C s) ->
  i_prod it < n_prods A /\ i_dot it <= length (rhs A (i_prod it)).
Proof.
  intros Hin. pose proof (items_state _ _ Hin) as Hs.
  destruct shape_proj as (_&_&_&_&_&_&_&_&_&_&_&_&_&_&_&H).
  rewrite forallb_forall in H; specialize (H s (proj2 (seq_in _ _) Hs)).
  rewrite forallb_forall in H; specialize (H it Hin); apply andb_true_iff in H as [H1 H2].
  apply Nat.ltb_lt in H1. apply Nat.leb_le in H2. auto.
Qed.

Lemma core_lt s p d : core s p d -> p < length (prods A).
Proof. intros H. apply core_in in H as (it & Hin & <- & _). apply shape_items in Hin. apply Hin. Qed.

Lemma exact_state s : s < n_states A ->
  edges_ok A C s = true /\ closure_ok A C s = true /\ reduces_ok A C s = true.
Proof.
  intros Hs. unfold exact in Hexact. rewrite forallb_forall in Hexact.
  specialize (Hexact s (proj2 (seq_in _ _) Hs)). bsplit. auto.
Qed.

Lemma tact_state s a x : tact A s a = x -> x <> ABad -> 0 < tn_term A \/ a = None -> s < n_states A.
Proof.
  intros Ht Hx Hn. unfold tact in Ht.
  destruct a as [t|].
  - unfold act_at in Ht. destruct (nth_error (action A) (s * tn_term A + t)) eqn:Hnth; [|simpl in Ht; subst; congruence].
    assert (Hl : s * tn_term A + t < length (action A)) by (apply nth_error_Some; congruence).
    destruct shape_proj as (_&Hla&_). apply Nat.eqb_eq in Hla. rewrite Hla in Hl.
    destruct Hn as [Hn|Hn]; [|discriminate]. nia.
  - unfold eof_at in Ht. destruct (nth_error (eof_action A) s) eqn:Hnth; [|simpl in Ht; subst; congruence].
    apply nth_error_Some. unfold n_states. congruence.
Qed.

Lemma sym_eqb_eq x y : sym_eqb x y = true -> x = y.
Proof. destruct x, y; simpl; intros H; try discriminate; apply Nat.eqb_eq in H; congruence. Qed.
Lemma sym_eqb_refl x : sym_eqb x x = true.
Proof. destruct x; simpl; apply Nat.eqb_refl. Qed.

Lemma expects_spec s X : expects A C s X = true <->
  exists p d, core s p d /\ nth_error (rhs A p) d = Some X.
Proof.
  unfold expects. rewrite existsb_exists. split.
  - intros (it & Hin & Hb). destruct (nth_error _ _) as [Y|] eqn:Hn; [|discriminate].
    apply sym_eqb_eq in Hb. subst Y. exists (i_prod it), (i_dot it). split; [apply in_core; auto|auto].
  - intros (p & d & Hc & Hn). apply core_in in Hc as (it & Hin & <- & <-).
    exists it. split; [auto|]. rewrite Hn. apply sym_eqb_refl.
Qed.

Lemma kernel_ok_spec s X s' : kernel_ok A C s X s' = true ->
  s' <> 0 /\ forall p d', core s' p d' -> 0 < d' ->
    exists d, d' = S d /\ nth_error (rhs A p) d = Some X /\ core s p d.
Proof.
  unfold kernel_ok. intros H. apply andb_true_iff in H as [H0 H].
  split. { apply negb_true_iff, Nat.eqb_neq in H0. exact H0. }
  intros p d' Hc Hd. apply core_in in Hc as (it & Hin & <- & <-).
  rewrite forallb_forall in H. specialize (H it Hin).
  destruct (i_dot it) as [|d]; [lia|]. exists d. split; [reflexivity|].
  destruct (nth_error _ _) as [Y|] eqn:Hn; [|discriminate].
  apply andb_true_iff in H as [H1 H2]. apply sym_eqb_eq in H1. subst Y. auto.
Qed.

(** the [exact] hypotheses of LR/Safety.v *)
Notation edge := (edge A core).

Lemma edge_kernel s X s' : edge s X s' -> kernel_ok A C s X s' = true.
Proof.
  intros He. destruct He as [s x s' Hx Ha|s B p d Hc Hn].
  - assert (Hs : s < n_states A).
    { eapply (tact_state s (Some x) (AShift s')); [exact Ha|discriminate|left; lia]. }
    destruct (exact_state s Hs) as (He & _ & _). unfold edges_ok in He.
    apply andb_true_iff in He as [He _]. rewrite forallb_forall in He.
    specialize (He x (proj2 (seq_in _ _) Hx)). rewrite Ha in He.
    apply andb_true_iff in He as [_ He]. exact He.
  - pose proof (core_state _ _ _ Hc) as Hs.
    destruct (exact_state s Hs) as (He & _ & _). unfold edges_ok in He.
    apply andb_true_iff in He as [_ He]. rewrite forallb_forall in He.
    assert (HB : B < n_nt A).
    { pose proof (prod_shape_of p (core_lt _ _ _ Hc)) as Hps. unfold prod_shape in Hps.
      rewrite !andb_true_iff in Hps. destruct Hps as ((((_ & Hsy) & _) & _) & _).
      rewrite forallb_forall in Hsy. specialize (Hsy (Nt B) (nth_error_In _ _ Hn)).
      simpl in Hsy. apply Nat.ltb_lt in Hsy. exact Hsy. }
    specialize (He B (proj2 (seq_in _ _) HB)).
    replace (expects A C s (Nt B)) with true in He; [exact He|].
    symmetry. apply expects_spec. eauto.
Qed.

Lemma EXK : forall s X s', edge s X s' -> forall p d', core s' p d' -> 0 < d' ->
  exists d, d' = S d /\ nth_error (rhs A p) d = Some X /\ core s p d.
Proof. intros s X s' He. apply edge_kernel in He. apply kernel_ok_spec in He. apply He. Qed.

Lemma E0 : forall s X s', edge s X s' -> s' <> 0.
Proof. intros s X s' He. apply edge_kernel in He. apply kernel_ok_spec in He. apply He. Qed.

Lemma closure_spec s it : In it (items_of C s) ->
  match i_dot it with
  | S _ => s <> 0
  | O => (s = 0 /\ i_prod it = start_prod A) \/
         exists par, In par (items_of C s) /\
           nth_error (rhs A (i_prod par)) (i_dot par) = Some (Nt (lhs A (i_prod it))) /\
           (i_dot par = 0 -> i_rank par < i_rank it)
  end.
Proof.
  intros Hin. pose proof (items_state _ _ Hin) as Hs.
  destruct (exact_state s Hs) as (_ & Hc & _). unfold closure_ok in Hc.
  rewrite forallb_forall in Hc. specialize (Hc it Hin).
  destruct (i_dot it) as [|d].
  - apply orb_true_iff in Hc as [Hc|Hc].
    + apply andb_true_iff in Hc as [H1 H2]. apply Nat.eqb_eq in H1, H2. left; auto.
    + right. apply existsb_exists in Hc as (par & Hpin & Hb). exists par. split; [auto|].
      destruct (nth_error _ _) as [[t|B]|]; try discriminate.
      apply andb_true_iff in Hb as [H1 H2]. apply Nat.eqb_eq in H1. subst B. split; [reflexivity|].
      intros Hd. rewrite Hd in H2. apply Nat.ltb_lt in H2. exact H2.
  - apply negb_true_iff, Nat.eqb_neq in Hc. exact Hc.
Qed.

Lemma EXC : forall s q, core s q 0 ->
  (s = 0 /\ q = start_prod A) \/
  exists p d, core s p d /\ nth_error (rhs A p) d = Some (Nt (lhs A q)).
Proof.
  intros s q Hc. apply core_in in Hc as (it & Hin & <- & Hd).
  pose proof (closure_spec s it Hin) as H. rewrite Hd in H.
  destruct H as [H|(par & Hpin & Hn & _)]; [left; exact H|].
  right. exists (i_prod par), (i_dot par). split; [apply in_core; auto|exact Hn].
Qed.

Lemma EX0 : forall p d, core 0 p d -> d = 0.
Proof.
  intros p d Hc. apply core_in in Hc as (it & Hin & <- & <-).
  pose proof (closure_spec 0 it Hin) as H. destruct (i_dot it); [reflexivity|congruence].
Qed.

Lemma all_la_in a : (match a with Some t => t < tn_term A | None => True end) -> In a (all_la A).
Proof.
  unfold all_la. destruct a as [t|]; intros H; [right|left; reflexivity].
  apply in_map. apply seq_in. exact H.
Qed.

Lemma RJ : forall s a p, (match a with Some t => t < tn_term A | None => True end) ->
  tact A s a = AReduce p -> core s p (length (rhs A p)) /\ p < length (prods A).
Proof.
  intros s a p Ha Ht.
  assert (Hs : s < n_states A).
  { eapply (tact_state s a (AReduce p)); [exact Ht|discriminate|]. destruct a; [left; lia|right; reflexivity]. }
  destruct (exact_state s Hs) as (_ & _ & Hr). unfold reduces_ok in Hr.
  rewrite forallb_forall in Hr. specialize (Hr a (all_la_in a Ha)). rewrite Ht in Hr.
  split; [exact Hr|]. eapply core_lt; eauto.
Qed.

Lemma start_fresh : forall p, p < length (prods A) -> ~ In (Nt (lhs A (start_prod A))) (rhs A p).
Proof.
  intros p Hp Hin. pose proof (prod_shape_of p Hp) as Hps. unfold prod_shape in Hps.
  rewrite !andb_true_iff in Hps. destruct Hps as ((_ & Hne) & _). apply negb_true_iff in Hne.
  assert (Hex : existsb (sym_eqb (Nt (start_nt A))) (rhs A p) = true).
  { apply existsb_exists. exists (Nt (lhs A (start_prod A))). split; [exact Hin|apply sym_eqb_refl]. }
  congruence.
Qed.

Lemma start_unique : forall q, q < length (prods A) -> lhs A q = lhs A (start_prod A) -> q = start_prod A.
Proof.
  intros q Hq Hl. pose proof (prod_shape_of q Hq) as Hps. unfold prod_shape in Hps.
  rewrite !andb_true_iff in Hps. destruct Hps as (_ & Hu).
  unfold start_nt in Hu. rewrite Hl, Nat.eqb_refl in Hu. apply Nat.eqb_eq in Hu. exact Hu.
Qed.
End Spec.
