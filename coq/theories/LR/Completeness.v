(** Completeness of the table-driven parser on validated tables: every derivation tree of the start
    symbol (without error leaves) is returned by the run on its yield.  Big-step induction on
    derivation trees; the validator's [complete] conditions provide the item bookkeeping. *)
From Coq Require Import List ZArith Bool Arith Lia.
From LV Require Import LR.Driver LR.Validator LR.Safety LR.ValidatorSpec LR.Soundness.
Import ListNotations.

Lemma skipn_cons_nth {X} (l : list X) n x r : skipn n l = x :: r -> nth_error l n = Some x /\ skipn (S n) l = r.
Proof.
  revert l; induction n as [|n IH]; intros [|y l] H; simpl in *; try discriminate.
  - inversion H; auto.
  - apply IH; assumption.
Qed.

Lemma Forall2_length {X Y} (R : X -> Y -> Prop) l l' : Forall2 R l l' -> length l = length l'.
Proof. induction 1; simpl; congruence. Qed.



Section Complete.
Variable A : tables.
Variable C : cert.
Hypothesis Hshape : shape A C = true.
Hypothesis Hcomplete : complete A C = true.

Notation lhs := (lhs A).
Notation rhs := (rhs A).

(** derivation trees without error leaves *)
Inductive wfp : tree -> sym -> Prop :=
| wfp_leaf k t : tk_idx k = Some t -> t < tn_names A -> wfp (Leaf k) (Tm t)
| wfp_node p kids : p < length (prods A) -> Forall2 wfp kids (rhs p) -> wfp (Node p kids) (Nt (lhs p)).

Definition has_item (s p d : nat) (a : la) : Prop :=
  exists it, In it (items_of C s) /\ i_prod it = p /\ i_dot it = d /\ In a (i_la it).

Lemma la_mem_in a l : la_mem a l = true -> In a l.
Proof.
  unfold la_mem. rewrite existsb_exists. intros (b & Hin & Hb).
  destruct a as [x|], b as [y|]; simpl in Hb; try discriminate; [apply Nat.eqb_eq in Hb; subst|]; exact Hin.
Qed.

Lemma has_las_item s p d L a : has_las C s p d L = true -> In a L -> has_item s p d a.
Proof.
  unfold has_las, find_item. destruct (find _ _) as [it|] eqn:Hf; [|discriminate].
  intros Hsub Ha. apply find_some in Hf as [Hin Hb]. apply andb_true_iff in Hb as [H1 H2].
  apply Nat.eqb_eq in H1, H2. exists it. repeat split; auto.
  unfold la_subset in Hsub. rewrite forallb_forall in Hsub. apply la_mem_in. auto.
Qed.

Lemma complete_proj :
  has_las C 0 (start_prod A) 0 [None] = true /\ first_ok A C = true /\
  forall s it, In it (items_of C s) -> item_complete A C s it = true.
Proof.
  pose proof Hcomplete as H. unfold complete in H. rewrite !andb_true_iff in H.
  destruct H as [[H1 H2] H3]. repeat split; auto.
  intros s it Hin. rewrite forallb_forall in H3.
  assert (Hs : s < n_states A).
  { destruct (Nat.lt_ge_cases s (n_states A)) as [|Hge]; [assumption|].
    destruct (shape_proj A C Hshape) as (_&_&_&_&Hl&_). apply Nat.eqb_eq in Hl.
    unfold items_of in Hin. rewrite nth_overflow in Hin by lia. destruct Hin. }
  specialize (H3 s (proj2 (seq_in _ _) Hs)). rewrite forallb_forall in H3. auto.
Qed.

Lemma SI : has_item 0 (start_prod A) 0 None.
Proof. destruct complete_proj as (H & _). eapply has_las_item; eauto. left; reflexivity. Qed.

Lemma TS s p d a x : has_item s p d a -> nth_error (rhs p) d = Some (Tm x) ->
  exists s', tact A s (Some x) = AShift s' /\ has_item s' p (S d) a.
Proof.
  intros (it & Hin & <- & <- & Ha) Hn. destruct complete_proj as (_ & _ & H).
  specialize (H s it Hin). unfold item_complete in H. rewrite Hn in H.
  destruct (tact A s (Some x)) as [s'| | |]; try discriminate.
  exists s'. split; [reflexivity|]. eapply has_las_item; eauto.
Qed.

Lemma NG s p d a B : has_item s p d a -> nth_error (rhs p) d = Some (Nt B) ->
  has_item (goto_at A s B) p (S d) a.
Proof.
  intros (it & Hin & <- & <- & Ha) Hn. destruct complete_proj as (_ & _ & H).
  specialize (H s it Hin). unfold item_complete in H. rewrite Hn in H.
  apply andb_true_iff in H as [H _]. eapply has_las_item; eauto.
Qed.

Lemma ER s p a : has_item s p (length (rhs p)) a -> tact A s a = AReduce p.
Proof.
  intros (it & Hin & <- & Hd & Ha). destruct complete_proj as (_ & _ & H).
  specialize (H s it Hin). unfold item_complete in H.
  replace (nth_error (rhs (i_prod it)) (i_dot it)) with (@None sym) in H
    by (symmetry; apply nth_error_None; lia).
  rewrite forallb_forall in H. specialize (H a Ha).
  destruct (tact A s a) as [|p'| |]; try discriminate. apply Nat.eqb_eq in H. congruence.
Qed.

Lemma prods_of_in q B : q < length (prods A) -> lhs q = B -> In q (prods_of A B).
Proof.
  intros Hq Hl. unfold prods_of. apply filter_In. split; [apply seq_in; exact Hq|].
  apply Nat.eqb_eq. exact Hl.
Qed.

(* closure, boolean level *)
Lemma CLb s p d a B q a' : has_item s p d a -> nth_error (rhs p) d = Some (Nt B) ->
  q < length (prods A) -> lhs q = B ->
  In a' (map Some (first_seq C (skipn (S d) (rhs p))) ++
         (if nullable_seq C (skipn (S d) (rhs p)) then [a] else [])) ->
  has_item s q 0 a'.
Proof.
  intros (it & Hin & <- & <- & Ha) Hn Hq Hl Ha'. destruct complete_proj as (_ & _ & H).
  specialize (H s it Hin). unfold item_complete in H. rewrite Hn in H.
  apply andb_true_iff in H as [_ H]. rewrite forallb_forall in H.
  specialize (H q (prods_of_in q B Hq Hl)).
  eapply has_las_item; eauto.
  apply in_app_or in Ha'. apply in_or_app. destruct Ha' as [Hf|Hnl]; [left; exact Hf|right].
  destruct (nullable_seq C _); [|destruct Hnl]. destruct Hnl as [<-|[]]. exact Ha.
Qed.

(** nullable / first of the certificate are upper bounds of the real ones *)
Definition hd_la (u : list token) : la := match u with [] => None | k :: _ => tk_idx k end.
Definition head_la (u : list token) (a : la) : la := match u with [] => a | k :: _ => tk_idx k end.
Definition yieldl (l : list tree) : list token := flat_map yield l.

Lemma nat_mem_in x l : nat_mem x l = true -> In x l.
Proof. unfold nat_mem. rewrite existsb_exists. intros (y & Hin & Hb). apply Nat.eqb_eq in Hb. now subst. Qed.

Lemma first_facts p : p < length (prods A) ->
  (nullable_seq C (rhs p) = true -> nullable_nt C (lhs p) = true) /\
  (forall t, In t (first_seq C (rhs p)) -> In t (first_nt C (lhs p))).
Proof.
  intros Hp. destruct complete_proj as (_ & H & _). unfold first_ok in H.
  rewrite forallb_forall in H. specialize (H p (proj2 (seq_in _ _) Hp)).
  apply andb_true_iff in H as [H1 H2]. split.
  - intros Hn. rewrite Hn in H1. exact H1.
  - intros t Ht. rewrite forallb_forall in H2. apply nat_mem_in. auto.
Qed.

Definition sym_first (X : sym) (u : list token) : Prop :=
  match u with
  | [] => match X with Tm _ => False | Nt n => nullable_nt C n = true end
  | k :: _ => exists x, tk_idx k = Some x /\
                        match X with Tm t => x = t | Nt n => In x (first_nt C n) end
  end.

Lemma seq_first : forall ts beta, Forall2 (fun t X => sym_first X (yield t)) ts beta ->
  match yieldl ts with
  | [] => nullable_seq C beta = true
  | k :: _ => exists x, tk_idx k = Some x /\ In x (first_seq C beta)
  end.
Proof.
  induction 1 as [|t X ts beta Ht Hts IH]; [reflexivity|].
  unfold yieldl in *. simpl flat_map.
  destruct (yield t) as [|k u] eqn:Hy; simpl.
  - destruct X as [x|n]; [destruct Ht|]. simpl in Ht.
    destruct (flat_map yield ts) as [|k' u'].
    + simpl. rewrite Ht. exact IH.
    + destruct IH as (x & Hk & Hin). exists x. split; [exact Hk|]. simpl. rewrite Ht.
      apply in_or_app. right. exact Hin.
  - destruct Ht as (x & Hk & Hx). exists x. split; [exact Hk|].
    destruct X as [t'|n]; simpl; [left; congruence|]. apply in_or_app. left. exact Hx.
Qed.

Lemma wfp_first : forall t X, wfp t X -> sym_first X (yield t).
Proof.
  induction t as [k|e d lo0 hi0|p kids IH] using tree_ind'; intros X Hwf.
  - inversion Hwf; subst. simpl. eauto.
  - inversion Hwf.
  - inversion Hwf as [|p' kids' Hp Hk]; subst.
    assert (HF : Forall2 (fun t X => sym_first X (yield t)) kids (rhs p)).
    { clear Hwf. revert IH. induction Hk as [|t X ts beta Ht Hts IHk]; intros IH; constructor.
      - inversion IH; subst. auto.
      - apply IHk. inversion IH; auto. }
    apply seq_first in HF. rewrite yield_node. unfold yieldl in HF.
    destruct (first_facts p Hp) as [Hn Hf].
    destruct (flat_map yield kids) as [|k u]; simpl.
    + apply Hn. exact HF.
    + destruct HF as (x & Hk' & Hin). exists x. split; [exact Hk'|]. apply Hf. exact Hin.
Qed.

(* semantic closure *)
Lemma CL s p d a B q ts : has_item s p d a -> nth_error (rhs p) d = Some (Nt B) ->
  q < length (prods A) -> lhs q = B ->
  Forall2 wfp ts (skipn (S d) (rhs p)) -> has_item s q 0 (head_la (yieldl ts) a).
Proof.
  intros Hit Hn Hq Hl Hts. eapply CLb; eauto.
  assert (HF : Forall2 (fun t X => sym_first X (yield t)) ts (skipn (S d) (rhs p))).
  { induction Hts; constructor; auto using wfp_first. }
  apply seq_first in HF. apply in_or_app.
  destruct (yieldl ts) as [|k u]; cbn [head_la].
  - right. rewrite HF. left; reflexivity.
  - left. destruct HF as (x & Hk & Hin). rewrite Hk. apply in_map. exact Hin.
Qed.

(** the run *)
Definition no_fail : oracle := fun _ _ => None.

Inductive reach : nat -> mode * pst -> mode * pst -> Prop :=
| reach_refl c : reach 0 c c
| reach_step n m s m1 s1 c : (forall fuel, step A no_fail fuel m s = Cont m1 s1) -> reach n (m1, s1) c -> reach (S n) (m, s) c.

Lemma reach_trans n1 n2 a b c : reach n1 a b -> reach n2 b c -> reach (n1 + n2) a c.
Proof. induction 1; simpl; [auto|]. intros. eapply reach_step; eauto. Qed.

Lemma run_reach fuel n m s m' s' k : reach n (m, s) (m', s') ->
  run A no_fail fuel (n + k) m s = run A no_fail fuel k m' s'.
Proof.
  remember (m, s) as c eqn:Hc. remember (m', s') as c' eqn:Hc'. intros H. revert m s Hc.
  induction H as [c0|n0 m0 s0 m1 s1 c0 Hs Hr IH]; intros m s Hc.
  - subst. inversion Hc; subst. reflexivity.
  - inversion Hc; subst. simpl. rewrite Hs. apply IH; auto.
Qed.

(* a configuration at a token boundary with the lookahead loaded *)
Definition Loaded (inp : list token) (m : mode) (s : pst) : Prop :=
  match inp with
  | [] => m = MEof /\ rest s = []
  | x :: r => exists i, m = MHave x i /\ tk_idx x = Some i /\ rest s = map IOk r
  end.

Definition tok_ok (k : token) : Prop := exists i, tk_idx k = Some i /\ i < tn_names A.

(* after a shift the next token is loaded in one step *)
Lemma load_next s rst : rest s = map IOk rst -> Forall tok_ok rst ->
  exists m' s', (forall fuel, step A no_fail fuel MNeed s = Cont m' s') /\ stk s' = stk s /\ Loaded rst m' s'.
Proof.
  intros Hr Hok. unfold step, next_token. rewrite Hr. destruct rst as [|x r]; simpl.
  - eexists _, _. split; [reflexivity|]. simpl. auto.
  - inversion Hok as [|? ? (i & Hi & _) _]; subst. rewrite Hi.
    eexists _, _. split; [reflexivity|]. simpl. split; [reflexivity|]. exists i. auto.
Qed.

Lemma decode_shift o s' : decode o = AShift s' -> exists a, o = Some a /\ as_shift a = Some s'.
Proof. intros H. pose proof (decode_cases o) as Hd. rewrite H in Hd. exact Hd. Qed.
Lemma decode_reduce o p : decode o = AReduce p ->
  exists a, o = Some a /\ as_shift a = None /\ as_reduce a = Some p.
Proof. intros H. pose proof (decode_cases o) as Hd. rewrite H in Hd. exact Hd. Qed.

Definition P (t : tree) : Prop :=
  forall X, wfp t X ->
  forall m s rst p d a ts',
    Loaded (yield t ++ rst) m s -> Forall tok_ok rst ->
    has_item (top_state (stk s)) p d a -> nth_error (rhs p) d = Some X ->
    Forall2 wfp ts' (skipn (S d) (rhs p)) ->
    hd_la rst = head_la (yieldl ts') a \/ (rst = [] /\ head_la (yieldl ts') a = None) ->
    exists n m' s' e, reach n (m, s) (m', s') /\ stk s' = e :: stk s /\ e_tree e = t /\
                      Loaded rst m' s' /\ has_item (e_state e) p (S d) a.

Lemma hd_la_app u r a : hd_la r = a \/ (r = [] /\ a = None) -> hd_la (u ++ r) = head_la u a.
Proof. destruct u; simpl; [|reflexivity]. intros [H|[-> ->]]; auto. Qed.

Lemma loaded_la inp m s : Loaded inp m s ->
  match m with
  | MHave k i => hd_la inp = Some i /\ tk_idx k = Some i /\ exists r, inp = k :: r
  | MEof => inp = []
  | MNeed => False
  end.
Proof.
  destruct inp as [|x r]; simpl.
  - intros [-> _]. reflexivity.
  - intros (i & -> & Hi & _). repeat split; eauto.
Qed.

Lemma wfp_sym_of t X : wfp t X -> sym_of A t = Some X.
Proof.
  destruct 1 as [k t Hk _|p kids Hp Hk]; simpl.
  - now rewrite Hk.
  - now rewrite (nth_error_prods A _ Hp).
Qed.

Lemma syms_match_kids : forall (ents : list entry) beta,
  Forall2 wfp (map e_tree ents) beta -> syms_match A ents beta = true.
Proof.
  induction ents as [|e es IH]; intros beta H; inversion H; subst; simpl; [reflexivity|].
  rewrite (wfp_sym_of _ _ H2), sym_eqb_refl. simpl. apply IH. assumption.
Qed.

Lemma wfp_toks_ok : forall t X, wfp t X -> Forall tok_ok (yield t).
Proof.
  induction t as [k|e d lo0 hi0|p kids IHk] using tree_ind'; intros X Ht; inversion Ht as [? ? Hk Hx|? ? Hp Hkids]; subst.
  - simpl. constructor; [|constructor]. eexists; eauto.
  - rewrite yield_node. clear Ht Hp. revert IHk.
    induction Hkids as [|t Y ts beta Hty _ IH]; intros IHk; simpl; [constructor|].
    inversion IHk; subst. apply Forall_app. split; eauto.
Qed.
Lemma wfps_toks_ok : forall ts beta, Forall2 wfp ts beta -> Forall tok_ok (flat_map yield ts).
Proof.
  intros ts beta H. induction H as [|t X ts beta Ht _ IH]; simpl; [constructor|].
  apply Forall_app. split; [eapply wfp_toks_ok; eauto|exact IH].
Qed.

(* parsing the remaining children of production q from dot position i *)
Lemma kids_lemma : forall kids, Forall P kids ->
  forall q i m s rst,
    Forall2 wfp kids (skipn i (rhs q)) ->
    Loaded (yieldl kids ++ rst) m s -> Forall tok_ok rst ->
    has_item (top_state (stk s)) q i (hd_la rst) ->
    exists n m' s' ents, reach n (m, s) (m', s') /\ stk s' = ents ++ stk s /\
      map e_tree (rev ents) = kids /\ Loaded rst m' s' /\
      has_item (top_state (stk s')) q (i + length kids) (hd_la rst).
Proof.
  induction 1 as [|k ks Hk Hks IH]; intros q i m s rst Hwf HL Hok Hit.
  - exists 0, m, s, []. simpl. rewrite Nat.add_0_r. repeat split; auto. apply reach_refl.
  - remember (skipn i (rhs q)) as syms eqn:Heq.
    inversion Hwf as [|k' Y ks' beta HkY Hrest]; subst k' ks' syms.
    match goal with H : _ :: _ = skipn _ _ |- _ => symmetry in H; apply skipn_cons_nth in H as [Hnth Hskip] end.
    rewrite <- Hskip in Hrest.
    unfold yieldl in HL. simpl in HL. rewrite <- app_assoc in HL.
    destruct (Hk Y HkY m s (flat_map yield ks ++ rst) q i (hd_la rst) ks HL) as (n1 & m1 & s1 & e & Hr1 & Hst1 & He & HL1 & Hit1); auto.
    { apply Forall_app. split; [|exact Hok]. eapply wfps_toks_ok; eauto. }
    { left. apply hd_la_app. left. reflexivity. }
    assert (Hit1' : has_item (top_state (stk s1)) q (S i) (hd_la rst)) by (rewrite Hst1; exact Hit1).
    destruct (IH q (S i) m1 s1 rst Hrest HL1 Hok Hit1') as (n2 & m2 & s2 & ents & Hr2 & Hst2 & Hents & HL2 & Hit2).
    exists (n1 + n2), m2, s2, (ents ++ [e]). repeat split; auto.
    + eapply reach_trans; eauto.
    + rewrite Hst2, Hst1, <- app_assoc. reflexivity.
    + rewrite rev_app_distr. simpl. rewrite Hents, He. reflexivity.
    + simpl length. replace (i + S (length ks)) with (S i + length ks) by lia. exact Hit2.
Qed.

Lemma reduce_complete q (ents : list entry) below la_start :
  q < length (prods A) -> q <> start_prod A ->
  Forall2 wfp (map e_tree (rev ents)) (rhs q) ->
  exists lo hi,
    reduce A no_fail q la_start (ents ++ below) =
    (RdCont ((goto_at A (top_state below) (lhs q), Node q (map e_tree (rev ents)), lo, hi) :: below),
     Some (Act q lo hi)).
Proof.
  intros Hq Hne Hwf. unfold reduce. rewrite (nth_error_prods A _ Hq).
  assert (Hlen : length ents = length (rhs q)).
  { apply Forall2_length in Hwf. rewrite map_length, rev_length in Hwf. exact Hwf. }
  replace (length (ents ++ below) <? length (rhs q)) with false
    by (symmetry; apply Nat.ltb_ge; rewrite app_length; lia).
  rewrite <- Hlen. rewrite firstn_app, Nat.sub_diag, firstn_all. simpl firstn. rewrite app_nil_r.
  rewrite skipn_app, Nat.sub_diag, skipn_all. simpl.
  rewrite (syms_match_kids (rev ents) _ Hwf). simpl.
  destruct (match rev ents with [] => _ | e :: _ => _ end) as [lo hi].
  apply Nat.eqb_neq in Hne. rewrite Hne. unfold no_fail. eauto.
Qed.

Lemma start_ne : forall p d X, nth_error (rhs p) d = Some X -> X <> Nt (lhs (start_prod A)).
Proof.
  intros p d X Hn ->. destruct (Nat.lt_ge_cases p (length (prods A))) as [Hp|Hp].
  - eapply (start_fresh A C Hshape p Hp). eapply nth_error_In; eauto.
  - unfold Validator.rhs in Hn. rewrite nth_overflow in Hn by exact Hp. simpl in Hn.
    destruct d; discriminate.
Qed.

Lemma P_all : forall t, P t.
Proof.
  induction t as [k|e0 d0 lo0 hi0|q kids IHkids] using tree_ind'; intros X Hwf m s rst p d a ts' HL Hok Hit Hnth Hts Hla.
  - (* leaf: shift, then load the next token *)
    inversion Hwf as [k' x Hk Hx|]; subst. simpl in HL. destruct HL as (i & -> & Hi & Hrest).
    assert (i = x) by congruence. subst i.
    destruct (TS _ _ _ _ _ Hit Hnth) as (s' & Hact & Hit').
    apply decode_shift in Hact as (z & Hz & Hsh).
    set (s1 := log (set_stk s ((s', Leaf k, tk_lo k, tk_hi k) :: stk s)) (Shift (npulled s - 1))).
    destruct (load_next s1 rst) as (m2 & s2 & Hst & Hstk & HL2); auto.
    exists 2, m2, s2, (s', Leaf k, tk_lo k, tk_hi k). repeat split; auto.
    + eapply reach_step; [|eapply reach_step; [exact Hst|apply reach_refl]].
      intros fuel. unfold step. rewrite Hz, Hsh. reflexivity.
  - inversion Hwf.
  - (* node: parse the children, then reduce on the real lookahead *)
    inversion Hwf as [|q' kids' Hq Hkids]; subst.
    assert (Hne : q <> start_prod A).
    { intros ->. eapply start_ne; eauto. }
    rewrite yield_node in HL.
    assert (Hq0 : has_item (top_state (stk s)) q 0 (hd_la rst)).
    { destruct Hla as [Hla|[-> Hla]].
      - rewrite Hla. eapply CL; eauto.
      - simpl. rewrite <- Hla. eapply CL; eauto. }
    destruct (kids_lemma kids IHkids q 0 m s rst) as (n1 & m1 & s1 & ents & Hr1 & Hst1 & Hents & HL1 & Hit1); auto.
    simpl in Hit1.
    assert (Hn : length kids = length (rhs q)) by (eapply Forall2_length; eauto).
    rewrite Hn in Hit1. pose proof (ER _ _ _ Hit1) as Hact.
    (* one reduce step in the loaded mode *)
    assert (Hwfk : Forall2 wfp (map e_tree (rev ents)) (rhs q)) by (rewrite Hents; exact Hkids).
    pose proof (loaded_la _ _ _ HL1) as Hm1.
    destruct m1 as [|k1 i1|]; [destruct Hm1| |].
    + destruct Hm1 as (Hh & Hk1 & r1 & ->). simpl in Hact. simpl in Hh. rewrite Hh in Hact.
      apply decode_reduce in Hact as (z & Hz & Hsh & Hrd).
      destruct (reduce_complete q ents (stk s) (Some (tk_lo k1)) Hq Hne Hwfk) as (lo & hi & Hred).
      eexists (n1 + 1), (MHave k1 i1), _, (goto_at A (top_state (stk s)) (lhs q), Node q kids, lo, hi).
      split; [|split; [|split; [|split]]].
      * eapply reach_trans; [exact Hr1|]. eapply reach_step; [|apply reach_refl].
        intros fuel. unfold step. rewrite Hz, Hsh, Hrd. rewrite Hst1, Hred. rewrite Hents. reflexivity.
      * reflexivity.
      * reflexivity.
      * simpl. simpl in HL1. exact HL1.
      * simpl. eapply NG; eauto.
    + subst rst. simpl in Hact.
      apply decode_reduce in Hact as (z & Hz & Hsh & Hrd).
      destruct (reduce_complete q ents (stk s) None Hq Hne Hwfk) as (lo & hi & Hred).
      eexists (n1 + 1), MEof, _, (goto_at A (top_state (stk s)) (lhs q), Node q kids, lo, hi).
      split; [|split; [|split; [|split]]].
      * eapply reach_trans; [exact Hr1|]. eapply reach_step; [|apply reach_refl].
        intros fuel. unfold step. rewrite Hz, Hrd. rewrite Hst1, Hred. rewrite Hents. reflexivity.
      * reflexivity.
      * reflexivity.
      * simpl. simpl in HL1. exact HL1.
      * simpl. eapply NG; eauto.
Qed.

Lemma reduce_accept (ents : list entry) la_start :
  Forall2 wfp (map e_tree (rev ents)) (rhs (start_prod A)) ->
  reduce A no_fail (start_prod A) la_start ents =
    (RdDone (ROk (Node (start_prod A) (map e_tree (rev ents)))), None).
Proof.
  intros Hwf. unfold reduce.
  assert (Hq : start_prod A < length (prods A)).
  { destruct (shape_proj A C Hshape) as (_&_&_&_&_&_&_&_&H&_). apply Nat.ltb_lt in H. exact H. }
  rewrite (nth_error_prods A _ Hq).
  assert (Hlen : length ents = length (rhs (start_prod A))).
  { apply Forall2_length in Hwf. rewrite map_length, rev_length in Hwf. exact Hwf. }
  replace (length ents <? length (rhs (start_prod A))) with false
    by (symmetry; apply Nat.ltb_ge; lia).
  rewrite <- Hlen. rewrite firstn_all.
  rewrite (syms_match_kids (rev ents) _ Hwf). simpl.
  destruct (match rev ents with [] => _ | e :: _ => _ end) as [lo hi].
  rewrite Nat.eqb_refl. reflexivity.
Qed.

Lemma run_S orc fuel n m s : run A orc fuel (S n) m s =
  match step A orc fuel m s with Cont m' s' => run A orc fuel n m' s' | Fin r s' => (r, s') end.
Proof. reflexivity. Qed.

(** Completeness: the run on the yield of a derivation tree of the start symbol returns that tree,
    for every sufficiently large step budget. *)
Theorem complete_run t :
  wfp t (Nt (start_nt A)) ->
  exists n, forall fuel k, exists s',
    run A no_fail fuel (n + S k) MNeed (init (map IOk (yield t))) = (ROk t, s').
Proof.
  intros Hwf. inversion Hwf as [|q kids Hq Hkids Heq]; subst.
  assert (q = start_prod A).
  { apply (start_unique A C Hshape); auto. }
  subst q. rewrite yield_node.
  destruct (load_next (init (map IOk (flat_map yield kids))) (flat_map yield kids)) as (m1 & s1 & Hst & Hstk & HL1).
  { reflexivity. } { eapply wfps_toks_ok; eauto. }
  assert (HF : Forall P kids) by (apply Forall_forall; intros; apply P_all).
  destruct (kids_lemma kids HF (start_prod A) 0 m1 s1 []) as (n1 & m2 & s2 & ents & Hr & Hst2 & Hents & HL2 & Hit); auto.
  { unfold yieldl. rewrite app_nil_r. exact HL1. }
  { simpl. rewrite Hstk. simpl. apply SI. }
  simpl in HL2. destruct HL2 as [-> Hrest2]. simpl in Hit.
  assert (Hn : length kids = length (rhs (start_prod A))) by (eapply Forall2_length; eauto).
  rewrite Hn in Hit. pose proof (ER _ _ _ Hit) as Hact. simpl in Hact.
  apply decode_reduce in Hact as (z & Hz & Hsh & Hrd).
  exists (1 + n1). intros fuel k. eexists.
  replace (1 + n1 + S k) with (S (n1 + S k)) by lia.
  rewrite run_S, Hst.
  rewrite (run_reach fuel _ _ _ _ _ (S k) Hr). rewrite run_S. unfold step.
  rewrite Hz, Hrd. rewrite Hst2, Hstk. simpl. rewrite app_nil_r.
  rewrite reduce_accept by (rewrite Hents; exact Hkids).
  rewrite Hents. reflexivity.
Qed.
End Complete.
