(** Two facts about the driver (no error recovery) used for the error-position theorem of C04:
    - fuel monotonicity: a run that ends without running out of fuel ends the same way with more fuel;
    - locality: an [UnrecognizedToken] error raised at input position |u| depends only on the first
      |u|+1 tokens: replacing what follows does not change it. *)
From Coq Require Import List ZArith Bool Arith Lia.
From LV Require Import LR.Driver LR.Validator LR.ErrorPos.
Import ListNotations.

Section Loc.
Variable A : tables.
Hypothesis Hnorec : uses_recovery A = false.
Variable orc : oracle.

(** * fuel monotonicity *)
Lemma accepts_mono f : forall l la r, accepts A f l la = r -> r <> AFuel ->
  forall f', f <= f' -> accepts A f' l la = r.
Proof.
  induction f as [|f IH]; intros l la r H Hr f' Hf; cbn [accepts] in H; [congruence|].
  destruct f' as [|f']; [lia|]. cbn [accepts].
  destruct l as [|top l']; [exact H|].
  destruct (match la with None => eof_at A top | Some t => act_at A top t end) as [a|]; [|exact H].
  destruct (a =? 0)%Z; [exact H|].
  destruct (as_reduce a) as [p|]; [|exact H].
  destruct (nth_error (sim_pop A) p) as [k|]; [|exact H].
  destruct (nth_error (sim_nt A) p) as [[nt|]|]; try exact H.
  destruct (length (top :: l') <=? k); [exact H|].
  apply (IH _ _ _ H Hr). lia.
Qed.

Lemma expected_go_mono f l : forall n i r, expected_go A f l i n = r -> r <> EFuel ->
  forall f', f <= f' -> expected_go A f' l i n = r.
Proof.
  induction n as [|n IH]; intros i r H Hr f' Hf; cbn [expected_go] in *; [exact H|].
  destruct (accepts A f l (Some i)) eqn:Ea.
  - rewrite (accepts_mono f l (Some i) ATrue Ea ltac:(discriminate) f' Hf).
    destruct (expected_go A f l (S i) n) as [L| |] eqn:El.
    + rewrite (IH (S i) (EList L) El ltac:(discriminate) f' Hf). exact H.
    + rewrite (IH (S i) EPanic El ltac:(discriminate) f' Hf). exact H.
    + congruence.
  - rewrite (accepts_mono f l (Some i) AFalse Ea ltac:(discriminate) f' Hf). apply (IH _ _ H Hr f' Hf).
  - rewrite (accepts_mono f l (Some i) APanic Ea ltac:(discriminate) f' Hf). exact H.
  - congruence.
Qed.

Lemma unrec_error_mono f s tok r : unrec_error A f s tok = r -> r <> RFuel ->
  forall f', f <= f' -> unrec_error A f' s tok = r.
Proof.
  unfold unrec_error, expected_tokens. intros H Hr f' Hf.
  destruct (expected_go A f (states_of (stk s)) 0 (tn_names A)) as [L| |] eqn:E.
  - rewrite (expected_go_mono f _ _ _ _ E ltac:(discriminate) f' Hf). exact H.
  - rewrite (expected_go_mono f _ _ _ _ E ltac:(discriminate) f' Hf). exact H.
  - congruence.
Qed.

Lemma error_recovery_norec f la s :
  error_recovery A orc f la s = (NDone (unrec_error A f s (option_map fst la)), s).
Proof. unfold error_recovery. rewrite Hnorec. reflexivity. Qed.

Definition sres_nofuel (x : sres) : Prop := match x with Fin RFuel _ => False | _ => True end.

Lemma step_mono f m s x : step A orc f m s = x -> sres_nofuel x -> forall f', f <= f' -> step A orc f' m s = x.
Proof.
  intros H Hx f' Hf. destruct m as [|k i|]; unfold step in *.
  - unfold next_token in *. destruct (rest s) as [|[k|e] r]; try exact H.
    destruct (tk_idx k); [exact H|].
    destruct (unrec_error A f _ (Some k)) eqn:E; subst x; try (rewrite (unrec_error_mono f _ _ _ E ltac:(discriminate) f' Hf); reflexivity).
    destruct Hx.
  - destruct (act_at A (top_state (stk s)) i) as [a|]; [|exact H].
    destruct (as_shift a); [exact H|]. destruct (as_reduce a); [exact H|].
    rewrite error_recovery_norec in *. cbn [option_map fst] in *.
    destruct (unrec_error A f s (Some k)) eqn:E; subst x; try (rewrite (unrec_error_mono f _ _ _ E ltac:(discriminate) f' Hf); reflexivity).
    destruct Hx.
  - destruct (eof_at A (top_state (stk s))) as [a|]; [|exact H].
    destruct (as_reduce a); [exact H|].
    rewrite error_recovery_norec in *. cbn [option_map] in *.
    destruct (unrec_error A f s None) eqn:E; subst x; try (rewrite (unrec_error_mono f _ _ _ E ltac:(discriminate) f' Hf); reflexivity).
    destruct Hx.
Qed.

Lemma run_mono f : forall n m s r s', run A orc f n m s = (r, s') -> r <> RFuel ->
  forall f' n', f <= f' -> n <= n' -> run A orc f' n' m s = (r, s').
Proof.
  induction n as [|n IH]; intros m s r s' H Hr f' n' Hf Hn; cbn [run] in H; [inversion H; congruence|].
  destruct n' as [|n']; [lia|]. cbn [run].
  destruct (step A orc f m s) as [m1 s1|r1 s1] eqn:E.
  - rewrite (step_mono f m s _ E I f' Hf). apply (IH _ _ _ _ H Hr); lia.
  - inversion H; subst. rewrite (step_mono f m s _ E ltac:(destruct r; try exact I; congruence) f' Hf). reflexivity.
Qed.

Theorem drive_mono f input r s' : drive A orc f input = (r, s') -> r <> RFuel ->
  forall f', f <= f' -> drive A orc f' input = (r, s').
Proof. unfold drive. intros H Hr f' Hf. apply (run_mono f f MNeed _ r s' H Hr); assumption. Qed.

(** * locality *)
Definition set_rest (s : pst) (r : list item) : pst :=
  {| stk := stk s; rest := r; npulled := npulled s; last_loc := last_loc s; trace := trace s |}.
Definition sres_rest (x : sres) (r : list item) : sres :=
  match x with Cont m s => Cont m (set_rest s r) | Fin y s => Fin y (set_rest s r) end.

Lemma set_rest_id s r : rest s = r -> set_rest s r = s.
Proof. destruct s; cbn. intros ->. reflexivity. Qed.

Lemma unrec_error_rest f s r tok : unrec_error A f (set_rest s r) tok = unrec_error A f s tok.
Proof. reflexivity. Qed.

Variable f : nat.

Lemma step_set_rest m s r : m <> MNeed -> step A orc f m (set_rest s r) = sres_rest (step A orc f m s) r.
Proof.
  intros Hm. destruct m as [|k i|]; [congruence| |]; unfold step; cbn [stk set_rest].
  - destruct (act_at A (top_state (stk s)) i) as [a|]; [|reflexivity].
    destruct (as_shift a); [reflexivity|]. destruct (as_reduce a) as [p|].
    + destruct (reduce A orc p (Some (tk_lo k)) (stk s)) as [[|[v|e| |]|st'] [ev|]]; reflexivity.
    + rewrite !error_recovery_norec. rewrite unrec_error_rest. cbn [option_map fst].
      destruct (unrec_error A f s (Some k)); reflexivity.
  - destruct (eof_at A (top_state (stk s))) as [a|]; [|reflexivity].
    destruct (as_reduce a) as [p|].
    + destruct (reduce A orc p None (stk s)) as [[|r0|st'] [ev|]]; reflexivity.
    + rewrite !error_recovery_norec. rewrite unrec_error_rest. cbn [option_map].
      destruct (unrec_error A f s None); reflexivity.
Qed.

(* outside MNeed a step neither reads nor changes the token stream *)
Lemma step_keeps m s m' s1 : m <> MNeed -> step A orc f m s = Cont m' s1 -> rest s1 = rest s /\ npulled s1 = npulled s.
Proof.
  intros Hm. destruct m as [|k i|]; [congruence| |]; unfold step.
  - destruct (act_at A (top_state (stk s)) i) as [a|]; [|discriminate].
    destruct (as_shift a); [intros H; inversion H; subst; split; reflexivity|].
    destruct (as_reduce a) as [p|].
    + destruct (reduce A orc p (Some (tk_lo k)) (stk s)) as [[|[v|e| |]|st'] [ev|]]; intros H; inversion H; subst; split; reflexivity.
    + rewrite error_recovery_norec. discriminate.
  - destruct (eof_at A (top_state (stk s))) as [a|]; [|discriminate].
    destruct (as_reduce a) as [p|].
    + destruct (reduce A orc p None (stk s)) as [[|r0|st'] [ev|]]; intros H; inversion H; subst; split; reflexivity.
    + rewrite error_recovery_norec. discriminate.
Qed.

Lemma step_fin_keeps m s r s1 : m <> MNeed -> step A orc f m s = Fin r s1 -> npulled s1 = npulled s.
Proof.
  intros Hm. destruct m as [|k i|]; [congruence| |]; unfold step.
  - destruct (act_at A (top_state (stk s)) i) as [a|]; [|intros H; inversion H; reflexivity].
    destruct (as_shift a); [discriminate|].
    destruct (as_reduce a) as [p|].
    + destruct (reduce A orc p (Some (tk_lo k)) (stk s)) as [[|[v|e| |]|st'] [ev|]]; intros H; inversion H; subst; reflexivity.
    + rewrite error_recovery_norec. intros H; inversion H; reflexivity.
  - destruct (eof_at A (top_state (stk s))) as [a|]; [|intros H; inversion H; reflexivity].
    destruct (as_reduce a) as [p|].
    + destruct (reduce A orc p None (stk s)) as [[|r0|st'] [ev|]]; intros H; inversion H; subst; reflexivity.
    + rewrite error_recovery_norec. intros H; inversion H; reflexivity.
Qed.

(* MNeed: what the step does with the head of the stream *)
Lemma step_need_cons i q q' s :
  step A orc f MNeed (set_rest s (i :: q')) = sres_rest (step A orc f MNeed (set_rest s (i :: q))) q'.
Proof.
  unfold step, next_token. cbn [rest set_rest].
  destruct i as [k|e]; [|reflexivity]. destruct (tk_idx k); [reflexivity|]. reflexivity.
Qed.

Lemma step_need_pull i q s x : rest s = i :: q -> step A orc f MNeed s = x ->
  match x with Cont _ s1 => rest s1 = q /\ npulled s1 = S (npulled s) | Fin _ s1 => npulled s1 = S (npulled s) end.
Proof.
  intros Hr <-. unfold step, next_token. rewrite Hr.
  destruct i as [k|e]; [|reflexivity]. destruct (tk_idx k); [split; reflexivity|reflexivity].
Qed.

Lemma run_npulled_le : forall n m s r s', run A orc f n m s = (r, s') -> npulled s <= npulled s'.
Proof.
  induction n as [|n IH]; intros m s r s' H; cbn [run] in H; [inversion H; subst; lia|].
  destruct (step A orc f m s) as [m1 s1|r1 s1] eqn:E.
  - specialize (IH _ _ _ _ H).
    destruct m as [|k i|].
    + unfold step, next_token in E. destruct (rest s) as [|[k|e] q]; inversion E; subst; cbn in *; try lia.
      destruct (tk_idx k); inversion E; subst; cbn in *; lia.
    + assert (Hm : MHave k i <> MNeed) by discriminate. destruct (step_keeps _ _ _ _ Hm E) as [_ Hn]. lia.
    + assert (Hm : MEof <> MNeed) by discriminate. destruct (step_keeps _ _ _ _ Hm E) as [_ Hn]. lia.
  - inversion H; subst.
    destruct m as [|k i|].
    + unfold step, next_token in E. destruct (rest s) as [|[k|e] q]; inversion E; subst; cbn in *; try lia.
      destruct (tk_idx k); inversion E; subst; cbn in *; lia.
    + assert (Hm : MHave k i <> MNeed) by discriminate. rewrite (step_fin_keeps _ _ _ _ Hm E). lia.
    + assert (Hm : MEof <> MNeed) by discriminate. rewrite (step_fin_keeps _ _ _ _ Hm E). lia.
Qed.

Lemma run_eof_no_unrectok : forall n s k exp s', run A orc f n MEof s <> (RErr (PUnrecTok k exp), s').
Proof.
  induction n as [|n IH]; intros s k exp s' H; cbn [run] in H; [discriminate|].
  unfold step in H.
  destruct (eof_at A (top_state (stk s))) as [a|]; [|discriminate].
  destruct (as_reduce a) as [p|].
  - destruct (reduce A orc p None (stk s)) as [[|r0|st'] ev] eqn:Er; [discriminate| |exact (IH _ _ _ _ H)].
    destruct (reduce_done_cases A orc _ _ _ _ _ Er) as [[v ->]|[x ->]]; discriminate.
  - rewrite error_recovery_norec in H. cbn [option_map] in H.
    pose proof (unrec_shape A f s None) as Hs.
    destruct (unrec_error A f s None) as [v|e| |]; try discriminate.
    inversion H; subst. destruct Hs as [Hs _]. discriminate.
Qed.

Lemma run_prefix : forall n m s pre t1 t2 k exp s',
  rest s = pre ++ t1 ->
  run A orc f n m s = (RErr (PUnrecTok k exp), s') ->
  npulled s' <= npulled s + length pre ->
  exists s2', run A orc f n m (set_rest s (pre ++ t2)) = (RErr (PUnrecTok k exp), s2').
Proof.
  induction n as [|n IH]; intros m s pre t1 t2 k exp s' Hr H Hb; cbn [run] in H; [discriminate|].
  cbn [run].
  destruct m as [|k0 i0|].
  - (* MNeed *)
    destruct pre as [|i pre'].
    + (* the common prefix is used up: the run would have to read on *)
      exfalso. cbn [app] in Hr. destruct t1 as [|i t].
      * unfold step, next_token in H. rewrite Hr in H. exact (run_eof_no_unrectok _ _ _ _ _ H).
      * destruct (step A orc f MNeed s) as [m1 s1|r1 s1] eqn:E.
        -- destruct (step_need_pull i t s _ Hr E) as [_ Hn]. apply run_npulled_le in H. cbn [length] in Hb. lia.
        -- pose proof (step_need_pull i t s _ Hr E) as Hn. inversion H; subst. cbn [length] in Hb. lia.
    + cbn [app] in Hr.
      rewrite <- (set_rest_id s _ Hr) in H.
      cbn [app]. rewrite (step_need_cons i (pre' ++ t1) (pre' ++ t2) s).
      destruct (step A orc f MNeed (set_rest s (i :: pre' ++ t1))) as [m1 s1|r1 s1] eqn:E.
      * destruct (step_need_pull i (pre' ++ t1) (set_rest s (i :: pre' ++ t1)) _ eq_refl E) as [Hr1 Hn1]. cbn [npulled set_rest] in Hn1.
        cbn [sres_rest]. apply (IH m1 s1 pre' t1 t2 k exp s' Hr1 H). cbn [length] in Hb. lia.
      * inversion H; subst. cbn [sres_rest]. eauto.
  - assert (Hm : MHave k0 i0 <> MNeed) by discriminate.
    rewrite (step_set_rest (MHave k0 i0) s (pre ++ t2) Hm).
    destruct (step A orc f (MHave k0 i0) s) as [m1 s1|r1 s1] eqn:E.
    + destruct (step_keeps _ _ _ _ Hm E) as [Hr1 Hn1]. cbn [sres_rest].
      apply (IH m1 s1 pre t1 t2 k exp s'); [congruence|exact H|lia].
    + inversion H; subst. cbn [sres_rest]. eauto.
  - exfalso. assert (H' : run A orc f (S n) MEof s = (RErr (PUnrecTok k exp), s')) by exact H.
    exact (run_eof_no_unrectok _ _ _ _ _ H').
Qed.
End Loc.

(** an UnrecognizedToken error raised at position |u| is the same for every continuation of the input *)
Theorem unrecognized_token_is_local A orc f u k v v' exp s :
  uses_recovery A = false ->
  drive A orc f (map IOk (u ++ k :: v)) = (RErr (PUnrecTok k exp), s) ->
  npulled s = S (length u) ->
  exists s2, drive A orc f (map IOk (u ++ k :: v')) = (RErr (PUnrecTok k exp), s2).
Proof.
  intros Hn H Hp. unfold drive in *.
  destruct (run_prefix A Hn orc f f MNeed (init (map IOk (u ++ k :: v))) (map IOk (u ++ [k])) (map IOk v) (map IOk v') k exp s) as [s2 H2].
  - cbn. rewrite <- map_app, <- app_assoc. reflexivity.
  - exact H.
  - cbn. rewrite map_length, app_length. cbn. lia.
  - exists s2. replace (init (map IOk (u ++ k :: v'))) with (set_rest (init (map IOk (u ++ k :: v))) (map IOk (u ++ [k]) ++ map IOk v')); [exact H2|].
    unfold set_rest, init. cbn. rewrite <- map_app, <- app_assoc. reflexivity.
Qed.
