(** Serialisation of driver outcomes to [list Z], shared with harness/src/bin/drv.rs, and the
    oracle shape used by the correspondence cases.  No proofs. *)
From Coq Require Import List ZArith Bool Arith.
From LV Require Import LR.Driver.
Import ListNotations.
Local Open Scope Z_scope.

Definition zn (n : nat) : Z := Z.of_nat n.
Definition ser_tok (k : token) : list Z :=
  [match tk_idx k with Some i => zn i + 1 | None => 0 end; Z.of_N (tk_id k); tk_lo k; tk_hi k].
Definition ser_exp (l : list nat) : list Z := zn (length l) :: map zn l.
Definition ser_err (e : perr) : list Z :=
  match e with
  | PUnrecTok k exp => 0 :: ser_tok k ++ ser_exp exp
  | PUnrecEof loc exp => 1 :: loc :: ser_exp exp
  | PExtra k => 2 :: ser_tok k
  | PUser e => [3; Z.of_N e]
  | PInvalid loc => [4; loc]
  end.
Fixpoint ser_tree (t : tree) : list Z :=
  match t with
  | Leaf k => 10 :: ser_tok k
  | ErrLeaf e dropped lo hi => 11 :: lo :: hi :: ser_err e ++ zn (length dropped) :: flat_map ser_tok dropped
  | Node p kids => 12 :: zn p :: zn (length kids) ::
                   (fix go (l : list tree) : list Z := match l with [] => [] | x :: r => ser_tree x ++ go r end) kids
  end.
Definition ser_result (r : result) : list Z :=
  match r with
  | ROk v => 20 :: ser_tree v
  | RErr e => 21 :: ser_err e
  | RPanic => [22]
  | RFuel => [23]
  end.
(* the observable event log, three numbers per event: pulls as (-(i+1),0,0), user actions as
   (production index, span start, span end), failing actions as (1000000 + index, 0, 0) *)
Definition acts_of (tr : list event) : list Z :=
  flat_map (fun e => match e with
                     | Act p lo hi => [zn p; lo; hi]
                     | ActFail p _ => [zn p + 1000000; 0; 0]
                     | Pull i => [- (zn i + 1); 0; 0]
                     | _ => [] end) (rev tr).
Definition ser_run (r : result * pst) : list Z :=
  let '(res, s) := r in
  ser_result res ++ zn (npulled s) :: (let a := acts_of (trace s) in zn (Nat.div (length a) 3) :: a).

(* the id of the leftmost real leaf below a list of trees (0 if none) *)
Fixpoint first_leaf (t : tree) : option N :=
  match t with
  | Leaf k => Some (tk_id k)
  | ErrLeaf _ _ _ _ => None
  | Node _ kids => (fix go (l : list tree) : option N :=
                      match l with [] => None | x :: r => match first_leaf x with Some i => Some i | None => go r end end) kids
  end.
Definition first_leaf_id (kids : list tree) : N :=
  match first_leaf (Node 0 kids) with Some i => i | None => 0%N end.
Definition table_oracle (l : list (nat * N * N)) : oracle :=
  fun p kids =>
    let id := first_leaf_id kids in
    match find (fun x => Nat.eqb (fst (fst x)) p && N.eqb (snd (fst x)) id) l with
    | Some x => Some (snd x)
    | None => None
    end.

Fixpoint zlist_eqb (a b : list Z) : bool :=
  match a, b with
  | [], [] => true
  | x :: a', y :: b' => Z.eqb x y && zlist_eqb a' b'
  | _, _ => false
  end.

Definition mk_tok (idx : Z) (id : N) (lo hi : Z) : token :=
  {| tk_idx := if idx <? 0 then None else Some (Z.to_nat idx); tk_id := id; tk_lo := lo; tk_hi := hi |}.

(* one correspondence case: the implementation's serialised outcome must equal the model's, except
   that an out-of-fuel model run only has to coincide with an out-of-budget implementation run *)
Definition chk (A : tables) (fuel : nat) (input : list item) (orc : list (nat * N * N)) (impl : list Z) : bool :=
  let r := drive A (table_oracle orc) fuel input in
  match fst r with
  | RFuel => match impl with 23 :: _ => true | _ => false end
  | _ => zlist_eqb (ser_run r) impl
  end.
