(** Budget monotonicity for ANY tables, with or without error recovery: a computation that ended with
    an answer other than "budget exhausted" ends with the same answer under every larger budget --
    the reductions under the error lookahead, the scan for a recovery state, the token-dropping loop,
    error_recovery, one step, a run and the whole drive. *)
From Coq Require Import List ZArith Bool Arith Lia.
From LV Require Import LR.Driver LR.Locality.
Import ListNotations.

Section MonoRec.
Variable A : tables.
Variable orc : oracle.

Definition next_nofuel (x : next * pst) : Prop := match x with (NDone RFuel, _) => False | _ => True end.

Lemma next_token_mono f s x : next_token A f s = x -> next_nofuel x -> forall f', f <= f' -> next_token A f' s = x.
Proof.
  intros H Hx f' Hf. unfold next_token in *. destruct (rest s) as [|[k|e] r]; try exact H.
  destruct (tk_idx k); [exact H|].
  destruct (unrec_error A f _ (Some k)) eqn:E; subst x; try (rewrite (unrec_error_mono A f _ _ _ E ltac:(discriminate) f' Hf); reflexivity).
  destruct Hx.
Qed.

Lemma pre_reduce_mono : forall f la s r, pre_reduce A orc f la s = r -> r <> PrFuel ->
  forall f', f <= f' -> pre_reduce A orc f' la s = r.
Proof.
  induction f as [|f IH]; intros la s r H Hr f' Hf; cbn [pre_reduce] in H; [congruence|].
  destruct f' as [|f']; [lia|]. cbn [pre_reduce].
  destruct (act_at A (top_state (stk s)) (err_col A)) as [a|]; [|exact H].
  destruct (as_reduce a) as [p|]; [|exact H].
  destruct (reduce A orc p la (stk s)) as [[|r0|k] ev]; try exact H.
  apply (IH _ _ _ H Hr). lia.
Qed.

Lemma find_state_mono f la : forall st j r, find_state A f st j la = r -> r <> FsFuel ->
  forall f', f <= f' -> find_state A f' st j la = r.
Proof.
  induction st as [|e below IH]; intros j r H Hr f' Hf; cbn [find_state] in *.
  - destruct (act_at A (top_state []) (err_col A)) as [a|]; [|exact H].
    destruct (as_shift a) as [es|]; [|exact H].
    destruct (accepts A f (es :: states_of []) la) eqn:Ea;
      try (rewrite (accepts_mono A f _ _ _ Ea ltac:(discriminate) f' Hf); exact H).
    congruence.
  - destruct (act_at A (top_state (e :: below)) (err_col A)) as [a|]; [|exact H].
    destruct (as_shift a) as [es|]; [|exact (IH _ _ H Hr f' Hf)].
    destruct (accepts A f (es :: states_of (e :: below)) la) eqn:Ea;
      try (rewrite (accepts_mono A f _ _ _ Ea ltac:(discriminate) f' Hf); first [exact H|exact (IH _ _ H Hr f' Hf)]).
    congruence.
Qed.

Definition fl_nofuel (r : flres) : Prop := match r with FlFuel => False | FlDone RFuel _ => False | _ => True end.

Lemma find_loop_mono f : forall n err la d s r, find_loop A f n err la d s = r -> fl_nofuel r ->
  forall f', f <= f' -> find_loop A f' n err la d s = r.
Proof.
  induction n as [|n IH]; intros err la d s r H Hr f' Hf; cbn [find_loop] in *.
  - destruct (find_state A f (stk s) 0 (option_map snd la)) eqn:Efs;
      try (rewrite (find_state_mono f _ _ _ _ Efs ltac:(discriminate) f' Hf); exact H).
    subst r. destruct Hr.
  - destruct (find_state A f (stk s) 0 (option_map snd la)) eqn:Efs;
      try (rewrite (find_state_mono f _ _ _ _ Efs ltac:(discriminate) f' Hf)); try exact H.
    + subst r. destruct Hr.
    + destruct la as [[k i]|]; [|exact H].
      destruct (next_token A f (log s (Drop (npulled s - 1)))) as [nx s1] eqn:En.
      destruct nx as [k' i'| |r0].
      * rewrite (next_token_mono f _ _ En I f' Hf). exact (IH _ _ _ _ _ H Hr f' Hf).
      * rewrite (next_token_mono f _ _ En I f' Hf). exact (IH _ _ _ _ _ H Hr f' Hf).
      * assert (Hn : next_nofuel (NDone r0, s1)) by (subst r; destruct r0; try exact I; exact Hr).
        rewrite (next_token_mono f _ _ En Hn f' Hf). exact H.
Qed.

Lemma error_recovery_mono f la s x : error_recovery A orc f la s = x -> next_nofuel x ->
  forall f', f <= f' -> error_recovery A orc f' la s = x.
Proof.
  intros H Hx f' Hf. unfold error_recovery in *.
  destruct (negb (uses_recovery A)).
  - destruct (unrec_error A f s (option_map fst la)) eqn:E; subst x;
      try (rewrite (unrec_error_mono A f _ _ _ E ltac:(discriminate) f' Hf); reflexivity).
    destruct Hx.
  - destruct (unrec_error A f s (option_map fst la)) as [v|err| |] eqn:E;
      try (rewrite (unrec_error_mono A f _ _ _ E ltac:(discriminate) f' Hf)); try exact H.
    + destruct (pre_reduce A orc f (option_map (fun l => tk_lo (fst l)) la) s) as [| |r s1|s1] eqn:Ep;
        try (rewrite (pre_reduce_mono f _ _ _ Ep ltac:(discriminate) f' Hf)); try exact H.
      * subst x. destruct Hx.
      * destruct (find_loop A f (S (length (rest s1))) err la [] s1) as [| |r s2|j la' dropped s2] eqn:Efl.
        -- rewrite (find_loop_mono f _ _ _ _ _ _ Efl I f' Hf). exact H.
        -- subst x. destruct Hx.
        -- assert (Hn : fl_nofuel (FlDone r s2)) by (subst x; destruct r; try exact I; exact Hx).
           rewrite (find_loop_mono f _ _ _ _ _ _ Efl Hn f' Hf). exact H.
        -- rewrite (find_loop_mono f _ _ _ _ _ _ Efl I f' Hf). exact H.
    + subst x. destruct Hx.
Qed.

Lemma step_mono_rec f m s x : step A orc f m s = x -> sres_nofuel x -> forall f', f <= f' -> step A orc f' m s = x.
Proof.
  intros H Hx f' Hf. destruct m as [|k i|]; unfold step in *.
  - destruct (next_token A f s) as [nx s1] eqn:En.
    assert (Hn : next_nofuel (nx, s1)) by (destruct nx as [| |r]; try exact I; subst x; destruct r; try exact I; exact Hx).
    rewrite (next_token_mono f _ _ En Hn f' Hf). exact H.
  - destruct (act_at A (top_state (stk s)) i) as [a|]; [|exact H].
    destruct (as_shift a); [exact H|]. destruct (as_reduce a); [exact H|].
    destruct (error_recovery A orc f (Some (k, i)) s) as [nx s1] eqn:En.
    assert (Hn : next_nofuel (nx, s1)) by (destruct nx as [| |r]; try exact I; subst x; destruct r; try exact I; exact Hx).
    rewrite (error_recovery_mono f _ _ _ En Hn f' Hf). exact H.
  - destruct (eof_at A (top_state (stk s))) as [a|]; [|exact H].
    destruct (as_reduce a); [exact H|].
    destruct (error_recovery A orc f None s) as [nx s1] eqn:En.
    assert (Hn : next_nofuel (nx, s1)) by (destruct nx as [| |r]; try exact I; subst x; destruct r; try exact I; exact Hx).
    rewrite (error_recovery_mono f _ _ _ En Hn f' Hf). exact H.
Qed.

Lemma run_mono_rec f : forall n m s r s', run A orc f n m s = (r, s') -> r <> RFuel ->
  forall f' n', f <= f' -> n <= n' -> run A orc f' n' m s = (r, s').
Proof.
  induction n as [|n IH]; intros m s r s' H Hr f' n' Hf Hn; cbn [run] in H; [inversion H; congruence|].
  destruct n' as [|n']; [lia|]. cbn [run].
  destruct (step A orc f m s) as [m1 s1|r1 s1] eqn:E.
  - rewrite (step_mono_rec f m s _ E I f' Hf). apply (IH _ _ _ _ H Hr); lia.
  - inversion H; subst. rewrite (step_mono_rec f m s _ E ltac:(destruct r; try exact I; congruence) f' Hf). reflexivity.
Qed.

Theorem drive_mono_rec f input r s' : drive A orc f input = (r, s') -> r <> RFuel ->
  forall f', f <= f' -> drive A orc f' input = (r, s').
Proof. unfold drive. intros H Hr f' Hf. apply (run_mono_rec f f MNeed _ r s' H Hr); assumption. Qed.
End MonoRec.
