(** Panic freedom WITH error recovery: on validated tables the driver never reaches a panic site,
    whatever the input, also inside Parser::error_recovery -- the reductions under the error
    lookahead, the scan for a recovery state (table lookups, the accepts simulation on the candidate
    stack), the final lookup of the error action on the kept stack (it is a shift, the scan found it)
    and the "cannot find token at EOF" site. *)
From Coq Require Import List ZArith Bool Arith Lia.
From LV Require Import LR.Driver LR.Validator LR.Safety LR.ValidatorSpec LR.Soundness LR.NoPanic LR.RecoverySound.
Import ListNotations.

Section NPR.
Variable A : tables.
Variable C : cert.
Hypothesis Hshape : shape A C = true.
Hypothesis Hexact : exact A C = true.
Variable orc : oracle.
Variable fuel : nat.

Notation core := (core C).
Notation edge := (edge A core).
Notation Linked := (Linked A core).
Notation SLinked := (SLinked A C).

Lemma err_col_lt : uses_recovery A = true -> err_col A < tn_term A.
Proof.
  intros Hu. destruct (shape_proj A C Hshape) as (_ & _ & _ & H & _). rewrite Hu in H.
  apply Nat.ltb_lt in H. unfold err_col. lia.
Qed.

Notation L := (L A C).
Notation item_ok := (RecoverySound.item_ok A).

Lemma ars_no_shift a p : as_reduce a = Some p -> as_shift a = None.
Proof.
  unfold as_reduce, as_shift. destruct (a <? 0)%Z eqn:Hn; [|discriminate]. intros _.
  apply Z.ltb_lt in Hn. destruct (0 <? a)%Z eqn:Hp; [apply Z.ltb_lt in Hp; lia|reflexivity].
Qed.

Definition np (r : result) : Prop := r <> RPanic.

Lemma next_token_np s : Linked (stk s) ->
  match next_token A fuel s with (NDone r, _) => np r | _ => True end.
Proof.
  intros HL. unfold next_token. destruct (rest s) as [|[k|e] r]; [exact I| |discriminate].
  destruct (tk_idx k); [exact I|]. apply (unrec_no_panic A C Hshape Hexact). exact HL.
Qed.

Lemma pre_reduce_np : forall f la s, uses_recovery A = true -> Linked (stk s) ->
  match pre_reduce A orc f la s with
  | PrPanic => False
  | PrDone r _ => np r
  | _ => True
  end.
Proof.
  induction f as [|f IH]; intros la s Hu HL; cbn [pre_reduce]; [exact I|].
  destruct (act_some A C Hshape _ (err_col A) (linked_top_lt A C Hshape _ HL) (err_col_lt Hu)) as [a Ea]. rewrite Ea.
  destruct (as_reduce a) as [p|] eqn:Er; [|exact I].
  assert (Ht : tact A (top_state (stk s)) (Some (err_col A)) = AReduce p).
  { unfold tact. apply (tact_reduce 0 _ a); [exact Ea|exact (ars_no_shift _ _ Er)|exact Er]. }
  pose proof (red_facts A C Hshape Hexact orc (stk s) (Some (err_col A)) p la HL (err_col_lt Hu) Ht) as Hred.
  inversion Hred as [e kids Ho Hne Heq|kids Hst Hwf Hkids Hlen Heq|st' lo hi kids Hne Ho Hkids Hst' HL' Hlen Heq].
  - discriminate.
  - discriminate.
  - apply (IH la (set_stk (logo s (Some (Act p lo hi))) st') Hu HL').
Qed.

Lemma slinked_push st es X : Linked st -> edge (top_state st) X es -> SLinked (es :: states_of st).
Proof.
  intros HL He. pose proof (slinked_of_linked A C st HL) as HS.
  destruct st as [|e below]; cbn in *.
  - split; [eauto|reflexivity].
  - split; [eauto|exact HS].
Qed.

Lemma find_state_np f la : la_ok A la -> uses_recovery A = true -> forall st j, Linked st ->
  match find_state A f st j la with
  | FsPanic => False
  | FsFound j' => exists d, j' = j + d /\ d <= length st /\
                   exists a es, act_at A (top_state (skipn d st)) (err_col A) = Some a /\ as_shift a = Some es
  | _ => True
  end.
Proof.
  intros Hla Hu. induction st as [|e below IH]; intros j HL.
  - cbn [find_state]. cbn [top_state].
    destruct (act_some A C Hshape 0 (err_col A) (nstates_pos A C Hshape) (err_col_lt Hu)) as [a Ea]. rewrite Ea.
    destruct (as_shift a) as [es|] eqn:Es; [|exact I].
    assert (HS : SLinked (es :: states_of [])).
    { apply (slinked_push [] es (Tm (err_col A)) HL). apply e_shift; [exact (err_col_lt Hu)|].
      unfold tact. cbn [top_state]. apply (tact_shift' 0 _ a); assumption. }
    pose proof (accepts_no_panic A C Hshape Hexact f _ la HS Hla) as Hacc.
    destruct (accepts A f (es :: states_of []) la); try exact I; [|exfalso; apply Hacc; reflexivity].
    exists 0. split; [lia|]. split; [cbn; lia|]. exists a, es. cbn [skipn top_state]. split; assumption.
  - cbn [find_state].
    assert (Hb : Linked below) by (destruct HL as (_ & _ & H); exact H).
    destruct (act_some A C Hshape _ (err_col A) (linked_top_lt A C Hshape _ HL) (err_col_lt Hu)) as [a Ea]. rewrite Ea.
    assert (Hrec : match find_state A f below (S j) la with
                   | FsPanic => False
                   | FsFound j' => exists d, j' = j + d /\ d <= length (e :: below) /\
                        exists a es, act_at A (top_state (skipn d (e :: below))) (err_col A) = Some a /\ as_shift a = Some es
                   | _ => True end).
    { specialize (IH (S j) Hb). destruct (find_state A f below (S j) la); try exact IH.
      destruct IH as (d & -> & Hd & Hx). exists (S d). split; [lia|]. split; [cbn; lia|]. exact Hx. }
    destruct (as_shift a) as [es|] eqn:Es; [|exact Hrec].
    assert (HS : SLinked (es :: states_of (e :: below))).
    { apply (slinked_push (e :: below) es (Tm (err_col A)) HL). apply e_shift; [exact (err_col_lt Hu)|].
      unfold tact. apply (tact_shift' 0 _ a); assumption. }
    pose proof (accepts_no_panic A C Hshape Hexact f _ la HS Hla) as Hacc.
    destruct (accepts A f (es :: states_of (e :: below)) la); try exact I; [|exact Hrec|exfalso; apply Hacc; reflexivity].
    exists 0. split; [lia|]. split; [cbn; lia|]. exists a, es. cbn [skipn]. split; assumption.
Qed.

Definition la_cond (la : option (token * nat)) : Prop := forall k i, la = Some (k, i) -> tk_idx k = Some i /\ i < tn_term A.

Lemma la_cond_ok la : la_cond la -> la_ok A (option_map snd la).
Proof. intros H. destruct la as [[k i]|]; cbn; [exact (proj2 (H k i eq_refl))|exact I]. Qed.

Lemma find_loop_np : uses_recovery A = true -> forall n err la dropped s, Linked (stk s) -> Forall item_ok (rest s) -> la_cond la ->
  match find_loop A fuel n err la dropped s with
  | FlPanic => False
  | FlDone r _ => np r
  | FlFound j la' _ s1 => (la = None -> la' = None) /\
        exists a es, act_at A (top_state (skipn j (stk s1))) (err_col A) = Some a /\ as_shift a = Some es
  | FlFuel => True
  end.
Proof.
  intros Hu. induction n as [|n IH]; intros err la dropped s HL Hok Hla; cbn [find_loop].
  - pose proof (find_state_np fuel (option_map snd la) (la_cond_ok la Hla) Hu (stk s) 0 HL) as Hfs.
    destruct (find_state A fuel (stk s) 0 (option_map snd la)); try exact I; [exact Hfs| |].
    + destruct Hfs as (d & -> & _ & Hx). split; [auto|exact Hx].
    + destruct la as [[k i]|]; [exact I|discriminate].
  - pose proof (find_state_np fuel (option_map snd la) (la_cond_ok la Hla) Hu (stk s) 0 HL) as Hfs.
    destruct (find_state A fuel (stk s) 0 (option_map snd la)); try exact I; [exact Hfs| |].
    + destruct Hfs as (d & -> & _ & Hx). split; [auto|exact Hx].
    + destruct la as [[k i]|]; [|discriminate].
      pose proof (next_token_L A C fuel (log s (Drop (npulled s - 1))) HL Hok) as Hn.
      pose proof (next_token_np (log s (Drop (npulled s - 1))) HL) as Hnp.
      destruct (next_token A fuel (log s (Drop (npulled s - 1)))) as [[k' i'| |r] s1].
      * destruct Hn as (Hs & Hok1 & Hk & Hi).
        assert (HL1 : Linked (stk s1)) by (rewrite Hs; exact HL).
        specialize (IH err (Some (k', i')) (dropped ++ [k]) s1 HL1 Hok1 ltac:(intros k0 i0 E; inversion E; subst; auto)).
        destruct (find_loop A fuel n err (Some (k', i')) (dropped ++ [k]) s1); try exact IH.
        split; [discriminate|exact (proj2 IH)].
      * destruct Hn as (Hs & Hok1).
        assert (HL1 : Linked (stk s1)) by (rewrite Hs; exact HL).
        specialize (IH err None (dropped ++ [k]) s1 HL1 Hok1 ltac:(intros k0 i0 E; discriminate)).
        destruct (find_loop A fuel n err None (dropped ++ [k]) s1); try exact IH.
        split; [discriminate|exact (proj2 IH)].
      * exact Hnp.
Qed.

Lemma error_recovery_np la s : Linked (stk s) -> Forall item_ok (rest s) -> la_cond la ->
  match error_recovery A orc fuel la s with
  | (NDone r, _) => np r
  | (Found _ _, _) => la <> None
  | (NEof, _) => True
  end.
Proof.
  intros HL Hok Hla. unfold error_recovery.
  pose proof (unrec_no_panic A C Hshape Hexact fuel s (option_map fst la) HL) as Hun.
  case_eq (uses_recovery A); intros Hu; cbn [negb]; [|exact Hun].
  destruct (unrec_error A fuel s (option_map fst la)) as [v|err| |]; try discriminate; [|exact Hun].
  pose proof (pre_reduce_np fuel (option_map (fun l => tk_lo (fst l)) la) s Hu HL) as Hnp.
  pose proof (pre_reduce_L A C Hshape Hexact err_col_lt orc fuel (option_map (fun l => tk_lo (fst l)) la) s Hu HL) as Hpre.
  destruct (pre_reduce A orc fuel _ s) as [| |r s1|s1]; [destruct Hnp|discriminate|exact Hnp|].
  destruct Hpre as [HL1 Hr1].
  assert (Hok1 : Forall item_ok (rest s1)) by (rewrite Hr1; exact Hok).
  pose proof (find_loop_np Hu (S (length (rest s1))) err la [] s1 HL1 Hok1 Hla) as Hfl.
  destruct (find_loop A fuel (S (length (rest s1))) err la [] s1) as [| |r s2|j la' dropped s2]; [destruct Hfl|discriminate|exact Hfl|].
  destruct Hfl as (Hnone & a & es & Ea & Es). rewrite Ea, Es.
  destruct la' as [[k i]|]; [|exact I].
  intros ->. specialize (Hnone eq_refl). discriminate.
Qed.

Lemma step_np m s : L m s ->
  match step A orc fuel m s with
  | Cont _ _ => True
  | Fin r _ => np r
  end.
Proof.
  intros (HL & Hok & Hm). unfold step. destruct m as [|k i|].
  - pose proof (next_token_np s HL) as Hn.
    destruct (next_token A fuel s) as [[k i| |r] s1]; [exact I|exact I|exact Hn].
  - destruct Hm as [Hk Hi].
    destruct (act_some A C Hshape _ i (linked_top_lt A C Hshape _ HL) Hi) as [a Ea]. rewrite Ea.
    destruct (as_shift a) as [target|] eqn:Es; [exact I|].
    destruct (as_reduce a) as [p|] eqn:Er.
    + assert (Ht : tact A (top_state (stk s)) (Some i) = AReduce p) by (unfold tact; apply (tact_reduce 0 _ a); assumption).
      pose proof (red_facts A C Hshape Hexact orc (stk s) (Some i) p (Some (tk_lo k)) HL Hi Ht) as Hred.
      inversion Hred; try discriminate; exact I.
    + pose proof (error_recovery_np (Some (k, i)) s HL Hok ltac:(intros k0 i0 E; inversion E; subst; auto)) as Her.
      destruct (error_recovery A orc fuel (Some (k, i)) s) as [[k' i'| |r] s1]; [exact I|exact I|exact Her].
  - destruct (eof_some A _ (linked_top_lt A C Hshape _ HL)) as [a Ea]. rewrite Ea.
    destruct (as_reduce a) as [p|] eqn:Er.
    + assert (Ht : tact A (top_state (stk s)) None = AReduce p)
        by (unfold tact; apply (tact_reduce 0 _ a); [exact Ea|exact (ars_no_shift _ _ Er)|exact Er]).
      pose proof (red_facts A C Hshape Hexact orc (stk s) None p None HL I Ht) as Hred.
      inversion Hred; try discriminate; exact I.
    + pose proof (error_recovery_np None s HL Hok ltac:(intros k0 i0 E; discriminate)) as Her.
      destruct (error_recovery A orc fuel None s) as [[k i| |r] s1]; [exfalso; apply Her; reflexivity|exact I|exact Her].
Qed.

Lemma run_np : forall n m s r s', L m s -> run A orc fuel n m s = (r, s') -> np r.
Proof.
  induction n as [|n IH]; intros m s r s' HL H; cbn [run] in H.
  - inversion H; subst. discriminate.
  - pose proof (step_np m s HL) as Hnp.
    pose proof (step_L A C Hshape Hexact err_col_lt orc fuel m s HL) as Hs.
    destruct (step A orc fuel m s) as [m1 s1|r1 s1].
    + eapply IH; eauto.
    + inversion H; subst. exact Hnp.
Qed.

Theorem no_panic_with_recovery w r s :
  Forall (tok_ok A) w -> drive A orc fuel (map IOk w) = (r, s) -> r <> RPanic.
Proof.
  intros Hw H. unfold drive in H. apply (run_np fuel MNeed (init (map IOk w)) r s); [|exact H].
  repeat split; cbn; auto.
  apply Forall_forall. intros i Hi. apply in_map_iff in Hi as (k & <- & Hk). rewrite Forall_forall in Hw. exact (Hw k Hk).
Qed.
End NPR.
