(** Token accounting of the driver, with or without error recovery, for ANY tables: the tokens a
    returned tree records -- its leaves and the dropped_tokens lists of its error nodes, read left to
    right -- form a subsequence of the input, in order.  Nothing is invented, duplicated or reordered;
    what is missing are exactly tokens of stack entries popped during recovery. *)
From Coq Require Import List ZArith Bool Arith Lia.
From LV Require Import LR.Driver LR.Soundness.
Import ListNotations.

Inductive Subseq {X} : list X -> list X -> Prop :=
| ss_nil : Subseq [] []
| ss_skip x l1 l2 : Subseq l1 l2 -> Subseq l1 (x :: l2)
| ss_take x l1 l2 : Subseq l1 l2 -> Subseq (x :: l1) (x :: l2).

Lemma subseq_nil_l {X} (l : list X) : Subseq [] l.
Proof. induction l; constructor; assumption. Qed.
Lemma subseq_refl {X} (l : list X) : Subseq l l.
Proof. induction l; constructor; assumption. Qed.
Lemma subseq_trans {X} (a b c : list X) : Subseq a b -> Subseq b c -> Subseq a c.
Proof.
  intros Hab Hbc. revert a Hab. induction Hbc as [|x b c Hbc IH|x b c Hbc IH]; intros a Hab.
  - exact Hab.
  - apply ss_skip. apply IH. exact Hab.
  - inversion Hab as [|x' a' b' Hab'|x' a' b' Hab']; subst.
    + apply ss_skip. apply IH. exact Hab'.
    + apply ss_take. apply IH. exact Hab'.
Qed.
Lemma subseq_app {X} (a b c d : list X) : Subseq a b -> Subseq c d -> Subseq (a ++ c) (b ++ d).
Proof. intros Hab Hcd. induction Hab; cbn [app]; [exact Hcd|apply ss_skip; assumption|apply ss_take; assumption]. Qed.
Lemma subseq_app_r {X} (a b c : list X) : Subseq a b -> Subseq a (b ++ c).
Proof. intros H. rewrite <- (app_nil_r a). apply subseq_app; [exact H|apply subseq_nil_l]. Qed.
Lemma subseq_app_l {X} (a b c : list X) : Subseq a c -> Subseq a (b ++ c).
Proof. intros H. change a with ([] ++ a). apply subseq_app; [apply subseq_nil_l|exact H]. Qed.
Lemma subseq_length {X} (a b : list X) : Subseq a b -> length a <= length b.
Proof. induction 1; cbn; lia. Qed.

(** what a tree records of the input *)
Fixpoint rec (t : tree) : list token :=
  match t with
  | Leaf k => [k]
  | ErrLeaf _ d _ _ => d
  | Node _ kids => (fix go (l : list tree) : list token :=
                      match l with [] => [] | x :: r => rec x ++ go r end) kids
  end.
Lemma rec_node p kids : rec (Node p kids) = flat_map rec kids.
Proof. cbn [rec]. induction kids as [|k r IH]; cbn [flat_map]; [reflexivity|]. now rewrite IH. Qed.

(* the dropped_tokens lists of the error nodes, left to right *)
Fixpoint drops (t : tree) : list (list token) :=
  match t with
  | Leaf _ => []
  | ErrLeaf _ d _ _ => [d]
  | Node _ kids => (fix go (l : list tree) : list (list token) :=
                      match l with [] => [] | x :: r => drops x ++ go r end) kids
  end.
Lemma drops_node p kids : drops (Node p kids) = flat_map drops kids.
Proof. cbn [drops]. induction kids as [|k r IH]; cbn [flat_map]; [reflexivity|]. now rewrite IH. Qed.

Lemma yield_subseq_rec t : Subseq (yield t) (rec t).
Proof.
  induction t as [k|e d lo hi|p kids IH] using tree_ind'.
  - apply subseq_refl.
  - apply subseq_nil_l.
  - rewrite yield_node, rec_node. induction IH as [|k r Hk _ IHr]; cbn [flat_map]; [constructor|].
    apply subseq_app; assumption.
Qed.

Lemma drops_subseq_rec t : Forall (fun d => Subseq d (rec t)) (drops t).
Proof.
  induction t as [k|e d lo hi|p kids IH] using tree_ind'.
  - constructor.
  - constructor; [apply subseq_refl|constructor].
  - rewrite drops_node, rec_node. induction IH as [|k r Hk _ IHr]; cbn [flat_map]; [constructor|].
    apply Forall_app. split.
    + eapply Forall_impl; [|exact Hk]. intros d Hd. apply subseq_app_r. exact Hd.
    + eapply Forall_impl; [|exact IHr]. intros d Hd. apply subseq_app_l. exact Hd.
Qed.

Definition recs (st : list entry) : list token := flat_map (fun e => rec (e_tree e)) (rev st).
Lemma recs_cons e st : recs (e :: st) = recs st ++ rec (e_tree e).
Proof. unfold recs. cbn [rev]. rewrite flat_map_app. cbn [flat_map]. now rewrite app_nil_r. Qed.
Lemma recs_split k st : recs st = recs (skipn k st) ++ flat_map rec (map e_tree (rev (firstn k st))).
Proof. unfold recs. rewrite (flat_map_rev_split _ k st), flat_map_map. reflexivity. Qed.

Section Acc.
Variable A : tables.
Variable orc : oracle.
Variable fuel : nat.
Variable w : list token.

Definition latok (la : option (token * nat)) : list token := match la with Some (k, _) => [k] | None => [] end.

(* [pre]: the part of the input already handed over; the stack and the dropped tokens collected so far
   record a subsequence of it *)
Definition G (pre : list token) (la : option (token * nat)) (dropped : list token) (s : pst) : Prop :=
  pre ++ latok la ++ toks (rest s) = w /\ Subseq (recs (stk s) ++ dropped) pre.

Definition fin (r : result) : Prop := match r with ROk v => Subseq (rec v) w | _ => True end.

Lemma G_stack_in_w pre la d s : G pre la d s -> Subseq (recs (stk s)) w.
Proof.
  intros [Hw Hs]. rewrite <- Hw. apply subseq_app_r. eapply subseq_trans; [|exact Hs].
  apply subseq_app_r. apply subseq_refl.
Qed.

Lemma unrec_fin s tok : fin (unrec_error A fuel s tok).
Proof. unfold unrec_error. destruct (expected_tokens _ _ _); cbn; auto. destruct tok; exact I. Qed.

Lemma next_token_G pre d s : G pre None d s ->
  match next_token A fuel s with
  | (Found k i, s1) => stk s1 = stk s /\ G pre (Some (k, i)) d s1
  | (NEof, s1) => stk s1 = stk s /\ G pre None d s1
  | (NDone r, s1) => fin r
  end.
Proof.
  intros [Hw Hs]. unfold next_token. destruct (rest s) as [|[k|e] r] eqn:Hr.
  - cbn [stk log]. split; [reflexivity|]. split; [cbn [rest log latok app]; rewrite Hr; exact Hw|exact Hs].
  - destruct (tk_idx k) as [i|] eqn:Hi.
    + cbn [stk]. split; [reflexivity|]. split; [|exact Hs].
      cbn [rest latok]. cbn [latok app] in Hw. cbn [toks flat_map] in Hw. exact Hw.
    + apply unrec_fin.
  - exact I.
Qed.

Lemma reduce_recs p la_start st :
  match reduce A orc p la_start st with
  | (RdCont st', _) => recs st' = recs st
  | (RdDone (ROk v), _) => Subseq (rec v) (recs st)
  | _ => True
  end.
Proof.
  unfold reduce. destruct (nth_error (prods A) p) as [[nt rhs]|]; [|exact I].
  destruct (length st <? length rhs); [exact I|].
  destruct (negb (syms_match A (rev (firstn (length rhs) st)) rhs)); [exact I|].
  destruct (match rev (firstn (length rhs) st) with [] => _ | e :: _ => _ end) as [lo hi].
  destruct (Nat.eqb p (start_prod A)).
  - rewrite rec_node, (recs_split (length rhs) st). apply subseq_app_l. apply subseq_refl.
  - destruct (orc p _); [exact I|].
    rewrite recs_cons. cbn [e_tree]. rewrite rec_node. symmetry. apply recs_split.
Qed.

Lemma logo_stk s ev : stk (logo s ev) = stk s.
Proof. destruct ev; reflexivity. Qed.
Lemma logo_rest s ev : rest (logo s ev) = rest s.
Proof. destruct ev; reflexivity. Qed.

Lemma pre_reduce_G pre la d : forall f la_start s, G pre la d s ->
  match pre_reduce A orc f la_start s with
  | PrBreak s1 => G pre la d s1
  | PrDone r _ => fin r
  | _ => True
  end.
Proof.
  induction f as [|f IH]; intros la_start s HG; cbn [pre_reduce]; [exact I|].
  destruct (act_at A (top_state (stk s)) (err_col A)) as [a|]; [|exact I].
  destruct (as_reduce a) as [p|]; [|exact HG].
  pose proof (reduce_recs p la_start (stk s)) as Hred.
  destruct (reduce A orc p la_start (stk s)) as [[|r|st'] ev].
  - exact I.
  - destruct r as [v| | |]; try exact I. cbn [fin].
    eapply subseq_trans; [exact Hred|]. exact (G_stack_in_w _ _ _ _ HG).
  - apply IH. destruct HG as [Hw Hs]. split.
    + cbn [rest set_stk]. rewrite logo_rest. exact Hw.
    + cbn [stk set_stk]. rewrite Hred. exact Hs.
Qed.

Lemma find_loop_G : forall n err pre la d s, G pre la d s ->
  match find_loop A fuel n err la d s with
  | FlFound j la' d' s2 => exists pre', G pre' la' d' s2
  | FlDone r _ => fin r
  | _ => True
  end.
Proof.
  induction n as [|n IH]; intros err pre la d s HG; cbn [find_loop].
  - destruct (find_state A fuel (stk s) 0 (option_map snd la)); try exact I; [eauto|].
    destruct la as [[k i]|]; exact I.
  - destruct (find_state A fuel (stk s) 0 (option_map snd la)); try exact I; [eauto|].
    destruct la as [[k i]|]; [|exact I].
    destruct HG as [Hw Hs]. cbn [latok] in Hw.
    assert (HG0 : G (pre ++ [k]) None (d ++ [k]) (log s (Drop (npulled s - 1)))).
    { split.
      - cbn [latok rest log app]. rewrite <- app_assoc. exact Hw.
      - cbn [stk log]. rewrite app_assoc. apply subseq_app; [exact Hs|apply subseq_refl]. }
    pose proof (next_token_G _ _ _ HG0) as Hnt.
    destruct (next_token A fuel (log s (Drop (npulled s - 1)))) as [[k' i'| |r] s1].
    + destruct Hnt as [_ HG1]. exact (IH err _ _ _ _ HG1).
    + destruct Hnt as [_ HG1]. exact (IH err _ _ _ _ HG1).
    + exact Hnt.
Qed.

Lemma error_recovery_G pre la s : G pre la [] s ->
  match error_recovery A orc fuel la s with
  | (Found k i, s1) => G pre (Some (k, i)) [] s1 \/ exists pre', G pre' (Some (k, i)) [] s1
  | (NEof, s1) => exists pre', G pre' None [] s1
  | (NDone r, _) => fin r
  end.
Proof.
  intros HG. unfold error_recovery.
  destruct (negb (uses_recovery A)); [apply unrec_fin|].
  pose proof (unrec_fin s (option_map fst la)) as Hun.
  destruct (unrec_error A fuel s (option_map fst la)) as [v|err| |]; try exact Hun.
  pose proof (pre_reduce_G pre la [] fuel (option_map (fun l => tk_lo (fst l)) la) s HG) as Hpre.
  destruct (pre_reduce A orc fuel _ s) as [| |r s1|s1]; try exact I; [exact Hpre|].
  pose proof (find_loop_G (S (length (rest s1))) err pre la [] s1 Hpre) as Hfl.
  destruct (find_loop A fuel (S (length (rest s1))) err la [] s1) as [| |r s2|j la' dropped s2]; try exact I; [exact Hfl|].
  destruct Hfl as (pre' & Hw & Hs).
  destruct (act_at A (top_state (skipn j (stk s2))) (err_col A)) as [a|]; [|exact I].
  destruct (as_shift a) as [es|]; [|exact I].
  match goal with |- context [set_stk s2 (?e :: _)] => set (entry := e) end.
  assert (HG3 : G pre' la' [] (set_stk s2 (entry :: skipn j (stk s2)))).
  { split; [exact Hw|]. cbn [stk set_stk]. rewrite app_nil_r, recs_cons. unfold entry. cbn [e_tree rec].
    eapply subseq_trans; [|exact Hs]. rewrite (recs_split j (stk s2)), <- app_assoc.
    apply subseq_app; [apply subseq_refl|]. apply subseq_app_l. apply subseq_refl. }
  destruct la' as [[k i]|]; [right|]; exists pre'; exact HG3.
Qed.

Definition mla (m : mode) : option (token * nat) := match m with MHave k i => Some (k, i) | _ => None end.
Definition T (m : mode) (s : pst) : Prop := exists pre, G pre (mla m) [] s.

Lemma step_T m s : T m s ->
  match step A orc fuel m s with
  | Cont m' s' => T m' s'
  | Fin r _ => fin r
  end.
Proof.
  intros [pre HG]. unfold step. destruct m as [|k i|]; cbn [mla] in HG.
  - pose proof (next_token_G _ _ _ HG) as Hnt.
    destruct (next_token A fuel s) as [[k i| |r] s1].
    + exists pre. exact (proj2 Hnt).
    + exists pre. exact (proj2 Hnt).
    + exact Hnt.
  - destruct (act_at A (top_state (stk s)) i) as [a|]; [|exact I].
    destruct (as_shift a) as [target|].
    + exists (pre ++ [k]). destruct HG as [Hw Hs]. split.
      * cbn [mla latok rest log set_stk app]. rewrite <- app_assoc. exact Hw.
      * cbn [stk log set_stk]. rewrite app_nil_r, recs_cons. cbn [e_tree rec].
        rewrite app_nil_r in Hs. apply subseq_app; [exact Hs|apply subseq_refl].
    + destruct (as_reduce a) as [p|].
      * pose proof (reduce_recs p (Some (tk_lo k)) (stk s)) as Hred.
        destruct (reduce A orc p (Some (tk_lo k)) (stk s)) as [[|r|st'] ev]; [exact I| |].
        -- destruct r; exact I.
        -- exists pre. destruct HG as [Hw Hs]. split.
           ++ cbn [mla rest set_stk]. rewrite logo_rest. exact Hw.
           ++ cbn [stk set_stk]. rewrite Hred. exact Hs.
      * pose proof (error_recovery_G pre (Some (k, i)) s HG) as Her.
        destruct (error_recovery A orc fuel (Some (k, i)) s) as [[k' i'| |r] s1].
        -- destruct Her as [H|[pre' H]]; [exists pre|exists pre']; exact H.
        -- exact Her.
        -- exact Her.
  - destruct (eof_at A (top_state (stk s))) as [a|]; [|exact I].
    destruct (as_reduce a) as [p|].
    + pose proof (reduce_recs p None (stk s)) as Hred.
      destruct (reduce A orc p None (stk s)) as [[|r|st'] ev]; [exact I| |].
      * destruct r as [v| | |]; try exact I. cbn [fin].
        eapply subseq_trans; [exact Hred|exact (G_stack_in_w _ _ _ _ HG)].
      * exists pre. destruct HG as [Hw Hs]. split.
        -- cbn [mla rest set_stk]. rewrite logo_rest. exact Hw.
        -- cbn [stk set_stk]. rewrite Hred. exact Hs.
    + pose proof (error_recovery_G pre None s HG) as Her.
      destruct (error_recovery A orc fuel None s) as [[k' i'| |r] s1]; [exact I|exact Her|exact Her].
Qed.

Lemma run_T : forall n m s r s', T m s -> run A orc fuel n m s = (r, s') -> fin r.
Proof.
  induction n as [|n IH]; intros m s r s' HT H; cbn [run] in H.
  - inversion H; subst. exact I.
  - pose proof (step_T m s HT) as Hst.
    destruct (step A orc fuel m s) as [m1 s1|r1 s1].
    + eapply IH; eauto.
    + inversion H; subst. exact Hst.
Qed.
End Acc.

(** every token the result records comes from the input, in input order *)
Theorem recorded_tokens_are_a_subsequence A orc fuel input v s :
  drive A orc fuel input = (ROk v, s) -> Subseq (rec v) (toks input).
Proof.
  intros H. unfold drive in H.
  apply (run_T A orc fuel (toks input) fuel MNeed (init input) (ROk v) s); [|exact H].
  exists []. split; [reflexivity|]. cbn. constructor.
Qed.

Corollary leaves_are_a_subsequence A orc fuel input v s :
  drive A orc fuel input = (ROk v, s) -> Subseq (yield v) (toks input).
Proof. intros H. eapply subseq_trans; [apply yield_subseq_rec|]. eapply recorded_tokens_are_a_subsequence; eauto. Qed.

Corollary dropped_lists_are_subsequences A orc fuel input v s :
  drive A orc fuel input = (ROk v, s) -> Forall (fun d => Subseq d (toks input)) (drops v).
Proof.
  intros H. eapply Forall_impl; [|apply drops_subseq_rec]. intros d Hd.
  eapply subseq_trans; [exact Hd|]. eapply recorded_tokens_are_a_subsequence; eauto.
Qed.

(** non-vacuity: tables lalrpop emits for  E = E "+" T | T;  T = N | "(" E ")" | !  (terminals 0 "+",
    1 "(", 2 ")", 3 N, 4 the error column) on the input  ( ) ) + N : recovery pops the entries of the
    first two tokens, drops the third, and the result records the last three tokens only *)
Definition ex_tables : tables := {| tn_term := 5; tn_names := 4; uses_recovery := true; action := [0; 2; 0; 6; 7; 0; 2; 0; 6; 7; 0; 2; 0; 6; 7; 3; 0; 0; 0; 0; (-4); 0; (-4); 0; 0; (-5); 0; (-5); 0; 0; (-7); 0; (-7); 0; 0; 3; 0; 10; 0; 0; (-3); 0; (-3); 0; 0; (-6); 0; (-6); 0; 0]%Z; eof_action := [0; 0; 0; (-8); (-4); (-5); (-7); 0; (-3); (-6)]%Z;
   goto_tbl := [[0; 0; 0; 0; 0; 0; 0; 0; 0; 0]; [0; 0; 0; 0; 0; 0; 0; 0; 0; 0]; [3; 7; 3; 3; 3; 3; 3; 3; 3; 3]; [4; 4; 8; 4; 4; 4; 4; 4; 4; 4]; [0; 0; 0; 0; 0; 0; 0; 0; 0; 0]]; prods := [(0, []); (1, []); (2, [Nt 2; Tm 0; Nt 3]); (2, [Nt 3]); (3, [Tm 3]); (3, [Tm 1; Nt 2; Tm 2]); (3, [Tm 4]); (4, [Nt 2])]; start_prod := 7; sim_pop := [0; 0; 3; 1; 1; 3; 1; 0]; sim_nt := [Some 0; Some 1; Some 2; Some 2; Some 3; Some 3; Some 3; None] |}.
Definition ex_tk (i : nat) (n : Z) : token := {| tk_idx := Some i; tk_id := Z.to_N n; tk_lo := (2*n)%Z; tk_hi := (2*n+1)%Z |}.
Definition ex_input : list item := [IOk (ex_tk 1 0); IOk (ex_tk 2 1); IOk (ex_tk 2 2); IOk (ex_tk 0 3); IOk (ex_tk 3 4)].
Example recovery_records_a_strict_subsequence :
  exists v s, drive ex_tables (fun _ _ => None) 200 ex_input = (ROk v, s) /\
              rec v = [ex_tk 2 2; ex_tk 0 3; ex_tk 3 4] /\ drops v = [[ex_tk 2 2]] /\ yield v = [ex_tk 0 3; ex_tk 3 4].
Proof. eexists. eexists. split; [vm_compute; reflexivity|]. repeat split; vm_compute; reflexivity. Qed.
