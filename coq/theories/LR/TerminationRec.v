(** Termination WITH error recovery: on validated tables every run ends, whatever the input.
    Inside error_recovery: the reductions under the error lookahead end (terminates certificate), every
    accepts simulation of the recovery-state scan ends, the token-dropping loop consumes the stream.
    Across recoveries: a recovery hands back a lookahead that the simulation has shown shiftable from
    the new stack, so the parser consumes it (or ends) before it can fail again -- no recovery loop. *)
From Coq Require Import List ZArith Bool Arith Lia.
From LV Require Import LR.Driver LR.Validator LR.Safety LR.ValidatorSpec LR.Soundness LR.NoPanic LR.Locality
                       LR.Termination LR.RecoverySound LR.NoPanicRec LR.MonoRec.
Import ListNotations.

Section TR.
Variable A : tables.
Variable C : cert.
Hypothesis Hshape : shape A C = true.
Hypothesis Hexact : exact A C = true.
Hypothesis Hterm : terminates A C = true.
Variable orc : oracle.

Notation core := (core C).
Notation edge := (edge A core).
Notation Linked := (Linked A core).
Notation SLinked := (SLinked A C).
Notation L := (L A C).
Notation item_ok := (RecoverySound.item_ok A).
Notation bnd := (bound A C).
Notation errc := (err_col_lt A C Hshape).

Lemma bnd_mono a b : a <= b -> bnd a <= bnd b.
Proof.
  intros H. unfold bound, lvl. apply Nat.add_le_mono_r, Nat.mul_le_mono_r, Nat.add_le_mono_l, Nat.mul_le_mono_r. exact H.
Qed.

(** the lookahead can be consumed from this state vector: the reductions it triggers end in a shift
    (or in the accepting reduction) *)
Inductive Shiftable (a : la) : list nat -> Prop :=
| sh_shift l s' : tact A (hd 0 l) a = AShift s' -> Shiftable a l
| sh_acc l : tact A (hd 0 l) a = AReduce (start_prod A) -> Shiftable a l
| sh_red l l' : sred A a l = Some l' -> Shiftable a l' -> Shiftable a l.

Lemma accepts_true_shiftable : forall f l a, SLinked l -> la_ok A a -> accepts A f l a = ATrue -> Shiftable a l.
Proof.
  induction f as [|f IH]; intros l a HL Ha H; cbn [accepts] in H; [discriminate|].
  destruct l as [|top r] eqn:El; [destruct HL|]. rewrite <- El in HL.
  assert (Htop : top < n_states A) by (pose proof (slinked_hd_lt A C Hshape l HL) as H'; rewrite El in H'; exact H').
  assert (Hsome : exists z, (match a with None => eof_at A top | Some t => act_at A top t end) = Some z).
  { destruct a as [t|]; [apply (act_some A C Hshape); auto|apply (eof_some A); auto]. }
  destruct Hsome as [z Hz]. rewrite Hz in H.
  destruct (z =? 0)%Z eqn:H0; [discriminate|].
  destruct (as_reduce z) as [p|] eqn:Hr.
  - assert (Ht : tact A top a = AReduce p).
    { unfold tact. rewrite Hz. apply decode_reduce_raw; auto. }
    destruct (RJ A C Hshape Hexact _ _ _ Ha Ht) as [Hc Hp].
    destruct (sim_of_prod A C Hshape p Hp) as [Hsim [k Hk]]. rewrite Hk in H.
    destruct (nth_error (sim_nt A) p) as [[nt|]|]; [| |destruct Hsim].
    + destruct Hsim as (Hne & -> & Hk'). rewrite Hk in Hk'. inversion Hk'; subst k.
      assert (Hc' : core (hd 0 l) p (length (rhs A p))) by (rewrite El; exact Hc).
      destruct (walk_back_s A C Hshape Hexact l p _ HL Hc') as [Hlen Hall].
      rewrite <- El in H.
      replace (length l <=? length (rhs A p)) with false in H by (symmetry; apply Nat.leb_gt; exact Hlen).
      assert (Hsr : sred A a l = Some (goto_at A (hd 0 (skipn (length (rhs A p)) l)) (lhs A p) :: skipn (length (rhs A p)) l)).
      { unfold sred. rewrite El. cbn [hd]. rewrite Ht. rewrite <- El.
        replace (p =? start_prod A) with false by (symmetry; apply Nat.eqb_neq; exact Hne).
        cbv zeta. replace (length (rhs A p) <? length l) with true by (symmetry; apply Nat.ltb_lt; exact Hlen). reflexivity. }
      rewrite <- El. apply (sh_red a l _ Hsr). apply (IH _ a); [|exact Ha|exact H].
      specialize (Hall _ (le_n _)). rewrite Nat.sub_diag in Hall.
      pose proof (slinked_skipn A C _ _ HL Hlen) as HL'.
      destruct (skipn (length (rhs A p)) l) as [|b r'] eqn:Es; [destruct HL'|].
      cbn [hd] in *. cbn [NoPanic.SLinked]. split; [|exact HL'].
      destruct (EXC A C Hshape Hexact _ _ Hall) as [[_ Hq]|(p' & d' & Hc2 & Hn)]; [congruence|].
      exists (Nt (lhs A p)). eapply e_goto; eauto.
    + subst p. apply sh_acc. cbn [hd]. exact Ht.
  - (* neither error nor reduce: a shift *)
    destruct (as_shift z) as [s'|] eqn:Hs.
    + apply (sh_shift a _ s'). cbn [hd]. unfold tact. rewrite Hz. unfold decode. rewrite Hs. reflexivity.
    + exfalso. unfold as_shift in Hs. unfold as_reduce in Hr. apply Z.eqb_neq in H0.
      destruct (0 <? z)%Z eqn:H1; [discriminate|]. destruct (z <? 0)%Z eqn:H2; [discriminate|].
      apply Z.ltb_ge in H1, H2. lia.
Qed.

Lemma err_not_shiftable a l : tact A (hd 0 l) a = AErr -> ~ Shiftable a l.
Proof.
  intros Ht H. inversion H as [l0 s' Hs|l0 Hs|l0 l' Hs _]; subst.
  - congruence.
  - congruence.
  - unfold sred in Hs. rewrite Ht in Hs. discriminate.
Qed.

Lemma shiftable_step a l l' : sred A a l = Some l' -> Shiftable a l -> Shiftable a l'.
Proof.
  intros Hs H. inversion H as [l0 s' Ht|l0 Ht|l0 l1 Hs1 H1]; subst.
  - unfold sred in Hs. rewrite Ht in Hs. discriminate.
  - unfold sred in Hs. rewrite Ht, Nat.eqb_refl in Hs. discriminate.
  - rewrite Hs in Hs1. inversion Hs1; subst. exact H1.
Qed.

(** * inside error_recovery *)
Lemma pre_reduce_halts_n : uses_recovery A = true -> forall n s la, Linked (stk s) ->
  siter A n (Some (err_col A)) (states_of (stk s)) = None -> forall f, n <= f -> pre_reduce A orc f la s <> PrFuel.
Proof.
  intros Hu. induction n as [|n IH]; intros s la HL Hs f Hf; [discriminate|].
  destruct f as [|f]; [lia|]. cbn [pre_reduce].
  destruct (act_some A C Hshape _ (err_col A) (linked_top_lt A C Hshape _ HL) (errc Hu)) as [a Ea]. rewrite Ea.
  destruct (as_reduce a) as [p|] eqn:Er; [|discriminate].
  assert (Ht : tact A (top_state (stk s)) (Some (err_col A)) = AReduce p).
  { unfold tact. apply (tact_reduce 0 _ a); [exact Ea|exact (ars_no_shift _ _ Er)|exact Er]. }
  pose proof (red_facts A C Hshape Hexact orc (stk s) (Some (err_col A)) p la HL (errc Hu) Ht) as Hred.
  destruct (reduce A orc p la (stk s)) as [rr ev] eqn:E.
  destruct rr as [|r|st']; [discriminate|discriminate|].
  pose proof (reduce_cont_sred A C Hshape Hexact orc (stk s) (Some (err_col A)) p la st' ev HL (errc Hu) Ht E) as Hsr.
  inversion Hred as [| |st2 lo hi kids Hne Ho Hkids Hst' HL' Hlen Heq]; subst.
  apply IH; [exact HL'| |lia].
  cbn [siter] in Hs. rewrite Hsr in Hs. exact Hs.
Qed.

Lemma pre_reduce_halts : uses_recovery A = true -> forall s la f, Linked (stk s) ->
  bnd (length (states_of (stk s))) <= f -> pre_reduce A orc f la s <> PrFuel.
Proof.
  intros Hu s la f HL Hf.
  apply (pre_reduce_halts_n Hu _ s la HL (reduce_phase_halts A C Hshape Hterm (Some (err_col A)) _ (errc Hu) (slinked_of_linked A C _ HL)) f Hf).
Qed.

Lemma find_state_halts la : la_ok A la -> uses_recovery A = true -> forall st j f, Linked st ->
  bnd (S (length (states_of st))) <= f -> find_state A f st j la <> FsFuel.
Proof.
  intros Hla Hu. induction st as [|e below IH]; intros j f HL Hf.
  - cbn [find_state]. cbn [top_state].
    destruct (act_some A C Hshape 0 (err_col A) (nstates_pos A C Hshape) (errc Hu)) as [a Ea]. rewrite Ea.
    destruct (as_shift a) as [es|] eqn:Es; [|discriminate].
    assert (HS : SLinked (es :: states_of [])).
    { apply (slinked_push A C [] es (Tm (err_col A)) HL). apply e_shift; [exact (errc Hu)|].
      unfold tact. cbn [top_state]. apply (tact_shift' 0 _ a); assumption. }
    pose proof (accepts_bounded A C Hshape Hexact Hterm _ la f HS Hla Hf) as Hacc.
    destruct (accepts A f (es :: states_of []) la); try discriminate. exfalso. apply Hacc. reflexivity.
  - cbn [find_state].
    assert (Hb : Linked below) by (destruct HL as (_ & _ & H); exact H).
    destruct (act_some A C Hshape _ (err_col A) (linked_top_lt A C Hshape _ HL) (errc Hu)) as [a Ea]. rewrite Ea.
    assert (Hrec : find_state A f below (S j) la <> FsFuel).
    { apply IH; [exact Hb|]. eapply Nat.le_trans; [|exact Hf]. apply bnd_mono.
      rewrite !length_states_of. cbn [length]. lia. }
    destruct (as_shift a) as [es|] eqn:Es; [|exact Hrec].
    assert (HS : SLinked (es :: states_of (e :: below))).
    { apply (slinked_push A C (e :: below) es (Tm (err_col A)) HL). apply e_shift; [exact (errc Hu)|].
      unfold tact. apply (tact_shift' 0 _ a); assumption. }
    pose proof (accepts_bounded A C Hshape Hexact Hterm _ la f HS Hla Hf) as Hacc.
    destruct (accepts A f (es :: states_of (e :: below)) la); try discriminate; [exact Hrec|].
    exfalso. apply Hacc. reflexivity.
Qed.

(* pure facts about the loops, for any tables *)
Lemma find_state_true f la : forall st j j', find_state A f st j la = FsFound j' ->
  exists d, j' = j + d /\ d <= length st /\
    exists a es, act_at A (top_state (skipn d st)) (err_col A) = Some a /\ as_shift a = Some es /\
                 accepts A f (es :: states_of (skipn d st)) la = ATrue.
Proof.
  induction st as [|e below IH]; intros j j' H; cbn [find_state] in H.
  - destruct (act_at A (top_state []) (err_col A)) as [a|] eqn:Ea; [|discriminate].
    destruct (as_shift a) as [es|] eqn:Es; [|discriminate].
    destruct (accepts A f (es :: states_of []) la) eqn:Eacc; try discriminate.
    inversion H; subst. exists 0. split; [lia|]. split; [cbn; lia|]. exists a, es. cbn [skipn]. auto.
  - destruct (act_at A (top_state (e :: below)) (err_col A)) as [a|] eqn:Ea; [|discriminate].
    assert (Hrec : find_state A f below (S j) la = FsFound j' ->
      exists d, j' = j + d /\ d <= length (e :: below) /\
        exists a es, act_at A (top_state (skipn d (e :: below))) (err_col A) = Some a /\ as_shift a = Some es /\
                     accepts A f (es :: states_of (skipn d (e :: below))) la = ATrue).
    { intros H'. destruct (IH _ _ H') as (d & -> & Hd & Hx). exists (S d). split; [lia|]. split; [cbn; lia|]. exact Hx. }
    destruct (as_shift a) as [es|] eqn:Es; [|exact (Hrec H)].
    destruct (accepts A f (es :: states_of (e :: below)) la) eqn:Eacc; try discriminate; [|exact (Hrec H)].
    inversion H; subst. exists 0. split; [lia|]. split; [cbn; lia|]. exists a, es. cbn [skipn]. auto.
Qed.

Lemma next_token_shape f s x s1 : next_token A f s = (x, s1) ->
  stk s1 = stk s /\ length (rest s1) <= length (rest s) /\
  match x with Found _ _ => length (rest s1) < length (rest s) | _ => True end.
Proof.
  unfold next_token. destruct (rest s) as [|[k|e] r] eqn:Er; intros H.
  - inversion H; subst. cbn. rewrite Er. auto.
  - destruct (tk_idx k); inversion H; subst; cbn; auto.
  - inversion H; subst. cbn. auto.
Qed.

Lemma find_loop_found f : forall n err la d s j la' d' s1, find_loop A f n err la d s = FlFound j la' d' s1 ->
  stk s1 = stk s /\ length (rest s1) <= length (rest s) /\ find_state A f (stk s1) 0 (option_map snd la') = FsFound j.
Proof.
  induction n as [|n IH]; intros err la d s j la' d' s1 H; cbn [find_loop] in H.
  - destruct (find_state A f (stk s) 0 (option_map snd la)) eqn:Efs; try discriminate.
    + inversion H; subst. auto.
    + destruct la as [[k i]|]; discriminate.
  - destruct (find_state A f (stk s) 0 (option_map snd la)) eqn:Efs; try discriminate.
    + inversion H; subst. auto.
    + destruct la as [[k i]|]; [|discriminate].
      destruct (next_token A f (log s (Drop (npulled s - 1)))) as [x s0] eqn:En.
      destruct (next_token_shape _ _ _ _ En) as (Hs & Hl & _). cbn [stk rest log] in Hs, Hl.
      destruct x as [k' i'| |r]; [| |discriminate].
      * destruct (IH _ _ _ _ _ _ _ _ H) as (H1 & H2 & H3). split; [congruence|]. split; [lia|exact H3].
      * destruct (IH _ _ _ _ _ _ _ _ H) as (H1 & H2 & H3). split; [congruence|]. split; [lia|exact H3].
Qed.

Lemma find_loop_halts : uses_recovery A = true -> forall n err la d s f, Linked (stk s) -> Forall item_ok (rest s) ->
  la_cond A la -> (la <> None -> length (rest s) < n) ->
  bnd (S (length (states_of (stk s)))) <= f -> fl_nofuel (find_loop A f n err la d s).
Proof.
  intros Hu. induction n as [|n IH]; intros err la d s f HL Hok Hla Hn Hf; cbn [find_loop].
  - pose proof (find_state_halts _ (la_cond_ok A la Hla) Hu (stk s) 0 f HL Hf) as Hfs.
    destruct (find_state A f (stk s) 0 (option_map snd la)); try exact I; [congruence|].
    destruct la as [[k i]|]; [|exact I]. exfalso. specialize (Hn ltac:(discriminate)). lia.
  - pose proof (find_state_halts _ (la_cond_ok A la Hla) Hu (stk s) 0 f HL Hf) as Hfs.
    destruct (find_state A f (stk s) 0 (option_map snd la)); try exact I; [congruence|].
    destruct la as [[k i]|]; [|exact I].
    pose proof (next_token_L A C f (log s (Drop (npulled s - 1))) HL Hok) as HnL.
    destruct (next_token A f (log s (Drop (npulled s - 1)))) as [x s1] eqn:En.
    destruct (next_token_shape _ _ _ _ En) as (Hs & Hl & Hlt). cbn [stk rest log] in Hs, Hl, Hlt.
    specialize (Hn ltac:(discriminate)).
    destruct x as [k' i'| |r].
    + destruct HnL as (_ & Hok1 & Hk & Hi).
      apply IH; [rewrite Hs; exact HL|exact Hok1|intros k0 i0 E; inversion E; subst; auto|intros _; lia|rewrite Hs; exact Hf].
    + destruct HnL as (_ & Hok1).
      apply IH; [rewrite Hs; exact HL|exact Hok1|intros k0 i0 E; discriminate|intros E; congruence|rewrite Hs; exact Hf].
    + (* the stream ended this search: a lexer error, or an unknown token whose report needs the expected list *)
      unfold next_token in En. cbn [rest log] in En.
      destruct (rest s) as [|[k0|e0] r0]; [discriminate| |inversion En; subst; exact I].
      destruct (tk_idx k0); [discriminate|]. inversion En; subst. cbn [fl_nofuel].
      match goal with |- match unrec_error A f ?s0 ?t with _ => _ end =>
        pose proof (unrec_halts A C Hshape Hexact Hterm f s0 t) as Hun; cbn [stk log] in Hun;
        specialize (Hun HL ltac:(eapply Nat.le_trans; [|exact Hf]; apply bnd_mono; lia));
        destruct (unrec_error A f s0 t); try exact I; congruence end.
Qed.

Lemma reduce_done_nofuel p la st r ev : reduce A orc p la st = (RdDone r, ev) -> r <> RFuel.
Proof.
  unfold reduce. destruct (nth_error (prods A) p) as [[nt rhs]|]; [|discriminate].
  destruct (length st <? length rhs); [discriminate|].
  destruct (negb (syms_match A (rev (firstn (length rhs) st)) rhs)); [discriminate|].
  destruct (match rev (firstn (length rhs) st) with [] => _ | e :: _ => _ end) as [lo hi].
  destruct (Nat.eqb p (start_prod A)); [intros H; inversion H; discriminate|].
  destruct (orc p _); intros H; inversion H; discriminate.
Qed.

Lemma pre_reduce_done_nofuel : forall f la s r s1, pre_reduce A orc f la s = PrDone r s1 -> r <> RFuel.
Proof.
  induction f as [|f IH]; intros la s r s1 H; cbn [pre_reduce] in H; [discriminate|].
  destruct (act_at A (top_state (stk s)) (err_col A)) as [a|]; [|discriminate].
  destruct (as_reduce a) as [p|]; [|discriminate].
  destruct (reduce A orc p la (stk s)) as [[|r0|k0] ev] eqn:E; [discriminate| |exact (IH _ _ _ _ H)].
  inversion H; subst. exact (reduce_done_nofuel _ _ _ _ _ E).
Qed.

(** error_recovery ends for every large enough budget, and what it hands back can be consumed *)
Lemma error_recovery_halts la s : Linked (stk s) -> Forall item_ok (rest s) -> la_cond A la ->
  exists f0, forall f, f0 <= f -> next_nofuel (error_recovery A orc f la s).
Proof.
  intros HL Hok Hla.
  set (f1 := bnd (length (states_of (stk s)))).
  case_eq (uses_recovery A); intros Hu.
  2:{ exists f1. intros f Hf. unfold error_recovery. rewrite Hu. cbn [negb].
      pose proof (unrec_halts A C Hshape Hexact Hterm f s (option_map fst la) HL Hf) as H.
      destruct (unrec_error A f s (option_map fst la)); try exact I. congruence. }
  pose proof (pre_reduce_halts Hu s (option_map (fun l => tk_lo (fst l)) la) f1 HL (le_n _)) as Hp1.
  destruct (pre_reduce A orc f1 (option_map (fun l => tk_lo (fst l)) la) s) as [| |r s1|s1] eqn:Ep1; [| congruence | |].
  - exists f1. intros f Hf. unfold error_recovery. rewrite Hu. cbn [negb].
    pose proof (unrec_halts A C Hshape Hexact Hterm f s (option_map fst la) HL Hf) as H.
    destruct (unrec_error A f s (option_map fst la)); try exact I; [|congruence].
    rewrite (pre_reduce_mono A orc f1 _ _ _ Ep1 ltac:(discriminate) f Hf). exact I.
  - exists f1. intros f Hf. unfold error_recovery. rewrite Hu. cbn [negb].
    pose proof (unrec_halts A C Hshape Hexact Hterm f s (option_map fst la) HL Hf) as H.
    destruct (unrec_error A f s (option_map fst la)); try exact I; [|congruence].
    rewrite (pre_reduce_mono A orc f1 _ _ _ Ep1 ltac:(discriminate) f Hf).
    pose proof (pre_reduce_done_nofuel _ _ _ _ _ Ep1) as Hr.
    destruct r; try exact I. congruence.
  - pose proof (pre_reduce_L A C Hshape Hexact errc orc f1 (option_map (fun l => tk_lo (fst l)) la) s Hu HL) as HpL. rewrite Ep1 in HpL. destruct HpL as [HL1 Hr1].
    set (f2 := bnd (S (length (states_of (stk s1))))).
    exists (Nat.max f1 f2). intros f Hf. unfold error_recovery. rewrite Hu. cbn [negb].
    pose proof (unrec_halts A C Hshape Hexact Hterm f s (option_map fst la) HL ltac:(unfold f1 in *; lia)) as H.
    destruct (unrec_error A f s (option_map fst la)) as [v|err| |]; try exact I; [|congruence].
    rewrite (pre_reduce_mono A orc f1 _ _ _ Ep1 ltac:(discriminate) f ltac:(lia)).
    assert (Hok1 : Forall item_ok (rest s1)) by (rewrite Hr1; exact Hok).
    pose proof (find_loop_halts Hu (S (length (rest s1))) err la [] s1 f HL1 Hok1 Hla ltac:(intros _; lia) ltac:(unfold f2 in *; lia)) as Hfl.
    destruct (find_loop A f (S (length (rest s1))) err la [] s1) as [| |r s2|j la' dropped s2]; try exact I; [destruct Hfl| |].
    + destruct r; try exact I. destruct Hfl.
    + destruct (act_at A (top_state (skipn j (stk s2))) (err_col A)) as [a|]; [|exact I].
      destruct (as_shift a); [|exact I]. destruct la' as [[k i]|]; exact I.
Qed.

Definition la_of (x : next) : option la := match x with Found _ i => Some (Some i) | NEof => Some None | NDone _ => None end.

Lemma error_recovery_shiftable f la s x s3 : Linked (stk s) -> Forall item_ok (rest s) -> la_cond A la ->
  error_recovery A orc f la s = (x, s3) ->
  match la_of x with
  | Some a => Shiftable a (states_of (stk s3)) /\ length (rest s3) <= length (rest s)
  | None => True
  end.
Proof.
  intros HL Hok Hla H. unfold error_recovery in H.
  case_eq (uses_recovery A); intros Hu; rewrite Hu in H; cbn [negb] in H; [|inversion H; subst; exact I].
  destruct (unrec_error A f s (option_map fst la)) as [v|err| |]; try (inversion H; subst; exact I).
  pose proof (pre_reduce_L A C Hshape Hexact errc orc f (option_map (fun l => tk_lo (fst l)) la) s Hu HL) as HpL.
  destruct (pre_reduce A orc f _ s) as [| |r s1|s1]; try (inversion H; subst; exact I).
  destruct HpL as [HL1 Hr1].
  assert (Hok1 : Forall item_ok (rest s1)) by (rewrite Hr1; exact Hok).
  pose proof (find_loop_L A C f (S (length (rest s1))) err la [] s1 HL1 Hok1 Hla) as HfL.
  destruct (find_loop A f (S (length (rest s1))) err la [] s1) as [| |r s2|j la' dropped s2] eqn:Efl; try (inversion H; subst; exact I).
  destruct HfL as (_ & _ & Hla').
  destruct (find_loop_found _ _ _ _ _ _ _ _ _ _ Efl) as (Hs2 & Hl2 & Hfs).
  destruct (find_state_true _ _ _ _ _ Hfs) as (d & Hd & _ & a & es & Ea & Es & Hacc). cbn [Nat.add] in Hd. subst d.
  rewrite Ea, Es in H.
  assert (HLk : Linked (skipn j (stk s2))) by (rewrite Hs2; apply linked_skipn; exact HL1).
  assert (HS : SLinked (es :: states_of (skipn j (stk s2)))).
  { apply (slinked_push A C _ es (Tm (err_col A)) HLk). apply e_shift; [exact (errc Hu)|].
    unfold tact. apply (tact_shift' 0 _ a); assumption. }
  pose proof (accepts_true_shiftable f _ _ HS (la_cond_ok A la' Hla') Hacc) as Hsh.
  destruct la' as [[k i]|]; inversion H; subst; cbn [la_of option_map snd] in *; (split; [exact Hsh|cbn [rest set_stk]; rewrite <- Hr1; exact Hl2]).
Qed.

(** * the run *)
Definition Halt (m : mode) (s : pst) : Prop := exists f n, fst (run A orc f n m s) <> RFuel.

Lemma halt_cont f m s m' s' : step A orc f m s = Cont m' s' -> Halt m' s' -> Halt m s.
Proof.
  intros E (f1 & n1 & H). exists (Nat.max f f1), (S n1). cbn [run].
  rewrite (step_mono_rec A orc f m s _ E I (Nat.max f f1) (Nat.le_max_l _ _)).
  destruct (run A orc f1 n1 m' s') as [r s2] eqn:Er. cbn [fst] in H.
  rewrite (run_mono_rec A orc f1 n1 m' s' r s2 Er H (Nat.max f f1) n1 (Nat.le_max_r _ _) (le_n _)). exact H.
Qed.

Lemma halt_fin f m s r s' : step A orc f m s = Fin r s' -> r <> RFuel -> Halt m s.
Proof. intros E H. exists f, 1. cbn [run]. rewrite E. exact H. Qed.

Lemma no_shift_at_eof top : top < n_states A -> forall s', tact A top None <> AShift s'.
Proof.
  intros Ht s' H. pose proof (act_ok_of A C Hshape top None Ht I) as Hok. unfold act_ok in Hok. rewrite H in Hok. discriminate.
Qed.

(* one step of a reduce phase, under the invariant *)
Inductive phase_step (a : la) (la_tok : option (token * nat)) (m : mode) (s : pst) (f : nat) : sres -> Prop :=
| ps_need s' : m <> MEof -> rest s' = rest s -> L MNeed s' -> phase_step a la_tok m s f (Cont MNeed s')
| ps_red s' : rest s' = rest s -> L m s' -> sred A a (states_of (stk s)) = Some (states_of (stk s')) ->
    phase_step a la_tok m s f (Cont m s')
| ps_fin r s' : r <> RFuel -> phase_step a la_tok m s f (Fin r s')
| ps_err : tact A (top_state (stk s)) a = AErr ->
    phase_step a la_tok m s f
      (match error_recovery A orc f la_tok s with
       | (Found k' i', s1) => match m with MEof => Fin RPanic s1 | _ => Cont (MHave k' i') s1 end
       | (NEof, s1) => Cont MEof s1
       | (NDone r, s1) => Fin r s1
       end).

Lemma step_have_phase f k i s : L (MHave k i) s -> phase_step (Some i) (Some (k, i)) (MHave k i) s f (step A orc f (MHave k i) s).
Proof.
  intros HLs. pose proof (step_L A C Hshape Hexact errc orc f _ _ HLs) as Hinv.
  destruct HLs as (HL & Hok & Hk & Hi). unfold step in *.
  destruct (act_some A C Hshape _ i (linked_top_lt A C Hshape _ HL) Hi) as [a Ea]. rewrite Ea in *.
  destruct (as_shift a) as [target|] eqn:Es.
  - apply ps_need; [discriminate|reflexivity|exact Hinv].
  - destruct (as_reduce a) as [p|] eqn:Er.
    + assert (Ht : tact A (top_state (stk s)) (Some i) = AReduce p) by (unfold tact; apply (tact_reduce 0 _ a); assumption).
      pose proof (red_facts A C Hshape Hexact orc (stk s) (Some i) p (Some (tk_lo k)) HL Hi Ht) as Hred.
      destruct (reduce A orc p (Some (tk_lo k)) (stk s)) as [rr ev] eqn:E.
      destruct rr as [|r|st'].
      * apply ps_fin. discriminate.
      * inversion Hred; subst; apply ps_fin; discriminate.
      * apply ps_red; [cbn [rest set_stk]; destruct ev; reflexivity|exact Hinv|].
        cbn [stk set_stk]. exact (reduce_cont_sred A C Hshape Hexact orc (stk s) (Some i) p (Some (tk_lo k)) st' ev HL Hi Ht E).
    + apply ps_err. unfold tact. rewrite Ea. unfold decode. rewrite Es, Er. reflexivity.
Qed.

Lemma step_eof_phase f s : L MEof s -> phase_step None None MEof s f (step A orc f MEof s).
Proof.
  intros HLs. pose proof (step_L A C Hshape Hexact errc orc f _ _ HLs) as Hinv.
  destruct HLs as (HL & Hok & _). unfold step in *.
  destruct (eof_some A _ (linked_top_lt A C Hshape _ HL)) as [a Ea]. rewrite Ea in *.
  destruct (as_reduce a) as [p|] eqn:Er.
  - assert (Ht : tact A (top_state (stk s)) None = AReduce p)
      by (unfold tact; apply (tact_reduce 0 _ a); [exact Ea|exact (ars_no_shift _ _ Er)|exact Er]).
    pose proof (red_facts A C Hshape Hexact orc (stk s) None p None HL I Ht) as Hred.
    destruct (reduce A orc p None (stk s)) as [rr ev] eqn:E.
    destruct rr as [|r|st'].
    + apply ps_fin. discriminate.
    + inversion Hred; subst; apply ps_fin; discriminate.
    + apply ps_red; [cbn [rest set_stk]; destruct ev; reflexivity|exact Hinv|].
      cbn [stk set_stk]. exact (reduce_cont_sred A C Hshape Hexact orc (stk s) None p None st' ev HL I Ht E).
  - assert (Hte : tact A (top_state (stk s)) None = AErr).
    { unfold tact. rewrite Ea. unfold decode. rewrite Er.
      destruct (as_shift a) as [s'|] eqn:Es; [|reflexivity]. exfalso.
      apply (no_shift_at_eof _ (linked_top_lt A C Hshape _ HL) s'). unfold tact. rewrite Ea. unfold decode. rewrite Es. reflexivity. }
    pose proof (ps_err None None MEof s f Hte) as Hps.
    destruct (error_recovery A orc f None s) as [[k' i'| |r] s1]; exact Hps.
Qed.

(* phases whose lookahead is known to be consumable never reach recovery *)
Lemma halt_shiftable m a la_tok : (forall f s, L m s -> phase_step a la_tok m s f (step A orc f m s)) ->
  forall n s, L m s -> Shiftable a (states_of (stk s)) -> siter A n a (states_of (stk s)) = None ->
  (m <> MEof -> forall s', L MNeed s' -> rest s' = rest s -> Halt MNeed s') -> Halt m s.
Proof.
  intros Hph. induction n as [|n IH]; intros s HLs Hsh Hs Hneed; [discriminate|].
  pose proof (Hph 0 s HLs) as Hp. remember (step A orc 0 m s) as x eqn:E. symmetry in E.
  destruct Hp as [s' Hm Hr HL'|s' Hr HL' Hsr|r s' Hr|Hte].
  - apply (halt_cont 0 _ _ _ _ E). apply Hneed; assumption.
  - apply (halt_cont 0 _ _ _ _ E). apply IH; [exact HL'|exact (shiftable_step _ _ _ Hsr Hsh)| |].
    + cbn [siter] in Hs. rewrite Hsr in Hs. exact Hs.
    + intros Hm s2 H2 Hr2. apply (Hneed Hm); [exact H2|congruence].
  - apply (halt_fin 0 _ _ _ _ E Hr).
  - exfalso. apply (err_not_shiftable a (states_of (stk s))); [rewrite hd_states_of; exact Hte|exact Hsh].
Qed.

Lemma L_linked m s : L m s -> Linked (stk s).
Proof. intros (H & _). exact H. Qed.

Lemma halt_eof_shiftable s : L MEof s -> Shiftable None (states_of (stk s)) -> Halt MEof s.
Proof.
  intros HLs Hsh.
  apply (halt_shiftable MEof None None (fun f s => step_eof_phase f s) _ s HLs Hsh
           (reduce_phase_halts A C Hshape Hterm None _ I (slinked_of_linked A C _ (L_linked _ _ HLs)))).
  intros H. exfalso. apply H. reflexivity.
Qed.

Lemma halt_have_shiftable k i s : L (MHave k i) s -> Shiftable (Some i) (states_of (stk s)) ->
  (forall s', L MNeed s' -> rest s' = rest s -> Halt MNeed s') -> Halt (MHave k i) s.
Proof.
  intros HLs Hsh Hneed.
  assert (Hla : la_ok A (Some i)) by (destruct HLs as (_ & _ & _ & Hi); exact Hi).
  apply (halt_shiftable (MHave k i) (Some i) (Some (k, i)) (fun f s => step_have_phase f k i s) _ s HLs Hsh
           (reduce_phase_halts A C Hshape Hterm (Some i) _ Hla (slinked_of_linked A C _ (L_linked _ _ HLs)))).
  intros _. exact Hneed.
Qed.

(* what a recovery hands back halts *)
Lemma halt_after_recovery f la m s :
  L m s -> la_cond A la -> next_nofuel (error_recovery A orc f la s) ->
  (m <> MEof -> forall s', L MNeed s' -> length (rest s') <= length (rest s) -> Halt MNeed s') ->
  forall x, step A orc f m s = x ->
  x = (match error_recovery A orc f la s with
       | (Found k' i', s1) => match m with MEof => Fin RPanic s1 | _ => Cont (MHave k' i') s1 end
       | (NEof, s1) => Cont MEof s1
       | (NDone r, s1) => Fin r s1
       end) -> Halt m s.
Proof.
  intros HLs Hla Hnf Hneed x E Hx.
  pose proof (step_L A C Hshape Hexact errc orc f _ _ HLs) as Hinv. rewrite E, Hx in Hinv.
  destruct HLs as (HL & Hok & Hm).
  pose proof (error_recovery_shiftable f la s) as Hsh.
  destruct (error_recovery A orc f la s) as [[k' i'| |r] s1] eqn:Eer.
  - specialize (Hsh _ _ HL Hok Hla eq_refl). cbn [la_of] in Hsh. destruct Hsh as [Hsh Hlen].
    destruct m as [|k i|].
    + rewrite Hx in E. apply (halt_cont f _ _ _ _ E). apply (halt_have_shiftable k' i' s1 Hinv Hsh).
      intros s' HL' Hr'. apply (Hneed ltac:(discriminate)); [exact HL'|rewrite Hr'; exact Hlen].
    + rewrite Hx in E. apply (halt_cont f _ _ _ _ E). apply (halt_have_shiftable k' i' s1 Hinv Hsh).
      intros s' HL' Hr'. apply (Hneed ltac:(discriminate)); [exact HL'|rewrite Hr'; exact Hlen].
    + rewrite Hx in E. apply (halt_fin f _ _ _ _ E). discriminate.
  - specialize (Hsh _ _ HL Hok Hla eq_refl). cbn [la_of] in Hsh. destruct Hsh as [Hsh Hlen].
    rewrite Hx in E. apply (halt_cont f _ _ _ _ E). apply (halt_eof_shiftable s1 Hinv Hsh).
  - rewrite Hx in E. apply (halt_fin f _ _ _ _ E). cbn [next_nofuel] in Hnf. destruct r; try discriminate. destruct Hnf.
Qed.

Lemma halt_have k i : forall n s, L (MHave k i) s -> siter A n (Some i) (states_of (stk s)) = None ->
  (forall s', L MNeed s' -> length (rest s') <= length (rest s) -> Halt MNeed s') -> Halt (MHave k i) s.
Proof.
  induction n as [|n IH]; intros s HLs Hs Hneed; [discriminate|].
  assert (Hla : la_cond A (Some (k, i))) by (destruct HLs as (_ & _ & Hk & Hi); intros k0 i0 E; inversion E; subst; auto).
  destruct (error_recovery_halts (Some (k, i)) s (L_linked _ _ HLs) (proj1 (proj2 HLs)) Hla) as [f0 Hf0].
  pose proof (step_have_phase f0 k i s HLs) as Hp. remember (step A orc f0 (MHave k i) s) as x eqn:E. symmetry in E.
  destruct Hp as [s' Hm Hr HL'|s' Hr HL' Hsr|r s' Hr|Hte].
  - apply (halt_cont f0 _ _ _ _ E). apply Hneed; [exact HL'|rewrite Hr; apply le_n].
  - apply (halt_cont f0 _ _ _ _ E). apply IH; [exact HL'| |].
    + cbn [siter] in Hs. rewrite Hsr in Hs. exact Hs.
    + intros s2 H2 Hr2. apply Hneed; [exact H2|rewrite <- Hr; exact Hr2].
  - apply (halt_fin f0 _ _ _ _ E Hr).
  - apply (halt_after_recovery f0 (Some (k, i)) (MHave k i) s HLs Hla (Hf0 f0 (le_n _)) (fun _ => Hneed) _ E eq_refl).
Qed.

Lemma halt_eof : forall n s, L MEof s -> siter A n None (states_of (stk s)) = None -> Halt MEof s.
Proof.
  induction n as [|n IH]; intros s HLs Hs; [discriminate|].
  assert (Hla : la_cond A None) by (intros k0 i0 E; discriminate).
  destruct (error_recovery_halts None s (L_linked _ _ HLs) (proj1 (proj2 HLs)) Hla) as [f0 Hf0].
  pose proof (step_eof_phase f0 s HLs) as Hp. remember (step A orc f0 MEof s) as x eqn:E. symmetry in E.
  destruct Hp as [s' Hm Hr HL'|s' Hr HL' Hsr|r s' Hr|Hte].
  - exfalso. apply Hm. reflexivity.
  - apply (halt_cont f0 _ _ _ _ E). apply IH; [exact HL'|]. cbn [siter] in Hs. rewrite Hsr in Hs. exact Hs.
  - apply (halt_fin f0 _ _ _ _ E Hr).
  - apply (halt_after_recovery f0 None MEof s HLs Hla (Hf0 f0 (le_n _)) ltac:(intros H; exfalso; apply H; reflexivity) _ E eq_refl).
Qed.

Lemma step_need_L f s : L MNeed s -> match step A orc f MNeed s with Cont m' s' => L m' s' | Fin _ _ => True end.
Proof.
  intros HLs. pose proof (step_L A C Hshape Hexact errc orc f _ _ HLs) as H.
  destruct (step A orc f MNeed s); [exact H|exact I].
Qed.

Lemma halt_need : forall len s, length (rest s) <= len -> L MNeed s -> Halt MNeed s.
Proof.
  induction len as [|len IH]; intros s Hlen HLs.
  - pose proof (step_need_L 0 s HLs) as Hinv.
    destruct (rest s) as [|it r] eqn:Er; [|cbn in Hlen; lia].
    assert (E : step A orc 0 MNeed s = Cont MEof (log s PullEof)) by (unfold step, next_token; rewrite Er; reflexivity).
    rewrite E in Hinv. apply (halt_cont 0 _ _ _ _ E).
    apply (halt_eof _ _ Hinv (reduce_phase_halts A C Hshape Hterm None _ I (slinked_of_linked A C _ (L_linked _ _ Hinv)))).
  - set (f := bnd (S (length (states_of (stk s))))).
    pose proof (step_need_L f s HLs) as Hinv.
    destruct (rest s) as [|it r] eqn:Er.
    + assert (E : step A orc f MNeed s = Cont MEof (log s PullEof)) by (unfold step, next_token; rewrite Er; reflexivity).
      rewrite E in Hinv. apply (halt_cont f _ _ _ _ E).
      apply (halt_eof _ _ Hinv (reduce_phase_halts A C Hshape Hterm None _ I (slinked_of_linked A C _ (L_linked _ _ Hinv)))).
    + cbn [length] in Hlen. unfold step, next_token in Hinv. rewrite Er in Hinv.
      destruct it as [k|e].
      * destruct (tk_idx k) as [i|] eqn:Ei.
        -- cbn iota in Hinv.
           match type of Hinv with L _ ?s1 =>
             assert (E : step A orc f MNeed s = Cont (MHave k i) s1) by (unfold step, next_token; rewrite Er, Ei; reflexivity);
             apply (halt_cont f _ _ _ _ E);
             assert (Hla : la_ok A (Some i)) by (destruct Hinv as (_ & _ & _ & Hi); exact Hi);
             apply (halt_have k i (bnd (length (states_of (stk s1)))) s1 Hinv
                      (reduce_phase_halts A C Hshape Hterm (Some i) _ Hla (slinked_of_linked A C _ (L_linked _ _ Hinv))))
           end.
           intros s' HL' Hr'. apply IH; [|exact HL']. cbn [rest] in Hr'. lia.
        -- match goal with |- Halt MNeed ?s0 =>
             assert (E : exists s1, step A orc f MNeed s0 = Fin (unrec_error A f s1 (Some k)) s1 /\ stk s1 = stk s0)
               by (unfold step, next_token; rewrite Er, Ei; eexists; split; reflexivity) end.
           destruct E as (s1 & E & Hstk). apply (halt_fin f _ _ _ _ E).
           apply (unrec_halts A C Hshape Hexact Hterm); [rewrite Hstk; exact (L_linked _ _ HLs)|rewrite Hstk].
           unfold f. apply bnd_mono. lia.
      * match goal with |- Halt MNeed ?s0 =>
          assert (E : exists s1, step A orc f MNeed s0 = Fin (RErr e) s1)
            by (unfold step, next_token; rewrite Er; eexists; reflexivity) end.
        destruct E as (s1 & E). apply (halt_fin f _ _ _ _ E). discriminate.
Qed.

Theorem parser_terminates_rec (input : list item) : Forall item_ok input ->
  exists n, forall fuel, n <= fuel -> fst (drive A orc fuel input) <> RFuel.
Proof.
  intros Hin.
  assert (HI : L MNeed (init input)) by (repeat split; cbn; auto).
  destruct (halt_need _ (init input) (le_n _) HI) as (f & n & H).
  exists (Nat.max f n). intros fuel Hf. unfold drive.
  destruct (run A orc f n MNeed (init input)) as [r s'] eqn:Er. cbn [fst] in H.
  rewrite (run_mono_rec A orc f n MNeed _ r s' Er H fuel fuel); [exact H|lia|lia].
Qed.
End TR.

(** the expected-token list, exactly: on validated tables the listed terminals are precisely those the
    parser itself would consume next from the configuration in which the error is reported (the
    reductions they trigger end in their shift) -- the list is complete for the automaton *)
From LV Require Import LR.Viable.
Section Expected.
Variable A : tables.
Variable C : cert.
Hypothesis Hshape : shape A C = true.
Hypothesis Hexact : exact A C = true.
Hypothesis Hterm : terminates A C = true.

Notation SLinked := (SLinked A C).
Notation Shiftable := (Shiftable A).

Lemma accepts_false_not_shiftable : forall f l a, SLinked l -> la_ok A a -> accepts A f l a = AFalse -> ~ Shiftable a l.
Proof.
  induction f as [|f IH]; intros l a HL Ha H Hsh; cbn [accepts] in H; [discriminate|].
  destruct l as [|top r] eqn:El; [destruct HL|]. rewrite <- El in HL, Hsh.
  assert (Htop : top < n_states A) by (pose proof (slinked_hd_lt A C Hshape l HL) as H'; rewrite El in H'; exact H').
  assert (Hsome : exists z, (match a with None => eof_at A top | Some t => act_at A top t end) = Some z).
  { destruct a as [t|]; [apply (act_some A C Hshape); auto|apply (eof_some A); auto]. }
  destruct Hsome as [z Hz]. rewrite Hz in H.
  destruct (z =? 0)%Z eqn:H0.
  - apply Z.eqb_eq in H0. subst z.
    apply (err_not_shiftable A a l); [|exact Hsh]. rewrite El. cbn [hd]. unfold tact. rewrite Hz. reflexivity.
  - destruct (as_reduce z) as [p|] eqn:Hr; [|discriminate].
    assert (Ht : tact A top a = AReduce p).
    { unfold tact. rewrite Hz. apply decode_reduce_raw; auto. }
    destruct (RJ A C Hshape Hexact _ _ _ Ha Ht) as [Hc Hp].
    destruct (sim_of_prod A C Hshape p Hp) as [Hsim [k Hk]]. rewrite Hk in H.
    destruct (nth_error (sim_nt A) p) as [[nt|]|]; [|discriminate|destruct Hsim].
    destruct Hsim as (Hne & -> & Hk'). rewrite Hk in Hk'. inversion Hk'; subst k.
    assert (Hc' : core C (hd 0 l) p (length (rhs A p))) by (rewrite El; exact Hc).
    destruct (walk_back_s A C Hshape Hexact l p _ HL Hc') as [Hlen Hall].
    rewrite <- El in H.
    replace (length l <=? length (rhs A p)) with false in H by (symmetry; apply Nat.leb_gt; exact Hlen).
    assert (Hsr : sred A a l = Some (goto_at A (hd 0 (skipn (length (rhs A p)) l)) (lhs A p) :: skipn (length (rhs A p)) l)).
    { unfold sred. rewrite El. cbn [hd]. rewrite Ht. rewrite <- El.
      replace (p =? start_prod A) with false by (symmetry; apply Nat.eqb_neq; exact Hne).
      cbv zeta. replace (length (rhs A p) <? length l) with true by (symmetry; apply Nat.ltb_lt; exact Hlen). reflexivity. }
    apply (IH _ a) in H; [|  |exact Ha].
    + apply H. exact (shiftable_step A a _ _ Hsr Hsh).
    + specialize (Hall _ (le_n _)). rewrite Nat.sub_diag in Hall.
      pose proof (slinked_skipn A C _ _ HL Hlen) as HL'.
      destruct (skipn (length (rhs A p)) l) as [|b r'] eqn:Es; [destruct HL'|].
      cbn [hd] in *. cbn [NoPanic.SLinked]. split; [|exact HL'].
      destruct (EXC A C Hshape Hexact _ _ Hall) as [[_ Hq]|(p' & d' & Hc2 & Hn)]; [congruence|].
      exists (Nt (lhs A p)). eapply e_goto; eauto.
Qed.

Lemma expected_go_complete f l : forall n i L x, expected_go A f l i n = EList L -> i <= x < i + n ->
  accepts A f l (Some x) = ATrue -> In x L.
Proof.
  induction n as [|n IH]; intros i L x H Hx Hacc; cbn [expected_go] in H; [lia|].
  destruct (Nat.eq_dec x i) as [->|Hne].
  - rewrite Hacc in H. destruct (expected_go A f l (S i) n); try discriminate. inversion H; subst. left. reflexivity.
  - destruct (accepts A f l (Some i)); try discriminate.
    + destruct (expected_go A f l (S i) n) as [L'| |] eqn:E; try discriminate. inversion H; subst.
      right. apply (IH (S i) L' x E); [lia|exact Hacc].
    + apply (IH (S i) L x H); [lia|exact Hacc].
Qed.

Lemma expected_go_total f l : forall n i L x, expected_go A f l i n = EList L -> i <= x < i + n ->
  accepts A f l (Some x) = ATrue \/ accepts A f l (Some x) = AFalse.
Proof.
  induction n as [|n IH]; intros i L x H Hx; cbn [expected_go] in H; [lia|].
  destruct (Nat.eq_dec x i) as [->|Hne].
  - destruct (accepts A f l (Some i)); try discriminate; auto.
  - destruct (accepts A f l (Some i)); try discriminate.
    + destruct (expected_go A f l (S i) n) as [L'| |] eqn:E; try discriminate.
      apply (IH (S i) L' x E). lia.
    + apply (IH (S i) L x H). lia.
Qed.

Theorem expected_exactly_the_shiftable_terminals f l L : SLinked l ->
  expected_go A f l 0 (tn_names A) = EList L ->
  forall x, x < tn_names A -> (In x L <-> Shiftable (Some x) l).
Proof.
  intros HL HE x Hx.
  assert (Hla : la_ok A (Some x)) by (cbn; pose proof (names_le A C Hshape); lia).
  split.
  - intros Hin. destruct (expected_go_in A f l _ _ _ _ HE Hin) as [Hacc _].
    exact (accepts_true_shiftable A C Hshape Hexact f l (Some x) HL Hla Hacc).
  - intros Hsh. apply (expected_go_complete f l _ 0 L x HE); [lia|].
    destruct (expected_go_total f l _ 0 L x HE ltac:(lia)) as [H|H]; [exact H|].
    exfalso. exact (accepts_false_not_shiftable f l (Some x) HL Hla H Hsh).
Qed.
End Expected.
