(** Boolean validator of parse tables against an (untrusted) item certificate.
    [valid A C = true] is checked per generated parser by vm_compute; LR/ValidatorSpec.v proves that
    it implies the propositional conditions used by the soundness / completeness / termination
    theorems.  No proofs in this file. *)
From Coq Require Import List ZArith Bool Arith.
From LV Require Import LR.Driver.
Import ListNotations.

(** lookahead: [None] = end of input *)
Definition la := option nat.
Definition la_eqb (a b : la) : bool :=
  match a, b with
  | None, None => true
  | Some x, Some y => Nat.eqb x y
  | _, _ => false
  end.
Definition la_mem (a : la) (l : list la) : bool := existsb (la_eqb a) l.
Definition la_subset (l1 l2 : list la) : bool := forallb (fun a => la_mem a l2) l1.

(** certificate *)
Record citem := { i_prod : nat; i_dot : nat; i_rank : nat; i_la : list la }.
Record cert := {
  c_items : list (list citem);     (* per state *)
  c_nullable : list bool;          (* per nonterminal *)
  c_first : list (list nat);       (* per nonterminal *)
  c_prank : list nat;              (* per nonterminal: productivity rank *)
  c_F : nat                        (* fuel sufficient for every closed reduce sequence *)
}.

Section V.
Variable A : tables.
Variable C : cert.

Definition n_states : nat := length (eof_action A).
Definition n_nt : nat := length (goto_tbl A).
Definition n_prods : nat := length (prods A).
Definition lhs (p : nat) : nat := fst (nth p (prods A) (0, [])).
Definition rhs (p : nat) : list sym := snd (nth p (prods A) (0, [])).
Definition items_of (s : nat) : list citem := nth s (c_items C) [].
Definition start_nt : nat := lhs (start_prod A).

Inductive act_ := AShift (s : nat) | AReduce (p : nat) | AErr | ABad.
Definition decode (o : option Z) : act_ :=
  match o with
  | None => ABad
  | Some a =>
    match as_shift a with
    | Some s => AShift s
    | None => match as_reduce a with Some p => AReduce p | None => AErr end
    end
  end.
Definition tact (s : nat) (a : la) : act_ :=
  decode (match a with Some t => act_at A s t | None => eof_at A s end).

Definition seq (n : nat) : list nat := List.seq 0 n.
Definition all_la : list la := None :: map Some (seq (tn_term A)).

(** shape *)
Definition sym_ok (x : sym) : bool :=
  match x with Tm t => t <? tn_term A | Nt n => n <? n_nt end.
Definition act_ok (s : nat) (a : la) : bool :=
  match tact s a with
  | AShift s' => match a with None => false | Some _ => (s' <? n_states) && negb (s' =? 0) end
  | AReduce p => p <? n_prods
  | AErr => true
  | ABad => false
  end.
Definition shape : bool :=
  (0 <? n_states) &&
  (length (action A) =? n_states * tn_term A) &&
  (tn_names A =? tn_term A - (if uses_recovery A then 1 else 0)) &&
  (if uses_recovery A then 0 <? tn_term A else true) &&
  (length (c_items C) =? n_states) &&
  (length (c_nullable C) =? n_nt) && (length (c_first C) =? n_nt) && (length (c_prank C) =? n_nt) &&
  (start_prod A <? n_prods) &&
  (length (sim_pop A) =? n_prods) && (length (sim_nt A) =? n_prods) &&
  forallb (fun row => length row =? n_states) (goto_tbl A) &&
  forallb (fun row => forallb (fun s' => s' <? n_states) row) (goto_tbl A) &&
  forallb (fun s => forallb (act_ok s) all_la) (seq n_states) &&
  forallb (fun p =>
             (lhs p <? n_nt) && forallb sym_ok (rhs p) &&
             (match nth p (sim_nt A) None with
              | None => p =? start_prod A          (* Accept carries no pop count *)
              | Some n => negb (p =? start_prod A) && (n =? lhs p) && (nth p (sim_pop A) 0 =? length (rhs p))
              end) &&
             (* the start symbol is fresh and has a single production *)
             negb (existsb (sym_eqb (Nt start_nt)) (rhs p)) &&
             (if lhs p =? start_nt then p =? start_prod A else true))
          (seq n_prods) &&
  forallb (fun s => forallb (fun it => (i_prod it <? n_prods) && (i_dot it <=? length (rhs (i_prod it))))
                            (items_of s)) (seq n_states).

(** item lookup *)
Definition find_item (s p d : nat) : option citem :=
  find (fun it => (i_prod it =? p) && (i_dot it =? d)) (items_of s).
Definition has_core (s p d : nat) : bool := match find_item s p d with Some _ => true | None => false end.
Definition has_las (s p d : nat) (L : list la) : bool :=
  match find_item s p d with Some it => la_subset L (i_la it) | None => false end.

(** nullable / first of a symbol string, from the certificate *)
Definition nullable_nt (n : nat) : bool := nth n (c_nullable C) false.
Definition first_nt (n : nat) : list nat := nth n (c_first C) [].
Fixpoint nullable_seq (l : list sym) : bool :=
  match l with
  | [] => true
  | Tm _ :: _ => false
  | Nt n :: r => nullable_nt n && nullable_seq r
  end.
Fixpoint first_seq (l : list sym) : list nat :=
  match l with
  | [] => []
  | Tm t :: _ => [t]
  | Nt n :: r => first_nt n ++ (if nullable_nt n then first_seq r else [])
  end.
Definition nat_mem (x : nat) (l : list nat) : bool := existsb (Nat.eqb x) l.
Definition first_ok : bool :=
  forallb (fun p =>
             (if nullable_seq (rhs p) then nullable_nt (lhs p) else true) &&
             forallb (fun t => nat_mem t (first_nt (lhs p))) (first_seq (rhs p)))
          (seq n_prods).

(** completeness conditions (à la Jourdan-Pottier-Leroy, with a separate EOF row) *)
Definition prods_of (n : nat) : list nat := filter (fun q => lhs q =? n) (seq n_prods).

Definition item_complete (s : nat) (it : citem) : bool :=
  let p := i_prod it in let d := i_dot it in let L := i_la it in
  match nth_error (rhs p) d with
  | Some (Tm x) =>
    match tact s (Some x) with
    | AShift s' => has_las s' p (S d) L
    | _ => false
    end
  | Some (Nt B) =>
    has_las (goto_at A s B) p (S d) L &&
    (let beta := skipn (S d) (rhs p) in
     let L' := map Some (first_seq beta) ++ (if nullable_seq beta then L else []) in
     forallb (fun q => has_las s q 0 L') (prods_of B))
  | None =>
    forallb (fun a => match tact s a with AReduce p' => p' =? p | _ => false end) L
  end.
Definition complete : bool :=
  has_las 0 (start_prod A) 0 [None] && first_ok &&
  forallb (fun s => forallb (item_complete s) (items_of s)) (seq n_states).

(** exactness conditions: every item and every action is justified *)
(* edges of the automaton: shifts, and gotos on a nonterminal that some item of the source expects *)
Definition expects (s : nat) (X : sym) : bool :=
  existsb (fun it => match nth_error (rhs (i_prod it)) (i_dot it) with Some Y => sym_eqb X Y | None => false end)
          (items_of s).
Definition kernel_ok (s : nat) (X : sym) (s' : nat) : bool :=
  negb (s' =? 0) &&
  forallb (fun it => match i_dot it with
                     | O => true
                     | S d => match nth_error (rhs (i_prod it)) d with
                              | Some Y => sym_eqb X Y && has_core s (i_prod it) d
                              | None => false
                              end
                     end) (items_of s').
Definition edges_ok (s : nat) : bool :=
  forallb (fun t => match tact s (Some t) with
                    | AShift s' => expects s (Tm t) && kernel_ok s (Tm t) s'
                    | _ => true
                    end) (seq (tn_term A)) &&
  forallb (fun B => if expects s (Nt B) then kernel_ok s (Nt B) (goto_at A s B) else true) (seq n_nt).
Definition closure_ok (s : nat) : bool :=
  forallb (fun it =>
             match i_dot it with
             | S _ => negb (s =? 0)           (* state 0 holds only closure items *)
             | O =>
               ((s =? 0) && (i_prod it =? start_prod A)) ||
               existsb (fun par =>
                          match nth_error (rhs (i_prod par)) (i_dot par) with
                          | Some (Nt B) => (B =? lhs (i_prod it)) &&
                                           (match i_dot par with O => i_rank par <? i_rank it | S _ => true end)
                          | _ => false
                          end) (items_of s)
             end) (items_of s).
Definition reduces_ok (s : nat) : bool :=
  forallb (fun a => match tact s a with
                    | AReduce p => has_core s p (length (rhs p))
                    | _ => true
                    end) all_la.
Definition exact : bool :=
  forallb (fun s => edges_ok s && closure_ok s && reduces_ok s) (seq n_states).

(* the start production is reduced only at end of input, and end of input never shifts *)
Definition start_eof_only : bool :=
  forallb (fun s => forallb (fun t => match tact s (Some t) with
                                      | AReduce p => negb (p =? start_prod A)
                                      | _ => true
                                      end) (seq (tn_term A))) (seq n_states).

(** productivity: every nonterminal derives a terminal string (rank certificate) *)
Definition prank (n : nat) : nat := nth n (c_prank C) 0.
(* only nonterminals that occur in the productions of this parser are concerned *)
Definition occurs (n : nat) : bool :=
  existsb (fun p => (lhs p =? n) || existsb (sym_eqb (Nt n)) (rhs p)) (seq n_prods).
Definition productive : bool :=
  forallb (fun n => negb (occurs n) ||
             existsb (fun q => forallb (fun x => match x with
                                                 | Tm t => if uses_recovery A then negb (t =? err_col A) else true
                                                 | Nt m => prank m <? prank n
                                                 end) (rhs q))
                     (prods_of n)) (seq n_nt).

(** termination: every closed reduce sequence ends, replacement chains end *)
Inductive cres := CEnd | CEscape (m nt : nat) | CFuel | CBad.
(* [l]: local part of the stack above the start entry [q], top first *)
Fixpoint closed (F : nat) (a : la) (q : nat) (l : list nat) : cres :=
  match F with
  | O => CFuel
  | S F' =>
    match tact (hd q l) a with
    | AReduce p =>
      if p =? start_prod A then CEnd
      else
        let k := length (rhs p) in
        if k <=? length l
        then let l' := skipn k l in closed F' a q (goto_at A (hd q l') (lhs p) :: l')
        else CEscape (k - length l) (lhs p)
    | ABad => CBad
    | _ => CEnd
    end
  end.
Definition repl (a : la) (s0 q : nat) : option nat :=
  match closed (c_F C) a q [] with CEscape 1 nt => Some (goto_at A s0 nt) | _ => None end.
Fixpoint chain (n : nat) (a : la) (s0 q : nat) : bool :=
  match n with
  | O => false
  | S n' => match repl a s0 q with None => true | Some q' => chain n' a s0 q' end
  end.
(* states that can sit directly above [s0] on the stack *)
Definition succs (s0 : nat) : list nat :=
  flat_map (fun t => match tact s0 (Some t) with AShift s' => [s'] | _ => [] end) (seq (tn_term A)) ++
  map (fun B => goto_at A s0 B) (seq n_nt).
Definition terminates : bool :=
  forallb (fun a =>
     forallb (fun q => match closed (c_F C) a q [] with CFuel | CBad => false | _ => true end) (seq n_states) &&
     forallb (fun s0 => forallb (fun q => chain (S n_states) a s0 q) (succs s0)) (seq n_states))
   all_la.

(* [productive] is kept apart: it is a hypothesis of the error-position theorems (C04/C05) only, a
   grammar with an unproductive nonterminal is still parsed correctly *)
Definition valid : bool :=
  shape && complete && exact && start_eof_only && terminates.
End V.
