(** The expected-token list of a reported error is exactly the set of terminals the parser would
    consume next from the configuration in which it reports the error (validated tables, no recovery):
    sound and complete for the automaton. *)
From Coq Require Import List ZArith Bool Arith Lia.
From LV Require Import LR.Driver LR.Validator LR.Safety LR.ValidatorSpec LR.Soundness LR.NoPanic LR.ErrorPos LR.Locality LR.Termination LR.TerminationRec.
Import ListNotations.

Section EE.
Variable A : tables.
Variable C : cert.
Hypothesis Hshape : shape A C = true.
Hypothesis Hexact : exact A C = true.
Hypothesis Hnorec : uses_recovery A = false.
Variable orc : oracle.
Variable fuel : nat.
Variable w : list token.

Notation Linked := (Linked A (core C)).

Definition is_unrec (r : result) (exp : list nat) : Prop :=
  match r with RErr (PUnrecTok _ e) | RErr (PUnrecEof _ e) => e = exp | _ => False end.

Lemma unrec_list s tok exp : is_unrec (unrec_error A fuel s tok) exp -> expected_tokens A fuel (stk s) = EList exp.
Proof.
  unfold unrec_error. destruct (expected_tokens A fuel (stk s)) as [L| |]; cbn; try (intros []).
  destruct tok; cbn; intros ->; reflexivity.
Qed.

Definition efin (r : result) (s : pst) : Prop :=
  forall exp, is_unrec r exp -> Linked (stk s) /\ expected_tokens A fuel (stk s) = EList exp.

Lemma step_efin m s : Inv A C w m s -> (exists v, rest s = map IOk v) ->
  match step A orc fuel m s with
  | Cont m' s' => exists v, rest s' = map IOk v
  | Fin r s' => efin r s'
  end.
Proof.
  intros (HL & _) [v Hv]. unfold step. destruct m as [|k i|].
  - unfold next_token. rewrite Hv. destruct v as [|k v']; cbn [map].
    + exists []. cbn [rest log]. exact Hv.
    + destruct (tk_idx k); [exists v'; reflexivity|].
      intros exp He. split; [exact HL|]. exact (unrec_list _ _ _ He).
  - destruct (act_at A (top_state (stk s)) i) as [a|]; [|intros exp []].
    destruct (as_shift a); [exists v; exact Hv|].
    destruct (as_reduce a) as [p|].
    + destruct (reduce A orc p (Some (tk_lo k)) (stk s)) as [[|r|st'] ev] eqn:E; [intros exp []| |].
      * destruct (reduce_done_cases A orc _ _ _ _ _ E) as [[t ->]|[x ->]]; intros exp [].
      * exists v. cbn [rest set_stk]. destruct ev; exact Hv.
    + rewrite (error_recovery_norec A Hnorec orc). intros exp He. split; [exact HL|]. exact (unrec_list _ _ _ He).
  - destruct (eof_at A (top_state (stk s))) as [a|]; [|intros exp []].
    destruct (as_reduce a) as [p|].
    + destruct (reduce A orc p None (stk s)) as [[|r|st'] ev] eqn:E; [intros exp []| |].
      * destruct (reduce_done_cases A orc _ _ _ _ _ E) as [[t ->]|[x ->]]; intros exp [].
      * exists v. cbn [rest set_stk]. destruct ev; exact Hv.
    + rewrite (error_recovery_norec A Hnorec orc). intros exp He. split; [exact HL|]. exact (unrec_list _ _ _ He).
Qed.

Lemma run_efin : forall n m s r s', Inv A C w m s -> (exists v, rest s = map IOk v) ->
  run A orc fuel n m s = (r, s') -> efin r s'.
Proof.
  induction n as [|n IH]; intros m s r s' HI Hv H; cbn [run] in H.
  - inversion H; subst. intros exp [].
  - pose proof (step_efin m s HI Hv) as He.
    pose proof (step_inv A C Hshape Hexact Hnorec orc fuel w m s HI) as Hinv.
    destruct (step A orc fuel m s) as [m1 s1|r1 s1].
    + eapply IH; eauto.
    + inversion H; subst. exact He.
Qed.

Theorem expected_list_is_exact r s exp :
  Forall (fun k => match tk_idx k with Some t => t < tn_names A | None => True end) w ->
  drive A orc fuel (map IOk w) = (r, s) -> is_unrec r exp ->
  forall x, x < tn_names A -> (In x exp <-> Shiftable A (Some x) (states_of (stk s))).
Proof.
  intros Hw H Hr x Hx. unfold drive in H.
  assert (HI : Inv A C w MNeed (init (map IOk w))).
  { refine (conj _ (conj _ (conj _ (conj _ (conj _ _))))); cbn; auto.
    - rewrite toks_map_ok. reflexivity.
    - apply Forall_forall. intros i Hi. apply in_map_iff in Hi as (k0 & <- & Hk). rewrite Forall_forall in Hw. apply (Hw k0 Hk). }
  destruct (run_efin fuel MNeed _ r s HI (ex_intro _ w eq_refl) H exp Hr) as [HL HE].
  unfold expected_tokens in HE.
  exact (expected_exactly_the_shiftable_terminals A C Hshape Hexact fuel _ exp (slinked_of_linked A C _ HL) HE x Hx).
Qed.
End EE.
