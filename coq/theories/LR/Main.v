(** Top-level statements for validated tables (no error recovery): the parser accepts exactly the
    sentences of the grammar and returns their derivation tree. *)
From Coq Require Import List ZArith Bool Arith Lia.
From LV Require Import LR.Driver LR.Validator LR.Safety LR.ValidatorSpec LR.Soundness LR.Completeness LR.ErrorPos.
Import ListNotations.

Section Main.
Variable A : tables.
Variable C : cert.
Hypothesis Hvalid : valid A C = true.
Hypothesis Hnorec : uses_recovery A = false.

Lemma valid_proj : shape A C = true /\ complete A C = true /\ exact A C = true /\
                   start_eof_only A = true /\ terminates A C = true.
Proof. pose proof Hvalid as H. unfold valid in H. rewrite !andb_true_iff in H. tauto. Qed.

Definition tok_in_range (k : token) : Prop :=
  match tk_idx k with Some t => t < tn_names A | None => True end.

(* a sentence: the yield of a derivation tree (without error leaves) of the start symbol *)
Definition sentence (w : list token) : Prop :=
  exists t, wfp A t (Nt (start_nt A)) /\ yield t = w.

Lemma wf_pure_wfp : forall t X, wf A t X -> pure t -> wfp A t X.
Proof.
  destruct valid_proj as (Hs & _).
  induction t as [k|e d lo0 hi0|p kids IH] using tree_ind'; intros X Hwf Hp.
  - inversion Hwf; subst. constructor; [assumption|]. rewrite (names_term A C Hs Hnorec). assumption.
  - destruct Hp.
  - inversion Hwf as [| |p' kids' Hlt Hk]; subst. constructor; [exact Hlt|].
    apply pure_node in Hp. clear Hwf Hlt. revert IH Hp.
    induction Hk as [|t Y ts beta Ht _ IHk]; intros IH Hp; constructor.
    + inversion IH; inversion Hp; subst. auto.
    + inversion IH; inversion Hp; subst. auto.
Qed.

Theorem parse_ok_sound orc fuel w v s :
  Forall tok_in_range w ->
  drive A orc fuel (map IOk w) = (ROk v, s) ->
  wfp A v (Nt (start_nt A)) /\ yield v = w /\ acts (trace s) ++ [start_prod A] = postorder v.
Proof.
  intros Hw H. destruct valid_proj as (Hs & _ & He & _).
  destruct (sound A C Hs He Hnorec orc fuel w v s Hw H) as (Hwf & Hp & Hy & Hpo).
  repeat split; auto using wf_pure_wfp.
Qed.

Theorem parse_ok_complete t :
  wfp A t (Nt (start_nt A)) ->
  exists n, forall fuel, n <= fuel -> exists s, drive A no_fail fuel (map IOk (yield t)) = (ROk t, s).
Proof.
  intros Hwf. destruct valid_proj as (Hs & Hc & _).
  destruct (complete_run A C Hs Hc t Hwf) as [n Hn].
  exists (n + 1). intros fuel Hf. unfold drive.
  destruct (Hn fuel (fuel - n - 1)) as [s Hs']. exists s.
  replace (n + S (fuel - n - 1)) with fuel in Hs' by lia. exact Hs'.
Qed.

(** the parser returns Ok exactly on the sentences *)
Theorem parse_ok_iff w :
  Forall tok_in_range w ->
  (sentence w <-> exists fuel v s, drive A no_fail fuel (map IOk w) = (ROk v, s)).
Proof.
  intros Hw. split.
  - intros (t & Hwf & <-). destruct (parse_ok_complete t Hwf) as [n Hn].
    destruct (Hn n (le_n _)) as [s Hs]. eauto.
  - intros (fuel & v & s & H). destruct (parse_ok_sound _ _ _ _ _ Hw H) as (Hwf & Hy & _).
    exists v. auto.
Qed.

(* an unambiguous grammar: two derivation trees with the same yield are equal *)
Theorem unambiguous t1 t2 :
  wfp A t1 (Nt (start_nt A)) -> wfp A t2 (Nt (start_nt A)) -> yield t1 = yield t2 -> t1 = t2.
Proof.
  intros H1 H2 Hy. destruct (parse_ok_complete t1 H1) as [n1 Hn1].
  destruct (parse_ok_complete t2 H2) as [n2 Hn2].
  destruct (Hn1 (n1 + n2)) as [s1 Hs1]; [lia|]. destruct (Hn2 (n1 + n2)) as [s2 Hs2]; [lia|].
  rewrite Hy in Hs1. rewrite Hs1 in Hs2. congruence.
Qed.
End Main.

(** ExtraToken is never returned on validated tables (no recovery). *)
Section NoExtra.
Variable A : tables.
Variable C : cert.
Hypothesis Hvalid : valid A C = true.
Hypothesis Hnorec : uses_recovery A = false.

Theorem no_extra_token orc fuel w k s :
  Forall (tok_in_range A) w ->
  drive A orc fuel (map IOk w) <> (RErr (PExtra k), s).
Proof.
  intros Hw H. destruct (valid_proj A C Hvalid) as (Hs & _ & _ & Hse & _).
  destruct (ErrorPos.extra_token_only_from_start_reduce A orc fuel w k s Hnorec H) as (Hin & i & Hi & Ht).
  rewrite Forall_forall in Hw. specialize (Hw k Hin). unfold tok_in_range in Hw. rewrite Hi in Hw.
  rewrite (names_term A C Hs Hnorec) in Hw.
  assert (Hst : top_state (stk s) < n_states A).
  { eapply (tact_state A C Hs _ (Some i) _ Ht); [discriminate|left; lia]. }
  unfold start_eof_only in Hse. rewrite forallb_forall in Hse.
  specialize (Hse _ (proj2 (seq_in _ _) Hst)). rewrite forallb_forall in Hse.
  specialize (Hse i (proj2 (seq_in _ _) Hw)). rewrite Ht, Nat.eqb_refl in Hse. discriminate.
Qed.
End NoExtra.
