(** Top-level statements for validated tables (no error recovery): the parser accepts exactly the
    sentences of the grammar and returns their derivation tree. *)
From Coq Require Import List ZArith Bool Arith Lia.
From LV Require Import LR.Driver LR.Validator LR.Safety LR.ValidatorSpec LR.Soundness LR.Completeness LR.ErrorPos LR.Locality LR.Viable LR.ViableRun LR.NoPanic LR.Termination.
Import ListNotations.

Section Main.
Variable A : tables.
Variable C : cert.
Hypothesis Hvalid : valid A C = true.
Hypothesis Hnorec : uses_recovery A = false.

Lemma valid_proj : shape A C = true /\ complete A C = true /\ exact A C = true /\
                   start_eof_only A = true /\ terminates A C = true.
Proof. pose proof Hvalid as H. unfold valid in H. rewrite !andb_true_iff in H. tauto. Qed.

Definition tok_in_range (k : token) : Prop :=
  match tk_idx k with Some t => t < tn_names A | None => True end.

(* a sentence: the yield of a derivation tree (without error leaves) of the start symbol *)
Definition sentence (w : list token) : Prop :=
  exists t, wfp A t (Nt (start_nt A)) /\ yield t = w.

Lemma wf_pure_wfp : forall t X, wf A t X -> pure t -> wfp A t X.
Proof.
  destruct valid_proj as (Hs & _).
  induction t as [k|e d lo0 hi0|p kids IH] using tree_ind'; intros X Hwf Hp.
  - inversion Hwf; subst. constructor; [assumption|]. rewrite (names_term A C Hs Hnorec). assumption.
  - destruct Hp.
  - inversion Hwf as [| |p' kids' Hlt Hk]; subst. constructor; [exact Hlt|].
    apply pure_node in Hp. clear Hwf Hlt. revert IH Hp.
    induction Hk as [|t Y ts beta Ht _ IHk]; intros IH Hp; constructor.
    + inversion IH; inversion Hp; subst. auto.
    + inversion IH; inversion Hp; subst. auto.
Qed.

Theorem parse_ok_sound orc fuel w v s :
  Forall tok_in_range w ->
  drive A orc fuel (map IOk w) = (ROk v, s) ->
  wfp A v (Nt (start_nt A)) /\ yield v = w /\ acts (trace s) ++ [start_prod A] = postorder v.
Proof.
  intros Hw H. destruct valid_proj as (Hs & _ & He & _).
  destruct (sound A C Hs He Hnorec orc fuel w v s Hw H) as (Hwf & Hp & Hy & Hpo).
  repeat split; auto using wf_pure_wfp.
Qed.

Theorem parse_ok_complete t :
  wfp A t (Nt (start_nt A)) ->
  exists n, forall fuel, n <= fuel -> exists s, drive A no_fail fuel (map IOk (yield t)) = (ROk t, s).
Proof.
  intros Hwf. destruct valid_proj as (Hs & Hc & _).
  destruct (complete_run A C Hs Hc t Hwf) as [n Hn].
  exists (n + 1). intros fuel Hf. unfold drive.
  destruct (Hn fuel (fuel - n - 1)) as [s Hs']. exists s.
  replace (n + S (fuel - n - 1)) with fuel in Hs' by lia. exact Hs'.
Qed.

(** the parser returns Ok exactly on the sentences *)
Theorem parse_ok_iff w :
  Forall tok_in_range w ->
  (sentence w <-> exists fuel v s, drive A no_fail fuel (map IOk w) = (ROk v, s)).
Proof.
  intros Hw. split.
  - intros (t & Hwf & <-). destruct (parse_ok_complete t Hwf) as [n Hn].
    destruct (Hn n (le_n _)) as [s Hs]. eauto.
  - intros (fuel & v & s & H). destruct (parse_ok_sound _ _ _ _ _ Hw H) as (Hwf & Hy & _).
    exists v. auto.
Qed.

(* an unambiguous grammar: two derivation trees with the same yield are equal *)
Theorem unambiguous t1 t2 :
  wfp A t1 (Nt (start_nt A)) -> wfp A t2 (Nt (start_nt A)) -> yield t1 = yield t2 -> t1 = t2.
Proof.
  intros H1 H2 Hy. destruct (parse_ok_complete t1 H1) as [n1 Hn1].
  destruct (parse_ok_complete t2 H2) as [n2 Hn2].
  destruct (Hn1 (n1 + n2)) as [s1 Hs1]; [lia|]. destruct (Hn2 (n1 + n2)) as [s2 Hs2]; [lia|].
  rewrite Hy in Hs1. rewrite Hs1 in Hs2. congruence.
Qed.

(** C04, the non-viability half: the token carried by [UnrecognizedToken] cannot continue the input
    consumed before it -- no sentence starts with that prefix followed by that token.  (Completeness
    says a sentence is accepted; locality says the error does not depend on what follows.) *)
Theorem error_token_cannot_continue fuel w k exp s :
  drive A no_fail fuel (map IOk w) = (RErr (PUnrecTok k exp), s) ->
  exists u v, w = u ++ k :: v /\ npulled s = S (length u) /\ forall v', ~ sentence (u ++ k :: v').
Proof.
  intros H.
  destruct (unrecognized_token_position A no_fail fuel w k exp s Hnorec H) as [(u & v & Hw & Hp) _].
  exists u, v. repeat split; auto. intros v' (t & Hwf & Hy).
  destruct (parse_ok_complete t Hwf) as [n Hn].
  set (F := Nat.max fuel n).
  assert (H1 : drive A no_fail F (map IOk w) = (RErr (PUnrecTok k exp), s))
    by (apply (drive_mono A Hnorec no_fail fuel _ _ _ H); [discriminate|apply Nat.le_max_l]).
  rewrite Hw in H1.
  destruct (unrecognized_token_is_local A no_fail F u k v v' exp s Hnorec H1 Hp) as [s2 H2].
  destruct (Hn F (Nat.le_max_r _ _)) as [s3 H3]. rewrite Hy in H3. rewrite H3 in H2. discriminate.
Qed.

(** C04, the viability half: with a productive grammar (every nonterminal derives some terminal
    string -- certificate ranks), what was consumed before the reported token is a prefix of a sentence *)
Lemma initial_J w : productive A C = true -> Forall tok_in_range w ->
  J A C w MNeed (init (map IOk w)).
Proof.
  intros Hprod Hw. destruct valid_proj as (Hs & Hc & He & _).
  assert (Hst : exists it, In it (items_of C 0)).
  { unfold complete in Hc. rewrite !andb_true_iff in Hc. destruct Hc as ((Hc & _) & _).
    destruct (has_las_item C 0 (start_prod A) 0 [None] None Hc (or_introl eq_refl)) as (it & Hin & _). eauto. }
  split; [|split; [|split]].
  - repeat split; simpl; auto.
    + rewrite toks_map_ok. reflexivity.
    + apply Forall_forall. intros i Hi. apply in_map_iff in Hi as (k0 & <- & Hk). rewrite Forall_forall in Hw. apply (Hw k0 Hk).
  - apply (viable_stack A C Hs He Hprod Hnorec []); [split; [exact I|constructor]|exact Hst].
  - reflexivity.
  - exists w. reflexivity.
Qed.

Theorem consumed_prefix_is_viable orc fuel w k exp s :
  productive A C = true ->
  Forall tok_in_range w ->
  drive A orc fuel (map IOk w) = (RErr (PUnrecTok k exp), s) ->
  exists u v, w = u ++ k :: v /\ npulled s = S (length u) /\ (exists v', sentence (u ++ v')) /\
              forall x kx, In x exp -> tk_idx kx = Some x -> exists v', sentence (u ++ [kx] ++ v').
Proof.
  intros Hprod Hw H. destruct valid_proj as (Hs & Hc & He & Hse & _).
  unfold drive in H.
  apply (run_J A C Hs He Hprod Hnorec Hse orc fuel w _ _ _ _ _ (initial_J w Hprod Hw)) in H.
  destruct H as (u & v & Hwv & Hv & Hn & Hex). exists u, v. repeat split; auto.
  intros x kx Hx Hk. destruct (Hex x kx Hx Hk) as [v' Hv']. exists v'. rewrite app_assoc. exact Hv'.
Qed.

(** C05: every terminal named in an expected list can continue the consumed input *)
Theorem expected_at_eof_are_viable orc fuel w loc exp s :
  productive A C = true ->
  Forall tok_in_range w ->
  drive A orc fuel (map IOk w) = (RErr (PUnrecEof loc exp), s) ->
  forall x kx, In x exp -> tk_idx kx = Some x -> exists v', sentence (w ++ [kx] ++ v').
Proof.
  intros Hprod Hw H. destruct valid_proj as (Hs & Hc & He & Hse & _).
  unfold drive in H.
  apply (run_J A C Hs He Hprod Hnorec Hse orc fuel w _ _ _ _ _ (initial_J w Hprod Hw)) in H.
  intros x kx Hx Hk. destruct (H x kx Hx Hk) as [v' Hv']. exists v'. rewrite app_assoc. exact Hv'.
Qed.

Lemma same_split {X} (u1 u2 v1 v2 : list X) k : u1 ++ k :: v1 = u2 ++ k :: v2 -> length u1 = length u2 -> u1 = u2.
Proof.
  revert u2. induction u1 as [|a u1 IH]; intros [|b u2] H Hl; simpl in *; try lia; [reflexivity|].
  inversion H. f_equal. apply IH; [assumption|lia].
Qed.

(** C04: the reported token is the FIRST one that cannot continue the input *)
Theorem error_at_first_non_viable_token fuel w k exp s :
  productive A C = true ->
  Forall tok_in_range w ->
  drive A no_fail fuel (map IOk w) = (RErr (PUnrecTok k exp), s) ->
  exists u v, w = u ++ k :: v /\ npulled s = S (length u) /\
              (exists v', sentence (u ++ v')) /\ (forall v', ~ sentence (u ++ k :: v')).
Proof.
  intros Hprod Hw H.
  destruct (consumed_prefix_is_viable no_fail fuel w k exp s Hprod Hw H) as (u & v & Hwv & Hn & Hv & _).
  destruct (error_token_cannot_continue fuel w k exp s H) as (u2 & v2 & Hwv2 & Hn2 & Hnv).
  assert (u = u2) by (apply (same_split u u2 v v2 k); [congruence|lia]). subst u2.
  exists u, v. repeat split; auto.
Qed.

Theorem eof_error_not_a_sentence fuel w loc exp s :
  drive A no_fail fuel (map IOk w) = (RErr (PUnrecEof loc exp), s) -> ~ sentence w.
Proof.
  intros H (t & Hwf & Hy). destruct (parse_ok_complete t Hwf) as [n Hn].
  set (F := Nat.max fuel n).
  assert (H1 : drive A no_fail F (map IOk w) = (RErr (PUnrecEof loc exp), s))
    by (apply (drive_mono A Hnorec no_fail fuel _ _ _ H); [discriminate|apply Nat.le_max_l]).
  destruct (Hn F (Nat.le_max_r _ _)) as [s3 H3]. rewrite Hy in H3. rewrite H3 in H1. discriminate.
Qed.
(** the parser decides the language: beyond some budget every input is answered, with its derivation
    tree if it is a sentence and with an error if it is not (actions that do not fail) *)
Theorem parser_decides w : Forall tok_in_range w ->
  exists n, forall fuel, n <= fuel ->
    (exists t s, drive A no_fail fuel (map IOk w) = (ROk t, s) /\ wfp A t (Nt (start_nt A)) /\ yield t = w) \/
    (exists e s, drive A no_fail fuel (map IOk w) = (RErr e, s) /\ ~ sentence w).
Proof.
  intros Hw. destruct valid_proj as (Hs & _ & He & _ & Ht).
  assert (Hitems : Forall (item_ok A) (map IOk w)).
  { apply Forall_forall. intros i Hi. apply in_map_iff in Hi as (k & <- & Hk). rewrite Forall_forall in Hw. exact (Hw k Hk). }
  destruct (parser_terminates A C Hs He Ht Hnorec no_fail (map IOk w) Hitems) as [n Hn].
  exists n. intros fuel Hf. specialize (Hn fuel Hf).
  destruct (drive A no_fail fuel (map IOk w)) as [r s] eqn:E. cbn [fst] in Hn.
  destruct r as [v|e| |].
  - left. exists v, s. destruct (parse_ok_sound no_fail fuel w v s Hw E) as (H1 & H2 & _). auto.
  - right. exists e, s. split; [reflexivity|]. intros (t & Hwf & Hy).
    destruct (parse_ok_complete t Hwf) as [n2 Hn2].
    destruct (Hn2 (Nat.max fuel n2) (Nat.le_max_r _ _)) as [s2 Hs2]. rewrite Hy in Hs2.
    rewrite (drive_mono A Hnorec no_fail fuel _ _ _ E ltac:(discriminate) (Nat.max fuel n2) (Nat.le_max_l _ _)) in Hs2.
    discriminate.
  - exfalso. exact (no_panic A C Hs He Hnorec no_fail fuel w RPanic s Hw E eq_refl).
  - exfalso. apply Hn. reflexivity.
Qed.
End Main.

(** ExtraToken is never returned on validated tables (no recovery). *)
Section NoExtra.
Variable A : tables.
Variable C : cert.
Hypothesis Hvalid : valid A C = true.
Hypothesis Hnorec : uses_recovery A = false.

Theorem no_extra_token orc fuel w k s :
  Forall (tok_in_range A) w ->
  drive A orc fuel (map IOk w) <> (RErr (PExtra k), s).
Proof.
  intros Hw H. destruct (valid_proj A C Hvalid) as (Hs & _ & _ & Hse & _).
  destruct (ErrorPos.extra_token_only_from_start_reduce A orc fuel w k s Hnorec H) as (Hin & i & Hi & Ht).
  rewrite Forall_forall in Hw. specialize (Hw k Hin). unfold tok_in_range in Hw. rewrite Hi in Hw.
  rewrite (names_term A C Hs Hnorec) in Hw.
  assert (Hst : top_state (stk s) < n_states A).
  { eapply (tact_state A C Hs _ (Some i) _ Ht); [discriminate|left; lia]. }
  unfold start_eof_only in Hse. rewrite forallb_forall in Hse.
  specialize (Hse _ (proj2 (seq_in _ _) Hst)). rewrite forallb_forall in Hse.
  specialize (Hse i (proj2 (seq_in _ _) Hw)). rewrite Ht, Nat.eqb_refl in Hse. discriminate.
Qed.
End NoExtra.
