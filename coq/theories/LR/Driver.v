(** Model of the table-driven LR runtime: lalrpop-util/src/state_machine.rs ([Parser::drive],
    [parse], [parse_eof], [error_recovery], [accepts], [next_token], [unrecognized_token_error])
    together with the generated glue of lr1/codegen/parse_table.rs ([__reduce], [__accepts],
    [__expected_tokens_from_states], [__goto], [__action], [error_action], [eof_action]).
    Loops are fuelled; every Rust panic site (index out of bounds, unwrap on None, subtraction
    underflow, "symbol type mismatch", explicit panic!) is the outcome [RPanic].
    No proofs in this file. *)
From Coq Require Import List ZArith Bool Arith.
Import ListNotations.

Inductive sym := Tm (t : nat) | Nt (n : nat).

Definition sym_eqb (a b : sym) : bool :=
  match a, b with
  | Tm x, Tm y => Nat.eqb x y
  | Nt x, Nt y => Nat.eqb x y
  | _, _ => false
  end.

(** Tokens as the driver sees them: [tk_idx] is the result of [token_to_index]. *)
Record token := { tk_idx : option nat; tk_id : N; tk_lo : Z; tk_hi : Z }.

Inductive perr :=
| PUnrecTok (k : token) (expected : list nat)
| PUnrecEof (loc : Z) (expected : list nat)
| PExtra (k : token)
| PUser (e : N)
| PInvalid (loc : Z).

Inductive item := IOk (k : token) | IErr (e : perr).

Inductive tree :=
| Leaf (k : token)
| ErrLeaf (err : perr) (dropped : list token) (lo hi : Z)   (* ErrorRecovery { error, dropped_tokens } and the span it was pushed with *)
| Node (p : nat) (kids : list tree).

(** Tables exactly as emitted. *)
Record tables := {
  tn_term : nat;                 (* columns of __ACTION (includes the error column when recovery is on) *)
  tn_names : nat;                (* length of __TERMINAL *)
  uses_recovery : bool;
  action : list Z;               (* __ACTION, row-major *)
  eof_action : list Z;           (* __EOF_ACTION *)
  goto_tbl : list (list nat);    (* __goto as a matrix [nt][state] (the nested match, evaluated) *)
  prods : list (nat * list sym); (* per reduce index: nonterminal index and right-hand side, as popped by __reduceN *)
  start_prod : nat;              (* the reduce index whose arm returns Some(Ok(..)) *)
  sim_pop : list nat;            (* __simulate_reduce: states_to_pop *)
  sim_nt : list (option nat)     (* __simulate_reduce: nonterminal_produced, None = Accept *)
}.

Definition act_at (A : tables) (s t : nat) : option Z := nth_error (action A) (s * tn_term A + t).
Definition eof_at (A : tables) (s : nat) : option Z := nth_error (eof_action A) s.
Definition goto_at (A : tables) (s n : nat) : nat := nth s (nth n (goto_tbl A) []) 0.
Definition err_col (A : tables) : nat := tn_term A - 1.

Definition as_shift (z : Z) : option nat := if (0 <? z)%Z then Some (Z.to_nat (z - 1)) else None.
Definition as_reduce (z : Z) : option nat := if (z <? 0)%Z then Some (Z.to_nat (- (z + 1))) else None.

(** Parser stack: entries top first above the implicit start state 0. *)
Definition entry := (nat * tree * Z * Z)%type.
Definition e_state (e : entry) : nat := let '(s, _, _, _) := e in s.
Definition e_tree (e : entry) : tree := let '(_, t, _, _) := e in t.
Definition e_lo (e : entry) : Z := let '(_, _, l, _) := e in l.
Definition e_hi (e : entry) : Z := let '(_, _, _, h) := e in h.
Definition top_state (stk : list entry) : nat := match stk with [] => 0 | e :: _ => e_state e end.
(* the [states] vector, top first *)
Definition states_of (stk : list entry) : list nat := map e_state stk ++ [0].

Definition sym_of (A : tables) (t : tree) : option sym :=
  match t with
  | Leaf k => option_map Tm (tk_idx k)
  | ErrLeaf _ _ _ _ => Some (Tm (err_col A))
  | Node p _ => option_map (fun pr => Nt (fst pr)) (nth_error (prods A) p)
  end.

Inductive result := ROk (v : tree) | RErr (e : perr) | RPanic | RFuel.

(** [__accepts] / [Parser::accepts]: simulate reductions on a copy of the state stack.
    [states] is top first. *)
Inductive ares := ATrue | AFalse | APanic | AFuel.

Fixpoint accepts (A : tables) (fuel : nat) (states : list nat) (la : option nat) : ares :=
  match fuel with
  | O => AFuel
  | S fuel' =>
    match states with
    | [] => APanic
    | top :: _ =>
      match (match la with None => eof_at A top | Some t => act_at A top t end) with
      | None => APanic
      | Some a =>
        if (a =? 0)%Z then AFalse
        else match as_reduce a with
             | None => ATrue
             | Some p =>
               match nth_error (sim_pop A) p, nth_error (sim_nt A) p with
               | Some k, Some None => ATrue
               | Some k, Some (Some nt) =>
                 if length states <=? k then APanic
                 else let st' := skipn k states in
                      accepts A fuel' (goto_at A (hd 0 st') nt :: st') la
               | _, _ => APanic
               end
             end
      end
    end
  end.

(** [__expected_tokens_from_states]: indices into __TERMINAL, in order. *)
Inductive eres := EList (l : list nat) | EPanic | EFuel.
Fixpoint expected_go (A : tables) (fuel : nat) (states : list nat) (i n : nat) : eres :=
  match n with
  | O => EList []
  | S n' =>
    match accepts A fuel states (Some i) with
    | APanic => EPanic
    | AFuel => EFuel
    | ATrue => match expected_go A fuel states (S i) n' with EList l => EList (i :: l) | r => r end
    | AFalse => expected_go A fuel states (S i) n'
    end
  end.
Definition expected_tokens (A : tables) (fuel : nat) (stk : list entry) : eres :=
  expected_go A fuel (states_of stk) 0 (tn_names A).

(** Parser state. *)
(* [ActFail p e]: the fallible action of production p ran and returned Err(e) *)
Inductive event := Pull (i : nat) | PullEof | Act (p : nat) (lo hi : Z) | ActFail (p : nat) (e : N) | Shift (i : nat) | Drop (i : nat).
Record pst := {
  stk : list entry;
  rest : list item;       (* unread part of the token iterator *)
  npulled : nat;          (* number of items pulled so far *)
  last_loc : Z;
  trace : list event      (* most recent first *)
}.
Definition set_stk (s : pst) (k : list entry) : pst :=
  {| stk := k; rest := rest s; npulled := npulled s; last_loc := last_loc s; trace := trace s |}.
Definition log (s : pst) (e : event) : pst :=
  {| stk := stk s; rest := rest s; npulled := npulled s; last_loc := last_loc s; trace := e :: trace s |}.

(* fallible-action oracle: [Some e] = the action of production p fails with user error e *)
Definition oracle := nat -> list tree -> option N.

(** [unrecognized_token_error] *)
Definition unrec_error (A : tables) (fuel : nat) (s : pst) (tok : option token) : result :=
  match expected_tokens A fuel (stk s) with
  | EPanic => RPanic
  | EFuel => RFuel
  | EList exp =>
    match tok with
    | Some k => RErr (PUnrecTok k exp)
    | None => RErr (PUnrecEof (last_loc s) exp)
    end
  end.

(** [next_token] *)
Inductive next := Found (la : token) (idx : nat) | NEof | NDone (r : result).

Definition next_token (A : tables) (fuel : nat) (s : pst) : next * pst :=
  match rest s with
  | [] => (NEof, log s PullEof)
  | IErr e :: r =>
    (NDone (RErr e),
     {| stk := stk s; rest := r; npulled := S (npulled s); last_loc := last_loc s;
        trace := Pull (npulled s) :: trace s |})
  | IOk k :: r =>
    let s1 := {| stk := stk s; rest := r; npulled := S (npulled s); last_loc := tk_hi k;
                 trace := Pull (npulled s) :: trace s |} in
    match tk_idx k with
    | Some i => (Found k i, s1)
    | None => (NDone (unrec_error A fuel s1 (Some k)), s1)
    end
  end.

(** The generated [__reduce]. *)
Inductive rres := RdPanic | RdDone (r : result) | RdCont (stk' : list entry).

Fixpoint syms_match (A : tables) (popped : list entry) (rhs : list sym) : bool :=
  match popped, rhs with
  | [], [] => true
  | e :: ps, x :: xs =>
    match sym_of A (e_tree e) with
    | Some y => sym_eqb x y && syms_match A ps xs
    | None => false
    end
  | _, _ => false
  end.

Definition reduce (A : tables) (orc : oracle) (p : nat) (la_start : option Z) (stk : list entry)
  : rres * option event :=
  match nth_error (prods A) p with
  | None => (RdPanic, None)                               (* "invalid action code" *)
  | Some (nt, rhs) =>
    let k := length rhs in
    if length stk <? k then (RdPanic, None)               (* assert!/pop on a short stack *)
    else
      let popped := rev (firstn k stk) in                 (* left to right *)
      let below := skipn k stk in
      if negb (syms_match A popped rhs) then (RdPanic, None)   (* "symbol type mismatch" *)
      else
        let '(lo, hi) :=
          match popped with
          | [] =>
            let l := match la_start with
                     | Some l => l
                     | None => match stk with e :: _ => e_hi e | [] => 0%Z end
                     end in (l, l)
          | e :: _ => (e_lo e, e_hi (last popped e))
          end in
        let kids := map e_tree popped in
        (* the start production's arm runs the internal identity action and returns Some(Ok(..));
           it is never fallible and is not a user action *)
        if Nat.eqb p (start_prod A) then (RdDone (ROk (Node p kids)), None)
        else
          match orc p kids with
          | Some e => (RdDone (RErr (PUser e)), Some (ActFail p e))
          | None => (RdCont ((goto_at A (top_state below) nt, Node p kids, lo, hi) :: below), Some (Act p lo hi))
          end
  end.

Definition logo (s : pst) (e : option event) : pst := match e with Some e => log s e | None => s end.

(** [error_recovery] *)
(* the loop "perform all reductions triggered by having ERROR in the lookahead" *)
Inductive prres := PrPanic | PrFuel | PrDone (r : result) (s : pst) | PrBreak (s : pst).
Fixpoint pre_reduce (A : tables) (orc : oracle) (fuel : nat) (la_start : option Z) (s : pst) : prres :=
  match fuel with
  | O => PrFuel
  | S fuel' =>
    match act_at A (top_state (stk s)) (err_col A) with
    | None => PrPanic
    | Some a =>
      match as_reduce a with
      | Some p =>
        match reduce A orc p la_start (stk s) with
        | (RdPanic, _) => PrPanic
        | (RdDone r, ev) => PrDone r (logo s ev)
        | (RdCont k, ev) => pre_reduce A orc fuel' la_start (set_stk (logo s ev) k)
        end
      | None => PrBreak s
      end
    end
  end.

(* "for top in (0..states_len).rev()": scan the suffixes of the stack, top first; returns the
   number of entries to pop *)
Inductive fsres := FsPanic | FsFuel | FsFound (j : nat) | FsNone.
Fixpoint find_state (A : tables) (fuel : nat) (stk : list entry) (j : nat) (la : option nat) : fsres :=
  let here :=
    match act_at A (top_state stk) (err_col A) with
    | None => FsPanic
    | Some a =>
      match as_shift a with
      | Some es =>
        match accepts A fuel (es :: states_of stk) la with
        | APanic => FsPanic | AFuel => FsFuel | ATrue => FsFound j | AFalse => FsNone
        end
      | None => FsNone
      end
    end in
  match here with
  | FsNone => match stk with [] => FsNone | _ :: below => find_state A fuel below (S j) la end
  | r => r
  end.

(* the 'find_state loop: structurally recursive on the number of remaining stream items + 1 *)
Inductive flres := FlPanic | FlFuel | FlDone (r : result) (s : pst)
                 | FlFound (j : nat) (la : option (token * nat)) (dropped : list token) (s : pst).
Fixpoint find_loop (A : tables) (fuel : nat) (n : nat) (err : perr) (la : option (token * nat))
         (dropped : list token) (s : pst) : flres :=
  match find_state A fuel (stk s) 0 (option_map snd la) with
  | FsPanic => FlPanic
  | FsFuel => FlFuel
  | FsFound j => FlFound j la dropped s
  | FsNone =>
    match la with
    | None => FlDone (RErr err) s
    | Some (k, _) =>
      match n with
      | O => FlFuel
      | S n' =>
        let dropped' := dropped ++ [k] in
        let s0 := log s (Drop (npulled s - 1)) in
        match next_token A fuel s0 with
        | (Found k' i', s1) => find_loop A fuel n' err (Some (k', i')) dropped' s1
        | (NEof, s1) => find_loop A fuel n' err None dropped' s1
        | (NDone r, s1) => FlDone r s1
        end
      end
    end
  end.

Definition error_recovery (A : tables) (orc : oracle) (fuel : nat) (la : option (token * nat)) (s : pst)
  : next * pst :=
  if negb (uses_recovery A) then (NDone (unrec_error A fuel s (option_map fst la)), s)
  else
    match unrec_error A fuel s (option_map fst la) with
    | RErr err =>
      match pre_reduce A orc fuel (option_map (fun l => tk_lo (fst l)) la) s with
      | PrPanic => (NDone RPanic, s)
      | PrFuel => (NDone RFuel, s)
      | PrDone r s1 => (NDone r, s1)
      | PrBreak s1 =>
        match find_loop A fuel (S (length (rest s1))) err la [] s1 with
        | FlPanic => (NDone RPanic, s1)
        | FlFuel => (NDone RFuel, s1)
        | FlDone r s2 => (NDone r, s2)
        | FlFound j la' dropped s2 =>
          let st := stk s2 in
          let popped := firstn j st in
          let kept := skipn j st in
          let start :=
            match rev popped with
            | e :: _ => e_lo e
            | [] => match dropped with
                    | d :: _ => tk_lo d
                    | [] => match kept with e :: _ => e_hi e | [] => 0%Z end
                    end
            end in
          let end_ :=
            match rev dropped with
            | d :: _ => tk_hi d
            | [] => match popped with
                    | e :: _ => e_hi e
                    | [] => match la' with Some (k, _) => tk_lo k | None => start end
                    end
            end in
          match act_at A (top_state kept) (err_col A) with
          | Some a =>
            match as_shift a with
            | Some es =>
              let s3 := set_stk s2 ((es, ErrLeaf err dropped start end_, start, end_) :: kept) in
              match la' with
              | Some (k, i) => (Found k i, s3)
              | None => (NEof, s3)
              end
            | None => (NDone RPanic, s2)
            end
          | None => (NDone RPanic, s2)
          end
        end
      end
    | r => (NDone r, s)
    end.

(** [parse] / [parse_eof] as a step function over the loop position. *)
Inductive mode := MNeed | MHave (la : token) (idx : nat) | MEof.
Inductive sres := Cont (m : mode) (s : pst) | Fin (r : result) (s : pst).

Definition step (A : tables) (orc : oracle) (fuel : nat) (m : mode) (s : pst) : sres :=
  match m with
  | MNeed =>
    match next_token A fuel s with
    | (Found k i, s1) => Cont (MHave k i) s1
    | (NEof, s1) => Cont MEof s1
    | (NDone r, s1) => Fin r s1
    end
  | MHave k i =>
    match act_at A (top_state (stk s)) i with
    | None => Fin RPanic s
    | Some a =>
      match as_shift a with
      | Some target =>
        Cont MNeed (log (set_stk s ((target, Leaf k, tk_lo k, tk_hi k) :: stk s)) (Shift (npulled s - 1)))
      | None =>
        match as_reduce a with
        | Some p =>
          match reduce A orc p (Some (tk_lo k)) (stk s) with
          | (RdPanic, _) => Fin RPanic s
          | (RdDone (ROk _), ev) => Fin (RErr (PExtra k)) (logo s ev)
          | (RdDone r, ev) => Fin r (logo s ev)
          | (RdCont st', ev) => Cont (MHave k i) (set_stk (logo s ev) st')
          end
        | None =>
          match error_recovery A orc fuel (Some (k, i)) s with
          | (Found k' i', s1) => Cont (MHave k' i') s1
          | (NEof, s1) => Cont MEof s1
          | (NDone r, s1) => Fin r s1
          end
        end
      end
    end
  | MEof =>
    match eof_at A (top_state (stk s)) with
    | None => Fin RPanic s
    | Some a =>
      match as_reduce a with
      | Some p =>
        match reduce A orc p None (stk s) with
        | (RdPanic, _) => Fin RPanic s
        | (RdDone r, ev) => Fin r (logo s ev)
        | (RdCont st', ev) => Cont MEof (set_stk (logo s ev) st')
        end
      | None =>
        match error_recovery A orc fuel None s with
        | (Found _ _, s1) => Fin RPanic s1          (* "cannot find token at EOF" *)
        | (NEof, s1) => Cont MEof s1
        | (NDone r, s1) => Fin r s1
        end
      end
    end
  end.

Fixpoint run (A : tables) (orc : oracle) (fuel : nat) (n : nat) (m : mode) (s : pst) : result * pst :=
  match n with
  | O => (RFuel, s)
  | S n' =>
    match step A orc fuel m s with
    | Cont m' s' => run A orc fuel n' m' s'
    | Fin r s' => (r, s')
    end
  end.

Definition init (input : list item) : pst :=
  {| stk := []; rest := input; npulled := 0; last_loc := 0%Z; trace := [] |}.

(* [Parser::drive] *)
Definition drive (A : tables) (orc : oracle) (fuel : nat) (input : list item) : result * pst :=
  run A orc fuel fuel MNeed (init input).
