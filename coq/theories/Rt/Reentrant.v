(** C27: a generated parser value is immutable; every `parse` call owns its state (stack, token
    stream position, and -- with the built-in lexer -- a lazily filled DFA cache).  Two facts:
    (1) calls that own their state cannot influence each other, whatever the interleaving of their
        steps (a schedule is any list of call indices);
    (2) the lazily filled cache never changes what a call computes: a scan through a cache that only
        ever stores correct entries equals the scan without a cache. *)
From Coq Require Import List Arith NArith Bool Lia.
From LV Require Import Lex.Regex Lex.LexModel.
Import ListNotations.

Section Interleaving.
Variable St : Type.                 (* private state of one parse call *)
Variable shared : Type.             (* the parser value: tables, MatcherBuilder -- never written *)
Variable step : shared -> St -> St. (* one step of a call; a finished call is a fixed point *)

Fixpoint upd (l : list St) (i : nat) (f : St -> St) : list St :=
  match l, i with
  | [], _ => []
  | x :: r, O => f x :: r
  | x :: r, S j => x :: upd r j f
  end.

(* the system: one immutable parser, n calls in flight; the scheduler picks which call moves *)
Definition exec (p : shared) (sched : list nat) (l : list St) : list St :=
  fold_left (fun l i => upd l i (step p)) sched l.

Fixpoint iter (n : nat) (f : St -> St) (x : St) : St :=
  match n with O => x | S k => iter k f (f x) end.

Lemma nth_upd_same l : forall i f, nth_error (upd l i f) i = option_map f (nth_error l i).
Proof. induction l as [|x l IH]; intros [|i] f; simpl; auto. Qed.

Lemma nth_upd_other l : forall i j f, i <> j -> nth_error (upd l i f) j = nth_error l j.
Proof.
  induction l as [|x l IH]; intros [|i] [|j] f H; simpl; auto; try congruence.
Qed.

Lemma iter_S n f x : iter (S n) f x = f (iter n f x).
Proof. revert x. induction n as [|n IH]; intros x; [reflexivity|]. cbn [iter] in *. rewrite <- IH. reflexivity. Qed.

Theorem exec_component p sched : forall l i,
  nth_error (exec p sched l) i = option_map (iter (count_occ Nat.eq_dec sched i) (step p)) (nth_error l i).
Proof.
  unfold exec. induction sched as [|k sched IH] using rev_ind; intros l i.
  - simpl. destruct (nth_error l i); reflexivity.
  - rewrite fold_left_app. cbn [fold_left]. rewrite count_occ_app. cbn [count_occ].
    destruct (Nat.eq_dec k i) as [->|Hne].
    + rewrite nth_upd_same, IH. replace (count_occ Nat.eq_dec sched i + 1) with (S (count_occ Nat.eq_dec sched i)) by lia.
      destruct (nth_error l i); [|reflexivity]. cbn [option_map]. rewrite iter_S. reflexivity.
    + rewrite nth_upd_other by exact Hne. rewrite IH, Nat.add_0_r. reflexivity.
Qed.

(* hence: under ANY schedule in which call i gets at least the steps it needs, its final state is the
   one it reaches when it runs alone on a fresh parser *)
Definition finished (p : shared) (s : St) : Prop := step p s = s.

Lemma iter_finished p n s : finished p s -> iter n (step p) s = s.
Proof. intros H. induction n as [|n IH]; [reflexivity|]. cbn [iter]. rewrite H. exact IH. Qed.

Lemma iter_add n m f x : iter (n + m) f x = iter m f (iter n f x).
Proof. revert x. induction n as [|n IH]; intros x; [reflexivity|]. cbn [iter Nat.add]. apply IH. Qed.

Theorem concurrent_equals_alone p sched l i s0 n :
  nth_error l i = Some s0 ->
  finished p (iter n (step p) s0) ->            (* alone, the call finishes within n steps *)
  n <= count_occ Nat.eq_dec sched i ->          (* the schedule lets it run at least that long *)
  nth_error (exec p sched l) i = Some (iter n (step p) s0).
Proof.
  intros Hs Hf Hn. rewrite exec_component, Hs. cbn [option_map]. f_equal.
  replace (count_occ Nat.eq_dec sched i) with (n + (count_occ Nat.eq_dec sched i - n)) by lia.
  rewrite iter_add. apply iter_finished. exact Hf.
Qed.
End Interleaving.

(** the per-call lazy cache of the lexer: a partial memo table of derivative steps *)
Lemma re_eq_dec : forall a b : re, {a = b} + {a <> b}.
Proof. decide equality; apply N.eq_dec. Qed.

Section LazyCache.
Definition cache := list ((N * list re) * list re).

Fixpoint lookup (c : cache) (b : N) (rs : list re) : option (list re) :=
  match c with
  | [] => None
  | ((b', rs'), out) :: r =>
    if (N.eqb b b' && if list_eq_dec re_eq_dec rs rs' then true else false)%bool then Some out else lookup r b rs
  end.

Definition sound (c : cache) : Prop :=
  forall b rs out, lookup c b rs = Some out -> out = map (deriv b) rs.

(* next_state through the cache: a hit returns the stored entry, a miss computes and stores it; the
   cache may also be cleared at any point ([clear] is an arbitrary oracle) *)
Variable clear : nat -> bool.

Definition next_state (c : cache) (pos : nat) (b : N) (rs : list re) : cache * list re :=
  let c := if clear pos then [] else c in
  match lookup c b rs with
  | Some out => (c, out)
  | None => let out := map (deriv b) rs in (((b, rs), out) :: c, out)
  end.

Fixpoint scan_cached (c : cache) (rs : list re) (text : list N) (pos : nat) (best : option (nat * nat))
  : cache * option (nat * nat) :=
  let best' := match max_nullable rs 0 with Some j => Some (pos, j) | None => best end in
  match text with
  | [] => (c, best')
  | b :: t => let '(c', rs') := next_state c pos b rs in scan_cached c' rs' t (S pos) best'
  end.

Lemma sound_nil : sound [].
Proof. intros b rs out H. discriminate. Qed.

Lemma next_state_sound c pos b rs : sound c ->
  sound (fst (next_state c pos b rs)) /\ snd (next_state c pos b rs) = map (deriv b) rs.
Proof.
  intros Hc. unfold next_state.
  set (c0 := if clear pos then [] else c).
  assert (H0 : sound c0) by (unfold c0; destruct (clear pos); [apply sound_nil|exact Hc]).
  destruct (lookup c0 b rs) as [out|] eqn:El; cbn [fst snd].
  - split; [exact H0|]. apply H0. exact El.
  - split; [|reflexivity]. intros b' rs' out H. cbn [lookup] in H.
    destruct (N.eqb b' b && (if list_eq_dec re_eq_dec rs' rs then true else false))%bool eqn:E.
    + apply andb_prop in E. destruct E as [E1 E2]. apply N.eqb_eq in E1.
      destruct (list_eq_dec re_eq_dec rs' rs) as [->|]; [|discriminate]. subst b'. inversion H. reflexivity.
    + apply H0. exact H.
Qed.

Theorem scan_cached_spec text : forall c rs pos best, sound c ->
  snd (scan_cached c rs text pos best) = scan rs text pos best /\ sound (fst (scan_cached c rs text pos best)).
Proof.
  induction text as [|b t IH]; intros c rs pos best Hc; cbn [scan_cached scan].
  - split; [reflexivity|exact Hc].
  - destruct (next_state_sound c pos b rs Hc) as [Hs He].
    destruct (next_state c pos b rs) as [c' rs'] eqn:En. cbn [fst snd] in *. subst rs'.
    apply IH. exact Hs.
Qed.
End LazyCache.
