(** Theorems about the [ParseError] helper model (C28). *)
From Coq Require Import List String Ascii Arith Lia.
From LV Require Import Rt.ParseError.
Import ListNotations.
Local Open Scope string_scope.

(** Observations of an error value: what a user can read out of it. *)
Section Obs.
  Context {L T E : Type}.
  Definition tag (x : perr L T E) : nat :=
    match x with InvalidToken _ => 0 | UnrecognizedEof _ _ => 1 | UnrecognizedToken _ _ _ _ => 2
               | ExtraToken _ _ _ => 3 | User _ => 4 end.
  (* all locations, in field order: start before end *)
  Definition locations (x : perr L T E) : list L :=
    match x with
    | InvalidToken l | UnrecognizedEof l _ => [l]
    | UnrecognizedToken s _ e _ | ExtraToken s _ e => [s; e]
    | User _ => []
    end.
  Definition token_of (x : perr L T E) : option T :=
    match x with UnrecognizedToken _ t _ _ | ExtraToken _ t _ => Some t | _ => None end.
  Definition error_of (x : perr L T E) : option E :=
    match x with User e => Some e | _ => None end.
  Definition expected_of (x : perr L T E) : option (list string) :=
    match x with UnrecognizedEof _ exp | UnrecognizedToken _ _ _ exp => Some exp | _ => None end.
End Obs.

(** An error value is determined by its observations. *)
Lemma obs_inj {L T E} (x y : perr L T E) :
  tag x = tag y -> locations x = locations y -> token_of x = token_of y ->
  error_of x = error_of y -> expected_of x = expected_of y -> x = y.
Proof.
  destruct x, y; simpl; intros Ht Hl Hk He Hx; try discriminate; congruence.
Qed.

(** map_location *)
Theorem map_location_obs {L T E LL} (f : L -> LL) (x : perr L T E) :
  tag (map_location f x) = tag x /\
  locations (map_location f x) = map f (locations x) /\
  token_of (map_location f x) = token_of x /\
  error_of (map_location f x) = error_of x /\
  expected_of (map_location f x) = expected_of x.
Proof. destruct x; cbv; repeat split. Qed.

(* state-passing version: the FnMut closure is called once per location, in field order
   (start, then end), and its results land in the same positions *)
Fixpoint thread {S A B} (op : S -> A -> B * S) (st : S) (l : list A) : list B * S :=
  match l with
  | [] => ([], st)
  | a :: r => let '(b, st1) := op st a in let '(bs, st2) := thread op st1 r in (b :: bs, st2)
  end.

Theorem map_location_st_order {L T E LL S} (op : S -> L -> LL * S) st (x : perr L T E) :
  let r := map_location_st op st x in
  (locations (fst r), snd r) = thread op st (locations x) /\
  tag (fst r) = tag x /\ token_of (fst r) = token_of x /\
  error_of (fst r) = error_of x /\ expected_of (fst r) = expected_of x.
Proof.
  destruct x; unfold map_location_st, map_intern, maptok; simpl;
    repeat match goal with |- context [op ?s ?l] => destruct (op s l) end; simpl; repeat split.
Qed.

Theorem map_location_id {L T E} (x : perr L T E) : map_location (fun l => l) x = x.
Proof. destruct x; reflexivity. Qed.
Theorem map_location_compose {L T E L2 L3} (f : L -> L2) (g : L2 -> L3) (x : perr L T E) :
  map_location g (map_location f x) = map_location (fun l => g (f l)) x.
Proof. destruct x; reflexivity. Qed.

(** map_token / map_error change only their own field *)
Theorem map_token_obs {L T E TT} (f : T -> TT) (x : perr L T E) :
  tag (map_token f x) = tag x /\
  locations (map_token f x) = locations x /\
  token_of (map_token f x) = option_map f (token_of x) /\
  error_of (map_token f x) = error_of x /\
  expected_of (map_token f x) = expected_of x.
Proof. destruct x; cbv; repeat split. Qed.

Theorem map_error_obs {L T E EE} (f : E -> EE) (x : perr L T E) :
  tag (map_error f x) = tag x /\
  locations (map_error f x) = locations x /\
  token_of (map_error f x) = token_of x /\
  error_of (map_error f x) = option_map f (error_of x) /\
  expected_of (map_error f x) = expected_of x.
Proof. destruct x; cbv; repeat split. Qed.

Theorem from_error_obs {L T E} (e : E) :
  @from_error L T E e = User e.
Proof. reflexivity. Qed.

(** fmt_expected: "Expected one of a, b or c" *)
Definition comma_items (mid : list string) : string :=
  fold_right (fun e acc => ", " ++ e ++ acc) "" mid.

Definition expected_doc (l : list string) : string :=
  match l with
  | [] => ""
  | a :: r =>
    nl ++ "Expected one of " ++ a ++
    match rev r with
    | [] => ""
    | z :: rmid => comma_items (rev rmid) ++ " or " ++ z
    end
  end.

Lemma append_assoc (a b c : string) : (a ++ b) ++ c = a ++ (b ++ c).
Proof. induction a; simpl; congruence. Qed.

Lemma append_nil_r (a : string) : a ++ "" = a.
Proof. induction a; simpl; congruence. Qed.

Lemma go_mid : forall mid z i n, 0 < i -> i + List.length mid = n - 1 ->
  fmt_expected_go i n (mid ++ [z]) = comma_items mid ++ " or " ++ z.
Proof.
  induction mid as [|m mid IH]; intros z i n Hi Hn; simpl.
  - destruct i; [lia|]. simpl. replace (Nat.ltb (S i) (n - 1)) with false.
    + simpl. now rewrite append_nil_r.
    + symmetry. apply Nat.ltb_ge. simpl in Hn. lia.
  - destruct i; [lia|]. simpl. replace (Nat.ltb (S i) (n - 1)) with true.
    + simpl. rewrite append_assoc. do 3 f_equal. apply IH; simpl in *; lia.
    + symmetry. apply Nat.ltb_lt. simpl in Hn. lia.
Qed.

Theorem fmt_expected_doc (l : list string) : fmt_expected l = expected_doc l.
Proof.
  destruct l as [|a r]; [reflexivity|].
  unfold fmt_expected, expected_doc. f_equal. cbn [fmt_expected_go sep].
  rewrite <- (append_assoc "Expected one of" " ").
  change ("Expected one of" ++ " ") with "Expected one of ". do 2 f_equal.
  destruct (rev r) as [|z rmid] eqn:Hr.
  - apply (f_equal (@rev _)) in Hr. rewrite rev_involutive in Hr. subst r. reflexivity.
  - apply (f_equal (@rev _)) in Hr. rewrite rev_involutive in Hr. simpl in Hr. subst r.
    apply go_mid; [lia|]. simpl. rewrite app_length. simpl. lia.
Qed.

Example fmt_expected_three :
  fmt_expected ["a"; "b"; "c"] = nl ++ "Expected one of a, b or c".
Proof. reflexivity. Qed.
Example fmt_expected_one : fmt_expected ["a"] = nl ++ "Expected one of a".
Proof. reflexivity. Qed.
Example fmt_expected_two : fmt_expected ["a"; "b"] = nl ++ "Expected one of a or b".
Proof. reflexivity. Qed.

(** Display, per variant, with the expected list in its documented form *)
Section DisplayDoc.
  Context {L T E : Type} (showL : L -> string) (showT : T -> string) (showE : E -> string).
  Theorem display_doc (x : perr L T E) :
    display showL showT showE x =
    match x with
    | User e => showE e
    | InvalidToken l => "Invalid token at " ++ showL l
    | UnrecognizedEof l exp => "Unrecognized EOF found at " ++ showL l ++ expected_doc exp
    | UnrecognizedToken s t e exp =>
        "Unrecognized token `" ++ showT t ++ "` found at " ++ showL s ++ ":" ++ showL e
        ++ expected_doc exp
    | ExtraToken s t e => "Extra token " ++ showT t ++ " found at " ++ showL s ++ ":" ++ showL e
    end.
  Proof. destruct x; simpl; rewrite ?fmt_expected_doc; reflexivity. Qed.
End DisplayDoc.
