(** Model of lalrpop-util/src/lib.rs: [ParseError], [map_intern], [map_location],
    [map_token], [map_error], [fmt_expected], [Display], [From<E>].
    Transliteration; no proofs in this file. *)
From Coq Require Import List String Ascii Arith.
Import ListNotations.
Local Open Scope string_scope.

Inductive perr (L T E : Type) : Type :=
| InvalidToken (location : L)
| UnrecognizedEof (location : L) (expected : list string)
| UnrecognizedToken (s : L) (t : T) (e : L) (expected : list string)
| ExtraToken (s : L) (t : T) (e : L)
| User (error : E).
Arguments InvalidToken {L T E}.
Arguments UnrecognizedEof {L T E}.
Arguments UnrecognizedToken {L T E}.
Arguments ExtraToken {L T E}.
Arguments User {L T E}.

Section MapIntern.
  (* [loc_op] is an [FnMut]: it is modelled as a state-passing function, so that the
     number and order of its calls is part of the model.  [tok_op]/[err_op] are [FnOnce]. *)
  Context {L T E LL TT EE S : Type}.
  Variable loc_op : S -> L -> LL * S.
  Variable tok_op : T -> TT.
  Variable err_op : E -> EE.

  (* let maptok = |(s, t, e)| (loc_op(s), tok_op(t), loc_op(e));  -- tuple fields are
     evaluated left to right: start location first, end location second *)
  Definition maptok (st : S) (s : L) (t : T) (e : L) : (LL * TT * LL) * S :=
    let '(s', st1) := loc_op st s in
    let t' := tok_op t in
    let '(e', st2) := loc_op st1 e in
    ((s', t', e'), st2).

  Definition map_intern (st : S) (x : perr L T E) : perr LL TT EE * S :=
    match x with
    | InvalidToken l => let '(l', st1) := loc_op st l in (InvalidToken l', st1)
    | UnrecognizedEof l exp => let '(l', st1) := loc_op st l in (UnrecognizedEof l' exp, st1)
    | UnrecognizedToken s t e exp =>
        let '((s', t', e'), st1) := maptok st s t e in (UnrecognizedToken s' t' e' exp, st1)
    | ExtraToken s t e =>
        let '((s', t', e'), st1) := maptok st s t e in (ExtraToken s' t' e', st1)
    | User er => (User (err_op er), st)
    end.
End MapIntern.

Definition map_location_st {L T E LL S} (op : S -> L -> LL * S) (st : S) (x : perr L T E)
  : perr LL T E * S := map_intern op (fun t => t) (fun e => e) st x.

(* pure closures: the state is unit *)
Definition pure_op {A B} (f : A -> B) : unit -> A -> B * unit := fun _ a => (f a, tt).
Definition map_location {L T E LL} (f : L -> LL) (x : perr L T E) : perr LL T E :=
  fst (map_location_st (pure_op f) tt x).
Definition map_token {L T E TT} (f : T -> TT) (x : perr L T E) : perr L TT E :=
  fst (map_intern (pure_op (fun l : L => l)) f (fun e => e) tt x).
Definition map_error {L T E EE} (f : E -> EE) (x : perr L T E) : perr L T EE :=
  fst (map_intern (pure_op (fun l : L => l)) (fun t => t) f tt x).

Definition from_error {L T E} (e : E) : perr L T E := User e.

(** Display *)
Definition nl : string := String (ascii_of_nat 10) EmptyString.

(* the separator chosen by [fmt_expected] for index [i] of [n] entries *)
Definition sep (i n : nat) : string :=
  match i with
  | O => "Expected one of"
  | _ => if Nat.ltb i (n - 1) then "," else " or"
  end.

Fixpoint fmt_expected_go (i n : nat) (l : list string) : string :=
  match l with
  | [] => ""
  | e :: r => sep i n ++ " " ++ e ++ fmt_expected_go (S i) n r
  end.

Definition fmt_expected (expected : list string) : string :=
  match expected with
  | [] => ""
  | _ => nl ++ fmt_expected_go 0 (List.length expected) expected
  end.

Section Display.
  Context {L T E : Type}.
  Variable showL : L -> string.
  Variable showT : T -> string.
  Variable showE : E -> string.
  Definition display (x : perr L T E) : string :=
    match x with
    | User e => showE e
    | InvalidToken l => "Invalid token at " ++ showL l
    | UnrecognizedEof l exp => "Unrecognized EOF found at " ++ showL l ++ fmt_expected exp
    | UnrecognizedToken s t e exp =>
        "Unrecognized token `" ++ showT t ++ "` found at " ++ showL s ++ ":" ++ showL e
        ++ fmt_expected exp
    | ExtraToken s t e => "Extra token " ++ showT t ++ " found at " ++ showL s ++ ":" ++ showL e
    end.
End Display.
