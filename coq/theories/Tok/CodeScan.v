(** Model of the action-code scanner of lalrpop/src/tok/mod.rs: [Tokenizer::code] with
    [string_or_char_literal], [take_lifetime_or_character_literal], [regex_literal] (raw strings and
    raw identifiers), line comments and nested block comments.  Characters are numbers (code points);
    positions are counted in characters.  The scanner returns the number of characters before the
    terminator it stops at.  No proofs here. *)
From Coq Require Import List NArith Bool Arith.
Import ListNotations.
Local Open Scope N_scope.

Definition ch := N.
Definition QUOTE : ch := 34.  Definition APOS : ch := 39.  Definition BSL : ch := 92.
Definition SLASH : ch := 47.  Definition STAR : ch := 42.  Definition HASH : ch := 35.
Definition NL : ch := 10.     Definition LR : ch := 114.   (* 'r' *)
Definition COMMA : ch := 44.  Definition SEMI : ch := 59.

Inductive res := Stop (consumed : nat) | EndOfInput (consumed : nat) | Err (code : nat).
(* errors: 1 unterminated string, 2 unterminated char literal, 3 unterminated block comment,
   4 unterminated code (unbalanced), 5 expected string literal after r#, 9 out of fuel *)

Definition mem (c : ch) (l : list ch) : bool := existsb (N.eqb c) l.

(* string_or_char_literal after the opening quote: -> rest after the closing quote *)
Fixpoint skip_string (quote : ch) (esc : bool) (t : list ch) : option (list ch) :=
  match t with
  | [] => None
  | c :: r =>
    if esc then skip_string quote false r
    else if N.eqb c BSL then skip_string quote true r
    else if N.eqb c quote then Some r
    else skip_string quote false r
  end.

(* take_lifetime_or_character_literal after the apostrophe (a literal that ends the whole input is
   reported as unterminated by the real scanner, because bump() then returns None: mirrored) *)
Definition skip_char_or_lifetime (t : list ch) : option (list ch) :=
  match t with
  | [] => None
  | c :: r =>
    if N.eqb c BSL then
      match r with
      | [] => None
      | _ :: r2 => (fix until (l : list ch) : option (list ch) :=
                      match l with
                      | [] => None
                      | x :: l' => if N.eqb x APOS then (match l' with [] => None | _ => Some l' end) else until l'
                      end) r2
      end
    else
      match r with
      | [] => None                       (* bump() returned None *)
      | d :: r2 => if N.eqb d APOS then (match r2 with [] => None | _ => Some r2 end) else Some r
      end
  end.

Fixpoint take_hashes (t : list ch) (n : nat) : nat * list ch :=
  match t with
  | c :: r => if N.eqb c HASH then take_hashes r (S n) else (n, t)
  | [] => (n, t)
  end.

(* after r, the hashes and the opening quote: find a quote followed by [hashes] hashes *)
Fixpoint skip_raw (hashes : nat) (state : nat) (t : list ch) : option (list ch) :=
  match t with
  | [] => None
  | c :: r =>
    let state1 := if Nat.ltb 0 state then (if N.eqb c HASH then S state else O) else O in
    let state2 := if andb (Nat.eqb state1 0) (N.eqb c QUOTE) then 1%nat else state1 in
    if Nat.eqb state2 (S hashes) then Some r else skip_raw hashes state2 r
  end.

Definition is_ident_start (c : ch) : bool :=
  (N.leb 97 c && N.leb c 122) || (N.leb 65 c && N.leb c 90) || N.eqb c 95.
Definition is_ident_continue (c : ch) : bool := is_ident_start c || (N.leb 48 c && N.leb c 57).
Fixpoint skip_ident (t : list ch) : list ch :=
  match t with c :: r => if is_ident_continue c then skip_ident r else t | [] => [] end.

(* regex_literal after the `r`, when the lookahead is a hash or a quote *)
Definition skip_raw_literal (t : list ch) : option (list ch) + nat :=
  let '(h, t1) := take_hashes t O in
  match t1 with
  | c :: r =>
    if N.eqb c QUOTE then match skip_raw h O r with Some x => inl (Some x) | None => inr 1%nat end
    else if is_ident_start c then inl (Some (skip_ident r))        (* raw identifier r#name *)
    else inr 5%nat
  | [] => inr 1%nat
  end.

Inductive bstate := BInit | BSlash | BStar.
Fixpoint skip_block (depth : nat) (s : bstate) (t : list ch) : option (list ch) :=
  match t with
  | [] => None
  | c :: r =>
    let star := N.eqb c STAR in
    let slash := N.eqb c SLASH in
    match s with
    | BInit => if star then skip_block depth BStar r else if slash then skip_block depth BSlash r else skip_block depth BInit r
    | BSlash => if slash then skip_block depth BSlash r
                else if star then skip_block (S depth) BInit r else skip_block depth BInit r
    | BStar => if star then skip_block depth BStar r
               else if slash then match depth with
                                  | 1%nat => Some r
                                  | S d => skip_block d BInit r
                                  | O => Some r
                                  end
               else skip_block depth BInit r
    end
  end.

Fixpoint skip_line (t : list ch) : list ch :=
  match t with c :: r => if N.eqb c NL then t else skip_line r | [] => [] end.

(* Tokenizer::code: [n] characters consumed so far *)
Fixpoint code (fuel : nat) (opens closes : list ch) (balance : nat) (total : nat) (t : list ch) : res :=
  match fuel with
  | O => Err 9
  | S f =>
    let consumed := (total - length t)%nat in
    match t with
    | [] => if Nat.ltb 0 balance then Err 4 else EndOfInput consumed
    | c :: r =>
      if N.eqb c QUOTE then
        match skip_string QUOTE false r with Some r' => code f opens closes balance total r' | None => Err 1 end
      else if N.eqb c APOS then
        match skip_char_or_lifetime r with Some r' => code f opens closes balance total r' | None => Err 2 end
      else if N.eqb c LR then
        match r with
        | d :: _ =>
          if N.eqb d HASH || N.eqb d QUOTE then
            match skip_raw_literal r with
            | inl (Some r') => code f opens closes balance total r'
            | inl None => Err 1
            | inr e => Err e
            end
          else code f opens closes balance total r
        | [] => code f opens closes balance total r
        end
      else if N.eqb c SLASH then
        match r with
        | d :: r2 =>
          if N.eqb d SLASH then code f opens closes balance total (skip_line r2)
          else if N.eqb d STAR then
            match skip_block 1 BInit r2 with Some r' => code f opens closes balance total r' | None => Err 3 end
          else code f opens closes balance total r
        | [] => code f opens closes balance total r
        end
      else if mem c opens then code f opens closes (S balance) total r
      else if Nat.ltb 0 balance then
        code f opens closes (if mem c closes then pred balance else balance) total r
      else if N.eqb c COMMA || N.eqb c SEMI || mem c closes then Stop consumed
      else code f opens closes balance total r
    end
  end.

Definition OPENS : list ch := [40; 91; 123].     (* ( [ { *)
Definition CLOSES : list ch := [41; 93; 125].    (* ) ] } *)
Definition scan (t : list ch) : res := code (S (length t)) OPENS CLOSES 0 (length t) t.
