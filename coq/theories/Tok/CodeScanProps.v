(** Facts about the action-code scanner model: literals and comments are skipped exactly, and code
    made of ordinary characters and nested delimiters ends at the first top-level terminator. *)
From Coq Require Import List NArith Bool Arith Lia.
From LV Require Import Tok.CodeScan.
Import ListNotations.
Local Open Scope N_scope.

(** string literals: any sequence of ordinary characters and backslash-escaped characters *)
Inductive strbody : list ch -> Prop :=
| sb_nil : strbody []
| sb_plain c b : c <> BSL -> c <> QUOTE -> strbody b -> strbody (c :: b)
| sb_esc c b : strbody b -> strbody (BSL :: c :: b).

Lemma skip_string_spec body rest : strbody body -> skip_string QUOTE false (body ++ QUOTE :: rest) = Some rest.
Proof.
  induction 1 as [|c b Hb Hq _ IH|c b _ IH]; cbn [app skip_string].
  - rewrite N.eqb_refl. reflexivity.
  - apply N.eqb_neq in Hb. apply N.eqb_neq in Hq. rewrite Hb, Hq. exact IH.
  - cbn. exact IH.
Qed.

(** raw strings: the body may hold anything but a quote; it ends at the quote followed by n hashes *)
Lemma skip_raw_hashes n rest : forall m k, (0 < m)%nat -> (k + m = n)%nat ->
  skip_raw n (S k) (repeat HASH m ++ rest) = Some rest.
Proof.
  induction m as [|m IH]; intros k Hm Hk; [lia|].
  cbn [repeat app skip_raw]. rewrite N.eqb_refl.
  change (Nat.ltb 0 (S k)) with true. cbv iota.
  change (Nat.eqb (S (S k)) 0) with false. cbn [andb].
  destruct (Nat.eqb_spec (S (S k)) (S n)) as [E|E].
  - assert (m = 0%nat) by lia. subst m. reflexivity.
  - apply IH; lia.
Qed.

Lemma skip_raw_spec n body rest : ~ In QUOTE body ->
  skip_raw n 0 (body ++ QUOTE :: repeat HASH n ++ rest) = Some rest.
Proof.
  induction body as [|c b IH]; intros Hq; cbn [app skip_raw].
  - rewrite N.eqb_refl. change (Nat.ltb 0 0) with false. cbv iota. change (Nat.eqb 0 0) with true. cbn [andb].
    destruct (Nat.eqb_spec 1 (S n)) as [E|E].
    + assert (n = 0%nat) by lia. subst n. reflexivity.
    + apply (skip_raw_hashes n rest n 0%nat); lia.
  - assert (Hc : N.eqb c QUOTE = false) by (apply N.eqb_neq; intros E; apply Hq; left; congruence).
    rewrite Hc. change (Nat.ltb 0 0) with false. cbv iota. change (Nat.eqb 0 0) with true. cbn [andb].
    change (Nat.eqb 0 (S n)) with false. cbv iota. apply IH. intros H. apply Hq. right. exact H.
Qed.

(** block comments nest *)
Inductive cbody : list ch -> Prop :=
| cb_nil : cbody []
| cb_plain c b : c <> SLASH -> c <> STAR -> cbody b -> cbody (c :: b)
| cb_nest a b : cbody a -> cbody b -> cbody (SLASH :: STAR :: a ++ STAR :: SLASH :: b).

Lemma skip_block_gen body : cbody body -> forall d rest,
  skip_block (S d) BInit (body ++ STAR :: SLASH :: rest) =
  match d with O => Some rest | S _ => skip_block d BInit rest end.
Proof.
  induction 1 as [|c b Hs Ht _ IH|a b _ IHa _ IHb]; intros d rest; cbn [app].
  - cbn. destruct d; reflexivity.
  - cbn [skip_block]. apply N.eqb_neq in Hs. apply N.eqb_neq in Ht. rewrite Hs, Ht. apply IH.
  - cbn [skip_block]. change (N.eqb SLASH STAR) with false. change (N.eqb SLASH SLASH) with true.
    change (N.eqb STAR SLASH) with false. change (N.eqb STAR STAR) with true. cbv iota.
    rewrite <- app_assoc. cbn [app]. rewrite (IHa (S d)). apply IHb.
Qed.

Lemma skip_block_spec body rest : cbody body -> skip_block 1 BInit (body ++ STAR :: SLASH :: rest) = Some rest.
Proof. intros H. apply (skip_block_gen body H 0%nat rest). Qed.

(** code without literals: ordinary characters and nested delimiters *)
Definition plainb (c : ch) : bool :=
  negb (N.eqb c QUOTE || N.eqb c APOS || N.eqb c LR || N.eqb c SLASH || mem c OPENS || mem c CLOSES || N.eqb c COMMA || N.eqb c SEMI).
Definition terminator (c : ch) : Prop := c = COMMA \/ c = SEMI \/ mem c CLOSES = true.

Inductive inner : list ch -> Prop :=
| in_nil : inner []
| in_plain c s : plainb c = true -> inner s -> inner (c :: s)
| in_sep c s : c = COMMA \/ c = SEMI -> inner s -> inner (c :: s)
| in_group o cl a s : mem o OPENS = true -> mem cl CLOSES = true -> inner a -> inner s -> inner (o :: a ++ cl :: s).
Inductive top : list ch -> Prop :=
| top_nil : top []
| top_plain c s : plainb c = true -> top s -> top (c :: s)
| top_group o cl a s : mem o OPENS = true -> mem cl CLOSES = true -> inner a -> top s -> top (o :: a ++ cl :: s).

Lemma plainb_facts c : plainb c = true ->
  N.eqb c QUOTE = false /\ N.eqb c APOS = false /\ N.eqb c LR = false /\ N.eqb c SLASH = false /\
  mem c OPENS = false /\ mem c CLOSES = false /\ N.eqb c COMMA = false /\ N.eqb c SEMI = false.
Proof.
  unfold plainb. rewrite negb_true_iff, !orb_false_iff. tauto.
Qed.

Lemma open_facts o : mem o OPENS = true ->
  N.eqb o QUOTE = false /\ N.eqb o APOS = false /\ N.eqb o LR = false /\ N.eqb o SLASH = false.
Proof.
  unfold mem, OPENS. cbn [existsb]. rewrite !orb_true_iff. intros [H|[H|[H|H]]]; try discriminate;
    apply N.eqb_eq in H; subst; repeat split; reflexivity.
Qed.

Lemma close_facts o : mem o CLOSES = true ->
  N.eqb o QUOTE = false /\ N.eqb o APOS = false /\ N.eqb o LR = false /\ N.eqb o SLASH = false /\ mem o OPENS = false.
Proof.
  unfold mem, CLOSES. cbn [existsb]. rewrite !orb_true_iff. intros [H|[H|[H|H]]]; try discriminate;
    apply N.eqb_eq in H; subst; repeat split; reflexivity.
Qed.

Lemma sep_facts c : c = COMMA \/ c = SEMI ->
  N.eqb c QUOTE = false /\ N.eqb c APOS = false /\ N.eqb c LR = false /\ N.eqb c SLASH = false /\
  mem c OPENS = false /\ mem c CLOSES = false.
Proof. intros [->| ->]; repeat split; reflexivity. Qed.

(* one step of [code] on a character that is none of the literal/comment starters *)
Lemma code_step f bal total c r :
  N.eqb c QUOTE = false -> N.eqb c APOS = false -> N.eqb c LR = false -> N.eqb c SLASH = false ->
  code (S f) OPENS CLOSES bal total (c :: r) =
  if mem c OPENS then code f OPENS CLOSES (S bal) total r
  else if Nat.ltb 0 bal then code f OPENS CLOSES (if mem c CLOSES then pred bal else bal) total r
  else if N.eqb c COMMA || N.eqb c SEMI || mem c CLOSES then Stop (total - length (c :: r))
  else code f OPENS CLOSES bal total r.
Proof. intros H1 H2 H3 H4. cbn [code]. rewrite H1, H2, H3, H4. reflexivity. Qed.

Lemma inner_scan a : inner a -> forall f bal total rest,
  code (length a + f) OPENS CLOSES (S bal) total (a ++ rest) = code f OPENS CLOSES (S bal) total rest.
Proof.
  induction 1 as [|c s Hp _ IH|c s Hc _ IH|o cl a s Ho Hcl _ IHa _ IHs]; intros f bal total rest; cbn [app length Nat.add].
  - reflexivity.
  - destruct (plainb_facts c Hp) as (H1 & H2 & H3 & H4 & H5 & H6 & _).
    rewrite code_step by assumption. rewrite H5, H6. cbn [Nat.ltb Nat.leb]. apply IH.
  - destruct (sep_facts c Hc) as (H1 & H2 & H3 & H4 & H5 & H6).
    rewrite code_step by assumption. rewrite H5, H6. cbn [Nat.ltb Nat.leb]. apply IH.
  - destruct (open_facts o Ho) as (H1 & H2 & H3 & H4).
    rewrite code_step by assumption. rewrite Ho.
    rewrite <- app_assoc. rewrite app_length. cbn [length app].
    replace (length a + S (length s) + f)%nat with (length a + (S (length s + f)))%nat by lia.
    rewrite IHa.
    destruct (close_facts cl Hcl) as (C1 & C2 & C3 & C4 & C5).
    rewrite code_step by assumption. rewrite C5, Hcl. cbn [Nat.ltb Nat.leb pred]. apply IHs.
Qed.

Lemma top_scan s : top s -> forall f total term rest, terminator term ->
  code (length s + S f) OPENS CLOSES 0 total (s ++ term :: rest) = Stop (total - length (term :: rest)).
Proof.
  induction 1 as [|c s Hp _ IH|o cl a s Ho Hcl Ha _ IHs]; intros f total term rest Ht; cbn [app length Nat.add].
  - assert (T : N.eqb term QUOTE = false /\ N.eqb term APOS = false /\ N.eqb term LR = false /\ N.eqb term SLASH = false /\ mem term OPENS = false /\
                (N.eqb term COMMA || N.eqb term SEMI || mem term CLOSES = true)).
    { destruct Ht as [->|[->|H]]; [repeat split; reflexivity|repeat split; reflexivity|].
      destruct (close_facts term H) as (C1 & C2 & C3 & C4 & C5). rewrite H, orb_true_r. repeat split; assumption. }
    destruct T as (H1 & H2 & H3 & H4 & H5 & H6).
    rewrite code_step by assumption. rewrite H5, H6. reflexivity.
  - destruct (plainb_facts c Hp) as (H1 & H2 & H3 & H4 & H5 & H6 & H7 & H8).
    rewrite code_step by assumption. rewrite H5, H6, H7, H8. cbn [Nat.ltb Nat.leb orb]. apply IH. exact Ht.
  - destruct (open_facts o Ho) as (H1 & H2 & H3 & H4).
    rewrite code_step by assumption. rewrite Ho.
    rewrite <- app_assoc. rewrite app_length. cbn [length app].
    replace (length a + S (length s) + S f)%nat with (length a + (S (length s + S f)))%nat by lia.
    rewrite (inner_scan a Ha).
    destruct (close_facts cl Hcl) as (C1 & C2 & C3 & C4 & C5).
    rewrite code_step by assumption. rewrite C5, Hcl. cbn [Nat.ltb Nat.leb pred]. apply IHs. exact Ht.
Qed.

Theorem scan_balanced s term rest : top s -> terminator term -> scan (s ++ term :: rest) = Stop (length s).
Proof.
  intros Hs Ht. unfold scan. rewrite app_length. cbn [length].
  replace (S (length s + S (length rest))) with (length s + S (S (length rest)))%nat by lia.
  rewrite (top_scan s Hs _ _ term rest Ht). cbn [length]. f_equal. lia.
Qed.

(* non-vacuity: the text "f(a, [b; c]) { d }" followed by a comma *)
Example scan_example : scan [102; 40; 97; 44; 32; 91; 98; 59; 32; 99; 93; 41; 32; 123; 32; 100; 32; 125; 44; 32; 120] = Stop 18.
Proof. reflexivity. Qed.

(** * composition: code made of ordinary characters, delimiters and lexical units (literals, comments,
    lifetimes) ends at the first top-level terminator *)
Definition skips (u rest : list ch) : Prop :=
  forall f bal total, code (S f) OPENS CLOSES bal total (u ++ rest) = code f OPENS CLOSES bal total rest.

Lemma skips_string body rest : strbody body -> skips (QUOTE :: body ++ [QUOTE]) rest.
Proof.
  intros Hb f bal total. cbn [app code]. change (N.eqb QUOTE QUOTE) with true. cbv iota.
  rewrite <- app_assoc. cbn [app]. rewrite (skip_string_spec body rest Hb). reflexivity.
Qed.

Lemma skips_char c rest : c <> BSL -> rest <> [] -> skips [APOS; c; APOS] rest.
Proof.
  intros Hc Hr f bal total. cbn [app code]. change (N.eqb APOS QUOTE) with false. change (N.eqb APOS APOS) with true. cbv iota.
  cbn [skip_char_or_lifetime]. apply N.eqb_neq in Hc. rewrite Hc. change (N.eqb APOS APOS) with true. cbv iota.
  destruct rest; [congruence|reflexivity].
Qed.

Lemma until_spec body rest : ~ In APOS body -> rest <> [] ->
  (fix until (l : list ch) : option (list ch) :=
     match l with
     | [] => None
     | x :: l' => if N.eqb x APOS then (match l' with [] => None | _ => Some l' end) else until l'
     end) (body ++ APOS :: rest) = Some rest.
Proof.
  intros Hb Hr. induction body as [|x body IH]; cbn [app].
  - change (N.eqb APOS APOS) with true. cbv iota. destruct rest; [congruence|reflexivity].
  - assert (Hx : N.eqb x APOS = false) by (apply N.eqb_neq; intros E; apply Hb; left; congruence).
    rewrite Hx. apply IH. intros H. apply Hb. right. exact H.
Qed.

Lemma skips_escaped_char c body rest : ~ In APOS body -> rest <> [] -> skips (APOS :: BSL :: c :: body ++ [APOS]) rest.
Proof.
  intros Hb Hr f bal total. cbn [app code]. change (N.eqb APOS QUOTE) with false. change (N.eqb APOS APOS) with true. cbv iota.
  cbn [skip_char_or_lifetime]. change (N.eqb BSL BSL) with true. cbv iota.
  rewrite <- app_assoc. cbn [app]. rewrite (until_spec body rest Hb Hr). reflexivity.
Qed.

(* a lifetime: the character after the first letter is not an apostrophe *)
Lemma skips_lifetime c d rest : c <> BSL -> d <> APOS -> skips [APOS; c] (d :: rest).
Proof.
  intros Hc Hd f bal total. cbn [app code]. change (N.eqb APOS QUOTE) with false. change (N.eqb APOS APOS) with true. cbv iota.
  cbn [skip_char_or_lifetime]. apply N.eqb_neq in Hc. apply N.eqb_neq in Hd. rewrite Hc, Hd. reflexivity.
Qed.

Lemma take_hashes_repeat n : forall k rest, (forall t, rest <> HASH :: t) -> take_hashes (repeat HASH n ++ rest) k = ((k + n)%nat, rest).
Proof.
  induction n as [|n IH]; intros k rest Hr; cbn [repeat app].
  - destruct rest as [|c r]; cbn [take_hashes]; [f_equal; lia|].
    destruct (N.eqb_spec c HASH) as [->|_]; [exfalso; exact (Hr r eq_refl)|f_equal; lia].
  - cbn [take_hashes]. change (N.eqb HASH HASH) with true. cbv iota. rewrite IH by exact Hr. f_equal. lia.
Qed.

Lemma skips_raw n body rest : ~ In QUOTE body ->
  skips (LR :: repeat HASH n ++ QUOTE :: body ++ QUOTE :: repeat HASH n) rest.
Proof.
  intros Hb f bal total. cbn [app code]. change (N.eqb LR QUOTE) with false. change (N.eqb LR APOS) with false.
  change (N.eqb LR LR) with true. cbv iota.
  assert (Hhead : exists d t, repeat HASH n ++ QUOTE :: (body ++ QUOTE :: repeat HASH n) ++ rest = d :: t /\ (N.eqb d HASH || N.eqb d QUOTE = true)).
  { destruct n; cbn [repeat app]; eexists; eexists; split; try reflexivity; reflexivity. }
  rewrite <- app_assoc. cbn [app].
  destruct Hhead as (d & t & Eh & Hd). rewrite <- !app_assoc in Eh. cbn [app] in Eh. rewrite <- !app_assoc. cbn [app].
  rewrite Eh, Hd. rewrite <- Eh.
  unfold skip_raw_literal. rewrite (take_hashes_repeat n 0); [|intros t0 E; discriminate].
  cbn [Nat.add]. change (N.eqb QUOTE QUOTE) with true. cbv iota.
  rewrite (skip_raw_spec n body rest Hb). reflexivity.
Qed.

Lemma skips_r d rest : N.eqb d HASH = false -> N.eqb d QUOTE = false -> skips [LR] (d :: rest).
Proof.
  intros H1 H2 f bal total. cbn [app code]. change (N.eqb LR QUOTE) with false. change (N.eqb LR APOS) with false.
  change (N.eqb LR LR) with true. cbv iota. rewrite H1, H2. reflexivity.
Qed.

Lemma skip_line_spec body rest : ~ In NL body -> skip_line (body ++ NL :: rest) = NL :: rest.
Proof.
  induction body as [|c b IH]; intros Hb; cbn [app skip_line].
  - change (N.eqb NL NL) with true. reflexivity.
  - assert (Hc : N.eqb c NL = false) by (apply N.eqb_neq; intros E; apply Hb; left; congruence).
    rewrite Hc. apply IH. intros H. apply Hb. right. exact H.
Qed.

Lemma skips_line_comment body rest : ~ In NL body -> skips (SLASH :: SLASH :: body) (NL :: rest).
Proof.
  intros Hb f bal total. cbn [app code]. change (N.eqb SLASH QUOTE) with false. change (N.eqb SLASH APOS) with false.
  change (N.eqb SLASH LR) with false. change (N.eqb SLASH SLASH) with true. cbv iota.
  rewrite (skip_line_spec body rest Hb). reflexivity.
Qed.

Lemma skips_block_comment body rest : cbody body -> skips (SLASH :: STAR :: body ++ [STAR; SLASH]) rest.
Proof.
  intros Hb f bal total. cbn [app code]. change (N.eqb SLASH QUOTE) with false. change (N.eqb SLASH APOS) with false.
  change (N.eqb SLASH LR) with false. change (N.eqb SLASH SLASH) with true. change (N.eqb STAR SLASH) with false.
  change (N.eqb STAR STAR) with true. cbv iota.
  rewrite <- app_assoc. cbn [app]. rewrite (skip_block_spec body rest Hb). reflexivity.
Qed.

Lemma skips_slash d rest : N.eqb d SLASH = false -> N.eqb d STAR = false -> skips [SLASH] (d :: rest).
Proof.
  intros H1 H2 f bal total. cbn [app code]. change (N.eqb SLASH QUOTE) with false. change (N.eqb SLASH APOS) with false.
  change (N.eqb SLASH LR) with false. change (N.eqb SLASH SLASH) with true. cbv iota. rewrite H1, H2. reflexivity.
Qed.

(* code with units: [ucode inside s rest] -- s is scanned (inside delimiters or at top level) when
   followed by [rest]; units carry their side conditions on what follows them *)
Inductive ucode : bool -> list ch -> list ch -> Prop :=
| uc_nil inside rest : ucode inside [] rest
| uc_plain inside c s rest : plainb c = true -> ucode inside s rest -> ucode inside (c :: s) rest
| uc_sep c s rest : c = COMMA \/ c = SEMI -> ucode true s rest -> ucode true (c :: s) rest
| uc_unit inside u s rest : u <> [] -> skips u (s ++ rest) -> ucode inside s rest -> ucode inside (u ++ s) rest
| uc_group inside o cl a s rest : mem o OPENS = true -> mem cl CLOSES = true ->
    ucode true a (cl :: s ++ rest) -> ucode inside s rest -> ucode inside (o :: a ++ cl :: s) rest.

Lemma ucode_inner a rest : ucode true a rest -> forall bal total,
  exists n, (n <= length a)%nat /\ forall f, code (n + f) OPENS CLOSES (S bal) total (a ++ rest) = code f OPENS CLOSES (S bal) total rest.
Proof.
  intros H. remember true as inside eqn:Ei. revert Ei.
  induction H as [inside rest|inside c s rest Hp _ IH|c s rest Hc _ IH|inside u s rest Hne Hu _ IH|inside o cl a s rest Ho Hcl _ IHa _ IHs];
    intros Ei bal total.
  - exists 0%nat. split; [cbn; lia|]. intros f. reflexivity.
  - destruct (IH Ei bal total) as [n [Hb Hn]]. exists (S n). split; [cbn; lia|]. intros f. cbn [app Nat.add].
    destruct (plainb_facts c Hp) as (H1 & H2 & H3 & H4 & H5 & H6 & _).
    rewrite code_step by assumption. rewrite H5, H6. cbn [Nat.ltb Nat.leb]. apply Hn.
  - destruct (IH eq_refl bal total) as [n [Hb Hn]]. exists (S n). split; [cbn; lia|]. intros f. cbn [app Nat.add].
    destruct (sep_facts c Hc) as (H1 & H2 & H3 & H4 & H5 & H6).
    rewrite code_step by assumption. rewrite H5, H6. cbn [Nat.ltb Nat.leb]. apply Hn.
  - destruct (IH Ei bal total) as [n [Hb Hn]]. exists (S n).
    split; [rewrite app_length; destruct u; [congruence|cbn; lia]|]. intros f. cbn [Nat.add].
    rewrite <- app_assoc. rewrite (Hu (n + f)%nat (S bal) total). apply Hn.
  - destruct (IHs Ei bal total) as [ns [Hbs Hns]]. destruct (IHa eq_refl (S bal) total) as [na [Hba Hna]].
    exists (S (na + S ns)). split; [cbn [length]; rewrite app_length; cbn [length]; lia|]. intros f. cbn [app Nat.add].
    destruct (open_facts o Ho) as (H1 & H2 & H3 & H4).
    rewrite code_step by assumption. rewrite Ho.
    rewrite <- app_assoc. cbn [app].
    replace (na + S ns + f)%nat with (na + (S (ns + f)))%nat by lia. rewrite Hna.
    destruct (close_facts cl Hcl) as (C1 & C2 & C3 & C4 & C5).
    rewrite code_step by assumption. rewrite C5, Hcl. cbn [Nat.ltb Nat.leb pred]. apply Hns.
Qed.

Lemma ucode_top s : forall rest0, ucode false s rest0 -> forall term rest total, rest0 = term :: rest -> terminator term ->
  exists n, (n <= length s)%nat /\ forall f, code (n + S f) OPENS CLOSES 0 total (s ++ term :: rest) = Stop (total - length (term :: rest)).
Proof.
  intros rest0 H. remember false as inside eqn:Ei. revert Ei.
  induction H as [inside rest1|inside c s rest1 Hp _ IH|c s rest1 Hc _ IH|inside u s rest1 Hne Hu _ IH|inside o cl a s rest1 Ho Hcl Ha _ _ IHs];
    intros Ei term rest total Er Ht; subst.
  - exists 0%nat. split; [cbn; lia|]. intros f. cbn [app Nat.add].
    assert (T : N.eqb term QUOTE = false /\ N.eqb term APOS = false /\ N.eqb term LR = false /\ N.eqb term SLASH = false /\ mem term OPENS = false /\
                (N.eqb term COMMA || N.eqb term SEMI || mem term CLOSES = true)).
    { destruct Ht as [->|[->|H]]; [repeat split; reflexivity|repeat split; reflexivity|].
      destruct (close_facts term H) as (C1 & C2 & C3 & C4 & C5). rewrite H, orb_true_r. repeat split; assumption. }
    destruct T as (H1 & H2 & H3 & H4 & H5 & H6).
    rewrite code_step by assumption. rewrite H5, H6. reflexivity.
  - destruct (IH eq_refl term rest total eq_refl Ht) as [n [Hb Hn]]. exists (S n). split; [cbn; lia|]. intros f. cbn [app Nat.add].
    destruct (plainb_facts c Hp) as (H1 & H2 & H3 & H4 & H5 & H6 & H7 & H8).
    rewrite code_step by assumption. rewrite H5, H6, H7, H8. cbn [Nat.ltb Nat.leb orb]. apply Hn.
  - discriminate.
  - destruct (IH eq_refl term rest total eq_refl Ht) as [n [Hb Hn]]. exists (S n).
    split; [rewrite app_length; destruct u; [congruence|cbn; lia]|]. intros f. cbn [Nat.add].
    rewrite <- app_assoc. rewrite (Hu (n + S f)%nat 0%nat total). apply Hn.
  - destruct (IHs eq_refl term rest total eq_refl Ht) as [ns [Hbs Hns]].
    destruct (ucode_inner a _ Ha 0%nat total) as [na [Hba Hna]].
    exists (S (na + S ns)). split; [cbn [length]; rewrite app_length; cbn [length]; lia|]. intros f. cbn [app Nat.add].
    destruct (open_facts o Ho) as (H1 & H2 & H3 & H4).
    rewrite code_step by assumption. rewrite Ho.
    rewrite <- app_assoc. cbn [app].
    replace (na + S ns + S f)%nat with (na + (S (ns + S f)))%nat by lia. rewrite Hna.
    destruct (close_facts cl Hcl) as (C1 & C2 & C3 & C4 & C5).
    rewrite code_step by assumption. rewrite C5, Hcl. cbn [Nat.ltb Nat.leb pred]. apply Hns.
Qed.

Theorem scan_units s term rest : ucode false s (term :: rest) -> terminator term ->
  scan (s ++ term :: rest) = Stop (length s).
Proof.
  intros Hs Ht. unfold scan.
  destruct (ucode_top s _ Hs term rest (length (s ++ term :: rest)) eq_refl Ht) as [n [Hb Hn]].
  rewrite app_length in *. cbn [length] in *.
  replace (S (length s + S (length rest))) with (n + S (length s + S (length rest) - n))%nat by lia.
  rewrite Hn. f_equal. lia.
Qed.

(* non-vacuity: a call whose arguments are a string, a char, a raw string with one hash and an
   identifier followed by a block comment, each holding a delimiter; then a semicolon *)
Example units_example :
  let s := [102; 40; 34; 125; 34; 44; 39; 123; 39; 44; 114; 35; 34; 97; 34; 125; 34; 35; 44; 120; 47; 42; 41; 42; 47; 41] in
  scan (s ++ [59; 10]) = Stop (length s).
Proof. reflexivity. Qed.
