(** Facts about the action-code scanner model: literals and comments are skipped exactly, and code
    made of ordinary characters and nested delimiters ends at the first top-level terminator. *)
From Coq Require Import List NArith Bool Arith Lia.
From LV Require Import Tok.CodeScan.
Import ListNotations.
Local Open Scope N_scope.

(** string literals: any sequence of ordinary characters and backslash-escaped characters *)
Inductive strbody : list ch -> Prop :=
| sb_nil : strbody []
| sb_plain c b : c <> BSL -> c <> QUOTE -> strbody b -> strbody (c :: b)
| sb_esc c b : strbody b -> strbody (BSL :: c :: b).

Lemma skip_string_spec body rest : strbody body -> skip_string QUOTE false (body ++ QUOTE :: rest) = Some rest.
Proof.
  induction 1 as [|c b Hb Hq _ IH|c b _ IH]; cbn [app skip_string].
  - rewrite N.eqb_refl. reflexivity.
  - apply N.eqb_neq in Hb. apply N.eqb_neq in Hq. rewrite Hb, Hq. exact IH.
  - cbn. exact IH.
Qed.

(** raw strings: the body may hold anything but a quote; it ends at the quote followed by n hashes *)
Lemma skip_raw_hashes n rest : forall m k, (0 < m)%nat -> (k + m = n)%nat ->
  skip_raw n (S k) (repeat HASH m ++ rest) = Some rest.
Proof.
  induction m as [|m IH]; intros k Hm Hk; [lia|].
  cbn [repeat app skip_raw]. rewrite N.eqb_refl.
  change (Nat.ltb 0 (S k)) with true. cbv iota.
  change (Nat.eqb (S (S k)) 0) with false. cbn [andb].
  destruct (Nat.eqb_spec (S (S k)) (S n)) as [E|E].
  - assert (m = 0%nat) by lia. subst m. reflexivity.
  - apply IH; lia.
Qed.

Lemma skip_raw_spec n body rest : ~ In QUOTE body ->
  skip_raw n 0 (body ++ QUOTE :: repeat HASH n ++ rest) = Some rest.
Proof.
  induction body as [|c b IH]; intros Hq; cbn [app skip_raw].
  - rewrite N.eqb_refl. change (Nat.ltb 0 0) with false. cbv iota. change (Nat.eqb 0 0) with true. cbn [andb].
    destruct (Nat.eqb_spec 1 (S n)) as [E|E].
    + assert (n = 0%nat) by lia. subst n. reflexivity.
    + apply (skip_raw_hashes n rest n 0%nat); lia.
  - assert (Hc : N.eqb c QUOTE = false) by (apply N.eqb_neq; intros E; apply Hq; left; congruence).
    rewrite Hc. change (Nat.ltb 0 0) with false. cbv iota. change (Nat.eqb 0 0) with true. cbn [andb].
    change (Nat.eqb 0 (S n)) with false. cbv iota. apply IH. intros H. apply Hq. right. exact H.
Qed.

(** block comments nest *)
Inductive cbody : list ch -> Prop :=
| cb_nil : cbody []
| cb_plain c b : c <> SLASH -> c <> STAR -> cbody b -> cbody (c :: b)
| cb_nest a b : cbody a -> cbody b -> cbody (SLASH :: STAR :: a ++ STAR :: SLASH :: b).

Lemma skip_block_gen body : cbody body -> forall d rest,
  skip_block (S d) BInit (body ++ STAR :: SLASH :: rest) =
  match d with O => Some rest | S _ => skip_block d BInit rest end.
Proof.
  induction 1 as [|c b Hs Ht _ IH|a b _ IHa _ IHb]; intros d rest; cbn [app].
  - cbn. destruct d; reflexivity.
  - cbn [skip_block]. apply N.eqb_neq in Hs. apply N.eqb_neq in Ht. rewrite Hs, Ht. apply IH.
  - cbn [skip_block]. change (N.eqb SLASH STAR) with false. change (N.eqb SLASH SLASH) with true.
    change (N.eqb STAR SLASH) with false. change (N.eqb STAR STAR) with true. cbv iota.
    rewrite <- app_assoc. cbn [app]. rewrite (IHa (S d)). apply IHb.
Qed.

Lemma skip_block_spec body rest : cbody body -> skip_block 1 BInit (body ++ STAR :: SLASH :: rest) = Some rest.
Proof. intros H. apply (skip_block_gen body H 0%nat rest). Qed.

(** code without literals: ordinary characters and nested delimiters *)
Definition plainb (c : ch) : bool :=
  negb (N.eqb c QUOTE || N.eqb c APOS || N.eqb c LR || N.eqb c SLASH || mem c OPENS || mem c CLOSES || N.eqb c COMMA || N.eqb c SEMI).
Definition terminator (c : ch) : Prop := c = COMMA \/ c = SEMI \/ mem c CLOSES = true.

Inductive inner : list ch -> Prop :=
| in_nil : inner []
| in_plain c s : plainb c = true -> inner s -> inner (c :: s)
| in_sep c s : c = COMMA \/ c = SEMI -> inner s -> inner (c :: s)
| in_group o cl a s : mem o OPENS = true -> mem cl CLOSES = true -> inner a -> inner s -> inner (o :: a ++ cl :: s).
Inductive top : list ch -> Prop :=
| top_nil : top []
| top_plain c s : plainb c = true -> top s -> top (c :: s)
| top_group o cl a s : mem o OPENS = true -> mem cl CLOSES = true -> inner a -> top s -> top (o :: a ++ cl :: s).

Lemma plainb_facts c : plainb c = true ->
  N.eqb c QUOTE = false /\ N.eqb c APOS = false /\ N.eqb c LR = false /\ N.eqb c SLASH = false /\
  mem c OPENS = false /\ mem c CLOSES = false /\ N.eqb c COMMA = false /\ N.eqb c SEMI = false.
Proof.
  unfold plainb. rewrite negb_true_iff, !orb_false_iff. tauto.
Qed.

Lemma open_facts o : mem o OPENS = true ->
  N.eqb o QUOTE = false /\ N.eqb o APOS = false /\ N.eqb o LR = false /\ N.eqb o SLASH = false.
Proof.
  unfold mem, OPENS. cbn [existsb]. rewrite !orb_true_iff. intros [H|[H|[H|H]]]; try discriminate;
    apply N.eqb_eq in H; subst; repeat split; reflexivity.
Qed.

Lemma close_facts o : mem o CLOSES = true ->
  N.eqb o QUOTE = false /\ N.eqb o APOS = false /\ N.eqb o LR = false /\ N.eqb o SLASH = false /\ mem o OPENS = false.
Proof.
  unfold mem, CLOSES. cbn [existsb]. rewrite !orb_true_iff. intros [H|[H|[H|H]]]; try discriminate;
    apply N.eqb_eq in H; subst; repeat split; reflexivity.
Qed.

Lemma sep_facts c : c = COMMA \/ c = SEMI ->
  N.eqb c QUOTE = false /\ N.eqb c APOS = false /\ N.eqb c LR = false /\ N.eqb c SLASH = false /\
  mem c OPENS = false /\ mem c CLOSES = false.
Proof. intros [->| ->]; repeat split; reflexivity. Qed.

(* one step of [code] on a character that is none of the literal/comment starters *)
Lemma code_step f bal total c r :
  N.eqb c QUOTE = false -> N.eqb c APOS = false -> N.eqb c LR = false -> N.eqb c SLASH = false ->
  code (S f) OPENS CLOSES bal total (c :: r) =
  if mem c OPENS then code f OPENS CLOSES (S bal) total r
  else if Nat.ltb 0 bal then code f OPENS CLOSES (if mem c CLOSES then pred bal else bal) total r
  else if N.eqb c COMMA || N.eqb c SEMI || mem c CLOSES then Stop (total - length (c :: r))
  else code f OPENS CLOSES bal total r.
Proof. intros H1 H2 H3 H4. cbn [code]. rewrite H1, H2, H3, H4. reflexivity. Qed.

Lemma inner_scan a : inner a -> forall f bal total rest,
  code (length a + f) OPENS CLOSES (S bal) total (a ++ rest) = code f OPENS CLOSES (S bal) total rest.
Proof.
  induction 1 as [|c s Hp _ IH|c s Hc _ IH|o cl a s Ho Hcl _ IHa _ IHs]; intros f bal total rest; cbn [app length Nat.add].
  - reflexivity.
  - destruct (plainb_facts c Hp) as (H1 & H2 & H3 & H4 & H5 & H6 & _).
    rewrite code_step by assumption. rewrite H5, H6. cbn [Nat.ltb Nat.leb]. apply IH.
  - destruct (sep_facts c Hc) as (H1 & H2 & H3 & H4 & H5 & H6).
    rewrite code_step by assumption. rewrite H5, H6. cbn [Nat.ltb Nat.leb]. apply IH.
  - destruct (open_facts o Ho) as (H1 & H2 & H3 & H4).
    rewrite code_step by assumption. rewrite Ho.
    rewrite <- app_assoc. rewrite app_length. cbn [length app].
    replace (length a + S (length s) + f)%nat with (length a + (S (length s + f)))%nat by lia.
    rewrite IHa.
    destruct (close_facts cl Hcl) as (C1 & C2 & C3 & C4 & C5).
    rewrite code_step by assumption. rewrite C5, Hcl. cbn [Nat.ltb Nat.leb pred]. apply IHs.
Qed.

Lemma top_scan s : top s -> forall f total term rest, terminator term ->
  code (length s + S f) OPENS CLOSES 0 total (s ++ term :: rest) = Stop (total - length (term :: rest)).
Proof.
  induction 1 as [|c s Hp _ IH|o cl a s Ho Hcl Ha _ IHs]; intros f total term rest Ht; cbn [app length Nat.add].
  - assert (T : N.eqb term QUOTE = false /\ N.eqb term APOS = false /\ N.eqb term LR = false /\ N.eqb term SLASH = false /\ mem term OPENS = false /\
                (N.eqb term COMMA || N.eqb term SEMI || mem term CLOSES = true)).
    { destruct Ht as [->|[->|H]]; [repeat split; reflexivity|repeat split; reflexivity|].
      destruct (close_facts term H) as (C1 & C2 & C3 & C4 & C5). rewrite H, orb_true_r. repeat split; assumption. }
    destruct T as (H1 & H2 & H3 & H4 & H5 & H6).
    rewrite code_step by assumption. rewrite H5, H6. reflexivity.
  - destruct (plainb_facts c Hp) as (H1 & H2 & H3 & H4 & H5 & H6 & H7 & H8).
    rewrite code_step by assumption. rewrite H5, H6, H7, H8. cbn [Nat.ltb Nat.leb orb]. apply IH. exact Ht.
  - destruct (open_facts o Ho) as (H1 & H2 & H3 & H4).
    rewrite code_step by assumption. rewrite Ho.
    rewrite <- app_assoc. rewrite app_length. cbn [length app].
    replace (length a + S (length s) + S f)%nat with (length a + (S (length s + S f)))%nat by lia.
    rewrite (inner_scan a Ha).
    destruct (close_facts cl Hcl) as (C1 & C2 & C3 & C4 & C5).
    rewrite code_step by assumption. rewrite C5, Hcl. cbn [Nat.ltb Nat.leb pred]. apply IHs. exact Ht.
Qed.

Theorem scan_balanced s term rest : top s -> terminator term -> scan (s ++ term :: rest) = Stop (length s).
Proof.
  intros Hs Ht. unfold scan. rewrite app_length. cbn [length].
  replace (S (length s + S (length rest))) with (length s + S (S (length rest)))%nat by lia.
  rewrite (top_scan s Hs _ _ term rest Ht). cbn [length]. f_equal. lia.
Qed.

(* non-vacuity: `f(a, [b; c]) { d }` followed by `,` *)
Example scan_example : scan [102; 40; 97; 44; 32; 91; 98; 59; 32; 99; 93; 41; 32; 123; 32; 100; 32; 125; 44; 32; 120] = Stop 18.
Proof. reflexivity. Qed.
