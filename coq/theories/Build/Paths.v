(** Model of output-path resolution and file discovery (lalrpop/src/build/mod.rs: gen_resolve_file,
    lalrpop_files, process_dir; api/mod.rs: process*, in_dir/out_dir handling).
    Paths are lists of components; a file name is given as (stem, extension) split by Rust's
    Path::extension rule (done by the harness). *)
From Coq Require Import List String Bool Arith.
Import ListNotations.
Definition sapp := String.append.

Record fname := { stem : string; ext : option string; has_ws : bool }.
Definition path := list string.

Record cfg := { in_dir : option path; out_dir : option path }.

Fixpoint strip_prefix (pre p : path) : option path :=
  match pre, p with
  | [], _ => Some p
  | a :: pre', b :: p' => if String.eqb a b then strip_prefix pre' p' else None
  | _ :: _, [] => None
  end.

Definition strip_src (p : path) : path :=
  match p with
  | c :: r => if String.eqb c "src"%string then r else p
  | [] => p
  end.

Inductive rres := ROut (p : path) | RWhitespace | RPanic.

(* gen_resolve_file for extension "rs": [dir] is the parent directory of the grammar file *)
Definition resolve (c : cfg) (dir : path) (f : fname) : rres :=
  let out :=
    match out_dir c with
    | Some d =>
      match in_dir c with
      | Some i => match strip_prefix i dir with
                  | Some rel => Some (d ++ strip_src rel)
                  | None => None                      (* `.ok().unwrap()` *)
                  end
      | None => Some d
      end
    | None => Some dir
    end in
  match out with
  | None => RPanic
  | Some o => if has_ws f then RWhitespace else ROut (o ++ [sapp (stem f) ".rs"%string])
  end.

(** discovery: a directory tree with symlinks already followed and dangling links dropped, children
    in file-name order (what WalkDir::follow_links(true).sort_by_file_name() yields) *)
Inductive node := File (f : fname) | Dir (name : string) (children : list node).

Definition is_grammar (f : fname) : bool :=
  match ext f with Some e => String.eqb e "lalrpop"%string | None => false end.

Fixpoint walk (dir : path) (n : node) : list (path * fname) :=
  match n with
  | File f => if is_grammar f then [(dir, f)] else []
  | Dir name ch => (fix go (l : list node) : list (path * fname) :=
                      match l with [] => [] | x :: r => walk (dir ++ [name]) x ++ go r end) ch
  end.

(* process_dir: resolve and build each discovered file in order, stopping at the first error *)
Fixpoint process (c : cfg) (files : list (path * fname)) : list path * bool :=
  match files with
  | [] => ([], true)
  | (d, f) :: r =>
    match resolve c d f with
    | ROut o => let '(os, ok) := process c r in (o :: os, ok)
    | _ => ([], false)
    end
  end.

(** the documented forms *)
Lemma resolve_beside dir f i : has_ws f = false ->
  resolve {| in_dir := i; out_dir := None |} dir f = ROut (dir ++ [sapp (stem f) ".rs"%string]).
Proof. intros H. unfold resolve. simpl. rewrite H. reflexivity. Qed.

Lemma resolve_single_file d dir f : has_ws f = false ->
  resolve {| in_dir := None; out_dir := Some d |} dir f = ROut (d ++ [sapp (stem f) ".rs"%string]).
Proof. intros H. unfold resolve. simpl. rewrite H. reflexivity. Qed.

Lemma strip_prefix_app i rel : strip_prefix i (i ++ rel) = Some rel.
Proof. induction i as [|a i IH]; simpl; [reflexivity|]. rewrite String.eqb_refl. exact IH. Qed.

Lemma resolve_mirrors_tree d i rel f : has_ws f = false ->
  resolve {| in_dir := Some i; out_dir := Some d |} (i ++ rel) f = ROut (d ++ strip_src rel ++ [sapp (stem f) ".rs"%string]).
Proof. intros H. unfold resolve. simpl. rewrite strip_prefix_app, H, app_assoc. reflexivity. Qed.

Lemma resolve_whitespace c dir f : has_ws f = true -> resolve c dir f <> RPanic -> resolve c dir f = RWhitespace.
Proof.
  intros H. unfold resolve. destruct (out_dir c) as [d|]; [destruct (in_dir c) as [i|]; [destruct (strip_prefix i dir)|]|];
    rewrite ?H; congruence.
Qed.

(* every discovered entry is a grammar file; non-grammar files are never discovered *)
Lemma walk_only_grammars : forall n dir d f, In (d, f) (walk dir n) -> is_grammar f = true.
Proof.
  fix IH 1. intros n dir d f H. destruct n as [g|name ch]; simpl in H.
  - destruct (is_grammar g) eqn:Hg; [|destruct H]. destruct H as [H|[]]. inversion H; subst. exact Hg.
  - induction ch as [|x r IHr]; simpl in H; [destruct H|].
    apply in_app_or in H as [H|H]; [eapply IH; eauto|apply IHr; exact H].
Qed.

(* one output per processed file, in discovery order *)
Lemma process_length c : forall files os, process c files = (os, true) -> List.length os = List.length files.
Proof.
  induction files as [|[d f] r IH]; intros os H; simpl in H.
  - inversion H; reflexivity.
  - destruct (resolve c d f) as [o| |]; try discriminate.
    destruct (process c r) as [os' ok] eqn:Hp. inversion H; subst. simpl. f_equal. apply IH. reflexivity.
Qed.
