(** Model of the rebuild protocol of lalrpop/src/build/mod.rs ([process_file_into], [needs_rebuild],
    [remove_old_file], the write sequence) for one grammar file, with histories of user and build
    operations and with crashes at any byte of the output write.
    External behaviour is abstracted by section variables (never axioms): [gen] the generator
    (None = the grammar is rejected), [hash] SHA3-256 of the grammar text as the header line (assumed
    injective on the texts of a history), [ver] the version line. *)
From Coq Require Import List Bool Arith Lia.
Import ListNotations.

Section Rebuild.
Variable text : Type.                     (* grammar file contents *)
Variable byte : Type.
Variable gen : text -> option (list byte).   (* generated module without the two header lines *)
Variable hash : text -> list byte.           (* "// sha3: ..." line, without newline *)
Variable ver : list byte.                    (* "// auto-generated: ..." line *)
Variable nl : byte.
Hypothesis hash_inj : forall a b, hash a = hash b -> a = b.
Hypothesis byte_eq_dec : forall a b : list byte, {a = b} + {a <> b}.
(* header lines contain no newline *)
Hypothesis ver_no_nl : ~ In nl ver.
Hypothesis hash_no_nl : forall t, ~ In nl (hash t).

(* the complete output file for grammar text t with body b *)
Definition file_of (t : text) (b : list byte) : list byte := ver ++ nl :: hash t ++ nl :: b.

(* read_line: bytes up to and excluding the first newline (or all of them) *)
Fixpoint first_line (l : list byte) (eqnl : byte -> bool) : list byte * list byte :=
  match l with
  | [] => ([], [])
  | c :: r => if eqnl c then ([], r) else let '(a, b) := first_line r eqnl in (c :: a, b)
  end.
Variable is_nl : byte -> bool.
Hypothesis is_nl_spec : forall c, is_nl c = true <-> c = nl.

(* needs_rebuild: the first two lines of the output file against the expected header *)
Definition header_current (t : text) (f : list byte) : bool :=
  let '(l1, r1) := first_line f is_nl in
  let '(l2, _) := first_line r1 is_nl in
  (if byte_eq_dec l1 ver then true else false) && (if byte_eq_dec l2 (hash t) then true else false).

Record state := { src : text; out : option (list byte); writes : nat }.

(* process_file_into: [force || needs_rebuild] -> remove old output, generate, write *)
Definition build (force : bool) (s : state) : state :=
  let rebuild := force || match out s with None => true | Some f => negb (header_current (src s) f) end in
  if rebuild then
    match gen (src s) with
    | None => {| src := src s; out := None; writes := writes s |}           (* removed, nothing written *)
    | Some b => {| src := src s; out := Some (file_of (src s) b); writes := S (writes s) |}
    end
  else s.

Inductive op :=
| Edit (t : text)          (* edit / revert / break / fix the grammar *)
| Touch                    (* change the modification time only *)
| Build (force : bool)
| DeleteOut
| SetOut (f : list byte).  (* the user overwrites the output file *)

Definition step (s : state) (o : op) : state :=
  match o with
  | Edit t => {| src := t; out := out s; writes := writes s |}
  | Touch => s
  | Build f => build f s
  | DeleteOut => {| src := src s; out := None; writes := writes s |}
  | SetOut f => {| src := src s; out := Some f; writes := writes s |}
  end.

Lemma first_line_app_nl l r : ~ In nl l -> first_line (l ++ nl :: r) is_nl = (l, r).
Proof.
  induction l as [|c l IH]; intros Hn; simpl.
  - replace (is_nl nl) with true by (symmetry; apply is_nl_spec; reflexivity). reflexivity.
  - destruct (is_nl c) eqn:Hc.
    + apply is_nl_spec in Hc. subst c. exfalso. apply Hn. left; reflexivity.
    + rewrite IH; [reflexivity|]. intros H. apply Hn. right; exact H.
Qed.

Lemma header_of_file t t' b : header_current t (file_of t' b) = true <-> t = t'.
Proof.
  unfold header_current, file_of.
  rewrite (first_line_app_nl ver _ ver_no_nl).
  rewrite (first_line_app_nl (hash t') b (hash_no_nl t')).
  destruct (byte_eq_dec ver ver) as [_|Hn]; [|congruence]. simpl.
  destruct (byte_eq_dec (hash t') (hash t)) as [He|Hn]; split; intros H; try reflexivity.
  - symmetry. apply hash_inj. exact He.
  - discriminate.
  - subst t'. congruence.
Qed.

(** the contract of a history: the user may overwrite the output with anything whose header is not a
    valid (version, hash-of-some-text) header followed by a foreign body -- i.e. every output file
    with a current-looking header was produced by lalrpop ("hand edits to the body under an intact
    header are outside the contract") *)
Definition genuine (f : list byte) : Prop :=
  forall t, header_current t f = true -> exists b, gen t = Some b /\ f = file_of t b.

Definition op_ok (o : op) : Prop := match o with SetOut f => genuine f | _ => True end.

Definition Inv (s : state) : Prop := match out s with None => True | Some f => genuine f end.

Lemma genuine_file t b : gen t = Some b -> genuine (file_of t b).
Proof. intros Hg t' H. apply header_of_file in H. subst t'. eauto. Qed.

Lemma step_inv s o : Inv s -> op_ok o -> Inv (step s o).
Proof.
  unfold Inv. intros HI Ho. destruct o as [t| |f| |f]; simpl; auto.
  unfold build. destruct (f || _).
  - destruct (gen (src s)) as [b|] eqn:Hg; simpl; [apply genuine_file; exact Hg|exact I].
  - exact HI.
Qed.

Lemma run_inv ops : forall s, Inv s -> Forall op_ok ops -> Inv (fold_left step ops s).
Proof.
  induction ops as [|o ops IH]; intros s HI Ho; simpl; [exact HI|].
  inversion Ho; subst. apply IH; [apply step_inv; assumption|assumption].
Qed.

(** C21: after a non-forced build the output is exactly what a forced build of the current grammar
    text produces (no output if the grammar is rejected), and it is not rewritten if it already was. *)
Theorem build_current s :
  Inv s ->
  out (build false s) = out (build true s) /\
  (out s = out (build true s) -> out s <> None -> writes (build false s) = writes s).
Proof.
  unfold Inv. intros HI.
  assert (Ht : build true s = match gen (src s) with
                              | None => {| src := src s; out := None; writes := writes s |}
                              | Some b => {| src := src s; out := Some (file_of (src s) b); writes := S (writes s) |}
                              end) by reflexivity.
  destruct (out s) as [f|] eqn:Ho.
  - destruct (header_current (src s) f) eqn:Hh.
    + assert (Hf : build false s = s) by (unfold build; rewrite Ho, Hh; reflexivity).
      destruct (HI _ Hh) as (b & Hg & ->). rewrite Hf, Ht, Hg, Ho. simpl. split; auto.
    + assert (Hf : build false s = build true s) by (unfold build; rewrite Ho, Hh; reflexivity).
      rewrite Hf. split; [reflexivity|]. rewrite Ht.
      destruct (gen (src s)) as [b|] eqn:Hg; simpl.
      * intros Heq _. inversion Heq; subst f.
        rewrite (proj2 (header_of_file _ _ _) eq_refl) in Hh. discriminate.
      * intros Heq _. discriminate.
  - assert (Hf : build false s = build true s) by (unfold build; rewrite Ho; reflexivity).
    rewrite Hf. split; [reflexivity|]. intros _ H. congruence.
Qed.

Corollary history_then_build ops s0 :
  Inv s0 -> Forall op_ok ops ->
  let s := fold_left step ops s0 in
  out (build false s) = match gen (src s) with Some b => Some (file_of (src s) b) | None => None end.
Proof.
  intros HI Ho s. destruct (build_current s (run_inv ops s0 HI Ho)) as [H _]. rewrite H.
  unfold build. simpl. destruct (gen (src s)); reflexivity.
Qed.

(** C22: crashes.  Two write disciplines: [in_place] (create/truncate the output, then write header and
    body into it) and [via_temp] (write a temporary file, then rename).  A crash leaves the first n
    bytes of the file being written. *)
Definition crash_in_place (t : text) (b : list byte) (n : nat) : option (list byte) :=
  Some (firstn n (file_of t b)).
Definition crash_via_temp (t : text) (b : list byte) (n : nat) : option (list byte) := None.

(* after the temporary-file discipline, whatever the crash point, the next non-forced build is correct *)
Theorem crash_via_temp_safe s b n :
  gen (src s) = Some b ->
  let crashed := {| src := src s; out := crash_via_temp (src s) b n; writes := writes s |} in
  out (build false crashed) = Some (file_of (src s) b).
Proof. intros Hg. unfold build. simpl. rewrite Hg. reflexivity. Qed.

(* the in-place discipline is refuted: a crash right after the header leaves a file that the next
   non-forced build keeps, although it is not the complete output (for any non-empty body) *)
Theorem crash_in_place_refuted s b c :
  gen (src s) = Some (c :: b) ->
  let n := length (ver ++ nl :: hash (src s) ++ [nl]) in
  let crashed := {| src := src s; out := crash_in_place (src s) (c :: b) n; writes := writes s |} in
  out (build false crashed) <> Some (file_of (src s) (c :: b)) /\ out (build false crashed) <> None.
Proof.
  intros Hg n crashed.
  assert (Hf : firstn n (file_of (src s) (c :: b)) = ver ++ nl :: hash (src s) ++ [nl]).
  { unfold n, file_of.
    replace (ver ++ nl :: hash (src s) ++ nl :: c :: b) with ((ver ++ nl :: hash (src s) ++ [nl]) ++ c :: b).
    - rewrite firstn_app, Nat.sub_diag, firstn_all. simpl. apply app_nil_r.
    - rewrite <- !app_assoc. simpl. rewrite <- app_assoc. reflexivity. }
  assert (Hh : header_current (src s) (ver ++ nl :: hash (src s) ++ [nl]) = true).
  { change (ver ++ nl :: hash (src s) ++ [nl]) with (file_of (src s) []). apply header_of_file. reflexivity. }
  unfold build, crashed, crash_in_place. simpl. rewrite Hf, Hh. simpl. split; [|discriminate].
  intros H. inversion H as [Heq]. unfold file_of in Heq.
  apply app_inv_head in Heq. inversion Heq as [Heq2]. apply app_inv_head in Heq2. discriminate.
Qed.
End Rebuild.
