(** Model of lalrpop/src/rust/mod.rs (RustWrite: write_fmt / write_indentation / write_table_row) and
    of the comment lines the code generators emit only under emit_comments.  The rendered file is a
    list of lines, each an indentation, code characters and an optional trailing `// comment`; its
    program content ([code_of]) is the code characters with blanks removed.  The three options change
    only indentation, comments, blanks and line breaks between table cells. *)
From Coq Require Import List NArith Bool Arith.
Import ListNotations.

Record flags := { comments : bool; whitespace : bool }.
Definition default_flags := {| comments := false; whitespace := true |}.

Record line := { indent : nat; code : list N; comment : option (list N) }.

Inductive op :=
| OLine (ind : nat) (body : list N)                    (* rust!(out, "...") *)
| OComment (ind : nat) (text : list N)                 (* emitted only if emit_comments *)
| ORow (ind : nat) (cells : list (list N * list N)).   (* write_table_row: (number, comment) *)

Definition comma : N := 44%N.
Definition space : N := 32%N.
Definition is_blank (c : N) : bool := N.eqb c 32 || N.eqb c 10 || N.eqb c 9.

Definition ind_of (f : flags) (n : nat) : nat := if whitespace f then n else 0.

Fixpoint row_cells (f : flags) (first : bool) (cells : list (list N * list N)) : list N :=
  match cells with
  | [] => []
  | (i, _) :: r => (if negb first && whitespace f then [space] else []) ++ i ++ [comma] ++ row_cells f false r
  end.

Definition render_op (f : flags) (o : op) : list line :=
  match o with
  | OLine n body => [{| indent := ind_of f n; code := body; comment := None |}]
  | OComment n text => if comments f then [{| indent := ind_of f n; code := []; comment := Some text |}] else []
  | ORow n cells =>
    if comments f
    then map (fun ic => {| indent := ind_of f n; code := fst ic ++ [comma; space]; comment := Some (snd ic) |}) cells
         ++ [{| indent := 0; code := []; comment := None |}]
    else [{| indent := ind_of f n; code := row_cells f true cells; comment := None |}]
  end.

Definition render (f : flags) (ops : list op) : list line := flat_map (render_op f) ops.

(* what the Rust lexer sees: code characters, blanks dropped; indentation and comments are not code *)
Definition code_of (ls : list line) : list N :=
  flat_map (fun l => filter (fun c => negb (is_blank c)) (code l)) ls.

Lemma code_of_app a b : code_of (a ++ b) = code_of a ++ code_of b.
Proof. unfold code_of. apply flat_map_app. Qed.

Lemma filter_app' {X} (p : X -> bool) a b : filter p (a ++ b) = filter p a ++ filter p b.
Proof. induction a as [|x a IH]; simpl; [reflexivity|]. destruct (p x); simpl; congruence. Qed.

Definition nb (l : list N) : list N := filter (fun c => negb (is_blank c)) l.

Lemma nb_app a b : nb (a ++ b) = nb a ++ nb b.
Proof. apply filter_app'. Qed.

Lemma row_cells_code f : forall cells first,
  nb (row_cells f first cells) = flat_map (fun ic => nb (fst ic) ++ [comma]) cells.
Proof.
  induction cells as [|[i c] r IH]; intros first; simpl; [reflexivity|].
  rewrite nb_app, nb_app. change (comma :: row_cells f false r) with ([comma] ++ row_cells f false r).
  rewrite nb_app, IH. simpl fst.
  replace (nb (if negb first && whitespace f then [space] else [])) with (@nil N)
    by (destruct (negb first && whitespace f); reflexivity).
  simpl. rewrite <- app_assoc. reflexivity.
Qed.

Lemma row_comment_code f n cells :
  code_of (map (fun ic => {| indent := ind_of f n; code := fst ic ++ [comma; space]; comment := Some (snd ic) |}) cells
           ++ [{| indent := 0; code := []; comment := None |}])
  = flat_map (fun ic => nb (fst ic) ++ [comma]) cells.
Proof.
  rewrite code_of_app. unfold code_of at 2. simpl. rewrite app_nil_r.
  induction cells as [|[i c] r IH]; simpl; [reflexivity|].
  unfold code_of in *. simpl. rewrite IH. f_equal.
  change (filter (fun c0 : N => negb (is_blank c0)) (i ++ [comma; space])) with (nb (i ++ [comma; space])).
  rewrite nb_app. reflexivity.
Qed.

Lemma render_op_code f o : code_of (render_op f o) = code_of (render_op default_flags o).
Proof.
  destruct o as [n body|n text|n cells]; simpl.
  - reflexivity.
  - destruct (comments f); reflexivity.
  - destruct (comments f).
    + rewrite row_comment_code. unfold code_of. simpl. rewrite app_nil_r.
      fold (nb (row_cells default_flags true cells)). rewrite row_cells_code. reflexivity.
    + unfold code_of. simpl. rewrite !app_nil_r.
      fold (nb (row_cells f true cells)). fold (nb (row_cells default_flags true cells)).
      rewrite !row_cells_code. reflexivity.
Qed.

Theorem options_do_not_change_the_code f ops : code_of (render f ops) = code_of (render default_flags ops).
Proof.
  induction ops as [|o ops IH]; [reflexivity|].
  unfold render in *. simpl. rewrite !code_of_app, IH, render_op_code. reflexivity.
Qed.

(** A finer reading: what the writer is given are whole chunks (a `rust!` line, a table cell).  User
    code -- action code, use items, parameter lists -- is one chunk and may span lines, with string
    literals whose line breaks and leading blanks are part of their value.  Under every option each
    chunk reaches the file verbatim and unsplit: indentation goes in front of a whole chunk only,
    separators go between chunks only. *)
Record pline := { p_indent : nat; p_chunks : list (list N); p_comment : option (list N) }.

Definition prender_op (f : flags) (o : op) : list pline :=
  match o with
  | OLine n body => [{| p_indent := ind_of f n; p_chunks := [body]; p_comment := None |}]
  | OComment n text => if comments f then [{| p_indent := ind_of f n; p_chunks := []; p_comment := Some text |}] else []
  | ORow n cells =>
    if comments f
    then map (fun ic => {| p_indent := ind_of f n; p_chunks := [fst ic ++ [comma]]; p_comment := Some (snd ic) |}) cells
         ++ [{| p_indent := 0; p_chunks := []; p_comment := None |}]
    else [{| p_indent := ind_of f n; p_chunks := map (fun ic => fst ic ++ [comma]) cells; p_comment := None |}]
  end.
Definition prender (f : flags) (ops : list op) : list pline := flat_map (prender_op f) ops.
Definition chunks_of (ls : list pline) : list (list N) := flat_map p_chunks ls.

(* the bytes of a line: indentation, the chunks separated by one blank when whitespace is on, the comment *)
Fixpoint join_chunks (sep : list N) (cs : list (list N)) : list N :=
  match cs with
  | [] => []
  | [c] => c
  | c :: r => c ++ sep ++ join_chunks sep r
  end.
Definition slashes : list N := [47; 47; 32]%N.
Definition line_bytes (f : flags) (l : pline) : list N :=
  repeat space (p_indent l) ++ join_chunks (if whitespace f then [space] else []) (p_chunks l)
  ++ (match p_comment l with
      | Some t => (match p_chunks l with [] => [] | _ => [space] end) ++ slashes ++ t
      | None => [] end)
  ++ [10%N].
Definition file_bytes (f : flags) (ops : list op) : list N := flat_map (line_bytes f) (prender f ops).

Lemma chunks_of_app a b : chunks_of (a ++ b) = chunks_of a ++ chunks_of b.
Proof. unfold chunks_of. apply flat_map_app. Qed.

Lemma prender_op_chunks f o : chunks_of (prender_op f o) = chunks_of (prender_op default_flags o).
Proof.
  destruct o as [n body|n text|n cells]; cbn [prender_op default_flags comments].
  - reflexivity.
  - destruct (comments f); reflexivity.
  - destruct (comments f); [|reflexivity].
    rewrite chunks_of_app. unfold chunks_of. cbn [flat_map p_chunks app]. rewrite !app_nil_r.
    induction cells as [|ic r IH]; [reflexivity|]. cbn [map flat_map p_chunks app]. rewrite IH. reflexivity.
Qed.

Theorem options_keep_every_chunk_verbatim f ops : chunks_of (prender f ops) = chunks_of (prender default_flags ops).
Proof.
  induction ops as [|o ops IH]; [reflexivity|].
  unfold prender in *. cbn [flat_map]. rewrite !chunks_of_app, IH, prender_op_chunks. reflexivity.
Qed.

(* a chunk written as a plain line appears in the bytes of the file exactly as given, right after its
   indentation, whatever the options: nothing is inserted inside it *)
Lemma oline_bytes f n body : line_bytes f {| p_indent := ind_of f n; p_chunks := [body]; p_comment := None |}
  = repeat space (ind_of f n) ++ body ++ [10%N].
Proof. unfold line_bytes. cbn [p_indent p_chunks p_comment join_chunks]. rewrite app_nil_l. reflexivity. Qed.

(* non-vacuity: a chunk holding a two-line string literal keeps its inner line break and blanks *)
Example multiline_chunk_verbatim :
  let body := [34; 97; 10; 32; 32; 98; 34]%N in     (* "a\n  b" *)
  file_bytes {| comments := true; whitespace := false |} [OLine 2 body] = body ++ [10%N] /\
  file_bytes default_flags [OLine 2 body] = [32; 32]%N ++ body ++ [10%N].
Proof. split; reflexivity. Qed.
