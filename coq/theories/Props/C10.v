(** C10 — literal and regex terminals match exactly their own language.
    Coq part: a literal pattern denotes exactly its own byte string; the executable matcher decides
    the denotation.  The pipeline escape -> parse -> Display -> {:?} -> rustc literal -> parse lives in
    regex-syntax/core::fmt/rustc: it is exercised by the check (emitted pattern vs the terminal the
    user wrote), not verified; partial. *)
From Coq Require Import List NArith Bool.
From LV Require Import Lex.Regex Lex.LitProps.
Import ListNotations.

Theorem C10_literal_matches_exactly_itself : forall bs w, matches (RLit bs) w <-> w = bs.
Proof. exact lit_exact. Qed.
Print Assumptions C10_literal_matches_exactly_itself.

Theorem C10_matcher_decides_the_language : forall r w, matchb r w = true <-> matches r w.
Proof. intros; apply matchb_spec. Qed.
Print Assumptions C10_matcher_decides_the_language.
