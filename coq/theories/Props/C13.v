(** C13 — macros, repetitions and conditional alternatives expand by substitution; distinct
    instantiations never interfere. *)
From Coq Require Import List String.
From LV Require Import Norm.Macro Norm.MacroProps Norm.MacroClosed.
Import ListNotations.

(* the expansion cache is keyed by the canonical form: two uses (macro uses, groups, repetitions,
   arbitrarily nested) share an expansion only if they are the same symbol *)
Theorem C13_cache_key_is_injective : forall s1 s2, src s1 -> src s2 -> canon s1 = canon s2 -> s1 = s2.
Proof. exact canon_injective. Qed.
Print Assumptions C13_cache_key_is_injective.

(* rewriting the arguments of a use to the nonterminals created for them does not change its key *)
Theorem C13_key_stable_under_replacement : forall s x, canon (fst (replace s x)) = canon s.
Proof. exact replace_canon. Qed.
Print Assumptions C13_key_stable_under_replacement.

(* the repair was needed: with `!` printed as the word `error`, M<!> and M<error> had one key *)
Theorem C13_unrepaired_key_collision : forall debug,
  SMacro "M" [SError] <> SMacro "M" [SId "error"] /\
  fold_right (fun t acc => (tok_str_unrepaired debug t ++ acc)%string) ""%string (canon (SMacro "M" [SError])) =
  fold_right (fun t acc => (tok_str_unrepaired debug t ++ acc)%string) ""%string (canon (SMacro "M" [SId "error"])).
Proof. exact unrepaired_key_collision. Qed.
Print Assumptions C13_unrepaired_key_collision.

(* X+ (X | X+ X with vec![<>] / push) derives exactly the non-empty sequences of X with the values in
   input order; X* adds the empty sequence; X? is Some/None *)
Theorem C13_plus_is_nonempty_list : forall (T V : Type) (D : list T -> V -> Prop) w l,
  plus_der T V D w l <-> l <> [] /\ exists ws, w = List.concat ws /\ Forall2 D ws l.
Proof. exact plus_der_spec. Qed.
Print Assumptions C13_plus_is_nonempty_list.
Theorem C13_star_is_list : forall (T V : Type) (D : list T -> V -> Prop) w l,
  star_der T V D w l <-> exists ws, w = List.concat ws /\ Forall2 D ws l.
Proof. exact star_der_spec. Qed.
Print Assumptions C13_star_is_list.
Theorem C13_question_is_option : forall (T V : Type) (D : list T -> V -> Prop) w o,
  opt_der T V D w o <-> match o with Some v => D w v | None => w = [] end.
Proof. exact opt_der_spec. Qed.
Print Assumptions C13_question_is_option.

(** the worklist leaves nothing unexpanded and nothing undefined: when the expansion succeeds, every
    symbol of every resulting definition is flat (no macro use, group or repetition is left; only
    <..> selections around flat symbols) and every created nonterminal it mentions is defined by one
    of the resulting definitions -- for any macro definitions and user productions that are source
    text, any regex oracle and any recursion limit *)
Theorem C13_expansion_is_closed : forall re_match defs,
  (forall n d, lookup n defs = Some d -> forall c ss, In (c, ss) (m_alts d) -> Gs ss = []) ->
  forall limit user items,
  (forall u alt, In u user -> In alt (snd u) -> Gs alt = []) ->
  expand re_match defs limit user = EOk items -> Forall (closed (keys items)) items.
Proof. exact expand_closed. Qed.
Print Assumptions C13_expansion_is_closed.
