(** C11 — lexer ambiguity.  The Coq part: the semantics in which "both match a common string" is
    judged, and the soundness of a witness: if the executable matcher accepts a string for two
    terminals then both terminals denote it.  Every positive overlap verdict of the check is such a
    kernel-checked witness.  The negative direction -- no common string -- is decided by a
    verified procedure (Lex/Disjoint.v): a [Some true] answer of [disjoint_check], computed by the
    kernel for every pair the check claims disjoint, is a theorem about the denotations. *)
From Coq Require Import List NArith Bool.
From LV Require Import Lex.Regex Lex.Disjoint.
Import ListNotations.

Theorem C11_witness_sound : forall r1 r2 w,
  matchb r1 w && matchb r2 w = true -> matches r1 w /\ matches r2 w.
Proof.
  intros r1 r2 w H. apply andb_true_iff in H as [H1 H2]. split; apply matchb_spec; assumption.
Qed.
Print Assumptions C11_witness_sound.

Theorem C11_matcher_decides_membership : forall r w, matchb r w = true <-> matches r w.
Proof. intros r w. apply matchb_spec. Qed.
Print Assumptions C11_matcher_decides_membership.

(** the negative direction: when the derivative exploration answers [Some true], every byte string
    matched by both terminals is matched by h (h = the higher-precedence terminals that would win);
    with h = RNone the two terminals have no string in common *)
Theorem C11_disjointness_check_is_sound : forall fuel r1 r2 h, disjoint_check fuel r1 r2 h = Some true ->
  forall w, Forall (fun c => (c < 256)%N) w -> matches r1 w -> matches r2 w -> matches h w.
Proof. exact disjoint_check_sound. Qed.
Print Assumptions C11_disjointness_check_is_sound.

Theorem C11_no_common_string : forall fuel r1 r2, disjoint_check fuel r1 r2 RNone = Some true ->
  forall w, Forall (fun c => (c < 256)%N) w -> ~ (matches r1 w /\ matches r2 w).
Proof. exact no_common_string. Qed.
Print Assumptions C11_no_common_string.
