(** C11 — lexer ambiguity.  The Coq part: the semantics in which "both match a common string" is
    judged, and the soundness of a witness: if the executable matcher accepts a string for two
    terminals then both terminals denote it.  Every positive overlap verdict of the check is such a
    kernel-checked witness.  (The negative direction -- no common string -- is decided by an
    unverified derivative-product search; partial.) *)
From Coq Require Import List NArith Bool.
From LV Require Import Lex.Regex.
Import ListNotations.

Theorem C11_witness_sound : forall r1 r2 w,
  matchb r1 w && matchb r2 w = true -> matches r1 w /\ matches r2 w.
Proof.
  intros r1 r2 w H. apply andb_true_iff in H as [H1 H2]. split; apply matchb_spec; assumption.
Qed.
Print Assumptions C11_witness_sound.

Theorem C11_matcher_decides_membership : forall r w, matchb r w = true <-> matches r w.
Proof. intros r w. apply matchb_spec. Qed.
Print Assumptions C11_matcher_decides_membership.
