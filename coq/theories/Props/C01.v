(** C01 — generated parsers accept exactly the language of the start symbol.
    Universal part: for ALL tables A and certificates C that pass the validator, all inputs.
    Per run, `valid A C = true` is kernel-checked for the tables lalrpop actually generated. *)
From Coq Require Import List ZArith.
From LV Require Import LR.Driver LR.Validator LR.Soundness LR.Completeness LR.Main.
Import ListNotations.

(* Ok is returned exactly on the yields of derivation trees of the start symbol *)
Theorem C01_accepts_exactly_the_language : forall A C,
  valid A C = true -> uses_recovery A = false ->
  forall w, Forall (tok_in_range A) w ->
  (sentence A w <-> exists fuel v s, drive A no_fail fuel (map IOk w) = (ROk v, s)).
Proof. exact parse_ok_iff. Qed.
Print Assumptions C01_accepts_exactly_the_language.

(* soundness, for any action oracle: an Ok result is a derivation tree of the input *)
Theorem C01_sound : forall A C, valid A C = true -> uses_recovery A = false ->
  forall orc fuel w v s, Forall (tok_in_range A) w ->
  drive A orc fuel (map IOk w) = (ROk v, s) ->
  wfp A v (Nt (start_nt A)) /\ yield v = w /\ acts (trace s) ++ [start_prod A] = postorder v.
Proof. exact parse_ok_sound. Qed.
Print Assumptions C01_sound.

(* completeness with an explicit "every large enough step budget" *)
Theorem C01_complete : forall A C, valid A C = true -> uses_recovery A = false ->
  forall t, wfp A t (Nt (start_nt A)) ->
  exists n, forall fuel, n <= fuel -> exists s, drive A no_fail fuel (map IOk (yield t)) = (ROk t, s).
Proof. intros A C Hv _. exact (parse_ok_complete A C Hv). Qed.
Print Assumptions C01_complete.

(* corollary: tables that validate exist only for unambiguous grammars *)
Theorem C01_unambiguous : forall A C, valid A C = true -> uses_recovery A = false ->
  forall t1 t2, wfp A t1 (Nt (start_nt A)) -> wfp A t2 (Nt (start_nt A)) ->
  yield t1 = yield t2 -> t1 = t2.
Proof. intros A C Hv _. exact (unambiguous A C Hv). Qed.
Print Assumptions C01_unambiguous.

(** the parser decides the language: for every input there is a budget beyond which the answer is its
    derivation tree if it is a sentence and an error if it is not -- never "out of budget", never a
    panic (uses the termination theorem of C08) *)
Theorem C01_parser_decides_the_language : forall A C, valid A C = true -> uses_recovery A = false ->
  forall w, Forall (tok_in_range A) w ->
  exists n, forall fuel, n <= fuel ->
    (exists t s, drive A no_fail fuel (map IOk w) = (ROk t, s) /\ wfp A t (Nt (start_nt A)) /\ yield t = w) \/
    (exists e s, drive A no_fail fuel (map IOk w) = (RErr e, s) /\ ~ sentence A w).
Proof. exact parser_decides. Qed.
Print Assumptions C01_parser_decides_the_language.
