(** C05 — expected-token lists.
    Proved here for ANY tables (no recovery): every expected list the parser reports has no
    duplicates and only names terminals below tn_names (= |__TERMINAL|), hence never the error
    pseudo-terminal whose column is tn_names; the list is in table order.
    Proved for validated, productive tables: every listed terminal is a viable continuation -- the
    consumed prefix followed by any token of that terminal is a prefix of some sentence (the accepts
    simulation mirrors real reductions that leave the consumed input unchanged and end in a state
    that shifts the terminal; a shift is justified by an item, which is completed to a sentence).
    Not proved (partial): completeness of the list for canonical LR(1); the check decides it per run
    with an independent Earley oracle. *)
From Coq Require Import List ZArith Lia.
From LV Require Import LR.Driver LR.Validator LR.ErrorPos LR.Completeness LR.Main LR.NoPanic LR.Termination LR.TerminationRec LR.ExpectedExact.
Import ListNotations.

Theorem C05_expected_nodup_no_error_terminal : forall A orc fuel w s,
  uses_recovery A = false ->
  (forall k exp, drive A orc fuel (map IOk w) = (RErr (PUnrecTok k exp), s) ->
     NoDup exp /\ forall x, In x exp -> x < tn_names A) /\
  (forall loc exp, drive A orc fuel (map IOk w) = (RErr (PUnrecEof loc exp), s) ->
     NoDup exp /\ forall x, In x exp -> x < tn_names A).
Proof.
  intros A orc fuel w s Hn. split; intros a exp H.
  - eapply proj2. eapply unrecognized_token_position; eauto.
  - eapply proj2. eapply unrecognized_eof_position; eauto.
Qed.
Print Assumptions C05_expected_nodup_no_error_terminal.

(* an expected list is exactly the filter of 0..tn_names-1 by the accepts simulation on the
   current state stack: this is what ties the list to the automaton *)
Theorem C05_expected_is_accepts_filter : forall A fuel l n i L,
  expected_go A fuel l i n = EList L ->
  forall x, In x L -> i <= x < i + n /\ accepts A fuel l (Some x) = ATrue.
Proof.
  intros A fuel l. induction n as [|n IH]; intros i L H x Hx; simpl in H.
  - inversion H; subst. destruct Hx.
  - destruct (accepts A fuel l (Some i)) eqn:Ha; try discriminate.
    + destruct (expected_go A fuel l (S i) n) as [L'| |] eqn:HL; try discriminate.
      inversion H; subst. destruct Hx as [<-|Hx].
      * split; [lia|exact Ha].
      * destruct (IH (S i) L' HL x Hx) as [Hr Hacc]. split; [lia|exact Hacc].
    + destruct (IH (S i) L H x Hx) as [Hr Hacc]. split; [lia|exact Hacc].
Qed.
Print Assumptions C05_expected_is_accepts_filter.

(* the statement of C05: listed terminals are valid continuations of the consumed input *)
Theorem C05_expected_terminals_are_viable_continuations : forall A C, valid A C = true -> uses_recovery A = false ->
  productive A C = true ->
  forall orc fuel w s, Forall (tok_in_range A) w ->
  (forall k exp, drive A orc fuel (map IOk w) = (RErr (PUnrecTok k exp), s) ->
     exists u v, w = u ++ k :: v /\ npulled s = S (length u) /\
       forall x kx, In x exp -> tk_idx kx = Some x -> exists v', sentence A (u ++ [kx] ++ v')) /\
  (forall loc exp, drive A orc fuel (map IOk w) = (RErr (PUnrecEof loc exp), s) ->
     forall x kx, In x exp -> tk_idx kx = Some x -> exists v', sentence A (w ++ [kx] ++ v')).
Proof.
  intros A C Hv Hn Hp orc fuel w s Hw. split.
  - intros k exp H. destruct (consumed_prefix_is_viable A C Hv Hn orc fuel w k exp s Hp Hw H) as (u & v & H1 & H2 & _ & H3).
    exists u, v. repeat split; assumption.
  - intros loc exp H. exact (expected_at_eof_are_viable A C Hv Hn orc fuel w loc exp s Hp Hw H).
Qed.
Print Assumptions C05_expected_terminals_are_viable_continuations.

(** completeness, for the automaton: [Shiftable A (Some x) l] (LR/TerminationRec.v) says that from the
    state vector l the reductions triggered by the lookahead x end in a shift of x.  On validated
    tables the list reported with an UnrecognizedToken / UnrecognizedEof error is EXACTLY the set of
    terminals x for which this holds in the configuration where the error is reported: nothing the
    parser would accept next is missing, nothing else is listed.  (For a canonical LR(1) automaton that
    set is the set of valid continuations; for merged-state automata it is what the automaton can
    still accept after the reductions it has already made.) *)
Theorem C05_expected_list_is_exactly_what_the_parser_would_shift : forall A C,
  shape A C = true -> exact A C = true -> uses_recovery A = false ->
  forall orc fuel w r s exp,
  Forall (fun k => match tk_idx k with Some t => t < tn_names A | None => True end) w ->
  drive A orc fuel (map IOk w) = (r, s) -> is_unrec r exp ->
  forall x, x < tn_names A -> (In x exp <-> Shiftable A (Some x) (states_of (stk s))).
Proof. exact expected_list_is_exact. Qed.
Print Assumptions C05_expected_list_is_exactly_what_the_parser_would_shift.
