(** C05 *)
From Coq Require Import List.
