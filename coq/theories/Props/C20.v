(** C20 — code generation is deterministic.  Partial: the theorem is the batch/order independence of
    the directory run on the build model (per-file function, fresh state per file).  That the
    generator itself is a function of the grammar text -- no dependence on hash-map iteration order
    (per-process seeds) -- is decided per run by byte comparison across fresh processes and batches. *)
From Coq Require Import List.
From LV Require Import Build.Determinism.

Theorem C20_batch_independent : forall (file text bytes : Type) (read : file -> text) (gen : text -> option bytes)
  f files1 files2 r1 r2,
  In (f, r1) (process_dir file text bytes read gen files1) ->
  In (f, r2) (process_dir file text bytes read gen files2) -> r1 = r2.
Proof. exact batch_independent. Qed.
Print Assumptions C20_batch_independent.

Theorem C20_order_independent : forall (file text bytes : Type) (read : file -> text) (gen : text -> option bytes)
  files1 files2, (forall f, In f files1 <-> In f files2) ->
  forall x, In x (process_dir file text bytes read gen files1) <-> In x (process_dir file text bytes read gen files2).
Proof. exact order_independent. Qed.
Print Assumptions C20_order_independent.
