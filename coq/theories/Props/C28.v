(** C28 — ParseError helpers transform and display errors as documented.
    Only statements, [exact] of the proved lemma, and [Print Assumptions]. *)
From Coq Require Import List String.
From LV Require Import Rt.ParseError Rt.ParseErrorProofs.
Import ListNotations.
Local Open Scope string_scope.

(* map_location applies f to every location (both span ends, start first) and leaves
   variant, token, user error and expected list alone *)
Theorem C28_map_location : forall {L T E LL} (f : L -> LL) (x : perr L T E),
  tag (map_location f x) = tag x /\
  locations (map_location f x) = map f (locations x) /\
  token_of (map_location f x) = token_of x /\
  error_of (map_location f x) = error_of x /\
  expected_of (map_location f x) = expected_of x.
Proof. exact @map_location_obs. Qed.
Print Assumptions C28_map_location.

(* the FnMut closure is called exactly once per location, in field order *)
Theorem C28_map_location_call_order :
  forall {L T E LL S} (op : S -> L -> LL * S) st (x : perr L T E),
  let r := map_location_st op st x in
  (locations (fst r), snd r) = thread op st (locations x) /\
  tag (fst r) = tag x /\ token_of (fst r) = token_of x /\
  error_of (fst r) = error_of x /\ expected_of (fst r) = expected_of x.
Proof. exact @map_location_st_order. Qed.
Print Assumptions C28_map_location_call_order.

Theorem C28_map_token : forall {L T E TT} (f : T -> TT) (x : perr L T E),
  tag (map_token f x) = tag x /\
  locations (map_token f x) = locations x /\
  token_of (map_token f x) = option_map f (token_of x) /\
  error_of (map_token f x) = error_of x /\
  expected_of (map_token f x) = expected_of x.
Proof. exact @map_token_obs. Qed.
Print Assumptions C28_map_token.

Theorem C28_map_error : forall {L T E EE} (f : E -> EE) (x : perr L T E),
  tag (map_error f x) = tag x /\
  locations (map_error f x) = locations x /\
  token_of (map_error f x) = token_of x /\
  error_of (map_error f x) = option_map f (error_of x) /\
  expected_of (map_error f x) = expected_of x.
Proof. exact @map_error_obs. Qed.
Print Assumptions C28_map_error.

(* observations determine the value, so the five clauses above pin the result completely *)
Theorem C28_observations_complete : forall {L T E} (x y : perr L T E),
  tag x = tag y -> locations x = locations y -> token_of x = token_of y ->
  error_of x = error_of y -> expected_of x = expected_of y -> x = y.
Proof. exact @obs_inj. Qed.
Print Assumptions C28_observations_complete.

Theorem C28_display : forall {L T E} (showL : L -> string) (showT : T -> string)
    (showE : E -> string) (x : perr L T E),
  display showL showT showE x =
  match x with
  | User e => showE e
  | InvalidToken l => "Invalid token at " ++ showL l
  | UnrecognizedEof l exp => "Unrecognized EOF found at " ++ showL l ++ expected_doc exp
  | UnrecognizedToken s t e exp =>
      "Unrecognized token `" ++ showT t ++ "` found at " ++ showL s ++ ":" ++ showL e
      ++ expected_doc exp
  | ExtraToken s t e => "Extra token " ++ showT t ++ " found at " ++ showL s ++ ":" ++ showL e
  end.
Proof. exact @display_doc. Qed.
Print Assumptions C28_display.

(* the documented list form: nothing for an empty list; otherwise a newline, then
   "Expected one of a", then ", m" for every middle entry, then " or z" for the last *)
Theorem C28_expected_form : forall l : list string,
  fmt_expected l =
  match l with
  | [] => ""
  | a :: r => nl ++ "Expected one of " ++ a ++
      match rev r with
      | [] => ""
      | z :: rmid => comma_items (rev rmid) ++ " or " ++ z
      end
  end.
Proof. exact fmt_expected_doc. Qed.
Print Assumptions C28_expected_form.

Theorem C28_from : forall {L T E} (e : E), @from_error L T E e = User e.
Proof. exact @from_error_obs. Qed.
Print Assumptions C28_from.
