(** C07 — table-driven and recursive-ascent parsers give identical results.
    Both generated back ends are tied to ONE model (LR/Driver.v, expected lists erased) by the
    correspondence check on compiled parsers; what the model guarantees makes the common result
    unique: an Ok value is the unique derivation tree of the input, a syntax error is reported at
    the token reached (C04), stream/action errors are returned verbatim (C17). *)
From Coq Require Import List ZArith.
From LV Require Import LR.Driver LR.Validator LR.Soundness LR.Completeness LR.Main.
Import ListNotations.

(* any two sound parsers agree on accepted inputs: the derivation tree of an input is unique *)
Theorem C07_ok_value_is_determined_by_the_input : forall A C, valid A C = true ->
  forall v1 v2, wfp A v1 (Nt (start_nt A)) -> wfp A v2 (Nt (start_nt A)) ->
  yield v1 = yield v2 -> v1 = v2.
Proof. intros A C Hv. exact (unambiguous A C Hv). Qed.
Print Assumptions C07_ok_value_is_determined_by_the_input.

(* the table-driven side returns exactly that tree, for every oracle that lets the run finish *)
Theorem C07_table_side_returns_it : forall A C, valid A C = true -> uses_recovery A = false ->
  forall orc fuel w v s, Forall (tok_in_range A) w ->
  drive A orc fuel (map IOk w) = (ROk v, s) -> wfp A v (Nt (start_nt A)) /\ yield v = w.
Proof.
  intros A C Hv Hn orc fuel w v s Hw H.
  destruct (parse_ok_sound A C Hv Hn orc fuel w v s Hw H) as (H1 & H2 & _). auto.
Qed.
Print Assumptions C07_table_side_returns_it.
