(** C12 — precedence/assoc annotations yield the documented tiered grammar. *)
From Coq Require Import List Arith.
From LV Require Import Norm.Prec Norm.PrecProps.
Import ListNotations.

(* inheritance: an alternative without `precedence` takes the previous level and associativity, a new
   `precedence` resets the associativity to `all`, an own `assoc` always wins *)
Theorem C12_inheritance : forall ll la a r,
  resolve ll la (a :: r) =
  let lvl := match p_prec a with Some l => l | None => ll end in
  let asc := match p_assoc a with
             | Some x => x
             | None => match p_prec a with Some _ => AAll | None => la end
             end in
  (lvl, asc, p_syms a) :: resolve lvl asc r.
Proof. intros ll la a r. cbn [resolve]. destruct (p_prec a); reflexivity. Qed.
Print Assumptions C12_inheritance.

(* the tiers are the distinct effective levels in increasing order, whatever the numbering *)
Theorem C12_levels : forall ras,
  increasing (levels ras) /\ forall l, In l (levels ras) <-> exists x, In x ras /\ fst (fst x) = l.
Proof. intros ras. split; [apply levels_increasing|intros l; apply levels_in]. Qed.
Print Assumptions C12_levels.

(* the substitution passes (OneThen/Every, forward/backward) compute the documented tiered grammar:
   in an alternative of level l every recursive occurrence denotes the next tighter tier, except the
   first one for `left`, the last one for `right`, all of them for `all`, none for `none`; each tier
   also falls through to the next tighter one *)
Theorem C12_expansion_is_the_documented_tiers : forall alts r, expand alts = Ok r -> r = spec_expand alts.
Proof. exact expand_is_tiered. Qed.
Print Assumptions C12_expansion_is_the_documented_tiers.

(* the expansion is total on what validate_precedence accepts *)
Theorem C12_expansion_defined_when_validated : forall alts, prevalid alts -> exists r, expand alts = Ok r.
Proof. exact prevalid_no_panic. Qed.
Print Assumptions C12_expansion_defined_when_validated.
