(** C24 — formatting options do not change the generated program.
    Model level: rendering the same sequence of writer operations under any combination of
    emit_comments / emit_whitespace yields the same code characters (blanks dropped) as the default;
    comments, indentation, blanks and line breaks between table cells are all that differs.  That the
    generators issue the same operation sequence under all options, and that equal code characters mean
    equal Rust tokens for the emitted forms, is decided per run by lexing the real outputs of all 8
    option combinations (partial). *)
From Coq Require Import List NArith.
From LV Require Import Build.RustWrite.
Import ListNotations.

Theorem C24_options_do_not_change_the_code : forall f ops,
  code_of (render f ops) = code_of (render default_flags ops).
Proof. exact options_do_not_change_the_code. Qed.
Print Assumptions C24_options_do_not_change_the_code.

(* chunk level: every chunk handed to the writer (a generated line, a table cell, a piece of user code
   spanning several lines with its string literals) reaches the file verbatim and unsplit under every
   option; indentation precedes whole chunks only *)
Theorem C24_options_keep_every_chunk_verbatim : forall f ops,
  chunks_of (prender f ops) = chunks_of (prender default_flags ops).
Proof. exact options_keep_every_chunk_verbatim. Qed.
Print Assumptions C24_options_keep_every_chunk_verbatim.

Theorem C24_plain_line_bytes : forall f n body,
  line_bytes f {| p_indent := ind_of f n; p_chunks := [body]; p_comment := None |} = repeat space (ind_of f n) ++ body ++ [10%N].
Proof. exact oline_bytes. Qed.
Print Assumptions C24_plain_line_bytes.
