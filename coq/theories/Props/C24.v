(** C24 — formatting options do not change the generated program.
    Model level: rendering the same sequence of writer operations under any combination of
    emit_comments / emit_whitespace yields the same code characters (blanks dropped) as the default;
    comments, indentation, blanks and line breaks between table cells are all that differs.  That the
    generators issue the same operation sequence under all options, and that equal code characters mean
    equal Rust tokens for the emitted forms, is decided per run by lexing the real outputs of all 8
    option combinations (partial). *)
From Coq Require Import List NArith.
From LV Require Import Build.RustWrite.
Import ListNotations.

Theorem C24_options_do_not_change_the_code : forall f ops,
  code_of (render f ops) = code_of (render default_flags ops).
Proof. exact options_do_not_change_the_code. Qed.
Print Assumptions C24_options_do_not_change_the_code.
