(** C09 — the built-in lexer tokenizes by longest match with documented precedence. *)
From Coq Require Import List NArith Arith.
From LV Require Import Lex.Regex Lex.LexModel Lex.LexProps Lex.TokenOrder.
Import ListNotations.

(* one call of the matcher at a position picks the longest prefix matched by any pattern, and among
   the patterns matching exactly that prefix the one with the largest table index *)
Theorem C09_longest_match_largest_index : forall pats text len idx,
  pick pats text = Some (len, idx) ->
  len <= length text /\ idx < length pats /\
  matches (pat pats idx) (firstn len text) /\
  (forall j L, j < length pats -> len < L -> L <= length text -> ~ matches (pat pats j) (firstn L text)) /\
  (forall j, idx < j -> j < length pats -> ~ matches (pat pats j) (firstn len text)).
Proof. exact pick_longest_max. Qed.
Print Assumptions C09_longest_match_largest_index.

(* nothing matches at a position => no pattern matches any prefix there (InvalidToken) *)
Theorem C09_invalid_means_nothing_matches : forall pats text,
  pick pats text = None ->
  forall j L, j < length pats -> L <= length text -> ~ matches (pat pats j) (firstn L text).
Proof. exact pick_none. Qed.
Print Assumptions C09_invalid_means_nothing_matches.

(* Matcher::next: the token returned is the pick at the position reached by skipping non-empty skip
   matches; its span is [start, start+len) in bytes; InvalidToken is reported at the first position
   where nothing matches (or only an empty skip match exists); skipped text yields no token *)
Theorem C09_next_token : forall fuel pats text consumed r text' c',
  lex_next pats fuel text consumed = (r, text', c') ->
  match r with
  | LTok start idx len =>
      exists t0, skips pats text consumed t0 start /\ t0 <> [] /\ 0 < len /\
                 pick pats t0 = Some (len, idx) /\ snd (nth idx pats (RNone, false)) = false /\
                 text' = skipn len t0 /\ c' = start + len
  | LInvalid loc =>
      exists t0, skips pats text consumed t0 loc /\ t0 <> [] /\
                 (pick pats t0 = None \/ exists idx, pick pats t0 = Some (0, idx))
  | LEnd => skips pats text consumed [] c'
  | LFuel => True
  end.
Proof. exact lex_next_spec. Qed.
Print Assumptions C09_next_token.

(* documented precedence: earlier rung beats later rung; in a rung a quoted literal beats a regex *)
Theorem C09_earlier_rung_wins : forall n e1 e2,
  e_rung e1 < e_rung e2 -> e_rung e2 <= n -> prec n e2 < prec n e1.
Proof. exact earlier_rung_wins. Qed.
Print Assumptions C09_earlier_rung_wins.
Theorem C09_literal_beats_regex : forall n e1 e2,
  e_rung e1 = e_rung e2 -> e_lit e1 = true -> e_lit e2 = false -> prec n e2 < prec n e1.
Proof. exact literal_beats_regex. Qed.
Print Assumptions C09_literal_beats_regex.

(* in a table sorted by precedence (what lalrpop emits; checked per run), the token chosen has the
   highest precedence among all patterns matching the longest prefix *)
Theorem C09_winner_has_highest_precedence : forall n ents pats text len idx j,
  length ents = length pats -> sorted_by_prec n ents = true ->
  pick pats text = Some (len, idx) -> j < length pats ->
  matches (pat pats j) (firstn len text) ->
  prec n (nth j ents {| e_rung := 0; e_lit := false |}) <= prec n (nth idx ents {| e_rung := 0; e_lit := false |}).
Proof. exact winner_has_highest_precedence. Qed.
Print Assumptions C09_winner_has_highest_precedence.
