(** C23 — each grammar file maps to exactly one output at the documented path. *)
From Coq Require Import List String Bool.
From LV Require Import Build.Paths.
Import ListNotations.

Theorem C23_beside_the_input_without_out_dir : forall dir f i, has_ws f = false ->
  resolve {| in_dir := i; out_dir := None |} dir f = ROut (dir ++ [sapp (stem f) ".rs"%string]).
Proof. exact resolve_beside. Qed.
Print Assumptions C23_beside_the_input_without_out_dir.

Theorem C23_single_file_goes_directly_into_out_dir : forall d dir f, has_ws f = false ->
  resolve {| in_dir := None; out_dir := Some d |} dir f = ROut (d ++ [sapp (stem f) ".rs"%string]).
Proof. exact resolve_single_file. Qed.
Print Assumptions C23_single_file_goes_directly_into_out_dir.

Theorem C23_out_dir_mirrors_in_dir_minus_leading_src : forall d i rel f, has_ws f = false ->
  resolve {| in_dir := Some i; out_dir := Some d |} (i ++ rel) f = ROut (d ++ strip_src rel ++ [sapp (stem f) ".rs"%string]).
Proof. exact resolve_mirrors_tree. Qed.
Print Assumptions C23_out_dir_mirrors_in_dir_minus_leading_src.

Theorem C23_whitespace_names_are_rejected : forall c dir f,
  has_ws f = true -> resolve c dir f <> RPanic -> resolve c dir f = RWhitespace.
Proof. exact resolve_whitespace. Qed.
Print Assumptions C23_whitespace_names_are_rejected.

Theorem C23_only_grammar_files_are_discovered : forall n dir d f,
  In (d, f) (walk dir n) -> is_grammar f = true.
Proof. exact walk_only_grammars. Qed.
Print Assumptions C23_only_grammar_files_are_discovered.

Theorem C23_one_output_per_processed_file : forall c files os,
  process c files = (os, true) -> List.length os = List.length files.
Proof. exact process_length. Qed.
Print Assumptions C23_one_output_per_processed_file.
