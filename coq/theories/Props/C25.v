(** C25 — generated code is hygienic. *)
From Coq Require Import List Ascii.
From LV Require Import Norm.Hygiene.
Import ListNotations.

(* the prefix search always ends, with a run of at least two underscores *)
Theorem C25_prefix_search_terminates : forall input, exists q, prefix_of input = Some q.
Proof. exact prefix_exists. Qed.
Print Assumptions C25_prefix_search_terminates.

Theorem C25_prefix_is_underscores : forall input q, prefix_of input = Some q ->
  Forall (fun c => c = us) q /\ 2 <= length q.
Proof.
  intros input q H. unfold prefix_of in H.
  destruct (find_prefix_shape _ _ [us; us] q ltac:(repeat constructor) H) as [H1 H2].
  split; [exact H1|exact H2].
Qed.
Print Assumptions C25_prefix_is_underscores.

(* nothing that occurs in the grammar text -- in particular no user identifier, whatever it was
   renamed to -- equals a name built from the prefix *)
Theorem C25_prefixed_names_are_fresh : forall input q, prefix_of input = Some q ->
  forall before u after suffix, input = before ++ u ++ after -> u <> q ++ suffix.
Proof. exact generated_names_are_fresh. Qed.
Print Assumptions C25_prefixed_names_are_fresh.
