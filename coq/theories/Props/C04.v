(** C04 — syntax errors are reported at the first token that cannot continue the input.
    Proved here (grammars without recovery):
      - the error token is the input token at the position reached, with its own index, id and
        span, and exactly the tokens up to and including it were read (ANY tables);
      - UnrecognizedEof is raised only after the whole input was read and carries the end of the
        last token, or the default location 0 for the empty input (ANY tables);
      - ExtraToken is never returned (validated tables);
    Not proved yet (partial): that the consumed prefix is viable and that the error token is the
    FIRST non-viable one (viable-prefix invariant + locality of runs).  The check decides that
    clause per run with an independent Earley oracle on every explored input. *)
From Coq Require Import List ZArith.
From LV Require Import LR.Driver LR.Validator LR.Soundness LR.Completeness LR.ErrorPos LR.Main.
Import ListNotations.

Theorem C04_error_token_is_the_token_reached : forall A orc fuel w k exp s,
  uses_recovery A = false ->
  drive A orc fuel (map IOk w) = (RErr (PUnrecTok k exp), s) ->
  exists u v, w = u ++ k :: v /\ npulled s = S (length u).
Proof. intros. eapply proj1. eapply unrecognized_token_position; eauto. Qed.
Print Assumptions C04_error_token_is_the_token_reached.

Theorem C04_eof_error_after_whole_input : forall A orc fuel w loc exp s,
  uses_recovery A = false ->
  drive A orc fuel (map IOk w) = (RErr (PUnrecEof loc exp), s) ->
  npulled s = length w /\ loc = last_hi w.
Proof. intros. eapply proj1. eapply unrecognized_eof_position; eauto. Qed.
Print Assumptions C04_eof_error_after_whole_input.

Theorem C04_never_extra_token : forall A C, valid A C = true -> uses_recovery A = false ->
  forall orc fuel w k s, Forall (tok_in_range A) w ->
  drive A orc fuel (map IOk w) <> (RErr (PExtra k), s).
Proof. exact no_extra_token. Qed.
Print Assumptions C04_never_extra_token.

