(** C04 *)
From Coq Require Import List.
