(** C04 — syntax errors are reported at the first token that cannot continue the input.
    Proved here (grammars without recovery):
      - the error token is the input token at the position reached, with its own index, id and
        span, and exactly the tokens up to and including it were read (ANY tables);
      - UnrecognizedEof is raised only after the whole input was read and carries the end of the
        last token, or the default location 0 for the empty input (ANY tables);
      - ExtraToken is never returned (validated tables);
      - the prefix that ends in the error token is NOT a prefix of any sentence, and an input
        answered with UnrecognizedEof is not a sentence (validated tables; by completeness, fuel
        monotonicity and locality of runs);
      - with a productive grammar (certificate ranks, kernel-checked per table) the prefix consumed
        BEFORE the error token is a prefix of a sentence: the reported token is the FIRST one that
        cannot continue the input (viable-prefix invariant over the run).
    Still decided per run by the independent Earley oracle: the converse direction for
    UnrecognizedEof (if every prefix is viable and the input is not a sentence the error is
    UnrecognizedEof) follows from these statements only together with termination (C08). *)
From Coq Require Import List ZArith.
From LV Require Import LR.Driver LR.Validator LR.Soundness LR.Completeness LR.ErrorPos LR.Locality LR.Main.
Import ListNotations.

Theorem C04_error_token_is_the_token_reached : forall A orc fuel w k exp s,
  uses_recovery A = false ->
  drive A orc fuel (map IOk w) = (RErr (PUnrecTok k exp), s) ->
  exists u v, w = u ++ k :: v /\ npulled s = S (length u).
Proof. intros. eapply proj1. eapply unrecognized_token_position; eauto. Qed.
Print Assumptions C04_error_token_is_the_token_reached.

Theorem C04_eof_error_after_whole_input : forall A orc fuel w loc exp s,
  uses_recovery A = false ->
  drive A orc fuel (map IOk w) = (RErr (PUnrecEof loc exp), s) ->
  npulled s = length w /\ loc = last_hi w.
Proof. intros. eapply proj1. eapply unrecognized_eof_position; eauto. Qed.
Print Assumptions C04_eof_error_after_whole_input.

Theorem C04_never_extra_token : forall A C, valid A C = true -> uses_recovery A = false ->
  forall orc fuel w k s, Forall (tok_in_range A) w ->
  drive A orc fuel (map IOk w) <> (RErr (PExtra k), s).
Proof. exact no_extra_token. Qed.
Print Assumptions C04_never_extra_token.


(* the prefix ending in the reported token cannot be continued to a sentence, whatever follows *)
Theorem C04_error_token_cannot_continue : forall A C, valid A C = true -> uses_recovery A = false ->
  forall fuel w k exp s,
  drive A no_fail fuel (map IOk w) = (RErr (PUnrecTok k exp), s) ->
  exists u v, w = u ++ k :: v /\ npulled s = S (length u) /\ forall v', ~ sentence A (u ++ k :: v').
Proof. intros A C Hv Hn. exact (error_token_cannot_continue A C Hv Hn). Qed.
Print Assumptions C04_error_token_cannot_continue.

Theorem C04_eof_error_only_on_non_sentences : forall A C, valid A C = true -> uses_recovery A = false ->
  forall fuel w loc exp s,
  drive A no_fail fuel (map IOk w) = (RErr (PUnrecEof loc exp), s) -> ~ sentence A w.
Proof. intros A C Hv Hn. exact (eof_error_not_a_sentence A C Hv Hn). Qed.
Print Assumptions C04_eof_error_only_on_non_sentences.

(* an error result does not depend on the fuel once it is reached *)
Theorem C04_result_is_fuel_independent : forall A orc, uses_recovery A = false ->
  forall f input r s, drive A orc f input = (r, s) -> r <> RFuel -> forall f', f <= f' -> drive A orc f' input = (r, s).
Proof. intros A orc Hn. exact (drive_mono A Hn orc). Qed.
Print Assumptions C04_result_is_fuel_independent.

(* the whole clause: the reported token is the first one that cannot continue the input *)
Theorem C04_error_at_first_non_viable_token : forall A C, valid A C = true -> uses_recovery A = false ->
  productive A C = true ->
  forall fuel w k exp s, Forall (tok_in_range A) w ->
  drive A no_fail fuel (map IOk w) = (RErr (PUnrecTok k exp), s) ->
  exists u v, w = u ++ k :: v /\ npulled s = S (length u) /\
              (exists v', sentence A (u ++ v')) /\ (forall v', ~ sentence A (u ++ k :: v')).
Proof. intros A C Hv Hn Hp fuel w k exp s Hw H. exact (error_at_first_non_viable_token A C Hv Hn fuel w k exp s Hp Hw H). Qed.
Print Assumptions C04_error_at_first_non_viable_token.

(** every non-sentence is answered with an error (with C08's termination theorem: the converse that
    was missing) -- and every sentence with its tree *)
Theorem C04_every_input_is_answered : forall A C, valid A C = true -> uses_recovery A = false ->
  forall w, Forall (tok_in_range A) w ->
  exists n, forall fuel, n <= fuel ->
    (exists t s, drive A no_fail fuel (map IOk w) = (ROk t, s) /\ wfp A t (Nt (start_nt A)) /\ yield t = w) \/
    (exists e s, drive A no_fail fuel (map IOk w) = (RErr e, s) /\ ~ sentence A w).
Proof. exact parser_decides. Qed.
Print Assumptions C04_every_input_is_answered.
