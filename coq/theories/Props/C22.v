(** C22 — a crash during generation never leaves output that a later build accepts.
    Model: Build/Rebuild.v.  With the temporary-file-then-rename discipline the output path holds
    either nothing or a complete file at every crash point, so the next non-forced build regenerates
    the correct output.  The in-place discipline of the original code is refuted by a witness
    (crash right after the header): that was a genuine defect, repaired (known_findings.txt). *)
From Coq Require Import List Bool.
From LV Require Import Build.Rebuild.
Import ListNotations.

Theorem C22_crash_then_build_is_correct :
  forall (text byte : Type) gen hash ver (nl : byte)
    (byte_eq_dec : forall a b : list byte, {a = b} + {a <> b}) is_nl s b n,
  gen (src text byte s) = Some b ->
  let crashed := {| src := src text byte s; out := crash_via_temp text byte (src text byte s) b n; writes := writes text byte s |} in
  out text byte (build text byte gen hash ver nl byte_eq_dec is_nl false crashed) =
  Some (file_of text byte hash ver nl (src text byte s) b).
Proof. exact crash_via_temp_safe. Qed.
Print Assumptions C22_crash_then_build_is_correct.

Theorem C22_in_place_writes_refuted :
  forall (text byte : Type) gen hash ver (nl : byte)
    (hash_inj : forall a b : text, hash a = hash b -> a = b)
    (byte_eq_dec : forall a b : list byte, {a = b} + {a <> b})
    (ver_no_nl : ~ In nl ver) (hash_no_nl : forall t, ~ In nl (hash t))
    is_nl (is_nl_spec : forall c, is_nl c = true <-> c = nl) s b c,
  gen (src text byte s) = Some (c :: b) ->
  let n := length (ver ++ nl :: hash (src text byte s) ++ [nl]) in
  let crashed := {| src := src text byte s; out := crash_in_place text byte hash ver nl (src text byte s) (c :: b) n; writes := writes text byte s |} in
  out text byte (build text byte gen hash ver nl byte_eq_dec is_nl false crashed) <> Some (file_of text byte hash ver nl (src text byte s) (c :: b)) /\
  out text byte (build text byte gen hash ver nl byte_eq_dec is_nl false crashed) <> None.
Proof. exact crash_in_place_refuted. Qed.
Print Assumptions C22_in_place_writes_refuted.
