(** C06 — location tracking.  The span rule of the (table-driven) parser model, per step:
    a shifted token keeps the span the lexer supplied; a reduced nonterminal gets
    (start of its first child, end of its last child); an empty one gets the zero-width span at the
    start of the lookahead, or at end of input the end of the last symbol on the stack, or the
    default location 0 if the stack is empty.  The compiled parsers of BOTH back ends are compared
    with this rule (incl. @L/@R probes) by the check. *)
From Coq Require Import List ZArith.
From LV Require Import LR.Driver LR.Spans.
Import ListNotations.

Theorem C06_reduce_span_rule : forall A orc p la st s' t lo hi below ev,
  reduce A orc p la st = (RdCont ((s', t, lo, hi) :: below), ev) ->
  exists k, nth_error (prods A) p = Some k /\
  let popped := rev (firstn (length (snd k)) st) in
  match popped with
  | [] => lo = hi /\ lo = match la with
                          | Some l => l
                          | None => match st with e :: _ => e_hi e | [] => 0%Z end
                          end
  | e :: _ => lo = e_lo e /\ hi = e_hi (last popped e)
  end /\ ev = Some (Act p lo hi).
Proof. exact reduce_span_rule. Qed.
Print Assumptions C06_reduce_span_rule.

Theorem C06_shift_keeps_token_span : forall A orc fuel k i s m' s',
  step A orc fuel (MHave k i) s = Cont m' s' -> m' = MNeed ->
  exists target, stk s' = (target, Leaf k, tk_lo k, tk_hi k) :: stk s.
Proof. exact shift_span_rule. Qed.
Print Assumptions C06_shift_keeps_token_span.
