(** C06 — location tracking.  The span rule of the (table-driven) parser model, per step:
    a shifted token keeps the span the lexer supplied; a reduced nonterminal gets
    (start of its first child, end of its last child); an empty one gets the zero-width span at the
    start of the lookahead, or at end of input the end of the last symbol on the stack, or the
    default location 0 if the stack is empty.  The compiled parsers of BOTH back ends are compared
    with this rule (incl. @L/@R probes) by the check. *)
From Coq Require Import List ZArith.
From LV Require Import LR.Driver LR.Validator LR.Spans LR.SpanTree.
Import ListNotations.

Theorem C06_reduce_span_rule : forall A orc p la st s' t lo hi below ev,
  reduce A orc p la st = (RdCont ((s', t, lo, hi) :: below), ev) ->
  exists k, nth_error (prods A) p = Some k /\
  let popped := rev (firstn (length (snd k)) st) in
  match popped with
  | [] => lo = hi /\ lo = match la with
                          | Some l => l
                          | None => match st with e :: _ => e_hi e | [] => 0%Z end
                          end
  | e :: _ => lo = e_lo e /\ hi = e_hi (last popped e)
  end /\ ev = Some (Act p lo hi).
Proof. exact reduce_span_rule. Qed.
Print Assumptions C06_reduce_span_rule.

Theorem C06_shift_keeps_token_span : forall A orc fuel k i s m' s',
  step A orc fuel (MHave k i) s = Cont m' s' -> m' = MNeed ->
  exists target, stk s' = (target, Leaf k, tk_lo k, tk_hi k) :: stk s.
Proof. exact shift_span_rule. Qed.
Print Assumptions C06_shift_keeps_token_span.

(** the whole tree.  [SpL kids b a lo hi evs] is the documented rule stated once for a sequence of
    subtrees (LR/SpanTree.v): tokens keep the lexer's span; a node with children spans from the start
    of the first to the end of the last; a node without children sits at the start of the next input
    token, or at the end of the input at the end of the symbol to its left (b, the default 0 if none);
    evs lists the spans of all nodes in post-order.  For ANY tables without recovery the Act events
    of an accepting run (the (lo, hi) each user action is handed for its node) are those spans. *)
Theorem C06_whole_tree_spans : forall A, uses_recovery A = false -> forall orc fuel input p k ks s,
  drive A orc fuel input = (ROk (Node p (k :: ks)), s) ->
  exists evs_b evs_k b lo hi, acts3 (trace s) = evs_b ++ evs_k /\ SpL (k :: ks) b None lo hi evs_k /\
     (length (k :: ks) = length (stk s) -> b = 0%Z /\ evs_b = []).
Proof. exact whole_tree_spans. Qed.
Print Assumptions C06_whole_tree_spans.

(* on validated tables: all Act events of the run are the rule's spans of all nodes below the root,
   nothing to the left of the tree (default location 0), end of input to its right *)
Theorem C06_whole_tree_spans_on_validated_tables : forall A C,
  shape A C = true -> exact A C = true -> uses_recovery A = false ->
  forall orc fuel w p k ks s,
  Forall (fun k => match tk_idx k with Some t => t < tn_names A | None => True end) w ->
  drive A orc fuel (map IOk w) = (ROk (Node p (k :: ks)), s) ->
  exists lo hi, SpL (k :: ks) 0%Z None lo hi (acts3 (trace s)).
Proof. exact whole_tree_spans_valid. Qed.
Print Assumptions C06_whole_tree_spans_on_validated_tables.
