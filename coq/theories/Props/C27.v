(** C27 — generated parsers are reentrant and safe to share across threads (model level: every call
    owns its state; the shared parser value is never written). *)
From Coq Require Import List Arith NArith.
From LV Require Import Lex.Regex Lex.LexModel Rt.Reentrant.
Import ListNotations.

(* whatever the interleaving of the steps of the calls in flight, call i ends in the state it reaches
   when it runs alone, as soon as the schedule gives it the steps it needs *)
Theorem C27_concurrent_call_equals_the_call_alone :
  forall (St shared : Type) (step : shared -> St -> St) p sched l i s0 n,
  nth_error l i = Some s0 ->
  finished St shared step p (iter St n (step p) s0) ->
  n <= count_occ Nat.eq_dec sched i ->
  nth_error (exec St shared step p sched l) i = Some (iter St n (step p) s0).
Proof. exact concurrent_equals_alone. Qed.
Print Assumptions C27_concurrent_call_equals_the_call_alone.

(* the state of a call after any schedule depends only on how many steps it was given *)
Theorem C27_calls_do_not_interfere :
  forall (St shared : Type) (step : shared -> St -> St) p sched l i,
  nth_error (exec St shared step p sched l) i =
  option_map (iter St (count_occ Nat.eq_dec sched i) (step p)) (nth_error l i).
Proof. exact exec_component. Qed.
Print Assumptions C27_calls_do_not_interfere.

(* the lazily filled, arbitrarily cleared per-call DFA cache never changes the result of a scan *)
Theorem C27_lazy_cache_is_transparent : forall clear text c rs pos best, sound c ->
  snd (scan_cached clear c rs text pos best) = scan rs text pos best.
Proof. intros clear text c rs pos best H. apply (scan_cached_spec clear text c rs pos best H). Qed.
Print Assumptions C27_lazy_cache_is_transparent.
