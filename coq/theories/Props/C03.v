(** C03 — a grammar is accepted exactly when it is deterministic for the chosen algorithm.
    Coq part (accept direction): tables that pass the validator exist only for unambiguous grammars,
    and the parser built from them is correct (C01) -- so lalrpop never emits a (validated) parser for
    an ambiguous grammar.  The reject direction (a reported conflict is a real conflict of the canonical
    LR(1) / LALR(1) automaton, and lane-table never rejects an LR(1) grammar) is compared per run with a
    textbook construction; partial. *)
From Coq Require Import List.
From LV Require Import LR.Driver LR.Validator LR.Soundness LR.Completeness LR.Main.

Theorem C03_validated_tables_only_for_unambiguous_grammars : forall A C, valid A C = true ->
  forall t1 t2, wfp A t1 (Nt (start_nt A)) -> wfp A t2 (Nt (start_nt A)) -> yield t1 = yield t2 -> t1 = t2.
Proof. intros A C Hv. exact (unambiguous A C Hv). Qed.
Print Assumptions C03_validated_tables_only_for_unambiguous_grammars.
