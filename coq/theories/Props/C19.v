(** C19 — accepted grammars compile: the types declared for the created nonterminals fit the values
    their actions build (model level; the Rust type checker itself is the per-run oracle). *)
From Coq Require Import List.
From LV Require Import Norm.TyInfer.
Import ListNotations.

Theorem C19_plus_actions_build_vecs : forall e v t,
  has_type e t -> has_type (act_vec_one e) (TVec t) /\ (has_type v (TVec t) -> has_type (act_vec_push v e) (TVec t)).
Proof. intros e v t H. split; [apply vec_one_typed; exact H|intros Hv; apply vec_push_typed; assumption]. Qed.
Print Assumptions C19_plus_actions_build_vecs.

Theorem C19_star_and_question_actions : forall e t,
  has_type act_vec_empty (TVec t) /\ has_type act_none (TOpt t) /\ (has_type e t -> has_type (act_some e) (TOpt t)).
Proof. intros e t. split; [apply vec_empty_typed|split; [apply none_typed|apply some_typed]]. Qed.
Print Assumptions C19_star_and_question_actions.

Theorem C19_group_value_has_maybe_tuple_type : forall sel ts,
  Forall2 has_type sel ts -> has_type (act_group sel) (maybe_tuple ts).
Proof. exact group_typed. Qed.
Print Assumptions C19_group_value_has_maybe_tuple_type.
