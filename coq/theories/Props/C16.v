(** C16 — error recovery.
    Proved here: an input derivable without `!` is parsed without any recovery -- the run returns
    exactly its derivation tree, which contains no error node -- for every validated table, with or
    without recovery enabled.
    Also proved: whatever is popped or dropped during recovery, a tree the parser returns is a derivation
    tree of the start symbol whose error nodes stand exactly where the grammar has `!` (for every
    validated table, every input, every oracle of failing actions).
    Not proved yet (partial): the token accounting (leaves a subsequence of the input, every other token
    covered by exactly one error span, ordered disjoint spans, dropped lists in order).  The check
    decides those clauses on every explored input directly on the implementation's output, and ties
    the recovery model (LR/Driver.v error_recovery) to Parser::error_recovery by in-Coq evaluation. *)
From Coq Require Import List ZArith.
From LV Require Import LR.Driver LR.Validator LR.Safety LR.ValidatorSpec LR.Soundness LR.Completeness LR.RecoverySound LR.TokenAccount LR.SpanAccount LR.Main.
Import ListNotations.

Theorem C16_sentences_need_no_recovery : forall A C, valid A C = true ->
  forall t, wfp A t (Nt (start_nt A)) ->
  exists n, forall fuel, n <= fuel -> exists s, drive A no_fail fuel (map IOk (yield t)) = (ROk t, s).
Proof. exact parse_ok_complete. Qed.
Print Assumptions C16_sentences_need_no_recovery.

(* a derivation tree without `!` has no error node *)
Theorem C16_derivation_has_no_error_node : forall A t X, wfp A t X -> pure t.
Proof.
  intros A. induction t as [k|e d lo hi|p kids IH] using tree_ind'; intros X H; inversion H; subst.
  - exact I.
  - apply pure_node.
    match goal with Hk : Forall2 (wfp A) kids _ |- _ => clear H; revert IH; induction Hk; intros IH; constructor end.
    + inversion IH; subst; eauto.
    + inversion IH; subst; eauto.
Qed.
Print Assumptions C16_derivation_has_no_error_node.

(* a recovered result is still a derivation tree: error nodes only where the grammar has `!` *)
Theorem C16_recovered_tree_is_a_derivation : forall A C, valid A C = true ->
  forall orc fuel w v s,
  Forall (fun k => match tk_idx k with Some t => t < tn_term A | None => True end) w ->
  drive A orc fuel (map IOk w) = (ROk v, s) -> wf A v (Nt (start_nt A)).
Proof.
  intros A C Hv orc fuel w v s Hw H.
  destruct (valid_proj A C Hv) as (Hs & _ & He & _).
  apply (recovered_tree_is_a_derivation A C Hs He) with (orc := orc) (fuel := fuel) (w := w) (s := s); [|exact Hw|exact H].
  intros Hu. destruct (shape_proj A C Hs) as (_ & _ & _ & H4 & _). rewrite Hu in H4.
  apply PeanoNat.Nat.ltb_lt in H4. unfold err_col. apply PeanoNat.Nat.sub_lt; [exact H4|constructor].
Qed.
Print Assumptions C16_recovered_tree_is_a_derivation.

(** token accounting, for ANY tables (validated or not), any input, oracle and budget, with or without
    recovery: what a returned tree records of the input -- its leaves and the dropped_tokens lists of
    its error nodes, read left to right -- is a subsequence of the input tokens in input order.  So the
    leaves are a subsequence of the input, every dropped_tokens list holds input tokens in order, and
    no token is recorded twice or out of order across leaves and error nodes. *)
Theorem C16_recorded_tokens_are_a_subsequence_of_the_input : forall A orc fuel input v s,
  drive A orc fuel input = (ROk v, s) -> Subseq (rec v) (toks input).
Proof. exact recorded_tokens_are_a_subsequence. Qed.
Print Assumptions C16_recorded_tokens_are_a_subsequence_of_the_input.

Theorem C16_leaves_are_a_subsequence_of_the_input : forall A orc fuel input v s,
  drive A orc fuel input = (ROk v, s) -> Subseq (yield v) (toks input).
Proof. exact leaves_are_a_subsequence. Qed.
Print Assumptions C16_leaves_are_a_subsequence_of_the_input.

Theorem C16_dropped_lists_hold_input_tokens_in_order : forall A orc fuel input v s,
  drive A orc fuel input = (ROk v, s) -> Forall (fun d => Subseq d (toks input)) (drops v).
Proof. exact dropped_lists_are_subsequences. Qed.
Print Assumptions C16_dropped_lists_hold_input_tokens_in_order.

(** span accounting.  [AccL kids segs lo hi] (LR/SpanAccount.v): the subtrees kids account, left to
    right, for exactly the token segments segs -- a leaf for its token, a node for its children's
    segments, an error node for the tokens it swallowed (those of popped stack entries, then the
    dropped ones), all of which lie inside its span -- with spans well-formed and ordered.
    For ANY tables, on an input whose tokens have non-negative, well-formed, pairwise ordered spans, the
    children of a returned root account for a contiguous part of the input. *)
Theorem C16_every_token_is_accounted_for : forall A orc fuel input p k ks s,
  sorted (toks input) ->
  drive A orc fuel input = (ROk (Node p (k :: ks)), s) ->
  exists pre_b segs lo hi lafin, AccL (k :: ks) segs lo hi /\
    (pre_b ++ concat segs) ++ SpanAccount.latok lafin ++ toks (rest s) = toks input /\
    (length (k :: ks) = length (stk s) -> pre_b = []).
Proof. exact tokens_accounted_with_spans. Qed.
Print Assumptions C16_every_token_is_accounted_for.

(* on validated tables (with or without `!`): the children of the root partition the WHOLE input --
   every token is a leaf or lies inside the span of the error node that swallowed it -- and the
   error-node spans of the tree, left to right, are well-formed, ordered and disjoint *)
Theorem C16_whole_input_accounted_on_validated_tables : forall A C orc fuel w p k ks s,
  shape A C = true -> exact A C = true -> start_eof_only A = true ->
  Forall (RecoverySound.tok_ok A) w -> sorted w ->
  drive A orc fuel (map IOk w) = (ROk (Node p (k :: ks)), s) ->
  exists segs lo hi, AccL (k :: ks) segs lo hi /\ concat segs = w /\ spchain lo (flat_map errspans (k :: ks)) hi.
Proof. exact tokens_accounted_on_validated_tables. Qed.
Print Assumptions C16_whole_input_accounted_on_validated_tables.

(* what the relation gives: spans contain their tokens *)
Theorem C16_accounted_tokens_lie_inside_the_span : forall t seg lo hi,
  Acc t seg lo hi -> Forall tok_wf seg -> (lo <= hi)%Z /\ Within lo hi seg.
Proof. exact acc_facts. Qed.
Print Assumptions C16_accounted_tokens_lie_inside_the_span.

(* "exactly one": the error-node spans of the tree are ordered (spchain, theorem above), hence a token of
   positive width lies inside at most one of them; the accounting gives the one that swallowed it *)
Theorem C16_a_token_lies_in_at_most_one_error_span : forall l lo hi i j s1 s2 k,
  spchain lo l hi -> i < j -> nth_error l i = Some s1 -> nth_error l j = Some s2 ->
  (tk_lo k < tk_hi k)%Z -> within (fst s1) (snd s1) k -> within (fst s2) (snd s2) k -> False.
Proof. exact spchain_disjoint. Qed.
Print Assumptions C16_a_token_lies_in_at_most_one_error_span.
