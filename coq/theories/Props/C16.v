(** C16 — error recovery.
    Proved here: an input derivable without `!` is parsed without any recovery -- the run returns
    exactly its derivation tree, which contains no error node -- for every validated table, with or
    without recovery enabled.
    Not proved yet (partial): well-formedness of recovered trees and the token accounting (subsequence,
    coverage by exactly one error span, ordered disjoint spans, dropped lists in order).  The check
    decides those clauses on every explored input directly on the implementation's output, and ties
    the recovery model (LR/Driver.v error_recovery) to Parser::error_recovery by in-Coq evaluation. *)
From Coq Require Import List ZArith.
From LV Require Import LR.Driver LR.Validator LR.Soundness LR.Completeness LR.Main.
Import ListNotations.

Theorem C16_sentences_need_no_recovery : forall A C, valid A C = true ->
  forall t, wfp A t (Nt (start_nt A)) ->
  exists n, forall fuel, n <= fuel -> exists s, drive A no_fail fuel (map IOk (yield t)) = (ROk t, s).
Proof. exact parse_ok_complete. Qed.
Print Assumptions C16_sentences_need_no_recovery.

(* a derivation tree without `!` has no error node *)
Theorem C16_derivation_has_no_error_node : forall A t X, wfp A t X -> pure t.
Proof.
  intros A. induction t as [k|e d lo hi|p kids IH] using tree_ind'; intros X H; inversion H; subst.
  - exact I.
  - apply pure_node.
    match goal with Hk : Forall2 (wfp A) kids _ |- _ => clear H; revert IH; induction Hk; intros IH; constructor end.
    + inversion IH; subst; eauto.
    + inversion IH; subst; eauto.
Qed.
Print Assumptions C16_derivation_has_no_error_node.
