(** C16 *)
From Coq Require Import List.
