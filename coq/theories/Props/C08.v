(** C08 — generated parsers always terminate and never panic.
    This file: the table-driven parser never reaches a panic site on validated tables
    (index out of bounds, unwrap on None, subtraction underflow, "symbol type mismatch", the
    explicit panic!s).  Termination bounds: see LR/Termination.v when present. *)
From Coq Require Import List ZArith.
From LV Require Import LR.Driver LR.Validator LR.Safety LR.Soundness LR.NoPanic LR.Main.
From LV Require Import Lex.Regex Lex.LexModel Lex.LexProps.
Import ListNotations.

Theorem C08_parser_never_panics : forall A C,
  shape A C = true -> exact A C = true -> uses_recovery A = false ->
  forall orc fuel w r s,
  Forall (fun k => match tk_idx k with Some t => t < tn_names A | None => True end) w ->
  drive A orc fuel (map IOk w) = (r, s) -> r <> RPanic.
Proof. exact no_panic. Qed.
Print Assumptions C08_parser_never_panics.

(* the simulation behind expected-token lists and recovery ([accepts]) never panics either, on any
   stack the parser can have built *)
Theorem C08_accepts_never_panics : forall A C,
  shape A C = true -> exact A C = true ->
  forall fuel l a, SLinked A C l -> la_ok A a -> accepts A fuel l a <> APanic.
Proof. exact accepts_no_panic. Qed.
Print Assumptions C08_accepts_never_panics.

(** the built-in lexer: every token consumes at least one byte and strictly shortens the remaining
    text, so a token stream has at most |text| tokens and the matcher never yields empty tokens forever
    (this is the repaired behaviour: see known_findings.txt) *)
Theorem C08_lexer_token_progress : forall fuel pats text consumed start idx len text' c',
  lex_next pats fuel text consumed = (LTok start idx len, text', c') ->
  0 < len /\ length text' < length text.
Proof. exact token_progress. Qed.
Print Assumptions C08_lexer_token_progress.

Theorem C08_lexer_terminates : forall fuel pats text consumed,
  length text < fuel -> ~ In LFuel (tokens pats fuel text consumed).
Proof. exact tokens_terminate. Qed.
Print Assumptions C08_lexer_terminates.
