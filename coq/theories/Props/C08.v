(** C08 — generated parsers always terminate and never panic.
    This file: the table-driven parser never reaches a panic site on validated tables
    (index out of bounds, unwrap on None, subtraction underflow, "symbol type mismatch", the
    explicit panic!s).  Termination bounds: see LR/Termination.v when present. *)
From Coq Require Import List ZArith.
From LV Require Import LR.Driver LR.Validator LR.Safety LR.Soundness LR.Completeness LR.Locality LR.NoPanic LR.Main.
From LV Require Import Lex.Regex Lex.LexModel Lex.LexProps.
Import ListNotations.

Theorem C08_parser_never_panics : forall A C,
  shape A C = true -> exact A C = true -> uses_recovery A = false ->
  forall orc fuel w r s,
  Forall (fun k => match tk_idx k with Some t => t < tn_names A | None => True end) w ->
  drive A orc fuel (map IOk w) = (r, s) -> r <> RPanic.
Proof. exact no_panic. Qed.
Print Assumptions C08_parser_never_panics.

(* the simulation behind expected-token lists and recovery ([accepts]) never panics either, on any
   stack the parser can have built *)
Theorem C08_accepts_never_panics : forall A C,
  shape A C = true -> exact A C = true ->
  forall fuel l a, SLinked A C l -> la_ok A a -> accepts A fuel l a <> APanic.
Proof. exact accepts_no_panic. Qed.
Print Assumptions C08_accepts_never_panics.

(** the built-in lexer: every token consumes at least one byte and strictly shortens the remaining
    text, so a token stream has at most |text| tokens and the matcher never yields empty tokens forever
    (this is the repaired behaviour: see known_findings.txt) *)
Theorem C08_lexer_token_progress : forall fuel pats text consumed start idx len text' c',
  lex_next pats fuel text consumed = (LTok start idx len, text', c') ->
  0 < len /\ length text' < length text.
Proof. exact token_progress. Qed.
Print Assumptions C08_lexer_token_progress.

Theorem C08_lexer_terminates : forall fuel pats text consumed,
  length text < fuel -> ~ In LFuel (tokens pats fuel text consumed).
Proof. exact tokens_terminate. Qed.
Print Assumptions C08_lexer_terminates.

(* termination on sentences: a bound on the loop iterations exists beyond which the answer is the
   derivation tree, whatever the budget (fuel counts loop iterations and simulation steps) *)
Theorem C08_terminates_on_sentences : forall A C, valid A C = true -> uses_recovery A = false ->
  forall t, Completeness.wfp A t (Nt (start_nt A)) ->
  exists n, forall fuel, n <= fuel -> exists s, drive A Completeness.no_fail fuel (map IOk (Soundness.yield t)) = (ROk t, s).
Proof. intros A C Hv Hn. exact (Main.parse_ok_complete A C Hv). Qed.
Print Assumptions C08_terminates_on_sentences.

(* a run that ends (with any answer other than "budget exhausted") ends the same way under every
   larger budget: the budget never changes an answer *)
Theorem C08_answers_do_not_depend_on_the_budget : forall A orc, uses_recovery A = false ->
  forall f input r s, drive A orc f input = (r, s) -> r <> RFuel -> forall f', f <= f' -> drive A orc f' input = (r, s).
Proof. intros A orc Hn. exact (Locality.drive_mono A Hn orc). Qed.
Print Assumptions C08_answers_do_not_depend_on_the_budget.
