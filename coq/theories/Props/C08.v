(** C08 — generated parsers always terminate and never panic.
    This file: the table-driven parser never reaches a panic site on validated tables
    (index out of bounds, unwrap on None, subtraction underflow, "symbol type mismatch", the
    explicit panic!s).  Termination: LR/Termination.v. *)
From Coq Require Import List ZArith.
From LV Require Import LR.Driver LR.Validator LR.Safety LR.Soundness LR.Completeness LR.Locality LR.NoPanic LR.Termination LR.RecoverySound LR.NoPanicRec LR.MonoRec LR.TerminationRec LR.Main.
From LV Require Import Lex.Regex Lex.LexModel Lex.LexProps.
Import ListNotations.

Theorem C08_parser_never_panics : forall A C,
  shape A C = true -> exact A C = true -> uses_recovery A = false ->
  forall orc fuel w r s,
  Forall (fun k => match tk_idx k with Some t => t < tn_names A | None => True end) w ->
  drive A orc fuel (map IOk w) = (r, s) -> r <> RPanic.
Proof. exact no_panic. Qed.
Print Assumptions C08_parser_never_panics.

(* the simulation behind expected-token lists and recovery ([accepts]) never panics either, on any
   stack the parser can have built *)
Theorem C08_accepts_never_panics : forall A C,
  shape A C = true -> exact A C = true ->
  forall fuel l a, SLinked A C l -> la_ok A a -> accepts A fuel l a <> APanic.
Proof. exact accepts_no_panic. Qed.
Print Assumptions C08_accepts_never_panics.

(** the built-in lexer: every token consumes at least one byte and strictly shortens the remaining
    text, so a token stream has at most |text| tokens and the matcher never yields empty tokens forever
    (this is the repaired behaviour: see known_findings.txt) *)
Theorem C08_lexer_token_progress : forall fuel pats text consumed start idx len text' c',
  lex_next pats fuel text consumed = (LTok start idx len, text', c') ->
  0 < len /\ length text' < length text.
Proof. exact token_progress. Qed.
Print Assumptions C08_lexer_token_progress.

Theorem C08_lexer_terminates : forall fuel pats text consumed,
  length text < fuel -> ~ In LFuel (tokens pats fuel text consumed).
Proof. exact tokens_terminate. Qed.
Print Assumptions C08_lexer_terminates.

(* termination on sentences: a bound on the loop iterations exists beyond which the answer is the
   derivation tree, whatever the budget (fuel counts loop iterations and simulation steps) *)
Theorem C08_terminates_on_sentences : forall A C, valid A C = true -> uses_recovery A = false ->
  forall t, Completeness.wfp A t (Nt (start_nt A)) ->
  exists n, forall fuel, n <= fuel -> exists s, drive A Completeness.no_fail fuel (map IOk (Soundness.yield t)) = (ROk t, s).
Proof. intros A C Hv Hn. exact (Main.parse_ok_complete A C Hv). Qed.
Print Assumptions C08_terminates_on_sentences.

(* a run that ends (with any answer other than "budget exhausted") ends the same way under every
   larger budget: the budget never changes an answer *)
Theorem C08_answers_do_not_depend_on_the_budget : forall A orc, uses_recovery A = false ->
  forall f input r s, drive A orc f input = (r, s) -> r <> RFuel -> forall f', f <= f' -> drive A orc f' input = (r, s).
Proof. intros A orc Hn. exact (Locality.drive_mono A Hn orc). Qed.
Print Assumptions C08_answers_do_not_depend_on_the_budget.

(** termination on every input (grammars without error recovery): for any token sequence -- sentences,
    non-sentences, lexer errors in the stream, unknown tokens -- and any behaviour of fallible actions,
    a budget exists beyond which the driver never answers "budget exhausted": the loop of
    Parser::drive, the reductions under one lookahead and the simulation behind the expected-token
    list all end.  The validator's [terminates] certificate is what carries the argument. *)
Theorem C08_parser_terminates_on_every_input : forall A C,
  shape A C = true -> exact A C = true -> terminates A C = true -> uses_recovery A = false ->
  forall orc input, Forall (Soundness.item_ok A) input ->
  exists n, forall fuel, n <= fuel -> fst (drive A orc fuel input) <> RFuel.
Proof. exact parser_terminates. Qed.
Print Assumptions C08_parser_terminates_on_every_input.

(* the reductions prescribed for one lookahead on any stack the parser can have built end within an
   explicit bound: ((n_states + 1) + depth * (n_states + 2)) * (c_F + 1) + c_F + 1 steps *)
Theorem C08_reduce_phase_is_bounded : forall A C,
  shape A C = true -> terminates A C = true ->
  forall a l, la_ok A a -> SLinked A C l -> siter A (bound A C (length l)) a l = None.
Proof. exact reduce_phase_halts. Qed.
Print Assumptions C08_reduce_phase_is_bounded.

(* the simulation used for expected tokens ends within the same bound *)
Theorem C08_accepts_is_bounded : forall A C,
  shape A C = true -> exact A C = true -> terminates A C = true ->
  forall l a f, SLinked A C l -> la_ok A a -> bound A C (length l) <= f -> accepts A f l a <> AFuel.
Proof. exact accepts_bounded. Qed.
Print Assumptions C08_accepts_is_bounded.

(** panic freedom with error recovery: on validated tables, with or without `!`, no input drives the
    parser into a panic site -- including those of Parser::error_recovery (the reductions under the
    error lookahead, table lookups and the accepts simulation while scanning for a recovery state, the
    lookup of the error action on the kept stack, "cannot find token at EOF") *)
Theorem C08_parser_never_panics_with_recovery : forall A C,
  shape A C = true -> exact A C = true ->
  forall orc fuel w r s,
  Forall (fun k => match tk_idx k with Some t => t < tn_term A | None => True end) w ->
  drive A orc fuel (map IOk w) = (r, s) -> r <> RPanic.
Proof. exact no_panic_with_recovery. Qed.
Print Assumptions C08_parser_never_panics_with_recovery.

(** termination with error recovery: on validated tables, with or without `!`, for every input and every
    behaviour of fallible actions a budget exists beyond which the driver never answers "budget
    exhausted".  Inside error_recovery the reductions under the error lookahead, every accepts
    simulation of the recovery-state scan and the token-dropping loop end; across recoveries, a
    recovery hands back a lookahead the simulation has shown consumable from the new stack, so the
    parser shifts it (or ends) before it can fail again -- there is no recovery loop. *)
Theorem C08_parser_terminates_on_every_input_with_recovery : forall A C,
  shape A C = true -> exact A C = true -> terminates A C = true ->
  forall orc input, Forall (RecoverySound.item_ok A) input ->
  exists n, forall fuel, n <= fuel -> fst (drive A orc fuel input) <> RFuel.
Proof. exact parser_terminates_rec. Qed.
Print Assumptions C08_parser_terminates_on_every_input_with_recovery.

(* for ANY tables, with or without recovery: an answer other than "budget exhausted" is the answer under
   every larger budget *)
Theorem C08_answers_do_not_depend_on_the_budget_with_recovery : forall A orc f input r s,
  drive A orc f input = (r, s) -> r <> RFuel -> forall f', f <= f' -> drive A orc f' input = (r, s).
Proof. exact drive_mono_rec. Qed.
Print Assumptions C08_answers_do_not_depend_on_the_budget_with_recovery.
