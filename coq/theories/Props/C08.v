(** C08 *)
From Coq Require Import List.
