(** C18 — lalrpop never panics.  The theorems here are the validation/expansion contracts of the
    modelled passes: the `expect` in normalize/precedence is reached exactly when an associativity is in
    force at the first precedence level, and the rule checked by validate_precedence (decision
    procedure prevalidb, tied to the code by the C12/C18 checks) excludes that.  Absence of panics for
    all texts is searched for, not proved (see DESIGN.md). *)
From Coq Require Import List Arith.
From LV Require Import Norm.Prec Norm.PrecProps.
Import ListNotations.

Theorem C18_precedence_expect_reached_iff : forall alts,
  expand alts = Panic <->
  exists x, In x (resolve 0 AAll alts) /\ fst (fst x) = hd 0 (levels (resolve 0 AAll alts)) /\ snd (fst x) <> AAll.
Proof. exact panic_iff_first_level. Qed.
Print Assumptions C18_precedence_expect_reached_iff.

Theorem C18_validation_rule_excludes_the_expect : forall alts,
  prevalidb alts = true -> exists r, expand alts = Ok r.
Proof. intros alts H. apply prevalid_no_panic. apply prevalidb_spec. exact H. Qed.
Print Assumptions C18_validation_rule_excludes_the_expect.

(* the rule as it was before the repair (only alternatives with their own precedence attribute were
   looked at) does not exclude it: an inherited first level with an assoc attribute *)
Theorem C18_unrepaired_rule_refuted :
  let alts := [ {| p_prec := Some 1; p_assoc := None; p_syms := [POther 0] |};
                {| p_prec := None; p_assoc := Some ALeft; p_syms := [PSelf; POther 1; PSelf] |} ] in
  (forall a, In a alts -> p_prec a <> None -> p_assoc a = None) /\ expand alts = Panic.
Proof.
  split; [|reflexivity]. intros a [<-|[<-|[]]] H; [reflexivity|]. exfalso. apply H. reflexivity.
Qed.
Print Assumptions C18_unrepaired_rule_refuted.
