(** C14 — inlining a nonterminal preserves language and parse results. *)
From Coq Require Import List.
From LV Require Import Norm.Inline Norm.InlineProps.
Import ListNotations.

(* whatever the user's (fallible) actions do: after inlining, a symbol derives an input with value v
   -- all actions on the way succeeding, the inlined ones evaluated left to right just before the
   action of the production they were inlined into -- exactly when it did before *)
Theorem C14_inlining_preserves_values : forall fail inl g g',
  inline_grammar inl g = Some g' ->
  forall s w v, der fail g' s w v <-> der fail g s w v.
Proof. exact inline_grammar_preserves. Qed.
Print Assumptions C14_inlining_preserves_values.

(* in particular the set of accepted inputs is unchanged *)
Theorem C14_inlining_preserves_language : forall inl g g',
  inline_grammar inl g = Some g' ->
  forall s w, (exists v, der (fun _ _ => None) g' s w v) <-> (exists v, der (fun _ _ => None) g s w v).
Proof. exact inline_grammar_language. Qed.
Print Assumptions C14_inlining_preserves_language.

(* one step removes every occurrence of the inlined nonterminal *)
Theorem C14_inlined_nonterminal_disappears : forall g a, nonrecb g a = true ->
  forall p, In p (inline_nt g a) -> mentions a (rhs p) = false.
Proof. exact inline_nt_removes. Qed.
Print Assumptions C14_inlined_nonterminal_disappears.

(* recorded finding (known_findings.txt, action-order-among-different-inlined-nonterminals): "left to
   right" holds inside one inlining step only; the model exhibits the deviation the compiled parsers show *)
Theorem C14_left_to_right_across_nonterminals_refuted :
  let g := number [(0, [NT 1; NT 2]); (1, [T 5]); (2, [T 6])] in
  exists g' p, inline_grammar [1; 2] g = Some g' /\ In p g' /\ lhs p = 0 /\ rhs p = [T 5; T 6] /\
               eval order_witness_fail (action p) [VLeaf 5; VLeaf 6] = Err 22.
Proof. exact inlined_actions_not_left_to_right_across_nonterminals. Qed.
Print Assumptions C14_left_to_right_across_nonterminals_refuted.
