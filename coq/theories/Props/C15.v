(** C15 — conditional compilation equals deleting the inactive declarations. *)
From Coq Require Import List String Bool.
From LV Require Import Norm.Cfg Norm.CfgProps.
Import ListNotations.

(* predicates evaluate like Rust's feature = "x" / not / all / any *)
Theorem C15_predicates_evaluate_like_rust : forall fs p, wfp p -> (test fs p = true <-> holds fs p).
Proof. exact test_spec. Qed.
Print Assumptions C15_predicates_evaluate_like_rust.

(* several cfg attributes on one item are conjoined *)
Theorem C15_attributes_are_conjoined : forall fs c1 c2,
  cfg_active fs (c1 ++ c2) = cfg_active fs c1 && cfg_active fs c2.
Proof. exact cfg_conjoined. Qed.
Print Assumptions C15_attributes_are_conjoined.

(* the pass is exactly filtering: the nonterminals whose cfg holds, with the alternatives whose cfg holds *)
Theorem C15_removal_is_filtering : forall fs g,
  survivors fs g =
  map (fun n => (n_id n, map a_id (filter (fun a => cfg_active fs (a_cfg a)) (n_alts n))))
      (filter (fun n => cfg_active fs (n_cfg n)) g).
Proof. exact survivors_spec. Qed.
Print Assumptions C15_removal_is_filtering.

Theorem C15_removal_idempotent : forall fs g, remove_disabled fs (remove_disabled fs g) = remove_disabled fs g.
Proof. exact remove_disabled_idempotent. Qed.
Print Assumptions C15_removal_idempotent.
