(** C17 — Action and lexer errors are returned verbatim and stop the parse.
    For ANY parse tables (valid or not), any action oracle, any fuel. *)
From Coq Require Import List ZArith.
From LV Require Import LR.Driver LR.ErrorsProp.
Import ListNotations.

(* If the token stream yields Err(e) at position k and the run gets that far, the result is
   exactly Err(e), item k is the last one pulled, and the pull is the last event of the run
   (no action, shift, drop or recovery after it). *)
Theorem C17_stream_error : forall A orc fuel input r s k e,
  drive A orc fuel input = (r, s) ->
  nth_error input k = Some (IErr e) -> k < npulled s ->
  r = RErr e /\ npulled s = S k /\ exists tr, trace s = Pull k :: tr.
Proof. exact stream_error_verbatim. Qed.
Print Assumptions C17_stream_error.

Theorem C17_never_reads_past_error : forall A orc fuel input r s k e,
  drive A orc fuel input = (r, s) -> nth_error input k = Some (IErr e) -> npulled s <= S k.
Proof. exact never_reads_past_error. Qed.
Print Assumptions C17_never_reads_past_error.

(* If a fallible action returns Err(e) (anywhere: ordinary reduce, reduce at end of input, reduce
   inside error recovery), the result is exactly User{e} and that action is the last event. *)
Theorem C17_action_error : forall A orc fuel input r s p e,
  drive A orc fuel input = (r, s) -> In (ActFail p e) (trace s) ->
  r = RErr (PUser e) /\ exists tr, trace s = ActFail p e :: tr /\ no_fail tr.
Proof. exact action_error_verbatim. Qed.
Print Assumptions C17_action_error.

(* non-vacuity: a concrete run in which a stream error is reached, and one with a failing action *)
Definition Tdemo : tables :=
  {| tn_term := 2; tn_names := 2; uses_recovery := false;
     action := [2; 0;  0; (-1);  0; 0]%Z; eof_action := [0; (-1); (-2)]%Z;
     goto_tbl := [[2; 0; 0]; [0; 0; 0]]; prods := [(0, [Tm 0]); (1, [Nt 0])]; start_prod := 1;
     sim_pop := [1; 1]; sim_nt := [Some 0; None] |}.
Definition tk (i : nat) (id : N) : token := {| tk_idx := Some i; tk_id := id; tk_lo := 0; tk_hi := 1 |}.
Example C17_stream_reached :
  let '(r, s) := drive Tdemo (fun _ _ => None) 20 [IOk (tk 0 1); IErr (PUser 7)] in
  r = RErr (PUser 7) /\ npulled s = 2.
Proof. vm_compute. split; reflexivity. Qed.
Example C17_action_reached :
  let '(r, s) := drive Tdemo (fun p _ => if Nat.eqb p 0 then Some 9%N else None) 20 [IOk (tk 0 1)] in
  r = RErr (PUser 9) /\ In (ActFail 0 9) (trace s).
Proof. vm_compute. split; [reflexivity | left; reflexivity]. Qed.
