(** C02 — parse results are the grammar's actions evaluated over the derivation, each user action
    exactly once per tree node, in post-order. *)
From Coq Require Import List ZArith.
From LV Require Import LR.Driver LR.Validator LR.Soundness LR.Completeness LR.Main.
Import ListNotations.

(* the sequence of user actions that ran (trace order) followed by the internal start production
   is the post-order traversal of the returned derivation tree; each action received exactly the
   values (subtrees) of its children, left to right, because the tree IS the value built from them *)
Theorem C02_actions_postorder : forall A C, valid A C = true -> uses_recovery A = false ->
  forall orc fuel w v s, Forall (tok_in_range A) w ->
  drive A orc fuel (map IOk w) = (ROk v, s) ->
  acts (trace s) ++ [start_prod A] = postorder v /\ yield v = w.
Proof.
  intros A C Hv Hn orc fuel w v s Hw H.
  destruct (parse_ok_sound A C Hv Hn orc fuel w v s Hw H) as (_ & Hy & Hp). auto.
Qed.
Print Assumptions C02_actions_postorder.

(* the derivation tree is unique, so "the" derivation in the property is well defined *)
Theorem C02_unique_derivation : forall A C, valid A C = true -> uses_recovery A = false ->
  forall t1 t2, wfp A t1 (Nt (start_nt A)) -> wfp A t2 (Nt (start_nt A)) ->
  yield t1 = yield t2 -> t1 = t2.
Proof. intros A C Hv _. exact (unambiguous A C Hv). Qed.
Print Assumptions C02_unique_derivation.
