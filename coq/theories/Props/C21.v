(** C21 — non-forced builds never leave a stale or foreign output.
    [gen], [hash], the version line and the newline are arbitrary parameters; the only assumptions
    are that the hash line is injective in the grammar text and that header lines contain no newline. *)
From Coq Require Import List Bool.
From LV Require Import Build.Rebuild.
Import ListNotations.

Theorem C21_after_any_history_a_build_is_current :
  forall (text byte : Type) gen hash ver (nl : byte)
    (hash_inj : forall a b : text, hash a = hash b -> a = b)
    (byte_eq_dec : forall a b : list byte, {a = b} + {a <> b})
    (ver_no_nl : ~ In nl ver) (hash_no_nl : forall t, ~ In nl (hash t))
    is_nl (is_nl_spec : forall c, is_nl c = true <-> c = nl)
    ops s0,
  Inv text byte gen hash ver nl byte_eq_dec is_nl s0 ->
  Forall (op_ok text byte gen hash ver nl byte_eq_dec is_nl) ops ->
  let s := fold_left (step text byte gen hash ver nl byte_eq_dec is_nl) ops s0 in
  out text byte (build text byte gen hash ver nl byte_eq_dec is_nl false s) =
  match gen (src text byte s) with Some b => Some (file_of text byte hash ver nl (src text byte s) b) | None => None end.
Proof. exact history_then_build. Qed.
Print Assumptions C21_after_any_history_a_build_is_current.

Theorem C21_current_output_is_left_untouched :
  forall (text byte : Type) gen hash ver (nl : byte)
    (hash_inj : forall a b : text, hash a = hash b -> a = b)
    (byte_eq_dec : forall a b : list byte, {a = b} + {a <> b})
    (ver_no_nl : ~ In nl ver) (hash_no_nl : forall t, ~ In nl (hash t))
    is_nl (is_nl_spec : forall c, is_nl c = true <-> c = nl) s,
  Inv text byte gen hash ver nl byte_eq_dec is_nl s ->
  out text byte (build text byte gen hash ver nl byte_eq_dec is_nl false s) =
  out text byte (build text byte gen hash ver nl byte_eq_dec is_nl true s) /\
  (out text byte s = out text byte (build text byte gen hash ver nl byte_eq_dec is_nl true s) ->
   out text byte s <> None ->
   writes text byte (build text byte gen hash ver nl byte_eq_dec is_nl false s) = writes text byte s).
Proof. exact build_current. Qed.
Print Assumptions C21_current_output_is_left_untouched.
