(** C26 — embedded Rust is transferred verbatim (scanner model).  Placeholder statements are not
    allowed: this file holds only proved facts; see Tok/CodeScanProps.v. *)
From Coq Require Import List NArith.
From LV Require Import Tok.CodeScan Tok.CodeScanProps.
Import ListNotations.

Theorem C26_string_literal_skipped_exactly : forall body rest,
  strbody body -> skip_string QUOTE false (body ++ QUOTE :: rest) = Some rest.
Proof. exact skip_string_spec. Qed.
Print Assumptions C26_string_literal_skipped_exactly.

Theorem C26_raw_string_skipped_exactly : forall n body rest,
  ~ In QUOTE body -> skip_raw n 0 (body ++ QUOTE :: repeat HASH n ++ rest) = Some rest.
Proof. exact skip_raw_spec. Qed.
Print Assumptions C26_raw_string_skipped_exactly.

Theorem C26_nested_block_comment_skipped_exactly : forall body rest,
  cbody body -> skip_block 1 BInit (body ++ STAR :: SLASH :: rest) = Some rest.
Proof. exact skip_block_spec. Qed.
Print Assumptions C26_nested_block_comment_skipped_exactly.

Theorem C26_balanced_code_ends_at_first_top_level_terminator : forall s term rest,
  top s -> terminator term ->
  scan (s ++ term :: rest) = Stop (length s).
Proof. exact scan_balanced. Qed.
Print Assumptions C26_balanced_code_ends_at_first_top_level_terminator.
