(** C26 — embedded Rust is transferred verbatim (scanner model).  Placeholder statements are not
    allowed: this file holds only proved facts; see Tok/CodeScanProps.v. *)
From Coq Require Import List NArith.
From LV Require Import Tok.CodeScan Tok.CodeScanProps.
Import ListNotations.

Theorem C26_string_literal_skipped_exactly : forall body rest,
  strbody body -> skip_string QUOTE false (body ++ QUOTE :: rest) = Some rest.
Proof. exact skip_string_spec. Qed.
Print Assumptions C26_string_literal_skipped_exactly.

Theorem C26_raw_string_skipped_exactly : forall n body rest,
  ~ In QUOTE body -> skip_raw n 0 (body ++ QUOTE :: repeat HASH n ++ rest) = Some rest.
Proof. exact skip_raw_spec. Qed.
Print Assumptions C26_raw_string_skipped_exactly.

Theorem C26_nested_block_comment_skipped_exactly : forall body rest,
  cbody body -> skip_block 1 BInit (body ++ STAR :: SLASH :: rest) = Some rest.
Proof. exact skip_block_spec. Qed.
Print Assumptions C26_nested_block_comment_skipped_exactly.

Theorem C26_balanced_code_ends_at_first_top_level_terminator : forall s term rest,
  top s -> terminator term ->
  scan (s ++ term :: rest) = Stop (length s).
Proof. exact scan_balanced. Qed.
Print Assumptions C26_balanced_code_ends_at_first_top_level_terminator.

(* the composition: code built from ordinary characters, nested delimiters and lexical units that the
   scanner skips as a whole ends at the first top-level terminator *)
Theorem C26_code_with_units_ends_at_first_top_level_terminator : forall s term rest,
  ucode false s (term :: rest) -> terminator term -> scan (s ++ term :: rest) = Stop (length s).
Proof. exact scan_units. Qed.
Print Assumptions C26_code_with_units_ends_at_first_top_level_terminator.

(* the units: each literal, comment or lifetime is skipped as a whole (the side conditions are the
   lexical facts of Rust: an unescaped closing quote, no newline inside a line comment, ...) *)
Theorem C26_units_are_skipped : forall rest,
  (forall body, strbody body -> skips (QUOTE :: body ++ [QUOTE]) rest) /\
  (forall n body, ~ In QUOTE body -> skips (LR :: repeat HASH n ++ QUOTE :: body ++ QUOTE :: repeat HASH n) rest) /\
  (forall body, cbody body -> skips (SLASH :: STAR :: body ++ [STAR; SLASH]) rest) /\
  (forall c, c <> BSL -> rest <> [] -> skips [APOS; c; APOS] rest) /\
  (forall c body, ~ In APOS body -> rest <> [] -> skips (APOS :: BSL :: c :: body ++ [APOS]) rest) /\
  (forall c d r, rest = d :: r -> c <> BSL -> d <> APOS -> skips [APOS; c] rest) /\
  (forall body r, rest = NL :: r -> ~ In NL body -> skips (SLASH :: SLASH :: body) rest).
Proof.
  intros rest. repeat split.
  - intros; apply skips_string; assumption.
  - intros; apply skips_raw; assumption.
  - intros; apply skips_block_comment; assumption.
  - intros; apply skips_char; assumption.
  - intros; apply skips_escaped_char; assumption.
  - intros c d r -> Hc Hd. apply skips_lifetime; assumption.
  - intros body r -> Hb. apply skips_line_comment; assumption.
Qed.
Print Assumptions C26_units_are_skipped.
