#![allow(warnings)]
pub mod rt;
pub mod support;
use std::panic::AssertUnwindSafe;
#[path = "gen/c26_s0.rs"] mod c26_s0;
#[path = "gen/c26_s1.rs"] mod c26_s1;
#[path = "gen/c26_s2.rs"] mod c26_s2;
#[path = "gen/c26_s3.rs"] mod c26_s3;
#[path = "gen/c26_s4.rs"] mod c26_s4;
#[path = "gen/c26_s5.rs"] mod c26_s5;
#[path = "gen/c26_s6.rs"] mod c26_s6;
#[path = "gen/c26_s7.rs"] mod c26_s7;
#[path = "gen/c26_s8.rs"] mod c26_s8;
#[path = "gen/c26_s9.rs"] mod c26_s9;
#[path = "gen/c26_s10.rs"] mod c26_s10;
#[path = "gen/c26_s11.rs"] mod c26_s11;
#[path = "gen/c26_s12.rs"] mod c26_s12;
#[path = "gen/c26_s13.rs"] mod c26_s13;
#[path = "gen/c26_s14.rs"] mod c26_s14;
#[path = "gen/c26_s15.rs"] mod c26_s15;
#[path = "gen/c26_s16.rs"] mod c26_s16;
#[path = "gen/c26_s17.rs"] mod c26_s17;
#[path = "gen/c26_s18.rs"] mod c26_s18;
#[path = "gen/c26_s19.rs"] mod c26_s19;
#[path = "gen/c26_s20.rs"] mod c26_s20;
#[path = "gen/c26_s21.rs"] mod c26_s21;
#[path = "gen/c26_s22.rs"] mod c26_s22;
#[path = "gen/c26_s23.rs"] mod c26_s23;
#[path = "gen/c26_s24.rs"] mod c26_s24;
#[path = "gen/c26_s25.rs"] mod c26_s25;
#[path = "gen/c26_s26.rs"] mod c26_s26;
#[path = "gen/c26_s27.rs"] mod c26_s27;
#[path = "gen/c26_s28.rs"] mod c26_s28;
#[path = "gen/c26_s29.rs"] mod c26_s29;
#[path = "gen/c26_s30.rs"] mod c26_s30;
#[path = "gen/c26_s31.rs"] mod c26_s31;
#[path = "gen/c26_s32.rs"] mod c26_s32;
#[path = "gen/c26_s33.rs"] mod c26_s33;
#[path = "gen/c26_s34.rs"] mod c26_s34;
#[path = "gen/c26_s35.rs"] mod c26_s35;
#[path = "gen/c26_s36.rs"] mod c26_s36;
#[path = "gen/c26_s37.rs"] mod c26_s37;
#[path = "gen/c26_s38.rs"] mod c26_s38;
#[path = "gen/c26_s39.rs"] mod c26_s39;
#[path = "gen/c26_s40.rs"] mod c26_s40;
#[path = "gen/c26_s41.rs"] mod c26_s41;
#[path = "gen/c26_s42.rs"] mod c26_s42;
#[path = "gen/c26_s43.rs"] mod c26_s43;
#[path = "gen/c26_s44.rs"] mod c26_s44;
#[path = "gen/c26_s45.rs"] mod c26_s45;
#[path = "gen/c26_s46.rs"] mod c26_s46;
#[path = "gen/c26_s47.rs"] mod c26_s47;
#[path = "gen/c26_s48.rs"] mod c26_s48;
#[path = "gen/c26_s49.rs"] mod c26_s49;

fn run_seq(m: &str, p: &str, input: &str) -> String {
    match (m, p) {
        ("c26_s0", "S") => rt::guarded(AssertUnwindSafe(|| rt::show(c26_s0::SParser::new().parse(input)))),
        ("c26_s1", "S") => rt::guarded(AssertUnwindSafe(|| rt::show(c26_s1::SParser::new().parse(input)))),
        ("c26_s2", "S") => rt::guarded(AssertUnwindSafe(|| rt::show(c26_s2::SParser::new().parse(input)))),
        ("c26_s3", "S") => rt::guarded(AssertUnwindSafe(|| rt::show(c26_s3::SParser::new().parse(input)))),
        ("c26_s4", "S") => rt::guarded(AssertUnwindSafe(|| rt::show(c26_s4::SParser::new().parse(input)))),
        ("c26_s5", "S") => rt::guarded(AssertUnwindSafe(|| rt::show(c26_s5::SParser::new().parse(input)))),
        ("c26_s6", "S") => rt::guarded(AssertUnwindSafe(|| rt::show(c26_s6::SParser::new().parse(input)))),
        ("c26_s7", "S") => rt::guarded(AssertUnwindSafe(|| rt::show(c26_s7::SParser::new().parse(input)))),
        ("c26_s8", "S") => rt::guarded(AssertUnwindSafe(|| rt::show(c26_s8::SParser::new().parse(input)))),
        ("c26_s9", "S") => rt::guarded(AssertUnwindSafe(|| rt::show(c26_s9::SParser::new().parse(input)))),
        ("c26_s10", "S") => rt::guarded(AssertUnwindSafe(|| rt::show(c26_s10::SParser::new().parse(input)))),
        ("c26_s11", "S") => rt::guarded(AssertUnwindSafe(|| rt::show(c26_s11::SParser::new().parse(input)))),
        ("c26_s12", "S") => rt::guarded(AssertUnwindSafe(|| rt::show(c26_s12::SParser::new().parse(input)))),
        ("c26_s13", "S") => rt::guarded(AssertUnwindSafe(|| rt::show(c26_s13::SParser::new().parse(input)))),
        ("c26_s14", "S") => rt::guarded(AssertUnwindSafe(|| rt::show(c26_s14::SParser::new().parse(input)))),
        ("c26_s15", "S") => rt::guarded(AssertUnwindSafe(|| rt::show(c26_s15::SParser::new().parse(input)))),
        ("c26_s16", "S") => rt::guarded(AssertUnwindSafe(|| rt::show(c26_s16::SParser::new().parse(input)))),
        ("c26_s17", "S") => rt::guarded(AssertUnwindSafe(|| rt::show(c26_s17::SParser::new().parse(input)))),
        ("c26_s18", "S") => rt::guarded(AssertUnwindSafe(|| rt::show(c26_s18::SParser::new().parse(input)))),
        ("c26_s19", "S") => rt::guarded(AssertUnwindSafe(|| rt::show(c26_s19::SParser::new().parse(input)))),
        ("c26_s20", "S") => rt::guarded(AssertUnwindSafe(|| rt::show(c26_s20::SParser::new().parse(input)))),
        ("c26_s21", "S") => rt::guarded(AssertUnwindSafe(|| rt::show(c26_s21::SParser::new().parse(input)))),
        ("c26_s22", "S") => rt::guarded(AssertUnwindSafe(|| rt::show(c26_s22::SParser::new().parse(input)))),
        ("c26_s23", "S") => rt::guarded(AssertUnwindSafe(|| rt::show(c26_s23::SParser::new().parse(input)))),
        ("c26_s24", "S") => rt::guarded(AssertUnwindSafe(|| rt::show(c26_s24::SParser::new().parse(input)))),
        ("c26_s25", "S") => rt::guarded(AssertUnwindSafe(|| rt::show(c26_s25::SParser::new().parse(input)))),
        ("c26_s26", "S") => rt::guarded(AssertUnwindSafe(|| rt::show(c26_s26::SParser::new().parse(input)))),
        ("c26_s27", "S") => rt::guarded(AssertUnwindSafe(|| rt::show(c26_s27::SParser::new().parse(input)))),
        ("c26_s28", "S") => rt::guarded(AssertUnwindSafe(|| rt::show(c26_s28::SParser::new().parse(input)))),
        ("c26_s29", "S") => rt::guarded(AssertUnwindSafe(|| rt::show(c26_s29::SParser::new().parse(input)))),
        ("c26_s30", "S") => rt::guarded(AssertUnwindSafe(|| rt::show(c26_s30::SParser::new().parse(input)))),
        ("c26_s31", "S") => rt::guarded(AssertUnwindSafe(|| rt::show(c26_s31::SParser::new().parse(input)))),
        ("c26_s32", "S") => rt::guarded(AssertUnwindSafe(|| rt::show(c26_s32::SParser::new().parse(input)))),
        ("c26_s33", "S") => rt::guarded(AssertUnwindSafe(|| rt::show(c26_s33::SParser::new().parse(input)))),
        ("c26_s34", "S") => rt::guarded(AssertUnwindSafe(|| rt::show(c26_s34::SParser::new().parse(input)))),
        ("c26_s35", "S") => rt::guarded(AssertUnwindSafe(|| rt::show(c26_s35::SParser::new().parse(input)))),
        ("c26_s36", "S") => rt::guarded(AssertUnwindSafe(|| rt::show(c26_s36::SParser::new().parse(input)))),
        ("c26_s37", "S") => rt::guarded(AssertUnwindSafe(|| rt::show(c26_s37::SParser::new().parse(input)))),
        ("c26_s38", "S") => rt::guarded(AssertUnwindSafe(|| rt::show(c26_s38::SParser::new().parse(input)))),
        ("c26_s39", "S") => rt::guarded(AssertUnwindSafe(|| rt::show(c26_s39::SParser::new().parse(input)))),
        ("c26_s40", "S") => rt::guarded(AssertUnwindSafe(|| rt::show(c26_s40::SParser::new().parse(input)))),
        ("c26_s41", "S") => rt::guarded(AssertUnwindSafe(|| rt::show(c26_s41::SParser::new().parse(input)))),
        ("c26_s42", "S") => rt::guarded(AssertUnwindSafe(|| rt::show(c26_s42::SParser::new().parse(input)))),
        ("c26_s43", "S") => rt::guarded(AssertUnwindSafe(|| rt::show(c26_s43::SParser::new().parse(input)))),
        ("c26_s44", "S") => rt::guarded(AssertUnwindSafe(|| rt::show(c26_s44::SParser::new().parse(input)))),
        ("c26_s45", "S") => rt::guarded(AssertUnwindSafe(|| rt::show(c26_s45::SParser::new().parse(input)))),
        ("c26_s46", "S") => rt::guarded(AssertUnwindSafe(|| rt::show(c26_s46::SParser::new().parse(input)))),
        ("c26_s47", "S") => rt::guarded(AssertUnwindSafe(|| rt::show(c26_s47::SParser::new().parse(input)))),
        ("c26_s48", "S") => rt::guarded(AssertUnwindSafe(|| rt::show(c26_s48::SParser::new().parse(input)))),
        ("c26_s49", "S") => rt::guarded(AssertUnwindSafe(|| rt::show(c26_s49::SParser::new().parse(input)))),
        _ => "NOPARSER".to_string(),
    }
}
fn run_mt(m: &str, p: &str, threads: usize, rounds: usize, inputs: &[String]) -> String {
    match (m, p) {
        ("c26_s0", "S") => { let p = c26_s0::SParser::new(); rt::shared(&p, inputs, threads, rounds, |p, s| rt::guarded(AssertUnwindSafe(|| rt::show(p.parse(s))))) }
        ("c26_s1", "S") => { let p = c26_s1::SParser::new(); rt::shared(&p, inputs, threads, rounds, |p, s| rt::guarded(AssertUnwindSafe(|| rt::show(p.parse(s))))) }
        ("c26_s2", "S") => { let p = c26_s2::SParser::new(); rt::shared(&p, inputs, threads, rounds, |p, s| rt::guarded(AssertUnwindSafe(|| rt::show(p.parse(s))))) }
        ("c26_s3", "S") => { let p = c26_s3::SParser::new(); rt::shared(&p, inputs, threads, rounds, |p, s| rt::guarded(AssertUnwindSafe(|| rt::show(p.parse(s))))) }
        ("c26_s4", "S") => { let p = c26_s4::SParser::new(); rt::shared(&p, inputs, threads, rounds, |p, s| rt::guarded(AssertUnwindSafe(|| rt::show(p.parse(s))))) }
        ("c26_s5", "S") => { let p = c26_s5::SParser::new(); rt::shared(&p, inputs, threads, rounds, |p, s| rt::guarded(AssertUnwindSafe(|| rt::show(p.parse(s))))) }
        ("c26_s6", "S") => { let p = c26_s6::SParser::new(); rt::shared(&p, inputs, threads, rounds, |p, s| rt::guarded(AssertUnwindSafe(|| rt::show(p.parse(s))))) }
        ("c26_s7", "S") => { let p = c26_s7::SParser::new(); rt::shared(&p, inputs, threads, rounds, |p, s| rt::guarded(AssertUnwindSafe(|| rt::show(p.parse(s))))) }
        ("c26_s8", "S") => { let p = c26_s8::SParser::new(); rt::shared(&p, inputs, threads, rounds, |p, s| rt::guarded(AssertUnwindSafe(|| rt::show(p.parse(s))))) }
        ("c26_s9", "S") => { let p = c26_s9::SParser::new(); rt::shared(&p, inputs, threads, rounds, |p, s| rt::guarded(AssertUnwindSafe(|| rt::show(p.parse(s))))) }
        ("c26_s10", "S") => { let p = c26_s10::SParser::new(); rt::shared(&p, inputs, threads, rounds, |p, s| rt::guarded(AssertUnwindSafe(|| rt::show(p.parse(s))))) }
        ("c26_s11", "S") => { let p = c26_s11::SParser::new(); rt::shared(&p, inputs, threads, rounds, |p, s| rt::guarded(AssertUnwindSafe(|| rt::show(p.parse(s))))) }
        ("c26_s12", "S") => { let p = c26_s12::SParser::new(); rt::shared(&p, inputs, threads, rounds, |p, s| rt::guarded(AssertUnwindSafe(|| rt::show(p.parse(s))))) }
        ("c26_s13", "S") => { let p = c26_s13::SParser::new(); rt::shared(&p, inputs, threads, rounds, |p, s| rt::guarded(AssertUnwindSafe(|| rt::show(p.parse(s))))) }
        ("c26_s14", "S") => { let p = c26_s14::SParser::new(); rt::shared(&p, inputs, threads, rounds, |p, s| rt::guarded(AssertUnwindSafe(|| rt::show(p.parse(s))))) }
        ("c26_s15", "S") => { let p = c26_s15::SParser::new(); rt::shared(&p, inputs, threads, rounds, |p, s| rt::guarded(AssertUnwindSafe(|| rt::show(p.parse(s))))) }
        ("c26_s16", "S") => { let p = c26_s16::SParser::new(); rt::shared(&p, inputs, threads, rounds, |p, s| rt::guarded(AssertUnwindSafe(|| rt::show(p.parse(s))))) }
        ("c26_s17", "S") => { let p = c26_s17::SParser::new(); rt::shared(&p, inputs, threads, rounds, |p, s| rt::guarded(AssertUnwindSafe(|| rt::show(p.parse(s))))) }
        ("c26_s18", "S") => { let p = c26_s18::SParser::new(); rt::shared(&p, inputs, threads, rounds, |p, s| rt::guarded(AssertUnwindSafe(|| rt::show(p.parse(s))))) }
        ("c26_s19", "S") => { let p = c26_s19::SParser::new(); rt::shared(&p, inputs, threads, rounds, |p, s| rt::guarded(AssertUnwindSafe(|| rt::show(p.parse(s))))) }
        ("c26_s20", "S") => { let p = c26_s20::SParser::new(); rt::shared(&p, inputs, threads, rounds, |p, s| rt::guarded(AssertUnwindSafe(|| rt::show(p.parse(s))))) }
        ("c26_s21", "S") => { let p = c26_s21::SParser::new(); rt::shared(&p, inputs, threads, rounds, |p, s| rt::guarded(AssertUnwindSafe(|| rt::show(p.parse(s))))) }
        ("c26_s22", "S") => { let p = c26_s22::SParser::new(); rt::shared(&p, inputs, threads, rounds, |p, s| rt::guarded(AssertUnwindSafe(|| rt::show(p.parse(s))))) }
        ("c26_s23", "S") => { let p = c26_s23::SParser::new(); rt::shared(&p, inputs, threads, rounds, |p, s| rt::guarded(AssertUnwindSafe(|| rt::show(p.parse(s))))) }
        ("c26_s24", "S") => { let p = c26_s24::SParser::new(); rt::shared(&p, inputs, threads, rounds, |p, s| rt::guarded(AssertUnwindSafe(|| rt::show(p.parse(s))))) }
        ("c26_s25", "S") => { let p = c26_s25::SParser::new(); rt::shared(&p, inputs, threads, rounds, |p, s| rt::guarded(AssertUnwindSafe(|| rt::show(p.parse(s))))) }
        ("c26_s26", "S") => { let p = c26_s26::SParser::new(); rt::shared(&p, inputs, threads, rounds, |p, s| rt::guarded(AssertUnwindSafe(|| rt::show(p.parse(s))))) }
        ("c26_s27", "S") => { let p = c26_s27::SParser::new(); rt::shared(&p, inputs, threads, rounds, |p, s| rt::guarded(AssertUnwindSafe(|| rt::show(p.parse(s))))) }
        ("c26_s28", "S") => { let p = c26_s28::SParser::new(); rt::shared(&p, inputs, threads, rounds, |p, s| rt::guarded(AssertUnwindSafe(|| rt::show(p.parse(s))))) }
        ("c26_s29", "S") => { let p = c26_s29::SParser::new(); rt::shared(&p, inputs, threads, rounds, |p, s| rt::guarded(AssertUnwindSafe(|| rt::show(p.parse(s))))) }
        ("c26_s30", "S") => { let p = c26_s30::SParser::new(); rt::shared(&p, inputs, threads, rounds, |p, s| rt::guarded(AssertUnwindSafe(|| rt::show(p.parse(s))))) }
        ("c26_s31", "S") => { let p = c26_s31::SParser::new(); rt::shared(&p, inputs, threads, rounds, |p, s| rt::guarded(AssertUnwindSafe(|| rt::show(p.parse(s))))) }
        ("c26_s32", "S") => { let p = c26_s32::SParser::new(); rt::shared(&p, inputs, threads, rounds, |p, s| rt::guarded(AssertUnwindSafe(|| rt::show(p.parse(s))))) }
        ("c26_s33", "S") => { let p = c26_s33::SParser::new(); rt::shared(&p, inputs, threads, rounds, |p, s| rt::guarded(AssertUnwindSafe(|| rt::show(p.parse(s))))) }
        ("c26_s34", "S") => { let p = c26_s34::SParser::new(); rt::shared(&p, inputs, threads, rounds, |p, s| rt::guarded(AssertUnwindSafe(|| rt::show(p.parse(s))))) }
        ("c26_s35", "S") => { let p = c26_s35::SParser::new(); rt::shared(&p, inputs, threads, rounds, |p, s| rt::guarded(AssertUnwindSafe(|| rt::show(p.parse(s))))) }
        ("c26_s36", "S") => { let p = c26_s36::SParser::new(); rt::shared(&p, inputs, threads, rounds, |p, s| rt::guarded(AssertUnwindSafe(|| rt::show(p.parse(s))))) }
        ("c26_s37", "S") => { let p = c26_s37::SParser::new(); rt::shared(&p, inputs, threads, rounds, |p, s| rt::guarded(AssertUnwindSafe(|| rt::show(p.parse(s))))) }
        ("c26_s38", "S") => { let p = c26_s38::SParser::new(); rt::shared(&p, inputs, threads, rounds, |p, s| rt::guarded(AssertUnwindSafe(|| rt::show(p.parse(s))))) }
        ("c26_s39", "S") => { let p = c26_s39::SParser::new(); rt::shared(&p, inputs, threads, rounds, |p, s| rt::guarded(AssertUnwindSafe(|| rt::show(p.parse(s))))) }
        ("c26_s40", "S") => { let p = c26_s40::SParser::new(); rt::shared(&p, inputs, threads, rounds, |p, s| rt::guarded(AssertUnwindSafe(|| rt::show(p.parse(s))))) }
        ("c26_s41", "S") => { let p = c26_s41::SParser::new(); rt::shared(&p, inputs, threads, rounds, |p, s| rt::guarded(AssertUnwindSafe(|| rt::show(p.parse(s))))) }
        ("c26_s42", "S") => { let p = c26_s42::SParser::new(); rt::shared(&p, inputs, threads, rounds, |p, s| rt::guarded(AssertUnwindSafe(|| rt::show(p.parse(s))))) }
        ("c26_s43", "S") => { let p = c26_s43::SParser::new(); rt::shared(&p, inputs, threads, rounds, |p, s| rt::guarded(AssertUnwindSafe(|| rt::show(p.parse(s))))) }
        ("c26_s44", "S") => { let p = c26_s44::SParser::new(); rt::shared(&p, inputs, threads, rounds, |p, s| rt::guarded(AssertUnwindSafe(|| rt::show(p.parse(s))))) }
        ("c26_s45", "S") => { let p = c26_s45::SParser::new(); rt::shared(&p, inputs, threads, rounds, |p, s| rt::guarded(AssertUnwindSafe(|| rt::show(p.parse(s))))) }
        ("c26_s46", "S") => { let p = c26_s46::SParser::new(); rt::shared(&p, inputs, threads, rounds, |p, s| rt::guarded(AssertUnwindSafe(|| rt::show(p.parse(s))))) }
        ("c26_s47", "S") => { let p = c26_s47::SParser::new(); rt::shared(&p, inputs, threads, rounds, |p, s| rt::guarded(AssertUnwindSafe(|| rt::show(p.parse(s))))) }
        ("c26_s48", "S") => { let p = c26_s48::SParser::new(); rt::shared(&p, inputs, threads, rounds, |p, s| rt::guarded(AssertUnwindSafe(|| rt::show(p.parse(s))))) }
        ("c26_s49", "S") => { let p = c26_s49::SParser::new(); rt::shared(&p, inputs, threads, rounds, |p, s| rt::guarded(AssertUnwindSafe(|| rt::show(p.parse(s))))) }
        _ => "NOPARSER".to_string(),
    }
}
fn main() {
    use std::io::{BufRead, Write};
    std::panic::set_hook(Box::new(|_| {}));
    let stdin = std::io::stdin();
    let out = std::io::stdout();
    let mut out = out.lock();
    for line in stdin.lock().lines() {
        let line = line.unwrap();
        let f: Vec<&str> = line.split('\t').collect();
        let r = if f[0] == "S" {
            let input = rt::unhex(f[3]);
            run_seq(f[1], f[2], &input)
        } else {
            let inputs: Vec<String> = f[5].split(',').map(rt::unhex).collect();
            run_mt(f[1], f[2], f[3].parse().unwrap(), f[4].parse().unwrap(), &inputs)
        };
        writeln!(out, "{}", r).unwrap();
    }
}
