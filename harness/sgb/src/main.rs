#![allow(warnings)]
pub mod rt;
pub mod support;
use std::panic::AssertUnwindSafe;
#[path = "gen/calc_t.rs"] mod calc_t;
#[path = "gen/words_t.rs"] mod words_t;
#[path = "gen/matchblk_t.rs"] mod matchblk_t;
#[path = "gen/recover_t.rs"] mod recover_t;
#[path = "gen/pressure_t.rs"] mod pressure_t;
#[path = "gen/calc_a.rs"] mod calc_a;
#[path = "gen/words_a.rs"] mod words_a;

fn run_seq(m: &str, p: &str, input: &str) -> String {
    match (m, p) {
        ("calc_t", "P") => rt::guarded(AssertUnwindSafe(|| rt::show(calc_t::PParser::new().parse(input)))),
        ("words_t", "P") => rt::guarded(AssertUnwindSafe(|| rt::show(words_t::PParser::new().parse(input)))),
        ("matchblk_t", "P") => rt::guarded(AssertUnwindSafe(|| rt::show(matchblk_t::PParser::new().parse(input)))),
        ("recover_t", "P") => rt::guarded(AssertUnwindSafe(|| rt::show(recover_t::PParser::new().parse(input)))),
        ("pressure_t", "P") => rt::guarded(AssertUnwindSafe(|| rt::show(pressure_t::PParser::new().parse(input)))),
        ("calc_a", "P") => rt::guarded(AssertUnwindSafe(|| rt::show(calc_a::PParser::new().parse(input)))),
        ("words_a", "P") => rt::guarded(AssertUnwindSafe(|| rt::show(words_a::PParser::new().parse(input)))),
        _ => "NOPARSER".to_string(),
    }
}
fn run_mt(m: &str, p: &str, threads: usize, rounds: usize, inputs: &[String]) -> String {
    match (m, p) {
        ("calc_t", "P") => { let p = calc_t::PParser::new(); rt::shared(&p, inputs, threads, rounds, |p, s| rt::guarded(AssertUnwindSafe(|| rt::show(p.parse(s))))) }
        ("words_t", "P") => { let p = words_t::PParser::new(); rt::shared(&p, inputs, threads, rounds, |p, s| rt::guarded(AssertUnwindSafe(|| rt::show(p.parse(s))))) }
        ("matchblk_t", "P") => { let p = matchblk_t::PParser::new(); rt::shared(&p, inputs, threads, rounds, |p, s| rt::guarded(AssertUnwindSafe(|| rt::show(p.parse(s))))) }
        ("recover_t", "P") => { let p = recover_t::PParser::new(); rt::shared(&p, inputs, threads, rounds, |p, s| rt::guarded(AssertUnwindSafe(|| rt::show(p.parse(s))))) }
        ("pressure_t", "P") => { let p = pressure_t::PParser::new(); rt::shared(&p, inputs, threads, rounds, |p, s| rt::guarded(AssertUnwindSafe(|| rt::show(p.parse(s))))) }
        ("calc_a", "P") => { let p = calc_a::PParser::new(); rt::shared(&p, inputs, threads, rounds, |p, s| rt::guarded(AssertUnwindSafe(|| rt::show(p.parse(s))))) }
        ("words_a", "P") => { let p = words_a::PParser::new(); rt::shared(&p, inputs, threads, rounds, |p, s| rt::guarded(AssertUnwindSafe(|| rt::show(p.parse(s))))) }
        _ => "NOPARSER".to_string(),
    }
}
fn main() {
    use std::io::{BufRead, Write};
    std::panic::set_hook(Box::new(|_| {}));
    let stdin = std::io::stdin();
    let out = std::io::stdout();
    let mut out = out.lock();
    for line in stdin.lock().lines() {
        let line = line.unwrap();
        let f: Vec<&str> = line.split('\t').collect();
        let r = if f[0] == "S" {
            let input = rt::unhex(f[3]);
            run_seq(f[1], f[2], &input)
        } else {
            let inputs: Vec<String> = f[5].split(',').map(rt::unhex).collect();
            run_mt(f[1], f[2], f[3].parse().unwrap(), f[4].parse().unwrap(), &inputs)
        };
        writeln!(out, "{}", r).unwrap();
    }
}
