#![allow(warnings)]
pub mod rt;
pub mod support;
use std::panic::AssertUnwindSafe;
#[path = "gen/g0it.rs"] mod g0it;
#[path = "gen/g0ia.rs"] mod g0ia;
#[path = "gen/g0et.rs"] mod g0et;
#[path = "gen/g0ea.rs"] mod g0ea;
#[path = "gen/g2it.rs"] mod g2it;
#[path = "gen/g2ia.rs"] mod g2ia;
#[path = "gen/g2et.rs"] mod g2et;
#[path = "gen/g2ea.rs"] mod g2ea;
#[path = "gen/g3it.rs"] mod g3it;
#[path = "gen/g3ia.rs"] mod g3ia;
#[path = "gen/g3et.rs"] mod g3et;
#[path = "gen/g3ea.rs"] mod g3ea;
#[path = "gen/g5it.rs"] mod g5it;
#[path = "gen/g5ia.rs"] mod g5ia;
#[path = "gen/g5et.rs"] mod g5et;
#[path = "gen/g5ea.rs"] mod g5ea;
#[path = "gen/g6it.rs"] mod g6it;
#[path = "gen/g6ia.rs"] mod g6ia;
#[path = "gen/g6et.rs"] mod g6et;
#[path = "gen/g6ea.rs"] mod g6ea;
#[path = "gen/g7it.rs"] mod g7it;
#[path = "gen/g7et.rs"] mod g7et;
#[path = "gen/g9it.rs"] mod g9it;
#[path = "gen/g9ia.rs"] mod g9ia;
#[path = "gen/g9et.rs"] mod g9et;
#[path = "gen/g9ea.rs"] mod g9ea;
#[path = "gen/mtyt.rs"] mod mtyt;
#[path = "gen/mtya.rs"] mod mtya;

fn run_seq(m: &str, p: &str, input: &str) -> String {
    match (m, p) {
        ("g0it", "S") => rt::guarded(AssertUnwindSafe(|| rt::show(g0it::SParser::new().parse(input)))),
        ("g0ia", "S") => rt::guarded(AssertUnwindSafe(|| rt::show(g0ia::SParser::new().parse(input)))),
        ("g2it", "S") => rt::guarded(AssertUnwindSafe(|| rt::show(g2it::SParser::new().parse("n", &7u8, input)))),
        ("g2ia", "S") => rt::guarded(AssertUnwindSafe(|| rt::show(g2ia::SParser::new().parse("n", &7u8, input)))),
        ("g3it", "S") => rt::guarded(AssertUnwindSafe(|| rt::show(g3it::SParser::new().parse(&|n: usize| n as u64, input)))),
        ("g3ia", "S") => rt::guarded(AssertUnwindSafe(|| rt::show(g3ia::SParser::new().parse(&|n: usize| n as u64, input)))),
        ("g5it", "S") => rt::guarded(AssertUnwindSafe(|| rt::show(g5it::SParser::new().parse(input)))),
        ("g5ia", "S") => rt::guarded(AssertUnwindSafe(|| rt::show(g5ia::SParser::new().parse(input)))),
        ("g6it", "S") => rt::guarded(AssertUnwindSafe(|| rt::show(g6it::SParser::new().parse("n", &7u8, input)))),
        ("g6ia", "S") => rt::guarded(AssertUnwindSafe(|| rt::show(g6ia::SParser::new().parse("n", &7u8, input)))),
        ("g7it", "S") => rt::guarded(AssertUnwindSafe(|| rt::show(g7it::SParser::new().parse(&|n: usize| n as u64, input)))),
        ("g9it", "S") => rt::guarded(AssertUnwindSafe(|| rt::show(g9it::SParser::new().parse(input)))),
        ("g9ia", "S") => rt::guarded(AssertUnwindSafe(|| rt::show(g9ia::SParser::new().parse(input)))),
        ("mtyt", "S") => rt::guarded(AssertUnwindSafe(|| rt::show(mtyt::SParser::new().parse(input)))),
        ("mtya", "S") => rt::guarded(AssertUnwindSafe(|| rt::show(mtya::SParser::new().parse(input)))),
        _ => "NOPARSER".to_string(),
    }
}
fn run_mt(m: &str, p: &str, threads: usize, rounds: usize, inputs: &[String]) -> String {
    match (m, p) {
        ("g0it", "S") => { let p = g0it::SParser::new(); rt::shared(&p, inputs, threads, rounds, |p, s| rt::guarded(AssertUnwindSafe(|| rt::show(p.parse(s))))) }
        ("g0ia", "S") => { let p = g0ia::SParser::new(); rt::shared(&p, inputs, threads, rounds, |p, s| rt::guarded(AssertUnwindSafe(|| rt::show(p.parse(s))))) }
        ("g2it", "S") => { let p = g2it::SParser::new(); rt::shared(&p, inputs, threads, rounds, |p, s| rt::guarded(AssertUnwindSafe(|| rt::show(p.parse("n", &7u8, s))))) }
        ("g2ia", "S") => { let p = g2ia::SParser::new(); rt::shared(&p, inputs, threads, rounds, |p, s| rt::guarded(AssertUnwindSafe(|| rt::show(p.parse("n", &7u8, s))))) }
        ("g3it", "S") => { let p = g3it::SParser::new(); rt::shared(&p, inputs, threads, rounds, |p, s| rt::guarded(AssertUnwindSafe(|| rt::show(p.parse(&|n: usize| n as u64, s))))) }
        ("g3ia", "S") => { let p = g3ia::SParser::new(); rt::shared(&p, inputs, threads, rounds, |p, s| rt::guarded(AssertUnwindSafe(|| rt::show(p.parse(&|n: usize| n as u64, s))))) }
        ("g5it", "S") => { let p = g5it::SParser::new(); rt::shared(&p, inputs, threads, rounds, |p, s| rt::guarded(AssertUnwindSafe(|| rt::show(p.parse(s))))) }
        ("g5ia", "S") => { let p = g5ia::SParser::new(); rt::shared(&p, inputs, threads, rounds, |p, s| rt::guarded(AssertUnwindSafe(|| rt::show(p.parse(s))))) }
        ("g6it", "S") => { let p = g6it::SParser::new(); rt::shared(&p, inputs, threads, rounds, |p, s| rt::guarded(AssertUnwindSafe(|| rt::show(p.parse("n", &7u8, s))))) }
        ("g6ia", "S") => { let p = g6ia::SParser::new(); rt::shared(&p, inputs, threads, rounds, |p, s| rt::guarded(AssertUnwindSafe(|| rt::show(p.parse("n", &7u8, s))))) }
        ("g7it", "S") => { let p = g7it::SParser::new(); rt::shared(&p, inputs, threads, rounds, |p, s| rt::guarded(AssertUnwindSafe(|| rt::show(p.parse(&|n: usize| n as u64, s))))) }
        ("g9it", "S") => { let p = g9it::SParser::new(); rt::shared(&p, inputs, threads, rounds, |p, s| rt::guarded(AssertUnwindSafe(|| rt::show(p.parse(s))))) }
        ("g9ia", "S") => { let p = g9ia::SParser::new(); rt::shared(&p, inputs, threads, rounds, |p, s| rt::guarded(AssertUnwindSafe(|| rt::show(p.parse(s))))) }
        ("mtyt", "S") => { let p = mtyt::SParser::new(); rt::shared(&p, inputs, threads, rounds, |p, s| rt::guarded(AssertUnwindSafe(|| rt::show(p.parse(s))))) }
        ("mtya", "S") => { let p = mtya::SParser::new(); rt::shared(&p, inputs, threads, rounds, |p, s| rt::guarded(AssertUnwindSafe(|| rt::show(p.parse(s))))) }
        _ => "NOPARSER".to_string(),
    }
}
fn main() {
    use std::io::{BufRead, Write};
    std::panic::set_hook(Box::new(|_| {}));
    let stdin = std::io::stdin();
    let out = std::io::stdout();
    let mut out = out.lock();
    for line in stdin.lock().lines() {
        let line = line.unwrap();
        let f: Vec<&str> = line.split('\t').collect();
        let r = if f[0] == "S" {
            let input = rt::unhex(f[3]);
            run_seq(f[1], f[2], &input)
        } else {
            let inputs: Vec<String> = f[5].split(',').map(rt::unhex).collect();
            run_mt(f[1], f[2], f[3].parse().unwrap(), f[4].parse().unwrap(), &inputs)
        };
        writeln!(out, "{}", r).unwrap();
    }
}
