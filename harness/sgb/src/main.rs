#![allow(warnings)]
pub mod rt;
pub mod support;
use std::panic::AssertUnwindSafe;
#[path = "gen/c06mact.rs"] mod c06mact;
#[path = "gen/c06maca.rs"] mod c06maca;

fn run_seq(m: &str, p: &str, input: &str) -> String {
    match (m, p) {
        ("c06mact", "S") => rt::guarded(AssertUnwindSafe(|| rt::show(c06mact::SParser::new().parse(input)))),
        ("c06mact", "P") => rt::guarded(AssertUnwindSafe(|| rt::show(c06mact::PParser::new().parse(input)))),
        ("c06mact", "O") => rt::guarded(AssertUnwindSafe(|| rt::show(c06mact::OParser::new().parse(input)))),
        ("c06maca", "S") => rt::guarded(AssertUnwindSafe(|| rt::show(c06maca::SParser::new().parse(input)))),
        ("c06maca", "P") => rt::guarded(AssertUnwindSafe(|| rt::show(c06maca::PParser::new().parse(input)))),
        ("c06maca", "O") => rt::guarded(AssertUnwindSafe(|| rt::show(c06maca::OParser::new().parse(input)))),
        _ => "NOPARSER".to_string(),
    }
}
fn run_mt(m: &str, p: &str, threads: usize, rounds: usize, inputs: &[String]) -> String {
    match (m, p) {
        ("c06mact", "S") => { let p = c06mact::SParser::new(); rt::shared(&p, inputs, threads, rounds, |p, s| rt::guarded(AssertUnwindSafe(|| rt::show(p.parse(s))))) }
        ("c06mact", "P") => { let p = c06mact::PParser::new(); rt::shared(&p, inputs, threads, rounds, |p, s| rt::guarded(AssertUnwindSafe(|| rt::show(p.parse(s))))) }
        ("c06mact", "O") => { let p = c06mact::OParser::new(); rt::shared(&p, inputs, threads, rounds, |p, s| rt::guarded(AssertUnwindSafe(|| rt::show(p.parse(s))))) }
        ("c06maca", "S") => { let p = c06maca::SParser::new(); rt::shared(&p, inputs, threads, rounds, |p, s| rt::guarded(AssertUnwindSafe(|| rt::show(p.parse(s))))) }
        ("c06maca", "P") => { let p = c06maca::PParser::new(); rt::shared(&p, inputs, threads, rounds, |p, s| rt::guarded(AssertUnwindSafe(|| rt::show(p.parse(s))))) }
        ("c06maca", "O") => { let p = c06maca::OParser::new(); rt::shared(&p, inputs, threads, rounds, |p, s| rt::guarded(AssertUnwindSafe(|| rt::show(p.parse(s))))) }
        _ => "NOPARSER".to_string(),
    }
}
fn main() {
    use std::io::{BufRead, Write};
    std::panic::set_hook(Box::new(|_| {}));
    let stdin = std::io::stdin();
    let out = std::io::stdout();
    let mut out = out.lock();
    for line in stdin.lock().lines() {
        let line = line.unwrap();
        let f: Vec<&str> = line.split('\t').collect();
        let r = if f[0] == "S" {
            let input = rt::unhex(f[3]);
            run_seq(f[1], f[2], &input)
        } else {
            let inputs: Vec<String> = f[5].split(',').map(rt::unhex).collect();
            run_mt(f[1], f[2], f[3].parse().unwrap(), f[4].parse().unwrap(), &inputs)
        };
        writeln!(out, "{}", r).unwrap();
    }
}
