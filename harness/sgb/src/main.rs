#![allow(warnings)]
pub mod rt;
pub mod support;
use std::panic::AssertUnwindSafe;
#[path = "gen/c26_s0.rs"] mod c26_s0;
#[path = "gen/c26_s1.rs"] mod c26_s1;
#[path = "gen/c26_s2.rs"] mod c26_s2;
#[path = "gen/c26_s3.rs"] mod c26_s3;
#[path = "gen/c26_s4.rs"] mod c26_s4;

fn run_seq(m: &str, p: &str, input: &str) -> String {
    match (m, p) {
        ("c26_s0", "S") => rt::guarded(AssertUnwindSafe(|| rt::show(c26_s0::SParser::new().parse(input)))),
        ("c26_s1", "S") => rt::guarded(AssertUnwindSafe(|| rt::show(c26_s1::SParser::new().parse(input)))),
        ("c26_s2", "S") => rt::guarded(AssertUnwindSafe(|| rt::show(c26_s2::SParser::new().parse(input)))),
        ("c26_s3", "S") => rt::guarded(AssertUnwindSafe(|| rt::show(c26_s3::SParser::new().parse(input)))),
        ("c26_s4", "S") => rt::guarded(AssertUnwindSafe(|| rt::show(c26_s4::SParser::new().parse(input)))),
        _ => "NOPARSER".to_string(),
    }
}
fn run_mt(m: &str, p: &str, threads: usize, rounds: usize, inputs: &[String]) -> String {
    match (m, p) {
        ("c26_s0", "S") => { let p = c26_s0::SParser::new(); rt::shared(&p, inputs, threads, rounds, |p, s| rt::guarded(AssertUnwindSafe(|| rt::show(p.parse(s))))) }
        ("c26_s1", "S") => { let p = c26_s1::SParser::new(); rt::shared(&p, inputs, threads, rounds, |p, s| rt::guarded(AssertUnwindSafe(|| rt::show(p.parse(s))))) }
        ("c26_s2", "S") => { let p = c26_s2::SParser::new(); rt::shared(&p, inputs, threads, rounds, |p, s| rt::guarded(AssertUnwindSafe(|| rt::show(p.parse(s))))) }
        ("c26_s3", "S") => { let p = c26_s3::SParser::new(); rt::shared(&p, inputs, threads, rounds, |p, s| rt::guarded(AssertUnwindSafe(|| rt::show(p.parse(s))))) }
        ("c26_s4", "S") => { let p = c26_s4::SParser::new(); rt::shared(&p, inputs, threads, rounds, |p, s| rt::guarded(AssertUnwindSafe(|| rt::show(p.parse(s))))) }
        _ => "NOPARSER".to_string(),
    }
}
fn main() {
    use std::io::{BufRead, Write};
    std::panic::set_hook(Box::new(|_| {}));
    let stdin = std::io::stdin();
    let out = std::io::stdout();
    let mut out = out.lock();
    for line in stdin.lock().lines() {
        let line = line.unwrap();
        let f: Vec<&str> = line.split('\t').collect();
        let r = if f[0] == "S" {
            let input = rt::unhex(f[3]);
            run_seq(f[1], f[2], &input)
        } else {
            let inputs: Vec<String> = f[5].split(',').map(rt::unhex).collect();
            run_mt(f[1], f[2], f[3].parse().unwrap(), f[4].parse().unwrap(), &inputs)
        };
        writeln!(out, "{}", r).unwrap();
    }
}
