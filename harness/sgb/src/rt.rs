//! Runtime of the string-input compiled-parser tier (built-in lexer grammars): runs one parser on
//! one input and prints the result with Debug; shared-parser multi-thread runs.
use std::fmt::Debug;

pub fn unhex(s: &str) -> String {
    let b: Vec<u8> = (0..s.len() / 2).map(|i| u8::from_str_radix(&s[2 * i..2 * i + 2], 16).unwrap()).collect();
    String::from_utf8_lossy(&b).into_owned()
}

pub fn show<T: Debug, E: Debug>(r: Result<T, E>) -> String {
    match r {
        Ok(v) => format!("OK {:?}", v),
        Err(e) => format!("ERR {:?}", e),
    }
}

pub fn guarded<F: FnOnce() -> String + std::panic::UnwindSafe>(f: F) -> String {
    match std::panic::catch_unwind(f) {
        Ok(s) => s.replace('\n', "\\n"),
        Err(_) => "PANIC".to_string(),
    }
}

/// one shared parser, `threads` threads, every thread parses all inputs `rounds` times starting at a
/// different offset; returns per thread the list of results in input order of the last round, and
/// whether all rounds agreed
pub fn shared<P: Sync, F: Fn(&P, &str) -> String + Sync>(p: &P, inputs: &[String], threads: usize, rounds: usize, f: F) -> String {
    let outs: Vec<(Vec<String>, bool)> = std::thread::scope(|s| {
        let hs: Vec<_> = (0..threads)
            .map(|t| {
                let f = &f;
                s.spawn(move || {
                    let n = inputs.len();
                    let mut last: Vec<String> = vec![String::new(); n];
                    let mut stable = true;
                    for r in 0..rounds {
                        for k in 0..n {
                            let i = (k + t * 7 + r) % n;
                            let o = f(p, &inputs[i]);
                            if r > 0 && last[i] != o {
                                stable = false;
                            }
                            last[i] = o;
                        }
                    }
                    (last, stable)
                })
            })
            .collect();
        hs.into_iter().map(|h| h.join().unwrap_or((vec!["PANIC".to_string()], false))).collect()
    });
    outs.iter()
        .map(|(v, st)| format!("{}\u{1}{}", if *st { "stable" } else { "UNSTABLE" }, v.join("\u{2}")))
        .collect::<Vec<_>>()
        .join("\u{3}")
        .replace('\n', "\\n")
}
