// auto-generated: "lalrpop 0.23.1"
// sha3: c196a751313d7343f3ad2a21345a2f3a1cf2829631eb554a0bc8c7311148457c
use crate::support::*;
#[allow(unused_extern_crates)]
extern crate lalrpop_util as __lalrpop_util;
#[allow(unused_imports)]
use self::__lalrpop_util::state_machine as __state_machine;
#[allow(unused_extern_crates)]
extern crate alloc;

#[rustfmt::skip]
#[allow(explicit_outlives_requirements, non_snake_case, non_camel_case_types, unused_mut, unused_variables, unused_imports, unused_parens, clippy::needless_lifetimes, clippy::type_complexity, clippy::needless_return, clippy::too_many_arguments, clippy::match_single_binding, clippy::clone_on_copy, clippy::unit_arg)]
mod __parse__S {

    use crate::support::*;
    #[allow(unused_extern_crates)]
    extern crate lalrpop_util as __lalrpop_util;
    #[allow(unused_imports)]
    use self::__lalrpop_util::state_machine as __state_machine;
    #[allow(unused_extern_crates)]
    extern crate alloc;
    use self::__lalrpop_util::lexer::Token;
    pub struct SParser {
        builder: __lalrpop_util::lexer::MatcherBuilder,
        _priv: (),
    }

    impl Default for SParser { fn default() -> Self { Self::new() } }
    impl SParser {
        pub fn new() -> SParser {
            let __builder = super::__intern_token::new_builder();
            SParser {
                builder: __builder,
                _priv: (),
            }
        }

        #[allow(dead_code)]
        pub fn parse<
            'input,
            's,
            T,
        >(
            &self,
            name: &'s str,
            seed: &T,
            input: &'input str,
        ) -> Result<Ast<'s, (usize, T)>, __lalrpop_util::ParseError<usize, Token<'input>, &'static str>>
        where
            T: Clone,
            T: std::fmt::Debug,
        {
            let mut __tokens = self.builder.matcher(input);
            let __lookahead = match __tokens.next() {
                Some(Ok(v)) => Some(v),
                Some(Err(e)) => return Err(e),
                None => None,
            };
            match __state0(name, seed, input, &mut __tokens, __lookahead, core::marker::PhantomData::<(&(), &(), T)>)? {
                (Some(__lookahead), _) => {
                    Err(__lalrpop_util::ParseError::ExtraToken { token: __lookahead })
                }
                (None, __Nonterminal::____S((_, __nt, _))) => {
                    Ok(__nt)
                }
                _ => unreachable!(),
            }
        }
    }

    #[allow(dead_code)]
    enum __Nonterminal<'input, 's, T>
     where T: Clone, T: std::fmt::Debug
     {
        _28_22a_22_20_3c_22b_22_3e_29((usize, &'input str, usize)),
        _40L((usize, usize, usize)),
        _40R((usize, usize, usize)),
        Item((usize, usize, usize)),
        Item_2a((usize, alloc::vec::Vec<usize>, usize)),
        Item_2b((usize, alloc::vec::Vec<usize>, usize)),
        N0((usize, &'input str, usize)),
        N1((usize, &'input str, usize)),
        S((usize, Ast<'s, (usize, T)>, usize)),
        ____S((usize, Ast<'s, (usize, T)>, usize)),
    }

    fn __state0<
        'input,
        's,
        T,
        __TOKENS: Iterator<Item=Result<(usize, Token<'input>, usize),__lalrpop_util::ParseError<usize, Token<'input>, &'static str>>>,
    >(
        name: &'s str,
        seed: &T,
        input: &'input str,
        __tokens: &mut __TOKENS,
        __lookahead: Option<(usize, Token<'input>, usize)>,
        _: core::marker::PhantomData<(&'input (), &'s (), T)>,
    ) -> Result<(Option<(usize, Token<'input>, usize)>, __Nonterminal<'input, 's, T>), __lalrpop_util::ParseError<usize, Token<'input>, &'static str>>
    where
        T: Clone,
        T: std::fmt::Debug,
    {
        let mut __result: (Option<(usize, Token<'input>, usize)>, __Nonterminal<'input, 's, T>);
        match __lookahead {
            Some((__loc1, Token(1, __tok0), __loc2)) => {
                let __sym0 = (__loc1, (__tok0), __loc2);
                __result = __state6(name, seed, input, __tokens, __sym0, core::marker::PhantomData::<(&(), &(), T)>)?;
            }
            None => {
                let __start: usize = __lookahead.as_ref().map(|o| o.0.clone()).unwrap_or_default();
                let __end = __start.clone();
                let __nt = super::__action15::<T>(name, seed, input, &__start, &__end);
                let __nt = __Nonterminal::S((
                    __start,
                    __nt,
                    __end,
                ));
                __result = (__lookahead, __nt);
            }
            _ => {
                #[allow(clippy::needless_raw_string_hashes)]
                let __expected = alloc::vec![
                    r###""a""###.to_string(),
                ];
                return Err(
                    match __lookahead {
                        Some(__token) => {
                            __lalrpop_util::ParseError::UnrecognizedToken {
                                token: __token,
                                expected: __expected,
                            }
                        }
                        None => {
                            let __location = Default::default();
                            __lalrpop_util::ParseError::UnrecognizedEof {
                                location: __location,
                                expected: __expected,
                            }
                        }
                    }
                )
            }
        }
        #[allow(clippy::never_loop)]
        loop {
            let (__lookahead, __nt) = __result;
            match __nt {
                __Nonterminal::Item(__sym0) => {
                    __result = __state2(name, seed, input, __tokens, __lookahead, __sym0, core::marker::PhantomData::<(&(), &(), T)>)?;
                }
                __Nonterminal::Item_2b(__sym0) => {
                    __result = __state1(name, seed, input, __tokens, __lookahead, __sym0, core::marker::PhantomData::<(&(), &(), T)>)?;
                }
                __Nonterminal::N0(__sym0) => {
                    __result = __state3(name, seed, input, __tokens, __lookahead, __sym0, core::marker::PhantomData::<(&(), &(), T)>)?;
                }
                __Nonterminal::N1(__sym0) => {
                    __result = __state4(name, seed, input, __tokens, __lookahead, __sym0, core::marker::PhantomData::<(&(), &(), T)>)?;
                }
                __Nonterminal::S(__sym0) => {
                    __result = __state5(name, seed, input, __tokens, __lookahead, __sym0, core::marker::PhantomData::<(&(), &(), T)>)?;
                }
                _ => {
                    return Ok((__lookahead, __nt));
                }
            }
        }
    }

    fn __state1<
        'input,
        's,
        T,
        __TOKENS: Iterator<Item=Result<(usize, Token<'input>, usize),__lalrpop_util::ParseError<usize, Token<'input>, &'static str>>>,
    >(
        name: &'s str,
        seed: &T,
        input: &'input str,
        __tokens: &mut __TOKENS,
        __lookahead: Option<(usize, Token<'input>, usize)>,
        __sym0: (usize, alloc::vec::Vec<usize>, usize),
        _: core::marker::PhantomData<(&'input (), &'s (), T)>,
    ) -> Result<(Option<(usize, Token<'input>, usize)>, __Nonterminal<'input, 's, T>), __lalrpop_util::ParseError<usize, Token<'input>, &'static str>>
    where
        T: Clone,
        T: std::fmt::Debug,
    {
        let mut __result: (Option<(usize, Token<'input>, usize)>, __Nonterminal<'input, 's, T>);
        match __lookahead {
            Some((__loc1, Token(1, __tok0), __loc2)) => {
                let __sym1 = (__loc1, (__tok0), __loc2);
                __result = __state6(name, seed, input, __tokens, __sym1, core::marker::PhantomData::<(&(), &(), T)>)?;
            }
            None => {
                let __start = __sym0.0.clone();
                let __end = __sym0.2.clone();
                let __nt = super::__action16::<T>(name, seed, input, __sym0);
                let __nt = __Nonterminal::S((
                    __start,
                    __nt,
                    __end,
                ));
                __result = (__lookahead, __nt);
                return Ok(__result);
            }
            _ => {
                #[allow(clippy::needless_raw_string_hashes)]
                let __expected = alloc::vec![
                    r###""a""###.to_string(),
                ];
                return Err(
                    match __lookahead {
                        Some(__token) => {
                            __lalrpop_util::ParseError::UnrecognizedToken {
                                token: __token,
                                expected: __expected,
                            }
                        }
                        None => {
                            let __location = __sym0.2.clone();
                            __lalrpop_util::ParseError::UnrecognizedEof {
                                location: __location,
                                expected: __expected,
                            }
                        }
                    }
                )
            }
        }
        #[allow(clippy::never_loop)]
        loop {
            let (__lookahead, __nt) = __result;
            match __nt {
                __Nonterminal::Item(__sym1) => {
                    __result = __state7(name, seed, input, __tokens, __lookahead, __sym0, __sym1, core::marker::PhantomData::<(&(), &(), T)>)?;
                    return Ok(__result);
                }
                __Nonterminal::N0(__sym1) => {
                    __result = __state3(name, seed, input, __tokens, __lookahead, __sym1, core::marker::PhantomData::<(&(), &(), T)>)?;
                }
                __Nonterminal::N1(__sym1) => {
                    __result = __state4(name, seed, input, __tokens, __lookahead, __sym1, core::marker::PhantomData::<(&(), &(), T)>)?;
                }
                _ => {
                    return Ok((__lookahead, __nt));
                }
            }
        }
    }

    fn __state2<
        'input,
        's,
        T,
        __TOKENS: Iterator<Item=Result<(usize, Token<'input>, usize),__lalrpop_util::ParseError<usize, Token<'input>, &'static str>>>,
    >(
        name: &'s str,
        seed: &T,
        input: &'input str,
        __tokens: &mut __TOKENS,
        __lookahead: Option<(usize, Token<'input>, usize)>,
        __sym0: (usize, usize, usize),
        _: core::marker::PhantomData<(&'input (), &'s (), T)>,
    ) -> Result<(Option<(usize, Token<'input>, usize)>, __Nonterminal<'input, 's, T>), __lalrpop_util::ParseError<usize, Token<'input>, &'static str>>
    where
        T: Clone,
        T: std::fmt::Debug,
    {
        let mut __result: (Option<(usize, Token<'input>, usize)>, __Nonterminal<'input, 's, T>);
        match __lookahead {
            Some((_, Token(1, _), _)) |
            None => {
                let __start = __sym0.0.clone();
                let __end = __sym0.2.clone();
                let __nt = super::__action10::<T>(name, seed, input, __sym0);
                let __nt = __Nonterminal::Item_2b((
                    __start,
                    __nt,
                    __end,
                ));
                __result = (__lookahead, __nt);
                return Ok(__result);
            }
            _ => {
                #[allow(clippy::needless_raw_string_hashes)]
                let __expected = alloc::vec![
                    r###""a""###.to_string(),
                ];
                return Err(
                    match __lookahead {
                        Some(__token) => {
                            __lalrpop_util::ParseError::UnrecognizedToken {
                                token: __token,
                                expected: __expected,
                            }
                        }
                        None => {
                            let __location = __sym0.2.clone();
                            __lalrpop_util::ParseError::UnrecognizedEof {
                                location: __location,
                                expected: __expected,
                            }
                        }
                    }
                )
            }
        }
    }

    fn __state3<
        'input,
        's,
        T,
        __TOKENS: Iterator<Item=Result<(usize, Token<'input>, usize),__lalrpop_util::ParseError<usize, Token<'input>, &'static str>>>,
    >(
        name: &'s str,
        seed: &T,
        input: &'input str,
        __tokens: &mut __TOKENS,
        __lookahead: Option<(usize, Token<'input>, usize)>,
        __sym0: (usize, &'input str, usize),
        _: core::marker::PhantomData<(&'input (), &'s (), T)>,
    ) -> Result<(Option<(usize, Token<'input>, usize)>, __Nonterminal<'input, 's, T>), __lalrpop_util::ParseError<usize, Token<'input>, &'static str>>
    where
        T: Clone,
        T: std::fmt::Debug,
    {
        let mut __result: (Option<(usize, Token<'input>, usize)>, __Nonterminal<'input, 's, T>);
        match __lookahead {
            Some((__loc1, Token(0, __tok0), __loc2)) => {
                let __sym1 = (__loc1, (__tok0), __loc2);
                __result = __state8(name, seed, input, __tokens, __sym0, __sym1, core::marker::PhantomData::<(&(), &(), T)>)?;
                return Ok(__result);
            }
            _ => {
                #[allow(clippy::needless_raw_string_hashes)]
                let __expected = alloc::vec![
                    r###"",""###.to_string(),
                ];
                return Err(
                    match __lookahead {
                        Some(__token) => {
                            __lalrpop_util::ParseError::UnrecognizedToken {
                                token: __token,
                                expected: __expected,
                            }
                        }
                        None => {
                            let __location = __sym0.2.clone();
                            __lalrpop_util::ParseError::UnrecognizedEof {
                                location: __location,
                                expected: __expected,
                            }
                        }
                    }
                )
            }
        }
    }

    fn __state4<
        'input,
        's,
        T,
        __TOKENS: Iterator<Item=Result<(usize, Token<'input>, usize),__lalrpop_util::ParseError<usize, Token<'input>, &'static str>>>,
    >(
        name: &'s str,
        seed: &T,
        input: &'input str,
        __tokens: &mut __TOKENS,
        __lookahead: Option<(usize, Token<'input>, usize)>,
        __sym0: (usize, &'input str, usize),
        _: core::marker::PhantomData<(&'input (), &'s (), T)>,
    ) -> Result<(Option<(usize, Token<'input>, usize)>, __Nonterminal<'input, 's, T>), __lalrpop_util::ParseError<usize, Token<'input>, &'static str>>
    where
        T: Clone,
        T: std::fmt::Debug,
    {
        let mut __result: (Option<(usize, Token<'input>, usize)>, __Nonterminal<'input, 's, T>);
        match __lookahead {
            Some((__loc1, Token(3, __tok0), __loc2)) => {
                let __sym1 = (__loc1, (__tok0), __loc2);
                __result = __state9(name, seed, input, __tokens, __sym0, __sym1, core::marker::PhantomData::<(&(), &(), T)>)?;
                return Ok(__result);
            }
            _ => {
                #[allow(clippy::needless_raw_string_hashes)]
                let __expected = alloc::vec![
                    r###""c""###.to_string(),
                ];
                return Err(
                    match __lookahead {
                        Some(__token) => {
                            __lalrpop_util::ParseError::UnrecognizedToken {
                                token: __token,
                                expected: __expected,
                            }
                        }
                        None => {
                            let __location = __sym0.2.clone();
                            __lalrpop_util::ParseError::UnrecognizedEof {
                                location: __location,
                                expected: __expected,
                            }
                        }
                    }
                )
            }
        }
    }

    fn __state5<
        'input,
        's,
        T,
        __TOKENS: Iterator<Item=Result<(usize, Token<'input>, usize),__lalrpop_util::ParseError<usize, Token<'input>, &'static str>>>,
    >(
        name: &'s str,
        seed: &T,
        input: &'input str,
        __tokens: &mut __TOKENS,
        __lookahead: Option<(usize, Token<'input>, usize)>,
        __sym0: (usize, Ast<'s, (usize, T)>, usize),
        _: core::marker::PhantomData<(&'input (), &'s (), T)>,
    ) -> Result<(Option<(usize, Token<'input>, usize)>, __Nonterminal<'input, 's, T>), __lalrpop_util::ParseError<usize, Token<'input>, &'static str>>
    where
        T: Clone,
        T: std::fmt::Debug,
    {
        let mut __result: (Option<(usize, Token<'input>, usize)>, __Nonterminal<'input, 's, T>);
        match __lookahead {
            None => {
                let __start = __sym0.0.clone();
                let __end = __sym0.2.clone();
                let __nt = super::__action0::<T>(name, seed, input, __sym0);
                let __nt = __Nonterminal::____S((
                    __start,
                    __nt,
                    __end,
                ));
                __result = (__lookahead, __nt);
                return Ok(__result);
            }
            _ => {
                #[allow(clippy::needless_raw_string_hashes)]
                let __expected = alloc::vec![
                ];
                return Err(
                    match __lookahead {
                        Some(__token) => {
                            __lalrpop_util::ParseError::UnrecognizedToken {
                                token: __token,
                                expected: __expected,
                            }
                        }
                        None => {
                            let __location = __sym0.2.clone();
                            __lalrpop_util::ParseError::UnrecognizedEof {
                                location: __location,
                                expected: __expected,
                            }
                        }
                    }
                )
            }
        }
    }

    fn __state6<
        'input,
        's,
        T,
        __TOKENS: Iterator<Item=Result<(usize, Token<'input>, usize),__lalrpop_util::ParseError<usize, Token<'input>, &'static str>>>,
    >(
        name: &'s str,
        seed: &T,
        input: &'input str,
        __tokens: &mut __TOKENS,
        __sym0: (usize, &'input str, usize),
        _: core::marker::PhantomData<(&'input (), &'s (), T)>,
    ) -> Result<(Option<(usize, Token<'input>, usize)>, __Nonterminal<'input, 's, T>), __lalrpop_util::ParseError<usize, Token<'input>, &'static str>>
    where
        T: Clone,
        T: std::fmt::Debug,
    {
        let mut __result: (Option<(usize, Token<'input>, usize)>, __Nonterminal<'input, 's, T>);
        let __lookahead = match __tokens.next() {
            Some(Ok(v)) => Some(v),
            Some(Err(e)) => return Err(e),
            None => None,
        };
        match __lookahead {
            Some((__loc1, Token(2, __tok0), __loc2)) => {
                let __sym1 = (__loc1, (__tok0), __loc2);
                __result = __state10(name, seed, input, __tokens, __sym0, __sym1, core::marker::PhantomData::<(&(), &(), T)>)?;
                return Ok(__result);
            }
            _ => {
                #[allow(clippy::needless_raw_string_hashes)]
                let __expected = alloc::vec![
                    r###""b""###.to_string(),
                ];
                return Err(
                    match __lookahead {
                        Some(__token) => {
                            __lalrpop_util::ParseError::UnrecognizedToken {
                                token: __token,
                                expected: __expected,
                            }
                        }
                        None => {
                            let __location = __sym0.2.clone();
                            __lalrpop_util::ParseError::UnrecognizedEof {
                                location: __location,
                                expected: __expected,
                            }
                        }
                    }
                )
            }
        }
    }

    fn __state7<
        'input,
        's,
        T,
        __TOKENS: Iterator<Item=Result<(usize, Token<'input>, usize),__lalrpop_util::ParseError<usize, Token<'input>, &'static str>>>,
    >(
        name: &'s str,
        seed: &T,
        input: &'input str,
        __tokens: &mut __TOKENS,
        __lookahead: Option<(usize, Token<'input>, usize)>,
        __sym0: (usize, alloc::vec::Vec<usize>, usize),
        __sym1: (usize, usize, usize),
        _: core::marker::PhantomData<(&'input (), &'s (), T)>,
    ) -> Result<(Option<(usize, Token<'input>, usize)>, __Nonterminal<'input, 's, T>), __lalrpop_util::ParseError<usize, Token<'input>, &'static str>>
    where
        T: Clone,
        T: std::fmt::Debug,
    {
        let mut __result: (Option<(usize, Token<'input>, usize)>, __Nonterminal<'input, 's, T>);
        match __lookahead {
            Some((_, Token(1, _), _)) |
            None => {
                let __start = __sym0.0.clone();
                let __end = __sym1.2.clone();
                let __nt = super::__action11::<T>(name, seed, input, __sym0, __sym1);
                let __nt = __Nonterminal::Item_2b((
                    __start,
                    __nt,
                    __end,
                ));
                __result = (__lookahead, __nt);
                return Ok(__result);
            }
            _ => {
                #[allow(clippy::needless_raw_string_hashes)]
                let __expected = alloc::vec![
                    r###""a""###.to_string(),
                ];
                return Err(
                    match __lookahead {
                        Some(__token) => {
                            __lalrpop_util::ParseError::UnrecognizedToken {
                                token: __token,
                                expected: __expected,
                            }
                        }
                        None => {
                            let __location = __sym1.2.clone();
                            __lalrpop_util::ParseError::UnrecognizedEof {
                                location: __location,
                                expected: __expected,
                            }
                        }
                    }
                )
            }
        }
    }

    fn __state8<
        'input,
        's,
        T,
        __TOKENS: Iterator<Item=Result<(usize, Token<'input>, usize),__lalrpop_util::ParseError<usize, Token<'input>, &'static str>>>,
    >(
        name: &'s str,
        seed: &T,
        input: &'input str,
        __tokens: &mut __TOKENS,
        __sym0: (usize, &'input str, usize),
        __sym1: (usize, &'input str, usize),
        _: core::marker::PhantomData<(&'input (), &'s (), T)>,
    ) -> Result<(Option<(usize, Token<'input>, usize)>, __Nonterminal<'input, 's, T>), __lalrpop_util::ParseError<usize, Token<'input>, &'static str>>
    where
        T: Clone,
        T: std::fmt::Debug,
    {
        let mut __result: (Option<(usize, Token<'input>, usize)>, __Nonterminal<'input, 's, T>);
        let __lookahead = match __tokens.next() {
            Some(Ok(v)) => Some(v),
            Some(Err(e)) => return Err(e),
            None => None,
        };
        match __lookahead {
            Some((_, Token(1, _), _)) |
            None => {
                let __start = __sym0.0.clone();
                let __end = __sym1.2.clone();
                let __nt = super::__action2::<T>(name, seed, input, __sym0, __sym1);
                let __nt = __Nonterminal::Item((
                    __start,
                    __nt,
                    __end,
                ));
                __result = (__lookahead, __nt);
                return Ok(__result);
            }
            _ => {
                #[allow(clippy::needless_raw_string_hashes)]
                let __expected = alloc::vec![
                    r###""a""###.to_string(),
                ];
                return Err(
                    match __lookahead {
                        Some(__token) => {
                            __lalrpop_util::ParseError::UnrecognizedToken {
                                token: __token,
                                expected: __expected,
                            }
                        }
                        None => {
                            let __location = __sym1.2.clone();
                            __lalrpop_util::ParseError::UnrecognizedEof {
                                location: __location,
                                expected: __expected,
                            }
                        }
                    }
                )
            }
        }
    }

    fn __state9<
        'input,
        's,
        T,
        __TOKENS: Iterator<Item=Result<(usize, Token<'input>, usize),__lalrpop_util::ParseError<usize, Token<'input>, &'static str>>>,
    >(
        name: &'s str,
        seed: &T,
        input: &'input str,
        __tokens: &mut __TOKENS,
        __sym0: (usize, &'input str, usize),
        __sym1: (usize, &'input str, usize),
        _: core::marker::PhantomData<(&'input (), &'s (), T)>,
    ) -> Result<(Option<(usize, Token<'input>, usize)>, __Nonterminal<'input, 's, T>), __lalrpop_util::ParseError<usize, Token<'input>, &'static str>>
    where
        T: Clone,
        T: std::fmt::Debug,
    {
        let mut __result: (Option<(usize, Token<'input>, usize)>, __Nonterminal<'input, 's, T>);
        let __lookahead = match __tokens.next() {
            Some(Ok(v)) => Some(v),
            Some(Err(e)) => return Err(e),
            None => None,
        };
        match __lookahead {
            Some((_, Token(0, _), _)) => {
                let __start = __sym0.0.clone();
                let __end = __sym1.2.clone();
                let __nt = super::__action3::<T>(name, seed, input, __sym0, __sym1);
                let __nt = __Nonterminal::N0((
                    __start,
                    __nt,
                    __end,
                ));
                __result = (__lookahead, __nt);
                return Ok(__result);
            }
            _ => {
                #[allow(clippy::needless_raw_string_hashes)]
                let __expected = alloc::vec![
                    r###"",""###.to_string(),
                ];
                return Err(
                    match __lookahead {
                        Some(__token) => {
                            __lalrpop_util::ParseError::UnrecognizedToken {
                                token: __token,
                                expected: __expected,
                            }
                        }
                        None => {
                            let __location = __sym1.2.clone();
                            __lalrpop_util::ParseError::UnrecognizedEof {
                                location: __location,
                                expected: __expected,
                            }
                        }
                    }
                )
            }
        }
    }

    fn __state10<
        'input,
        's,
        T,
        __TOKENS: Iterator<Item=Result<(usize, Token<'input>, usize),__lalrpop_util::ParseError<usize, Token<'input>, &'static str>>>,
    >(
        name: &'s str,
        seed: &T,
        input: &'input str,
        __tokens: &mut __TOKENS,
        __sym0: (usize, &'input str, usize),
        __sym1: (usize, &'input str, usize),
        _: core::marker::PhantomData<(&'input (), &'s (), T)>,
    ) -> Result<(Option<(usize, Token<'input>, usize)>, __Nonterminal<'input, 's, T>), __lalrpop_util::ParseError<usize, Token<'input>, &'static str>>
    where
        T: Clone,
        T: std::fmt::Debug,
    {
        let mut __result: (Option<(usize, Token<'input>, usize)>, __Nonterminal<'input, 's, T>);
        let __lookahead = match __tokens.next() {
            Some(Ok(v)) => Some(v),
            Some(Err(e)) => return Err(e),
            None => None,
        };
        match __lookahead {
            Some((_, Token(3, _), _)) => {
                let __start = __sym0.0.clone();
                let __end = __sym1.2.clone();
                let __nt = super::__action12::<T>(name, seed, input, __sym0, __sym1);
                let __nt = __Nonterminal::N1((
                    __start,
                    __nt,
                    __end,
                ));
                __result = (__lookahead, __nt);
                return Ok(__result);
            }
            _ => {
                #[allow(clippy::needless_raw_string_hashes)]
                let __expected = alloc::vec![
                    r###""c""###.to_string(),
                ];
                return Err(
                    match __lookahead {
                        Some(__token) => {
                            __lalrpop_util::ParseError::UnrecognizedToken {
                                token: __token,
                                expected: __expected,
                            }
                        }
                        None => {
                            let __location = __sym1.2.clone();
                            __lalrpop_util::ParseError::UnrecognizedEof {
                                location: __location,
                                expected: __expected,
                            }
                        }
                    }
                )
            }
        }
    }
}
#[allow(unused_imports)]
pub use self::__parse__S::SParser;
#[rustfmt::skip]
mod __intern_token {
    #![allow(unused_imports)]
    use crate::support::*;
    #[allow(unused_extern_crates)]
    extern crate lalrpop_util as __lalrpop_util;
    #[allow(unused_imports)]
    use self::__lalrpop_util::state_machine as __state_machine;
    #[allow(unused_extern_crates)]
    extern crate alloc;
    pub fn new_builder() -> __lalrpop_util::lexer::MatcherBuilder {
        let __strs: &[(&str, bool)] = &[
            (",", false),
            ("a", false),
            ("b", false),
            ("c", false),
            (r"\s+", true),
        ];
        __lalrpop_util::lexer::MatcherBuilder::new(__strs.iter().copied()).unwrap()
    }
}
pub(crate) use self::__lalrpop_util::lexer::Token;

#[allow(unused_variables)]
#[allow(clippy::too_many_arguments, clippy::needless_lifetimes, clippy::just_underscores_and_digits, clippy::extra_unused_type_parameters)]
fn __action0<
    'input,
    's,
    T,
>(
    name: &'s str,
    seed: &T,
    input: &'input str,
    (_, __0, _): (usize, Ast<'s, (usize, T)>, usize),
) -> Ast<'s, (usize, T)>
where
    T: Clone,
    T: std::fmt::Debug,
{
    __0
}

#[allow(unused_variables)]
#[allow(clippy::too_many_arguments, clippy::needless_lifetimes, clippy::just_underscores_and_digits, clippy::extra_unused_type_parameters)]
fn __action1<
    'input,
    's,
    T,
>(
    name: &'s str,
    seed: &T,
    input: &'input str,
    (_, l, _): (usize, usize, usize),
    (_, xs, _): (usize, alloc::vec::Vec<usize>, usize),
    (_, r, _): (usize, usize, usize),
) -> Ast<'s, (usize, T)>
where
    T: Clone,
    T: std::fmt::Debug,
{
    { let _ = (&l, &r); Ast { name, items: xs.into_iter().map(|x| (x, seed.clone())).collect() } }
}

#[allow(unused_variables)]
#[allow(clippy::too_many_arguments, clippy::needless_lifetimes, clippy::just_underscores_and_digits, clippy::extra_unused_type_parameters)]
fn __action2<
    'input,
    's,
    T,
>(
    name: &'s str,
    seed: &T,
    input: &'input str,
    (_, x, _): (usize, &'input str, usize),
    (_, _, _): (usize, &'input str, usize),
) -> usize
where
    T: Clone,
    T: std::fmt::Debug,
{
    sz(&x)
}

#[allow(unused_variables)]
#[allow(clippy::too_many_arguments, clippy::needless_lifetimes, clippy::just_underscores_and_digits, clippy::extra_unused_type_parameters)]
fn __action3<
    'input,
    's,
    T,
>(
    name: &'s str,
    seed: &T,
    input: &'input str,
    (_, __0, _): (usize, &'input str, usize),
    (_, _, _): (usize, &'input str, usize),
) -> &'input str
where
    T: Clone,
    T: std::fmt::Debug,
{
    __0
}

#[allow(unused_variables)]
#[allow(clippy::too_many_arguments, clippy::needless_lifetimes, clippy::just_underscores_and_digits, clippy::extra_unused_type_parameters)]
fn __action4<
    'input,
    's,
    T,
>(
    name: &'s str,
    seed: &T,
    input: &'input str,
    (_, __0, _): (usize, &'input str, usize),
) -> &'input str
where
    T: Clone,
    T: std::fmt::Debug,
{
    __0
}

#[allow(unused_variables)]
#[allow(clippy::too_many_arguments, clippy::needless_lifetimes, clippy::just_underscores_and_digits, clippy::extra_unused_type_parameters)]
fn __action5<
    'input,
    's,
    T,
>(
    name: &'s str,
    seed: &T,
    input: &'input str,
    (_, _, _): (usize, &'input str, usize),
    (_, __0, _): (usize, &'input str, usize),
) -> &'input str
where
    T: Clone,
    T: std::fmt::Debug,
{
    __0
}

#[allow(unused_variables)]
#[allow(clippy::needless_lifetimes, clippy::clone_on_copy)]
fn __action6<
    'input,
    's,
    T,
>(
    name: &'s str,
    seed: &T,
    input: &'input str,
    __lookbehind: &usize,
    __lookahead: &usize,
) -> usize
where
    T: Clone,
    T: std::fmt::Debug,
{
    __lookbehind.clone()
}

#[allow(unused_variables)]
#[allow(clippy::too_many_arguments, clippy::needless_lifetimes, clippy::just_underscores_and_digits, clippy::extra_unused_type_parameters)]
fn __action7<
    'input,
    's,
    T,
>(
    name: &'s str,
    seed: &T,
    input: &'input str,
    __lookbehind: &usize,
    __lookahead: &usize,
) -> alloc::vec::Vec<usize>
where
    T: Clone,
    T: std::fmt::Debug,
{
    alloc::vec![]
}

#[allow(unused_variables)]
#[allow(clippy::too_many_arguments, clippy::needless_lifetimes, clippy::just_underscores_and_digits, clippy::extra_unused_type_parameters)]
fn __action8<
    'input,
    's,
    T,
>(
    name: &'s str,
    seed: &T,
    input: &'input str,
    (_, v, _): (usize, alloc::vec::Vec<usize>, usize),
) -> alloc::vec::Vec<usize>
where
    T: Clone,
    T: std::fmt::Debug,
{
    v
}

#[allow(unused_variables)]
#[allow(clippy::needless_lifetimes, clippy::clone_on_copy)]
fn __action9<
    'input,
    's,
    T,
>(
    name: &'s str,
    seed: &T,
    input: &'input str,
    __lookbehind: &usize,
    __lookahead: &usize,
) -> usize
where
    T: Clone,
    T: std::fmt::Debug,
{
    __lookahead.clone()
}

#[allow(unused_variables)]
#[allow(clippy::too_many_arguments, clippy::needless_lifetimes, clippy::just_underscores_and_digits, clippy::extra_unused_type_parameters)]
fn __action10<
    'input,
    's,
    T,
>(
    name: &'s str,
    seed: &T,
    input: &'input str,
    (_, __0, _): (usize, usize, usize),
) -> alloc::vec::Vec<usize>
where
    T: Clone,
    T: std::fmt::Debug,
{
    alloc::vec![__0]
}

#[allow(unused_variables)]
#[allow(clippy::too_many_arguments, clippy::needless_lifetimes, clippy::just_underscores_and_digits, clippy::extra_unused_type_parameters)]
fn __action11<
    'input,
    's,
    T,
>(
    name: &'s str,
    seed: &T,
    input: &'input str,
    (_, v, _): (usize, alloc::vec::Vec<usize>, usize),
    (_, e, _): (usize, usize, usize),
) -> alloc::vec::Vec<usize>
where
    T: Clone,
    T: std::fmt::Debug,
{
    { let mut v = v; v.push(e); v }
}

#[allow(unused_variables)]
#[allow(clippy::too_many_arguments, clippy::needless_lifetimes,
    clippy::just_underscores_and_digits, clippy::clone_on_copy, clippy::unit_arg)]
fn __action12<
    'input,
    's,
    T,
>(
    name: &'s str,
    seed: &T,
    input: &'input str,
    __0: (usize, &'input str, usize),
    __1: (usize, &'input str, usize),
) -> &'input str
where
    T: Clone,
    T: std::fmt::Debug,
{
    let __start0 = __0.0.clone();
    let __end0 = __1.2.clone();
    let __temp0 = __action5::<
    T,
    >(
        name,
        seed,
        input,
        __0,
        __1,
    );
    let __temp0 = (__start0, __temp0, __end0);
    __action4::<
    T,
    >(
        name,
        seed,
        input,
        __temp0,
    )
}

#[allow(unused_variables)]
#[allow(clippy::too_many_arguments, clippy::needless_lifetimes,
    clippy::just_underscores_and_digits, clippy::clone_on_copy, clippy::unit_arg)]
fn __action13<
    'input,
    's,
    T,
>(
    name: &'s str,
    seed: &T,
    input: &'input str,
    __0: (usize, alloc::vec::Vec<usize>, usize),
    __1: (usize, usize, usize),
) -> Ast<'s, (usize, T)>
where
    T: Clone,
    T: std::fmt::Debug,
{
    let __start0 = __0.0.clone();
    let __end0 = __0.0.clone();
    let __temp0 = __action9::<
    T,
    >(
        name,
        seed,
        input,
        &__start0,
        &__end0,
    );
    let __temp0 = (__start0, __temp0, __end0);
    __action1::<
    T,
    >(
        name,
        seed,
        input,
        __temp0,
        __0,
        __1,
    )
}

#[allow(unused_variables)]
#[allow(clippy::too_many_arguments, clippy::needless_lifetimes,
    clippy::just_underscores_and_digits, clippy::clone_on_copy, clippy::unit_arg)]
fn __action14<
    'input,
    's,
    T,
>(
    name: &'s str,
    seed: &T,
    input: &'input str,
    __0: (usize, alloc::vec::Vec<usize>, usize),
) -> Ast<'s, (usize, T)>
where
    T: Clone,
    T: std::fmt::Debug,
{
    let __start0 = __0.2.clone();
    let __end0 = __0.2.clone();
    let __temp0 = __action6::<
    T,
    >(
        name,
        seed,
        input,
        &__start0,
        &__end0,
    );
    let __temp0 = (__start0, __temp0, __end0);
    __action13::<
    T,
    >(
        name,
        seed,
        input,
        __0,
        __temp0,
    )
}

#[allow(unused_variables)]
#[allow(clippy::too_many_arguments, clippy::needless_lifetimes,
    clippy::just_underscores_and_digits, clippy::clone_on_copy, clippy::unit_arg)]
fn __action15<
    'input,
    's,
    T,
>(
    name: &'s str,
    seed: &T,
    input: &'input str,
    __lookbehind: &usize,
    __lookahead: &usize,
) -> Ast<'s, (usize, T)>
where
    T: Clone,
    T: std::fmt::Debug,
{
    let __start0 = __lookbehind.clone();
    let __end0 = __lookahead.clone();
    let __temp0 = __action7::<
    T,
    >(
        name,
        seed,
        input,
        &__start0,
        &__end0,
    );
    let __temp0 = (__start0, __temp0, __end0);
    __action14::<
    T,
    >(
        name,
        seed,
        input,
        __temp0,
    )
}

#[allow(unused_variables)]
#[allow(clippy::too_many_arguments, clippy::needless_lifetimes,
    clippy::just_underscores_and_digits, clippy::clone_on_copy, clippy::unit_arg)]
fn __action16<
    'input,
    's,
    T,
>(
    name: &'s str,
    seed: &T,
    input: &'input str,
    __0: (usize, alloc::vec::Vec<usize>, usize),
) -> Ast<'s, (usize, T)>
where
    T: Clone,
    T: std::fmt::Debug,
{
    let __start0 = __0.0.clone();
    let __end0 = __0.2.clone();
    let __temp0 = __action8::<
    T,
    >(
        name,
        seed,
        input,
        __0,
    );
    let __temp0 = (__start0, __temp0, __end0);
    __action14::<
    T,
    >(
        name,
        seed,
        input,
        __temp0,
    )
}

#[allow(clippy::type_complexity, dead_code)]
pub trait __ToTriple<'input, 's, T, >
where T: Clone,T: std::fmt::Debug
{
    fn to_triple(self) -> Result<(usize,Token<'input>,usize), __lalrpop_util::ParseError<usize, Token<'input>, &'static str>>;
}

impl<'input, 's, T, > __ToTriple<'input, 's, T, > for (usize, Token<'input>, usize)
where T: Clone,T: std::fmt::Debug
{
    fn to_triple(self) -> Result<(usize,Token<'input>,usize), __lalrpop_util::ParseError<usize, Token<'input>, &'static str>> {
        Ok(self)
    }
}
impl<'input, 's, T, > __ToTriple<'input, 's, T, > for Result<(usize, Token<'input>, usize), &'static str>
where T: Clone,T: std::fmt::Debug
{
    fn to_triple(self) -> Result<(usize,Token<'input>,usize), __lalrpop_util::ParseError<usize, Token<'input>, &'static str>> {
        self.map_err(|error| __lalrpop_util::ParseError::User { error })
    }
}
