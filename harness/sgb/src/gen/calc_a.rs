// auto-generated: "lalrpop 0.23.1"
// sha3: 28e37c66a5b68fd04a1bbe8b6db174f1f6ed1456b46a27671cb0327230a99507
#[allow(unused_extern_crates)]
extern crate lalrpop_util as __lalrpop_util;
#[allow(unused_imports)]
use self::__lalrpop_util::state_machine as __state_machine;
#[allow(unused_extern_crates)]
extern crate alloc;

#[rustfmt::skip]
#[allow(explicit_outlives_requirements, non_snake_case, non_camel_case_types, unused_mut, unused_variables, unused_imports, unused_parens, clippy::needless_lifetimes, clippy::type_complexity, clippy::needless_return, clippy::too_many_arguments, clippy::match_single_binding, clippy::clone_on_copy, clippy::unit_arg)]
mod __parse__P {

    #[allow(unused_extern_crates)]
    extern crate lalrpop_util as __lalrpop_util;
    #[allow(unused_imports)]
    use self::__lalrpop_util::state_machine as __state_machine;
    #[allow(unused_extern_crates)]
    extern crate alloc;
    use self::__lalrpop_util::lexer::Token;
    pub struct PParser {
        builder: __lalrpop_util::lexer::MatcherBuilder,
        _priv: (),
    }

    impl Default for PParser { fn default() -> Self { Self::new() } }
    impl PParser {
        pub fn new() -> PParser {
            let __builder = super::__intern_token::new_builder();
            PParser {
                builder: __builder,
                _priv: (),
            }
        }

        #[allow(dead_code)]
        pub fn parse<
            'input,
        >(
            &self,
            input: &'input str,
        ) -> Result<i64, __lalrpop_util::ParseError<usize, Token<'input>, &'static str>>
        {
            let mut __tokens = self.builder.matcher(input);
            let __lookahead = match __tokens.next() {
                Some(Ok(v)) => Some(v),
                Some(Err(e)) => return Err(e),
                None => None,
            };
            match __state0(input, &mut __tokens, __lookahead, core::marker::PhantomData::<(&())>)? {
                (Some(__lookahead), _) => {
                    Err(__lalrpop_util::ParseError::ExtraToken { token: __lookahead })
                }
                (None, __Nonterminal::____P((_, __nt, _))) => {
                    Ok(__nt)
                }
                _ => unreachable!(),
            }
        }
    }

    #[allow(dead_code)]
    enum __Nonterminal<>
     {
        F((usize, i64, usize)),
        P((usize, i64, usize)),
        T((usize, i64, usize)),
        ____P((usize, i64, usize)),
    }

    fn __state0<
        'input,
        __TOKENS: Iterator<Item=Result<(usize, Token<'input>, usize),__lalrpop_util::ParseError<usize, Token<'input>, &'static str>>>,
    >(
        input: &'input str,
        __tokens: &mut __TOKENS,
        __lookahead: Option<(usize, Token<'input>, usize)>,
        _: core::marker::PhantomData<(&'input ())>,
    ) -> Result<(Option<(usize, Token<'input>, usize)>, __Nonterminal<>), __lalrpop_util::ParseError<usize, Token<'input>, &'static str>>
    {
        let mut __result: (Option<(usize, Token<'input>, usize)>, __Nonterminal<>);
        match __lookahead {
            Some((__loc1, Token(2, __tok0), __loc2)) => {
                let __sym0 = (__loc1, (__tok0), __loc2);
                __result = __state1(input, __tokens, __sym0, core::marker::PhantomData::<(&())>)?;
            }
            Some((__loc1, Token(0, __tok0), __loc2)) => {
                let __sym0 = (__loc1, (__tok0), __loc2);
                __result = __state8(input, __tokens, __sym0, core::marker::PhantomData::<(&())>)?;
            }
            Some((__loc1, Token(1, __tok0), __loc2)) => {
                let __sym0 = (__loc1, (__tok0), __loc2);
                __result = __state9(input, __tokens, __sym0, core::marker::PhantomData::<(&())>)?;
            }
            _ => {
                #[allow(clippy::needless_raw_string_hashes)]
                let __expected = alloc::vec![
                    r###"r#"[0-9]+"#"###.to_string(),
                    r###"r#"\\p{Greek}+"#"###.to_string(),
                    r###""(""###.to_string(),
                ];
                return Err(
                    match __lookahead {
                        Some(__token) => {
                            __lalrpop_util::ParseError::UnrecognizedToken {
                                token: __token,
                                expected: __expected,
                            }
                        }
                        None => {
                            let __location = Default::default();
                            __lalrpop_util::ParseError::UnrecognizedEof {
                                location: __location,
                                expected: __expected,
                            }
                        }
                    }
                )
            }
        }
        #[allow(clippy::never_loop)]
        loop {
            let (__lookahead, __nt) = __result;
            match __nt {
                __Nonterminal::F(__sym0) => {
                    __result = __state5(input, __tokens, __lookahead, __sym0, core::marker::PhantomData::<(&())>)?;
                }
                __Nonterminal::P(__sym0) => {
                    __result = __state6(input, __tokens, __lookahead, __sym0, core::marker::PhantomData::<(&())>)?;
                }
                __Nonterminal::T(__sym0) => {
                    __result = __state7(input, __tokens, __lookahead, __sym0, core::marker::PhantomData::<(&())>)?;
                }
                _ => {
                    return Ok((__lookahead, __nt));
                }
            }
        }
    }

    fn __state1<
        'input,
        __TOKENS: Iterator<Item=Result<(usize, Token<'input>, usize),__lalrpop_util::ParseError<usize, Token<'input>, &'static str>>>,
    >(
        input: &'input str,
        __tokens: &mut __TOKENS,
        __sym0: (usize, &'input str, usize),
        _: core::marker::PhantomData<(&'input ())>,
    ) -> Result<(Option<(usize, Token<'input>, usize)>, __Nonterminal<>), __lalrpop_util::ParseError<usize, Token<'input>, &'static str>>
    {
        let mut __result: (Option<(usize, Token<'input>, usize)>, __Nonterminal<>);
        let __lookahead = match __tokens.next() {
            Some(Ok(v)) => Some(v),
            Some(Err(e)) => return Err(e),
            None => None,
        };
        let __sym0 = &mut Some(__sym0);
        match __lookahead {
            Some((__loc1, Token(2, __tok0), __loc2)) => {
                let __sym1 = (__loc1, (__tok0), __loc2);
                __result = __state1(input, __tokens, __sym1, core::marker::PhantomData::<(&())>)?;
            }
            Some((__loc1, Token(0, __tok0), __loc2)) => {
                let __sym1 = (__loc1, (__tok0), __loc2);
                __result = __state8(input, __tokens, __sym1, core::marker::PhantomData::<(&())>)?;
            }
            Some((__loc1, Token(1, __tok0), __loc2)) => {
                let __sym1 = (__loc1, (__tok0), __loc2);
                __result = __state9(input, __tokens, __sym1, core::marker::PhantomData::<(&())>)?;
            }
            _ => {
                #[allow(clippy::needless_raw_string_hashes)]
                let __expected = alloc::vec![
                    r###"r#"[0-9]+"#"###.to_string(),
                    r###"r#"\\p{Greek}+"#"###.to_string(),
                    r###""(""###.to_string(),
                ];
                return Err(
                    match __lookahead {
                        Some(__token) => {
                            __lalrpop_util::ParseError::UnrecognizedToken {
                                token: __token,
                                expected: __expected,
                            }
                        }
                        None => {
                            let __location = 
                            __sym0.as_ref().map(|sym| sym.2.clone()).unwrap_or_else(|| {
                                Default::default()
                            })
                            ;
                            __lalrpop_util::ParseError::UnrecognizedEof {
                                location: __location,
                                expected: __expected,
                            }
                        }
                    }
                )
            }
        }
        #[allow(clippy::never_loop)]
        loop {
            if __sym0.is_none() {
                return Ok(__result);
            }
            let (__lookahead, __nt) = __result;
            match __nt {
                __Nonterminal::F(__sym1) => {
                    __result = __state5(input, __tokens, __lookahead, __sym1, core::marker::PhantomData::<(&())>)?;
                }
                __Nonterminal::P(__sym1) => {
                    __result = __state10(input, __tokens, __lookahead, __sym0, __sym1, core::marker::PhantomData::<(&())>)?;
                }
                __Nonterminal::T(__sym1) => {
                    __result = __state7(input, __tokens, __lookahead, __sym1, core::marker::PhantomData::<(&())>)?;
                }
                _ => {
                    return Ok((__lookahead, __nt));
                }
            }
        }
    }

    fn __state2<
        'input,
        __TOKENS: Iterator<Item=Result<(usize, Token<'input>, usize),__lalrpop_util::ParseError<usize, Token<'input>, &'static str>>>,
    >(
        input: &'input str,
        __tokens: &mut __TOKENS,
        __sym0: (usize, i64, usize),
        __sym1: (usize, &'input str, usize),
        _: core::marker::PhantomData<(&'input ())>,
    ) -> Result<(Option<(usize, Token<'input>, usize)>, __Nonterminal<>), __lalrpop_util::ParseError<usize, Token<'input>, &'static str>>
    {
        let mut __result: (Option<(usize, Token<'input>, usize)>, __Nonterminal<>);
        let __lookahead = match __tokens.next() {
            Some(Ok(v)) => Some(v),
            Some(Err(e)) => return Err(e),
            None => None,
        };
        let __sym0 = &mut Some(__sym0);
        let __sym1 = &mut Some(__sym1);
        match __lookahead {
            Some((__loc1, Token(2, __tok0), __loc2)) => {
                let __sym2 = (__loc1, (__tok0), __loc2);
                __result = __state1(input, __tokens, __sym2, core::marker::PhantomData::<(&())>)?;
            }
            Some((__loc1, Token(0, __tok0), __loc2)) => {
                let __sym2 = (__loc1, (__tok0), __loc2);
                __result = __state8(input, __tokens, __sym2, core::marker::PhantomData::<(&())>)?;
            }
            Some((__loc1, Token(1, __tok0), __loc2)) => {
                let __sym2 = (__loc1, (__tok0), __loc2);
                __result = __state9(input, __tokens, __sym2, core::marker::PhantomData::<(&())>)?;
            }
            _ => {
                #[allow(clippy::needless_raw_string_hashes)]
                let __expected = alloc::vec![
                    r###"r#"[0-9]+"#"###.to_string(),
                    r###"r#"\\p{Greek}+"#"###.to_string(),
                    r###""(""###.to_string(),
                ];
                return Err(
                    match __lookahead {
                        Some(__token) => {
                            __lalrpop_util::ParseError::UnrecognizedToken {
                                token: __token,
                                expected: __expected,
                            }
                        }
                        None => {
                            let __location = 
                            __sym1.as_ref().map(|sym| sym.2.clone()).unwrap_or_else(|| {
                                __sym0.as_ref().map(|sym| sym.2.clone()).unwrap_or_else(|| {
                                    Default::default()
                                })
                            })
                            ;
                            __lalrpop_util::ParseError::UnrecognizedEof {
                                location: __location,
                                expected: __expected,
                            }
                        }
                    }
                )
            }
        }
        #[allow(clippy::never_loop)]
        loop {
            if __sym1.is_none() {
                return Ok(__result);
            }
            let (__lookahead, __nt) = __result;
            match __nt {
                __Nonterminal::F(__sym2) => {
                    __result = __state5(input, __tokens, __lookahead, __sym2, core::marker::PhantomData::<(&())>)?;
                }
                __Nonterminal::T(__sym2) => {
                    __result = __state11(input, __tokens, __lookahead, __sym0, __sym1, __sym2, core::marker::PhantomData::<(&())>)?;
                }
                _ => {
                    return Ok((__lookahead, __nt));
                }
            }
        }
    }

    fn __state3<
        'input,
        __TOKENS: Iterator<Item=Result<(usize, Token<'input>, usize),__lalrpop_util::ParseError<usize, Token<'input>, &'static str>>>,
    >(
        input: &'input str,
        __tokens: &mut __TOKENS,
        __sym0: (usize, i64, usize),
        __sym1: (usize, &'input str, usize),
        _: core::marker::PhantomData<(&'input ())>,
    ) -> Result<(Option<(usize, Token<'input>, usize)>, __Nonterminal<>), __lalrpop_util::ParseError<usize, Token<'input>, &'static str>>
    {
        let mut __result: (Option<(usize, Token<'input>, usize)>, __Nonterminal<>);
        let __lookahead = match __tokens.next() {
            Some(Ok(v)) => Some(v),
            Some(Err(e)) => return Err(e),
            None => None,
        };
        let __sym0 = &mut Some(__sym0);
        let __sym1 = &mut Some(__sym1);
        match __lookahead {
            Some((__loc1, Token(2, __tok0), __loc2)) => {
                let __sym2 = (__loc1, (__tok0), __loc2);
                __result = __state1(input, __tokens, __sym2, core::marker::PhantomData::<(&())>)?;
            }
            Some((__loc1, Token(0, __tok0), __loc2)) => {
                let __sym2 = (__loc1, (__tok0), __loc2);
                __result = __state8(input, __tokens, __sym2, core::marker::PhantomData::<(&())>)?;
            }
            Some((__loc1, Token(1, __tok0), __loc2)) => {
                let __sym2 = (__loc1, (__tok0), __loc2);
                __result = __state9(input, __tokens, __sym2, core::marker::PhantomData::<(&())>)?;
            }
            _ => {
                #[allow(clippy::needless_raw_string_hashes)]
                let __expected = alloc::vec![
                    r###"r#"[0-9]+"#"###.to_string(),
                    r###"r#"\\p{Greek}+"#"###.to_string(),
                    r###""(""###.to_string(),
                ];
                return Err(
                    match __lookahead {
                        Some(__token) => {
                            __lalrpop_util::ParseError::UnrecognizedToken {
                                token: __token,
                                expected: __expected,
                            }
                        }
                        None => {
                            let __location = 
                            __sym1.as_ref().map(|sym| sym.2.clone()).unwrap_or_else(|| {
                                __sym0.as_ref().map(|sym| sym.2.clone()).unwrap_or_else(|| {
                                    Default::default()
                                })
                            })
                            ;
                            __lalrpop_util::ParseError::UnrecognizedEof {
                                location: __location,
                                expected: __expected,
                            }
                        }
                    }
                )
            }
        }
        #[allow(clippy::never_loop)]
        loop {
            if __sym1.is_none() {
                return Ok(__result);
            }
            let (__lookahead, __nt) = __result;
            match __nt {
                __Nonterminal::F(__sym2) => {
                    __result = __state5(input, __tokens, __lookahead, __sym2, core::marker::PhantomData::<(&())>)?;
                }
                __Nonterminal::T(__sym2) => {
                    __result = __state12(input, __tokens, __lookahead, __sym0, __sym1, __sym2, core::marker::PhantomData::<(&())>)?;
                }
                _ => {
                    return Ok((__lookahead, __nt));
                }
            }
        }
    }

    fn __state4<
        'input,
        __TOKENS: Iterator<Item=Result<(usize, Token<'input>, usize),__lalrpop_util::ParseError<usize, Token<'input>, &'static str>>>,
    >(
        input: &'input str,
        __tokens: &mut __TOKENS,
        __sym0: (usize, i64, usize),
        __sym1: (usize, &'input str, usize),
        _: core::marker::PhantomData<(&'input ())>,
    ) -> Result<(Option<(usize, Token<'input>, usize)>, __Nonterminal<>), __lalrpop_util::ParseError<usize, Token<'input>, &'static str>>
    {
        let mut __result: (Option<(usize, Token<'input>, usize)>, __Nonterminal<>);
        let __lookahead = match __tokens.next() {
            Some(Ok(v)) => Some(v),
            Some(Err(e)) => return Err(e),
            None => None,
        };
        match __lookahead {
            Some((__loc1, Token(2, __tok0), __loc2)) => {
                let __sym2 = (__loc1, (__tok0), __loc2);
                __result = __state1(input, __tokens, __sym2, core::marker::PhantomData::<(&())>)?;
            }
            Some((__loc1, Token(0, __tok0), __loc2)) => {
                let __sym2 = (__loc1, (__tok0), __loc2);
                __result = __state8(input, __tokens, __sym2, core::marker::PhantomData::<(&())>)?;
            }
            Some((__loc1, Token(1, __tok0), __loc2)) => {
                let __sym2 = (__loc1, (__tok0), __loc2);
                __result = __state9(input, __tokens, __sym2, core::marker::PhantomData::<(&())>)?;
            }
            _ => {
                #[allow(clippy::needless_raw_string_hashes)]
                let __expected = alloc::vec![
                    r###"r#"[0-9]+"#"###.to_string(),
                    r###"r#"\\p{Greek}+"#"###.to_string(),
                    r###""(""###.to_string(),
                ];
                return Err(
                    match __lookahead {
                        Some(__token) => {
                            __lalrpop_util::ParseError::UnrecognizedToken {
                                token: __token,
                                expected: __expected,
                            }
                        }
                        None => {
                            let __location = __sym1.2.clone();
                            __lalrpop_util::ParseError::UnrecognizedEof {
                                location: __location,
                                expected: __expected,
                            }
                        }
                    }
                )
            }
        }
        #[allow(clippy::never_loop)]
        loop {
            let (__lookahead, __nt) = __result;
            match __nt {
                __Nonterminal::F(__sym2) => {
                    __result = __state13(input, __tokens, __lookahead, __sym0, __sym1, __sym2, core::marker::PhantomData::<(&())>)?;
                    return Ok(__result);
                }
                _ => {
                    return Ok((__lookahead, __nt));
                }
            }
        }
    }

    fn __state5<
        'input,
        __TOKENS: Iterator<Item=Result<(usize, Token<'input>, usize),__lalrpop_util::ParseError<usize, Token<'input>, &'static str>>>,
    >(
        input: &'input str,
        __tokens: &mut __TOKENS,
        __lookahead: Option<(usize, Token<'input>, usize)>,
        __sym0: (usize, i64, usize),
        _: core::marker::PhantomData<(&'input ())>,
    ) -> Result<(Option<(usize, Token<'input>, usize)>, __Nonterminal<>), __lalrpop_util::ParseError<usize, Token<'input>, &'static str>>
    {
        let mut __result: (Option<(usize, Token<'input>, usize)>, __Nonterminal<>);
        match __lookahead {
            Some((_, Token(3, _), _)) |
            Some((_, Token(4, _), _)) |
            Some((_, Token(5, _), _)) |
            Some((_, Token(6, _), _)) |
            None => {
                let __start = __sym0.0.clone();
                let __end = __sym0.2.clone();
                let __nt = super::__action5::<>(input, __sym0);
                let __nt = __Nonterminal::T((
                    __start,
                    __nt,
                    __end,
                ));
                __result = (__lookahead, __nt);
                return Ok(__result);
            }
            _ => {
                #[allow(clippy::needless_raw_string_hashes)]
                let __expected = alloc::vec![
                    r###"")""###.to_string(),
                    r###""*""###.to_string(),
                    r###""+""###.to_string(),
                    r###""-""###.to_string(),
                ];
                return Err(
                    match __lookahead {
                        Some(__token) => {
                            __lalrpop_util::ParseError::UnrecognizedToken {
                                token: __token,
                                expected: __expected,
                            }
                        }
                        None => {
                            let __location = __sym0.2.clone();
                            __lalrpop_util::ParseError::UnrecognizedEof {
                                location: __location,
                                expected: __expected,
                            }
                        }
                    }
                )
            }
        }
    }

    fn __state6<
        'input,
        __TOKENS: Iterator<Item=Result<(usize, Token<'input>, usize),__lalrpop_util::ParseError<usize, Token<'input>, &'static str>>>,
    >(
        input: &'input str,
        __tokens: &mut __TOKENS,
        __lookahead: Option<(usize, Token<'input>, usize)>,
        __sym0: (usize, i64, usize),
        _: core::marker::PhantomData<(&'input ())>,
    ) -> Result<(Option<(usize, Token<'input>, usize)>, __Nonterminal<>), __lalrpop_util::ParseError<usize, Token<'input>, &'static str>>
    {
        let mut __result: (Option<(usize, Token<'input>, usize)>, __Nonterminal<>);
        match __lookahead {
            Some((__loc1, Token(5, __tok0), __loc2)) => {
                let __sym1 = (__loc1, (__tok0), __loc2);
                __result = __state2(input, __tokens, __sym0, __sym1, core::marker::PhantomData::<(&())>)?;
                return Ok(__result);
            }
            Some((__loc1, Token(6, __tok0), __loc2)) => {
                let __sym1 = (__loc1, (__tok0), __loc2);
                __result = __state3(input, __tokens, __sym0, __sym1, core::marker::PhantomData::<(&())>)?;
                return Ok(__result);
            }
            None => {
                let __start = __sym0.0.clone();
                let __end = __sym0.2.clone();
                let __nt = super::__action0::<>(input, __sym0);
                let __nt = __Nonterminal::____P((
                    __start,
                    __nt,
                    __end,
                ));
                __result = (__lookahead, __nt);
                return Ok(__result);
            }
            _ => {
                #[allow(clippy::needless_raw_string_hashes)]
                let __expected = alloc::vec![
                    r###""+""###.to_string(),
                    r###""-""###.to_string(),
                ];
                return Err(
                    match __lookahead {
                        Some(__token) => {
                            __lalrpop_util::ParseError::UnrecognizedToken {
                                token: __token,
                                expected: __expected,
                            }
                        }
                        None => {
                            let __location = __sym0.2.clone();
                            __lalrpop_util::ParseError::UnrecognizedEof {
                                location: __location,
                                expected: __expected,
                            }
                        }
                    }
                )
            }
        }
    }

    fn __state7<
        'input,
        __TOKENS: Iterator<Item=Result<(usize, Token<'input>, usize),__lalrpop_util::ParseError<usize, Token<'input>, &'static str>>>,
    >(
        input: &'input str,
        __tokens: &mut __TOKENS,
        __lookahead: Option<(usize, Token<'input>, usize)>,
        __sym0: (usize, i64, usize),
        _: core::marker::PhantomData<(&'input ())>,
    ) -> Result<(Option<(usize, Token<'input>, usize)>, __Nonterminal<>), __lalrpop_util::ParseError<usize, Token<'input>, &'static str>>
    {
        let mut __result: (Option<(usize, Token<'input>, usize)>, __Nonterminal<>);
        match __lookahead {
            Some((__loc1, Token(4, __tok0), __loc2)) => {
                let __sym1 = (__loc1, (__tok0), __loc2);
                __result = __state4(input, __tokens, __sym0, __sym1, core::marker::PhantomData::<(&())>)?;
                return Ok(__result);
            }
            Some((_, Token(3, _), _)) |
            Some((_, Token(5, _), _)) |
            Some((_, Token(6, _), _)) |
            None => {
                let __start = __sym0.0.clone();
                let __end = __sym0.2.clone();
                let __nt = super::__action3::<>(input, __sym0);
                let __nt = __Nonterminal::P((
                    __start,
                    __nt,
                    __end,
                ));
                __result = (__lookahead, __nt);
                return Ok(__result);
            }
            _ => {
                #[allow(clippy::needless_raw_string_hashes)]
                let __expected = alloc::vec![
                    r###"")""###.to_string(),
                    r###""*""###.to_string(),
                    r###""+""###.to_string(),
                    r###""-""###.to_string(),
                ];
                return Err(
                    match __lookahead {
                        Some(__token) => {
                            __lalrpop_util::ParseError::UnrecognizedToken {
                                token: __token,
                                expected: __expected,
                            }
                        }
                        None => {
                            let __location = __sym0.2.clone();
                            __lalrpop_util::ParseError::UnrecognizedEof {
                                location: __location,
                                expected: __expected,
                            }
                        }
                    }
                )
            }
        }
    }

    fn __state8<
        'input,
        __TOKENS: Iterator<Item=Result<(usize, Token<'input>, usize),__lalrpop_util::ParseError<usize, Token<'input>, &'static str>>>,
    >(
        input: &'input str,
        __tokens: &mut __TOKENS,
        __sym0: (usize, &'input str, usize),
        _: core::marker::PhantomData<(&'input ())>,
    ) -> Result<(Option<(usize, Token<'input>, usize)>, __Nonterminal<>), __lalrpop_util::ParseError<usize, Token<'input>, &'static str>>
    {
        let mut __result: (Option<(usize, Token<'input>, usize)>, __Nonterminal<>);
        let __lookahead = match __tokens.next() {
            Some(Ok(v)) => Some(v),
            Some(Err(e)) => return Err(e),
            None => None,
        };
        match __lookahead {
            Some((_, Token(3, _), _)) |
            Some((_, Token(4, _), _)) |
            Some((_, Token(5, _), _)) |
            Some((_, Token(6, _), _)) |
            None => {
                let __start = __sym0.0.clone();
                let __end = __sym0.2.clone();
                let __nt = super::__action6::<>(input, __sym0);
                let __nt = __Nonterminal::F((
                    __start,
                    __nt,
                    __end,
                ));
                __result = (__lookahead, __nt);
                return Ok(__result);
            }
            _ => {
                #[allow(clippy::needless_raw_string_hashes)]
                let __expected = alloc::vec![
                    r###"")""###.to_string(),
                    r###""*""###.to_string(),
                    r###""+""###.to_string(),
                    r###""-""###.to_string(),
                ];
                return Err(
                    match __lookahead {
                        Some(__token) => {
                            __lalrpop_util::ParseError::UnrecognizedToken {
                                token: __token,
                                expected: __expected,
                            }
                        }
                        None => {
                            let __location = __sym0.2.clone();
                            __lalrpop_util::ParseError::UnrecognizedEof {
                                location: __location,
                                expected: __expected,
                            }
                        }
                    }
                )
            }
        }
    }

    fn __state9<
        'input,
        __TOKENS: Iterator<Item=Result<(usize, Token<'input>, usize),__lalrpop_util::ParseError<usize, Token<'input>, &'static str>>>,
    >(
        input: &'input str,
        __tokens: &mut __TOKENS,
        __sym0: (usize, &'input str, usize),
        _: core::marker::PhantomData<(&'input ())>,
    ) -> Result<(Option<(usize, Token<'input>, usize)>, __Nonterminal<>), __lalrpop_util::ParseError<usize, Token<'input>, &'static str>>
    {
        let mut __result: (Option<(usize, Token<'input>, usize)>, __Nonterminal<>);
        let __lookahead = match __tokens.next() {
            Some(Ok(v)) => Some(v),
            Some(Err(e)) => return Err(e),
            None => None,
        };
        match __lookahead {
            Some((_, Token(3, _), _)) |
            Some((_, Token(4, _), _)) |
            Some((_, Token(5, _), _)) |
            Some((_, Token(6, _), _)) |
            None => {
                let __start = __sym0.0.clone();
                let __end = __sym0.2.clone();
                let __nt = super::__action8::<>(input, __sym0);
                let __nt = __Nonterminal::F((
                    __start,
                    __nt,
                    __end,
                ));
                __result = (__lookahead, __nt);
                return Ok(__result);
            }
            _ => {
                #[allow(clippy::needless_raw_string_hashes)]
                let __expected = alloc::vec![
                    r###"")""###.to_string(),
                    r###""*""###.to_string(),
                    r###""+""###.to_string(),
                    r###""-""###.to_string(),
                ];
                return Err(
                    match __lookahead {
                        Some(__token) => {
                            __lalrpop_util::ParseError::UnrecognizedToken {
                                token: __token,
                                expected: __expected,
                            }
                        }
                        None => {
                            let __location = __sym0.2.clone();
                            __lalrpop_util::ParseError::UnrecognizedEof {
                                location: __location,
                                expected: __expected,
                            }
                        }
                    }
                )
            }
        }
    }

    fn __state10<
        'input,
        __TOKENS: Iterator<Item=Result<(usize, Token<'input>, usize),__lalrpop_util::ParseError<usize, Token<'input>, &'static str>>>,
    >(
        input: &'input str,
        __tokens: &mut __TOKENS,
        __lookahead: Option<(usize, Token<'input>, usize)>,
        __sym0: &mut Option<(usize, &'input str, usize)>,
        __sym1: (usize, i64, usize),
        _: core::marker::PhantomData<(&'input ())>,
    ) -> Result<(Option<(usize, Token<'input>, usize)>, __Nonterminal<>), __lalrpop_util::ParseError<usize, Token<'input>, &'static str>>
    {
        let mut __result: (Option<(usize, Token<'input>, usize)>, __Nonterminal<>);
        match __lookahead {
            Some((__loc1, Token(3, __tok0), __loc2)) => {
                let __sym2 = (__loc1, (__tok0), __loc2);
                let __sym0 = __sym0.take().unwrap();
                __result = __state14(input, __tokens, __sym0, __sym1, __sym2, core::marker::PhantomData::<(&())>)?;
                return Ok(__result);
            }
            Some((__loc1, Token(5, __tok0), __loc2)) => {
                let __sym2 = (__loc1, (__tok0), __loc2);
                __result = __state2(input, __tokens, __sym1, __sym2, core::marker::PhantomData::<(&())>)?;
                return Ok(__result);
            }
            Some((__loc1, Token(6, __tok0), __loc2)) => {
                let __sym2 = (__loc1, (__tok0), __loc2);
                __result = __state3(input, __tokens, __sym1, __sym2, core::marker::PhantomData::<(&())>)?;
                return Ok(__result);
            }
            _ => {
                #[allow(clippy::needless_raw_string_hashes)]
                let __expected = alloc::vec![
                    r###"")""###.to_string(),
                    r###""+""###.to_string(),
                    r###""-""###.to_string(),
                ];
                return Err(
                    match __lookahead {
                        Some(__token) => {
                            __lalrpop_util::ParseError::UnrecognizedToken {
                                token: __token,
                                expected: __expected,
                            }
                        }
                        None => {
                            let __location = __sym1.2.clone();
                            __lalrpop_util::ParseError::UnrecognizedEof {
                                location: __location,
                                expected: __expected,
                            }
                        }
                    }
                )
            }
        }
    }

    fn __state11<
        'input,
        __TOKENS: Iterator<Item=Result<(usize, Token<'input>, usize),__lalrpop_util::ParseError<usize, Token<'input>, &'static str>>>,
    >(
        input: &'input str,
        __tokens: &mut __TOKENS,
        __lookahead: Option<(usize, Token<'input>, usize)>,
        __sym0: &mut Option<(usize, i64, usize)>,
        __sym1: &mut Option<(usize, &'input str, usize)>,
        __sym2: (usize, i64, usize),
        _: core::marker::PhantomData<(&'input ())>,
    ) -> Result<(Option<(usize, Token<'input>, usize)>, __Nonterminal<>), __lalrpop_util::ParseError<usize, Token<'input>, &'static str>>
    {
        let mut __result: (Option<(usize, Token<'input>, usize)>, __Nonterminal<>);
        match __lookahead {
            Some((__loc1, Token(4, __tok0), __loc2)) => {
                let __sym3 = (__loc1, (__tok0), __loc2);
                __result = __state4(input, __tokens, __sym2, __sym3, core::marker::PhantomData::<(&())>)?;
                return Ok(__result);
            }
            Some((_, Token(3, _), _)) |
            Some((_, Token(5, _), _)) |
            Some((_, Token(6, _), _)) |
            None => {
                let __sym0 = __sym0.take().unwrap();
                let __sym1 = __sym1.take().unwrap();
                let __start = __sym0.0.clone();
                let __end = __sym2.2.clone();
                let __nt = super::__action1::<>(input, __sym0, __sym1, __sym2);
                let __nt = __Nonterminal::P((
                    __start,
                    __nt,
                    __end,
                ));
                __result = (__lookahead, __nt);
                return Ok(__result);
            }
            _ => {
                #[allow(clippy::needless_raw_string_hashes)]
                let __expected = alloc::vec![
                    r###"")""###.to_string(),
                    r###""*""###.to_string(),
                    r###""+""###.to_string(),
                    r###""-""###.to_string(),
                ];
                return Err(
                    match __lookahead {
                        Some(__token) => {
                            __lalrpop_util::ParseError::UnrecognizedToken {
                                token: __token,
                                expected: __expected,
                            }
                        }
                        None => {
                            let __location = __sym2.2.clone();
                            __lalrpop_util::ParseError::UnrecognizedEof {
                                location: __location,
                                expected: __expected,
                            }
                        }
                    }
                )
            }
        }
    }

    fn __state12<
        'input,
        __TOKENS: Iterator<Item=Result<(usize, Token<'input>, usize),__lalrpop_util::ParseError<usize, Token<'input>, &'static str>>>,
    >(
        input: &'input str,
        __tokens: &mut __TOKENS,
        __lookahead: Option<(usize, Token<'input>, usize)>,
        __sym0: &mut Option<(usize, i64, usize)>,
        __sym1: &mut Option<(usize, &'input str, usize)>,
        __sym2: (usize, i64, usize),
        _: core::marker::PhantomData<(&'input ())>,
    ) -> Result<(Option<(usize, Token<'input>, usize)>, __Nonterminal<>), __lalrpop_util::ParseError<usize, Token<'input>, &'static str>>
    {
        let mut __result: (Option<(usize, Token<'input>, usize)>, __Nonterminal<>);
        match __lookahead {
            Some((__loc1, Token(4, __tok0), __loc2)) => {
                let __sym3 = (__loc1, (__tok0), __loc2);
                __result = __state4(input, __tokens, __sym2, __sym3, core::marker::PhantomData::<(&())>)?;
                return Ok(__result);
            }
            Some((_, Token(3, _), _)) |
            Some((_, Token(5, _), _)) |
            Some((_, Token(6, _), _)) |
            None => {
                let __sym0 = __sym0.take().unwrap();
                let __sym1 = __sym1.take().unwrap();
                let __start = __sym0.0.clone();
                let __end = __sym2.2.clone();
                let __nt = super::__action2::<>(input, __sym0, __sym1, __sym2);
                let __nt = __Nonterminal::P((
                    __start,
                    __nt,
                    __end,
                ));
                __result = (__lookahead, __nt);
                return Ok(__result);
            }
            _ => {
                #[allow(clippy::needless_raw_string_hashes)]
                let __expected = alloc::vec![
                    r###"")""###.to_string(),
                    r###""*""###.to_string(),
                    r###""+""###.to_string(),
                    r###""-""###.to_string(),
                ];
                return Err(
                    match __lookahead {
                        Some(__token) => {
                            __lalrpop_util::ParseError::UnrecognizedToken {
                                token: __token,
                                expected: __expected,
                            }
                        }
                        None => {
                            let __location = __sym2.2.clone();
                            __lalrpop_util::ParseError::UnrecognizedEof {
                                location: __location,
                                expected: __expected,
                            }
                        }
                    }
                )
            }
        }
    }

    fn __state13<
        'input,
        __TOKENS: Iterator<Item=Result<(usize, Token<'input>, usize),__lalrpop_util::ParseError<usize, Token<'input>, &'static str>>>,
    >(
        input: &'input str,
        __tokens: &mut __TOKENS,
        __lookahead: Option<(usize, Token<'input>, usize)>,
        __sym0: (usize, i64, usize),
        __sym1: (usize, &'input str, usize),
        __sym2: (usize, i64, usize),
        _: core::marker::PhantomData<(&'input ())>,
    ) -> Result<(Option<(usize, Token<'input>, usize)>, __Nonterminal<>), __lalrpop_util::ParseError<usize, Token<'input>, &'static str>>
    {
        let mut __result: (Option<(usize, Token<'input>, usize)>, __Nonterminal<>);
        match __lookahead {
            Some((_, Token(3, _), _)) |
            Some((_, Token(4, _), _)) |
            Some((_, Token(5, _), _)) |
            Some((_, Token(6, _), _)) |
            None => {
                let __start = __sym0.0.clone();
                let __end = __sym2.2.clone();
                let __nt = super::__action4::<>(input, __sym0, __sym1, __sym2);
                let __nt = __Nonterminal::T((
                    __start,
                    __nt,
                    __end,
                ));
                __result = (__lookahead, __nt);
                return Ok(__result);
            }
            _ => {
                #[allow(clippy::needless_raw_string_hashes)]
                let __expected = alloc::vec![
                    r###"")""###.to_string(),
                    r###""*""###.to_string(),
                    r###""+""###.to_string(),
                    r###""-""###.to_string(),
                ];
                return Err(
                    match __lookahead {
                        Some(__token) => {
                            __lalrpop_util::ParseError::UnrecognizedToken {
                                token: __token,
                                expected: __expected,
                            }
                        }
                        None => {
                            let __location = __sym2.2.clone();
                            __lalrpop_util::ParseError::UnrecognizedEof {
                                location: __location,
                                expected: __expected,
                            }
                        }
                    }
                )
            }
        }
    }

    fn __state14<
        'input,
        __TOKENS: Iterator<Item=Result<(usize, Token<'input>, usize),__lalrpop_util::ParseError<usize, Token<'input>, &'static str>>>,
    >(
        input: &'input str,
        __tokens: &mut __TOKENS,
        __sym0: (usize, &'input str, usize),
        __sym1: (usize, i64, usize),
        __sym2: (usize, &'input str, usize),
        _: core::marker::PhantomData<(&'input ())>,
    ) -> Result<(Option<(usize, Token<'input>, usize)>, __Nonterminal<>), __lalrpop_util::ParseError<usize, Token<'input>, &'static str>>
    {
        let mut __result: (Option<(usize, Token<'input>, usize)>, __Nonterminal<>);
        let __lookahead = match __tokens.next() {
            Some(Ok(v)) => Some(v),
            Some(Err(e)) => return Err(e),
            None => None,
        };
        match __lookahead {
            Some((_, Token(3, _), _)) |
            Some((_, Token(4, _), _)) |
            Some((_, Token(5, _), _)) |
            Some((_, Token(6, _), _)) |
            None => {
                let __start = __sym0.0.clone();
                let __end = __sym2.2.clone();
                let __nt = super::__action7::<>(input, __sym0, __sym1, __sym2);
                let __nt = __Nonterminal::F((
                    __start,
                    __nt,
                    __end,
                ));
                __result = (__lookahead, __nt);
                return Ok(__result);
            }
            _ => {
                #[allow(clippy::needless_raw_string_hashes)]
                let __expected = alloc::vec![
                    r###"")""###.to_string(),
                    r###""*""###.to_string(),
                    r###""+""###.to_string(),
                    r###""-""###.to_string(),
                ];
                return Err(
                    match __lookahead {
                        Some(__token) => {
                            __lalrpop_util::ParseError::UnrecognizedToken {
                                token: __token,
                                expected: __expected,
                            }
                        }
                        None => {
                            let __location = __sym2.2.clone();
                            __lalrpop_util::ParseError::UnrecognizedEof {
                                location: __location,
                                expected: __expected,
                            }
                        }
                    }
                )
            }
        }
    }
}
#[allow(unused_imports)]
pub use self::__parse__P::PParser;
#[rustfmt::skip]
mod __intern_token {
    #![allow(unused_imports)]
    #[allow(unused_extern_crates)]
    extern crate lalrpop_util as __lalrpop_util;
    #[allow(unused_imports)]
    use self::__lalrpop_util::state_machine as __state_machine;
    #[allow(unused_extern_crates)]
    extern crate alloc;
    pub fn new_builder() -> __lalrpop_util::lexer::MatcherBuilder {
        let __strs: &[(&str, bool)] = &[
            ("[0-9]+", false),
            ("[Ͱ-ͳ͵-ͷͺ-ͽͿ΄ΆΈ-ΊΌΎ-ΡΣ-ϡϰ-Ͽᴦ-ᴪᵝ-ᵡᵦ-ᵪᶿἀ-ἕἘ-Ἕἠ-ὅὈ-Ὅὐ-ὗὙὛὝὟ-ώᾀ-ᾴᾶ-ῄῆ-ΐῖ-Ί῝-`ῲ-ῴῶ-῾Ωꭥ𐅀-𐆎𐆠𝈀-𝉅]+", false),
            ("\\(", false),
            ("\\)", false),
            ("\\*", false),
            ("\\+", false),
            ("\\-", false),
            (r"\s+", true),
        ];
        __lalrpop_util::lexer::MatcherBuilder::new(__strs.iter().copied()).unwrap()
    }
}
pub(crate) use self::__lalrpop_util::lexer::Token;

#[allow(unused_variables)]
#[allow(clippy::too_many_arguments, clippy::needless_lifetimes, clippy::just_underscores_and_digits, clippy::extra_unused_type_parameters)]
fn __action0<
    'input,
>(
    input: &'input str,
    (_, __0, _): (usize, i64, usize),
) -> i64
{
    __0
}

#[allow(unused_variables)]
#[allow(clippy::too_many_arguments, clippy::needless_lifetimes, clippy::just_underscores_and_digits, clippy::extra_unused_type_parameters)]
fn __action1<
    'input,
>(
    input: &'input str,
    (_, l, _): (usize, i64, usize),
    (_, _, _): (usize, &'input str, usize),
    (_, r, _): (usize, i64, usize),
) -> i64
{
    l + r
}

#[allow(unused_variables)]
#[allow(clippy::too_many_arguments, clippy::needless_lifetimes, clippy::just_underscores_and_digits, clippy::extra_unused_type_parameters)]
fn __action2<
    'input,
>(
    input: &'input str,
    (_, l, _): (usize, i64, usize),
    (_, _, _): (usize, &'input str, usize),
    (_, r, _): (usize, i64, usize),
) -> i64
{
    l - r
}

#[allow(unused_variables)]
#[allow(clippy::too_many_arguments, clippy::needless_lifetimes, clippy::just_underscores_and_digits, clippy::extra_unused_type_parameters)]
fn __action3<
    'input,
>(
    input: &'input str,
    (_, __0, _): (usize, i64, usize),
) -> i64
{
    __0
}

#[allow(unused_variables)]
#[allow(clippy::too_many_arguments, clippy::needless_lifetimes, clippy::just_underscores_and_digits, clippy::extra_unused_type_parameters)]
fn __action4<
    'input,
>(
    input: &'input str,
    (_, l, _): (usize, i64, usize),
    (_, _, _): (usize, &'input str, usize),
    (_, r, _): (usize, i64, usize),
) -> i64
{
    l * r
}

#[allow(unused_variables)]
#[allow(clippy::too_many_arguments, clippy::needless_lifetimes, clippy::just_underscores_and_digits, clippy::extra_unused_type_parameters)]
fn __action5<
    'input,
>(
    input: &'input str,
    (_, __0, _): (usize, i64, usize),
) -> i64
{
    __0
}

#[allow(unused_variables)]
#[allow(clippy::too_many_arguments, clippy::needless_lifetimes, clippy::just_underscores_and_digits, clippy::extra_unused_type_parameters)]
fn __action6<
    'input,
>(
    input: &'input str,
    (_, __0, _): (usize, &'input str, usize),
) -> i64
{
    __0.parse::<i64>().unwrap_or(-1)
}

#[allow(unused_variables)]
#[allow(clippy::too_many_arguments, clippy::needless_lifetimes, clippy::just_underscores_and_digits, clippy::extra_unused_type_parameters)]
fn __action7<
    'input,
>(
    input: &'input str,
    (_, _, _): (usize, &'input str, usize),
    (_, __0, _): (usize, i64, usize),
    (_, _, _): (usize, &'input str, usize),
) -> i64
{
    __0
}

#[allow(unused_variables)]
#[allow(clippy::too_many_arguments, clippy::needless_lifetimes, clippy::just_underscores_and_digits, clippy::extra_unused_type_parameters)]
fn __action8<
    'input,
>(
    input: &'input str,
    (_, v, _): (usize, &'input str, usize),
) -> i64
{
    v.chars().count() as i64
}

#[allow(clippy::type_complexity, dead_code)]
pub trait __ToTriple<'input, >
{
    fn to_triple(self) -> Result<(usize,Token<'input>,usize), __lalrpop_util::ParseError<usize, Token<'input>, &'static str>>;
}

impl<'input, > __ToTriple<'input, > for (usize, Token<'input>, usize)
{
    fn to_triple(self) -> Result<(usize,Token<'input>,usize), __lalrpop_util::ParseError<usize, Token<'input>, &'static str>> {
        Ok(self)
    }
}
impl<'input, > __ToTriple<'input, > for Result<(usize, Token<'input>, usize), &'static str>
{
    fn to_triple(self) -> Result<(usize,Token<'input>,usize), __lalrpop_util::ParseError<usize, Token<'input>, &'static str>> {
        self.map_err(|error| __lalrpop_util::ParseError::User { error })
    }
}
