// auto-generated: "lalrpop 0.23.1"
// sha3: a5435be1499d4344804de7bae1efb2b9f3998da48eb4277c2cf3c23a8707b460
#[allow(unused_extern_crates)]
extern crate lalrpop_util as __lalrpop_util;
#[allow(unused_imports)]
use self::__lalrpop_util::state_machine as __state_machine;
#[allow(unused_extern_crates)]
extern crate alloc;

#[rustfmt::skip]
#[allow(explicit_outlives_requirements, non_snake_case, non_camel_case_types, unused_mut, unused_variables, unused_imports, unused_parens, clippy::needless_lifetimes, clippy::type_complexity, clippy::needless_return, clippy::too_many_arguments, clippy::match_single_binding, clippy::clone_on_copy, clippy::unit_arg)]
mod __parse__S {

    #[allow(unused_extern_crates)]
    extern crate lalrpop_util as __lalrpop_util;
    #[allow(unused_imports)]
    use self::__lalrpop_util::state_machine as __state_machine;
    #[allow(unused_extern_crates)]
    extern crate alloc;
    use self::__lalrpop_util::lexer::Token;
    #[allow(dead_code)]
    pub(crate) enum __Symbol<'input>
     {
        Variant0(&'input str),
        Variant1(String),
    }
    const __ACTION: &[i8] = &[
        // State 0
        3, 4, 5, 6, 7, 8, 9, 10,
        // State 1
        0, 0, 0, 0, 0, 0, 0, 0,
        // State 2
        0, 0, 0, 0, 0, 0, 0, 0,
        // State 3
        0, 0, 0, 0, 0, 0, 0, 0,
        // State 4
        0, 0, 0, 0, 0, 0, 0, 0,
        // State 5
        0, 0, 0, 0, 0, 0, 0, 0,
        // State 6
        0, 0, 0, 0, 0, 0, 0, 0,
        // State 7
        0, 0, 0, 0, 0, 0, 0, 0,
        // State 8
        0, 0, 0, 0, 0, 0, 0, 0,
        // State 9
        0, 0, 0, 0, 0, 0, 0, 0,
    ];
    fn __action(state: i8, integer: usize) -> i8 {
        __ACTION[(state as usize) * 8 + integer]
    }
    const __EOF_ACTION: &[i8] = &[
        // State 0
        0,
        // State 1
        -9,
        // State 2
        -1,
        // State 3
        -2,
        // State 4
        -3,
        // State 5
        -4,
        // State 6
        -5,
        // State 7
        -6,
        // State 8
        -7,
        // State 9
        -8,
    ];
    fn __goto(state: i8, nt: usize) -> i8 {
        match nt {
            0 => 1,
            _ => 0,
        }
    }
    #[allow(clippy::needless_raw_string_hashes)]
    const __TERMINAL: &[&str] = &[
        r###""k0""###,
        r###""k1""###,
        r###""k2""###,
        r###""k3""###,
        r###""k4""###,
        r###""k5""###,
        r###""k6""###,
        r###""k7""###,
    ];
    fn __expected_tokens(__state: i8) -> alloc::vec::Vec<alloc::string::String> {
        __TERMINAL.iter().enumerate().filter_map(|(index, terminal)| {
            let next_state = __action(__state, index);
            if next_state == 0 {
                None
            } else {
                Some(alloc::string::ToString::to_string(terminal))
            }
        }).collect()
    }
    fn __expected_tokens_from_states<
        'input,
    >(
        __states: &[i8],
        _: core::marker::PhantomData<(&'input ())>,
    ) -> alloc::vec::Vec<alloc::string::String>
    {
        __TERMINAL.iter().enumerate().filter_map(|(index, terminal)| {
            if __accepts(None, __states, Some(index), core::marker::PhantomData::<(&())>) {
                Some(alloc::string::ToString::to_string(terminal))
            } else {
                None
            }
        }).collect()
    }
    struct __StateMachine<'input>
    where 
    {
        input: &'input str,
        __phantom: core::marker::PhantomData<(&'input ())>,
    }
    impl<'input> __state_machine::ParserDefinition for __StateMachine<'input>
    where 
    {
        type Location = usize;
        type Error = &'static str;
        type Token = Token<'input>;
        type TokenIndex = usize;
        type Symbol = __Symbol<'input>;
        type Success = String;
        type StateIndex = i8;
        type Action = i8;
        type ReduceIndex = i8;
        type NonterminalIndex = usize;

        #[inline]
        fn start_location(&self) -> Self::Location {
              Default::default()
        }

        #[inline]
        fn start_state(&self) -> Self::StateIndex {
              0
        }

        #[inline]
        fn token_to_index(&self, token: &Self::Token) -> Option<usize> {
            __token_to_integer(token, core::marker::PhantomData::<(&())>)
        }

        #[inline]
        fn action(&self, state: i8, integer: usize) -> i8 {
            __action(state, integer)
        }

        #[inline]
        fn error_action(&self, state: i8) -> i8 {
            __action(state, 8 - 1)
        }

        #[inline]
        fn eof_action(&self, state: i8) -> i8 {
            __EOF_ACTION[state as usize]
        }

        #[inline]
        fn goto(&self, state: i8, nt: usize) -> i8 {
            __goto(state, nt)
        }

        fn token_to_symbol(&self, token_index: usize, token: Self::Token) -> Self::Symbol {
            __token_to_symbol(token_index, token, core::marker::PhantomData::<(&())>)
        }

        fn expected_tokens(&self, state: i8) -> alloc::vec::Vec<alloc::string::String> {
            __expected_tokens(state)
        }

        fn expected_tokens_from_states(&self, states: &[i8]) -> alloc::vec::Vec<alloc::string::String> {
            __expected_tokens_from_states(states, core::marker::PhantomData::<(&())>)
        }

        #[inline]
        fn uses_error_recovery(&self) -> bool {
            false
        }

        #[inline]
        fn error_recovery_symbol(
            &self,
            recovery: __state_machine::ErrorRecovery<Self>,
        ) -> Self::Symbol {
            panic!("error recovery not enabled for this grammar")
        }

        fn reduce(
            &mut self,
            action: i8,
            start_location: Option<&Self::Location>,
            states: &mut alloc::vec::Vec<i8>,
            symbols: &mut alloc::vec::Vec<__state_machine::SymbolTriple<Self>>,
        ) -> Option<__state_machine::ParseResult<Self>> {
            __reduce(
                self.input,
                action,
                start_location,
                states,
                symbols,
                core::marker::PhantomData::<(&())>,
            )
        }

        fn simulate_reduce(&self, action: i8) -> __state_machine::SimulatedReduce<Self> {
            __simulate_reduce(action, core::marker::PhantomData::<(&())>)
        }
    }
    fn __token_to_integer<
        'input,
    >(
        __token: &Token<'input>,
        _: core::marker::PhantomData<(&'input ())>,
    ) -> Option<usize>
    {
        #[warn(unused_variables)]
        match __token {
            Token(0, _) if true => Some(0),
            Token(1, _) if true => Some(1),
            Token(2, _) if true => Some(2),
            Token(3, _) if true => Some(3),
            Token(4, _) if true => Some(4),
            Token(5, _) if true => Some(5),
            Token(6, _) if true => Some(6),
            Token(7, _) if true => Some(7),
            _ => None,
        }
    }
    fn __token_to_symbol<
        'input,
    >(
        __token_index: usize,
        __token: Token<'input>,
        _: core::marker::PhantomData<(&'input ())>,
    ) -> __Symbol<'input>
    {
        #[allow(clippy::manual_range_patterns)]match __token_index {
            0 | 1 | 2 | 3 | 4 | 5 | 6 | 7 => match __token {
                Token(0, __tok0) | Token(1, __tok0) | Token(2, __tok0) | Token(3, __tok0) | Token(4, __tok0) | Token(5, __tok0) | Token(6, __tok0) | Token(7, __tok0) if true => __Symbol::Variant0(__tok0),
                _ => unreachable!(),
            },
            _ => unreachable!(),
        }
    }
    fn __simulate_reduce<
        'input,
    >(
        __reduce_index: i8,
        _: core::marker::PhantomData<(&'input ())>,
    ) -> __state_machine::SimulatedReduce<__StateMachine<'input>>
    {
        match __reduce_index {
            0 => {
                __state_machine::SimulatedReduce::Reduce {
                    states_to_pop: 1,
                    nonterminal_produced: 0,
                }
            }
            1 => {
                __state_machine::SimulatedReduce::Reduce {
                    states_to_pop: 1,
                    nonterminal_produced: 0,
                }
            }
            2 => {
                __state_machine::SimulatedReduce::Reduce {
                    states_to_pop: 1,
                    nonterminal_produced: 0,
                }
            }
            3 => {
                __state_machine::SimulatedReduce::Reduce {
                    states_to_pop: 1,
                    nonterminal_produced: 0,
                }
            }
            4 => {
                __state_machine::SimulatedReduce::Reduce {
                    states_to_pop: 1,
                    nonterminal_produced: 0,
                }
            }
            5 => {
                __state_machine::SimulatedReduce::Reduce {
                    states_to_pop: 1,
                    nonterminal_produced: 0,
                }
            }
            6 => {
                __state_machine::SimulatedReduce::Reduce {
                    states_to_pop: 1,
                    nonterminal_produced: 0,
                }
            }
            7 => {
                __state_machine::SimulatedReduce::Reduce {
                    states_to_pop: 1,
                    nonterminal_produced: 0,
                }
            }
            8 => __state_machine::SimulatedReduce::Accept,
            _ => panic!("invalid reduction index {__reduce_index}")
        }
    }
    pub struct SParser {
        builder: __lalrpop_util::lexer::MatcherBuilder,
        _priv: (),
    }

    impl Default for SParser { fn default() -> Self { Self::new() } }
    impl SParser {
        pub fn new() -> SParser {
            let __builder = super::__intern_token::new_builder();
            SParser {
                builder: __builder,
                _priv: (),
            }
        }

        #[allow(dead_code)]
        pub fn parse<
            'input,
        >(
            &self,
            input: &'input str,
        ) -> Result<String, __lalrpop_util::ParseError<usize, Token<'input>, &'static str>>
        {
            let mut __tokens = self.builder.matcher(input);
            __state_machine::Parser::drive(
                __StateMachine {
                    input,
                    __phantom: core::marker::PhantomData::<(&())>,
                },
                __tokens,
            )
        }
    }
    fn __accepts<
        'input,
    >(
        __error_state: Option<i8>,
        __states: &[i8],
        __opt_integer: Option<usize>,
        _: core::marker::PhantomData<(&'input ())>,
    ) -> bool
    {
        let mut __states = __states.to_vec();
        __states.extend(__error_state);
        loop {
            let mut __states_len = __states.len();
            let __top = __states[__states_len - 1];
            let __action = match __opt_integer {
                None => __EOF_ACTION[__top as usize],
                Some(__integer) => __action(__top, __integer),
            };
            if __action == 0 { return false; }
            if __action > 0 { return true; }
            let (__to_pop, __nt) = match __simulate_reduce(-(__action + 1), core::marker::PhantomData::<(&())>) {
                __state_machine::SimulatedReduce::Reduce {
                    states_to_pop, nonterminal_produced
                } => (states_to_pop, nonterminal_produced),
                __state_machine::SimulatedReduce::Accept => return true,
            };
            __states_len -= __to_pop;
            __states.truncate(__states_len);
            let __top = __states[__states_len - 1];
            let __next_state = __goto(__top, __nt);
            __states.push(__next_state);
        }
    }
    fn __reduce<
        'input,
    >(
        input: &'input str,
        __action: i8,
        __lookahead_start: Option<&usize>,
        __states: &mut alloc::vec::Vec<i8>,
        __symbols: &mut alloc::vec::Vec<(usize,__Symbol<'input>,usize)>,
        _: core::marker::PhantomData<(&'input ())>,
    ) -> Option<Result<String,__lalrpop_util::ParseError<usize, Token<'input>, &'static str>>>
    {
        let (__pop_states, __nonterminal) = match __action {
            0 => {
                __reduce0(input, __lookahead_start, __symbols, core::marker::PhantomData::<(&())>)
            }
            1 => {
                __reduce1(input, __lookahead_start, __symbols, core::marker::PhantomData::<(&())>)
            }
            2 => {
                __reduce2(input, __lookahead_start, __symbols, core::marker::PhantomData::<(&())>)
            }
            3 => {
                __reduce3(input, __lookahead_start, __symbols, core::marker::PhantomData::<(&())>)
            }
            4 => {
                __reduce4(input, __lookahead_start, __symbols, core::marker::PhantomData::<(&())>)
            }
            5 => {
                __reduce5(input, __lookahead_start, __symbols, core::marker::PhantomData::<(&())>)
            }
            6 => {
                __reduce6(input, __lookahead_start, __symbols, core::marker::PhantomData::<(&())>)
            }
            7 => {
                __reduce7(input, __lookahead_start, __symbols, core::marker::PhantomData::<(&())>)
            }
            8 => {
                // __S = S => ActionFn(0);
                let __sym0 = __pop_Variant1(__symbols);
                let __start = __sym0.0.clone();
                let __end = __sym0.2.clone();
                let __nt = super::__action0::<>(input, __sym0);
                return Some(Ok(__nt));
            }
            _ => panic!("invalid action code {__action}")
        };
        let __states_len = __states.len();
        __states.truncate(__states_len - __pop_states);
        let __state = *__states.last().unwrap();
        let __next_state = __goto(__state, __nonterminal);
        __states.push(__next_state);
        None
    }
    #[inline(never)]
    fn __symbol_type_mismatch() -> ! {
        panic!("symbol type mismatch")
    }
    fn __pop_Variant1<
      'input,
    >(
        __symbols: &mut alloc::vec::Vec<(usize,__Symbol<'input>,usize)>
    ) -> (usize, String, usize)
     {
        match __symbols.pop() {
            Some((__l, __Symbol::Variant1(__v), __r)) => (__l, __v, __r),
            _ => __symbol_type_mismatch()
        }
    }
    fn __pop_Variant0<
      'input,
    >(
        __symbols: &mut alloc::vec::Vec<(usize,__Symbol<'input>,usize)>
    ) -> (usize, &'input str, usize)
     {
        match __symbols.pop() {
            Some((__l, __Symbol::Variant0(__v), __r)) => (__l, __v, __r),
            _ => __symbol_type_mismatch()
        }
    }
    fn __reduce0<
        'input,
    >(
        input: &'input str,
        __lookahead_start: Option<&usize>,
        __symbols: &mut alloc::vec::Vec<(usize,__Symbol<'input>,usize)>,
        _: core::marker::PhantomData<(&'input ())>,
    ) -> (usize, usize)
    {
        // S = "k0" => ActionFn(1);
        let __sym0 = __pop_Variant0(__symbols);
        let __start = __sym0.0.clone();
        let __end = __sym0.2.clone();
        let __nt = super::__action1::<>(input, __sym0);
        __symbols.push((__start, __Symbol::Variant1(__nt), __end));
        (1, 0)
    }
    fn __reduce1<
        'input,
    >(
        input: &'input str,
        __lookahead_start: Option<&usize>,
        __symbols: &mut alloc::vec::Vec<(usize,__Symbol<'input>,usize)>,
        _: core::marker::PhantomData<(&'input ())>,
    ) -> (usize, usize)
    {
        // S = "k1" => ActionFn(2);
        let __sym0 = __pop_Variant0(__symbols);
        let __start = __sym0.0.clone();
        let __end = __sym0.2.clone();
        let __nt = super::__action2::<>(input, __sym0);
        __symbols.push((__start, __Symbol::Variant1(__nt), __end));
        (1, 0)
    }
    fn __reduce2<
        'input,
    >(
        input: &'input str,
        __lookahead_start: Option<&usize>,
        __symbols: &mut alloc::vec::Vec<(usize,__Symbol<'input>,usize)>,
        _: core::marker::PhantomData<(&'input ())>,
    ) -> (usize, usize)
    {
        // S = "k2" => ActionFn(3);
        let __sym0 = __pop_Variant0(__symbols);
        let __start = __sym0.0.clone();
        let __end = __sym0.2.clone();
        let __nt = super::__action3::<>(input, __sym0);
        __symbols.push((__start, __Symbol::Variant1(__nt), __end));
        (1, 0)
    }
    fn __reduce3<
        'input,
    >(
        input: &'input str,
        __lookahead_start: Option<&usize>,
        __symbols: &mut alloc::vec::Vec<(usize,__Symbol<'input>,usize)>,
        _: core::marker::PhantomData<(&'input ())>,
    ) -> (usize, usize)
    {
        // S = "k3" => ActionFn(4);
        let __sym0 = __pop_Variant0(__symbols);
        let __start = __sym0.0.clone();
        let __end = __sym0.2.clone();
        let __nt = super::__action4::<>(input, __sym0);
        __symbols.push((__start, __Symbol::Variant1(__nt), __end));
        (1, 0)
    }
    fn __reduce4<
        'input,
    >(
        input: &'input str,
        __lookahead_start: Option<&usize>,
        __symbols: &mut alloc::vec::Vec<(usize,__Symbol<'input>,usize)>,
        _: core::marker::PhantomData<(&'input ())>,
    ) -> (usize, usize)
    {
        // S = "k4" => ActionFn(5);
        let __sym0 = __pop_Variant0(__symbols);
        let __start = __sym0.0.clone();
        let __end = __sym0.2.clone();
        let __nt = super::__action5::<>(input, __sym0);
        __symbols.push((__start, __Symbol::Variant1(__nt), __end));
        (1, 0)
    }
    fn __reduce5<
        'input,
    >(
        input: &'input str,
        __lookahead_start: Option<&usize>,
        __symbols: &mut alloc::vec::Vec<(usize,__Symbol<'input>,usize)>,
        _: core::marker::PhantomData<(&'input ())>,
    ) -> (usize, usize)
    {
        // S = "k5" => ActionFn(6);
        let __sym0 = __pop_Variant0(__symbols);
        let __start = __sym0.0.clone();
        let __end = __sym0.2.clone();
        let __nt = super::__action6::<>(input, __sym0);
        __symbols.push((__start, __Symbol::Variant1(__nt), __end));
        (1, 0)
    }
    fn __reduce6<
        'input,
    >(
        input: &'input str,
        __lookahead_start: Option<&usize>,
        __symbols: &mut alloc::vec::Vec<(usize,__Symbol<'input>,usize)>,
        _: core::marker::PhantomData<(&'input ())>,
    ) -> (usize, usize)
    {
        // S = "k6" => ActionFn(7);
        let __sym0 = __pop_Variant0(__symbols);
        let __start = __sym0.0.clone();
        let __end = __sym0.2.clone();
        let __nt = super::__action7::<>(input, __sym0);
        __symbols.push((__start, __Symbol::Variant1(__nt), __end));
        (1, 0)
    }
    fn __reduce7<
        'input,
    >(
        input: &'input str,
        __lookahead_start: Option<&usize>,
        __symbols: &mut alloc::vec::Vec<(usize,__Symbol<'input>,usize)>,
        _: core::marker::PhantomData<(&'input ())>,
    ) -> (usize, usize)
    {
        // S = "k7" => ActionFn(8);
        let __sym0 = __pop_Variant0(__symbols);
        let __start = __sym0.0.clone();
        let __end = __sym0.2.clone();
        let __nt = super::__action8::<>(input, __sym0);
        __symbols.push((__start, __Symbol::Variant1(__nt), __end));
        (1, 0)
    }
}
#[allow(unused_imports)]
pub use self::__parse__S::SParser;
#[rustfmt::skip]
mod __intern_token {
    #![allow(unused_imports)]
    #[allow(unused_extern_crates)]
    extern crate lalrpop_util as __lalrpop_util;
    #[allow(unused_imports)]
    use self::__lalrpop_util::state_machine as __state_machine;
    #[allow(unused_extern_crates)]
    extern crate alloc;
    pub fn new_builder() -> __lalrpop_util::lexer::MatcherBuilder {
        let __strs: &[(&str, bool)] = &[
            ("(?:k0)", false),
            ("(?:k1)", false),
            ("(?:k2)", false),
            ("(?:k3)", false),
            ("(?:k4)", false),
            ("(?:k5)", false),
            ("(?:k6)", false),
            ("(?:k7)", false),
            (r"\s+", true),
        ];
        __lalrpop_util::lexer::MatcherBuilder::new(__strs.iter().copied()).unwrap()
    }
}
pub(crate) use self::__lalrpop_util::lexer::Token;

#[allow(unused_variables)]
#[allow(clippy::too_many_arguments, clippy::needless_lifetimes, clippy::just_underscores_and_digits, clippy::extra_unused_type_parameters)]
fn __action0<
    'input,
>(
    input: &'input str,
    (_, __0, _): (usize, String, usize),
) -> String
{
    __0
}

#[allow(unused_variables)]
#[allow(clippy::too_many_arguments, clippy::needless_lifetimes, clippy::just_underscores_and_digits, clippy::extra_unused_type_parameters)]
fn __action1<
    'input,
>(
    input: &'input str,
    (_, __0, _): (usize, &'input str, usize),
) -> String
{
    "}{r#\n".to_string()
}

#[allow(unused_variables)]
#[allow(clippy::too_many_arguments, clippy::needless_lifetimes, clippy::just_underscores_and_digits, clippy::extra_unused_type_parameters)]
fn __action2<
    'input,
>(
    input: &'input str,
    (_, __0, _): (usize, &'input str, usize),
) -> String
{
    r##",;/*("##.to_string()
}

#[allow(unused_variables)]
#[allow(clippy::too_many_arguments, clippy::needless_lifetimes, clippy::just_underscores_and_digits, clippy::extra_unused_type_parameters)]
fn __action3<
    'input,
>(
    input: &'input str,
    (_, __0, _): (usize, &'input str, usize),
) -> String
{
    r"/*".to_string()
}

#[allow(unused_variables)]
#[allow(clippy::too_many_arguments, clippy::needless_lifetimes, clippy::just_underscores_and_digits, clippy::extra_unused_type_parameters)]
fn __action4<
    'input,
>(
    input: &'input str,
    (_, __0, _): (usize, &'input str, usize),
) -> String
{
    '\n'.to_string()
}

#[allow(unused_variables)]
#[allow(clippy::too_many_arguments, clippy::needless_lifetimes, clippy::just_underscores_and_digits, clippy::extra_unused_type_parameters)]
fn __action5<
    'input,
>(
    input: &'input str,
    (_, __0, _): (usize, &'input str, usize),
) -> String
{
    r##";"##.to_string()
}

#[allow(unused_variables)]
#[allow(clippy::too_many_arguments, clippy::needless_lifetimes, clippy::just_underscores_and_digits, clippy::extra_unused_type_parameters)]
fn __action6<
    'input,
>(
    input: &'input str,
    (_, __0, _): (usize, &'input str, usize),
) -> String
{
    '/'.to_string()
}

#[allow(unused_variables)]
#[allow(clippy::too_many_arguments, clippy::needless_lifetimes, clippy::just_underscores_and_digits, clippy::extra_unused_type_parameters)]
fn __action7<
    'input,
>(
    input: &'input str,
    (_, __0, _): (usize, &'input str, usize),
) -> String
{
    r###"}}/*"###.to_string()
}

#[allow(unused_variables)]
#[allow(clippy::too_many_arguments, clippy::needless_lifetimes, clippy::just_underscores_and_digits, clippy::extra_unused_type_parameters)]
fn __action8<
    'input,
>(
    input: &'input str,
    (_, __0, _): (usize, &'input str, usize),
) -> String
{
    { /* } , ; */ let v = vec![(1, 2), (3, 4)]; // }
 v[1].0.to_string() }
}

#[allow(clippy::type_complexity, dead_code)]
pub trait __ToTriple<'input, >
{
    fn to_triple(self) -> Result<(usize,Token<'input>,usize), __lalrpop_util::ParseError<usize, Token<'input>, &'static str>>;
}

impl<'input, > __ToTriple<'input, > for (usize, Token<'input>, usize)
{
    fn to_triple(self) -> Result<(usize,Token<'input>,usize), __lalrpop_util::ParseError<usize, Token<'input>, &'static str>> {
        Ok(self)
    }
}
impl<'input, > __ToTriple<'input, > for Result<(usize, Token<'input>, usize), &'static str>
{
    fn to_triple(self) -> Result<(usize,Token<'input>,usize), __lalrpop_util::ParseError<usize, Token<'input>, &'static str>> {
        self.map_err(|error| __lalrpop_util::ParseError::User { error })
    }
}
