// auto-generated: "lalrpop 0.23.1"
// sha3: e7001368a8b75ae2738fd43cf5ae092be0ea11e63127142839b8d7de58d56072
use crate::support::*;
#[allow(unused_extern_crates)]
extern crate lalrpop_util as __lalrpop_util;
#[allow(unused_imports)]
use self::__lalrpop_util::state_machine as __state_machine;
#[allow(unused_extern_crates)]
extern crate alloc;

#[rustfmt::skip]
#[allow(explicit_outlives_requirements, non_snake_case, non_camel_case_types, unused_mut, unused_variables, unused_imports, unused_parens, clippy::needless_lifetimes, clippy::type_complexity, clippy::needless_return, clippy::too_many_arguments, clippy::match_single_binding, clippy::clone_on_copy, clippy::unit_arg)]
mod __parse__One {

    use crate::support::*;
    #[allow(unused_extern_crates)]
    extern crate lalrpop_util as __lalrpop_util;
    #[allow(unused_imports)]
    use self::__lalrpop_util::state_machine as __state_machine;
    #[allow(unused_extern_crates)]
    extern crate alloc;
    use self::__lalrpop_util::lexer::Token;
    pub struct OneParser {
        builder: __lalrpop_util::lexer::MatcherBuilder,
        _priv: (),
    }

    impl Default for OneParser { fn default() -> Self { Self::new() } }
    impl OneParser {
        pub fn new() -> OneParser {
            let __builder = super::__intern_token::new_builder();
            OneParser {
                builder: __builder,
                _priv: (),
            }
        }

        #[allow(dead_code)]
        pub fn parse<
            'input,
            T,
            F,
        >(
            &self,
            make: &F,
            input: &'input str,
        ) -> Result<Option<T>, __lalrpop_util::ParseError<usize, Token<'input>, &'static str>>
        where
            F: Fn(usize) -> T,
            T: Clone,
            T: std::fmt::Debug,
        {
            let mut __tokens = self.builder.matcher(input);
            let __lookahead = match __tokens.next() {
                Some(Ok(v)) => Some(v),
                Some(Err(e)) => return Err(e),
                None => None,
            };
            match __state0(make, input, &mut __tokens, __lookahead, core::marker::PhantomData::<(&(), T, F)>)? {
                (Some(__lookahead), _) => {
                    Err(__lalrpop_util::ParseError::ExtraToken { token: __lookahead })
                }
                (None, __Nonterminal::____One((_, __nt, _))) => {
                    Ok(__nt)
                }
                _ => unreachable!(),
            }
        }
    }

    #[allow(dead_code)]
    enum __Nonterminal<'input, T>
     where T: Clone, T: std::fmt::Debug
     {
        _28_22c_22_20_3cN2_3e_29((usize, usize, usize)),
        _28_22c_22_20_3cN2_3e_29_2a((usize, alloc::vec::Vec<usize>, usize)),
        _28_22c_22_20_3cN2_3e_29_2b((usize, alloc::vec::Vec<usize>, usize)),
        _40L((usize, usize, usize)),
        _40R((usize, usize, usize)),
        Item((usize, usize, usize)),
        Item_2a((usize, alloc::vec::Vec<usize>, usize)),
        Item_2b((usize, alloc::vec::Vec<usize>, usize)),
        Item_3f((usize, Option<usize>, usize)),
        N0((usize, &'input str, usize)),
        N1((usize, (usize, Vec<usize>), usize)),
        N2((usize, usize, usize)),
        N3((usize, usize, usize)),
        N4((usize, &'input str, usize)),
        N5((usize, &'input str, usize)),
        One((usize, Option<T>, usize)),
        S((usize, Vec<T>, usize)),
        ____One((usize, Option<T>, usize)),
        ____S((usize, Vec<T>, usize)),
    }

    fn __state0<
        'input,
        T,
        F,
        __TOKENS: Iterator<Item=Result<(usize, Token<'input>, usize),__lalrpop_util::ParseError<usize, Token<'input>, &'static str>>>,
    >(
        make: &F,
        input: &'input str,
        __tokens: &mut __TOKENS,
        __lookahead: Option<(usize, Token<'input>, usize)>,
        _: core::marker::PhantomData<(&'input (), T, F)>,
    ) -> Result<(Option<(usize, Token<'input>, usize)>, __Nonterminal<'input, T>), __lalrpop_util::ParseError<usize, Token<'input>, &'static str>>
    where
        F: Fn(usize) -> T,
        T: Clone,
        T: std::fmt::Debug,
    {
        let mut __result: (Option<(usize, Token<'input>, usize)>, __Nonterminal<'input, T>);
        match __lookahead {
            Some((__loc1, Token(1, __tok0), __loc2)) => {
                let __sym0 = (__loc1, (__tok0), __loc2);
                __result = __state5(make, input, __tokens, __sym0, core::marker::PhantomData::<(&(), T, F)>)?;
            }
            None => {
                let __start: usize = __lookahead.as_ref().map(|o| o.0.clone()).unwrap_or_default();
                let __end = __start.clone();
                let __nt = super::__action34::<T, F>(make, input, &__start, &__end);
                let __nt = __Nonterminal::One((
                    __start,
                    __nt,
                    __end,
                ));
                __result = (__lookahead, __nt);
            }
            _ => {
                #[allow(clippy::needless_raw_string_hashes)]
                let __expected = alloc::vec![
                    r###""a""###.to_string(),
                ];
                return Err(
                    match __lookahead {
                        Some(__token) => {
                            __lalrpop_util::ParseError::UnrecognizedToken {
                                token: __token,
                                expected: __expected,
                            }
                        }
                        None => {
                            let __location = Default::default();
                            __lalrpop_util::ParseError::UnrecognizedEof {
                                location: __location,
                                expected: __expected,
                            }
                        }
                    }
                )
            }
        }
        #[allow(clippy::never_loop)]
        loop {
            let (__lookahead, __nt) = __result;
            match __nt {
                __Nonterminal::Item(__sym0) => {
                    __result = __state1(make, input, __tokens, __lookahead, __sym0, core::marker::PhantomData::<(&(), T, F)>)?;
                }
                __Nonterminal::N0(__sym0) => {
                    __result = __state2(make, input, __tokens, __lookahead, __sym0, core::marker::PhantomData::<(&(), T, F)>)?;
                }
                __Nonterminal::N5(__sym0) => {
                    __result = __state3(make, input, __tokens, __lookahead, __sym0, core::marker::PhantomData::<(&(), T, F)>)?;
                }
                __Nonterminal::One(__sym0) => {
                    __result = __state4(make, input, __tokens, __lookahead, __sym0, core::marker::PhantomData::<(&(), T, F)>)?;
                }
                _ => {
                    return Ok((__lookahead, __nt));
                }
            }
        }
    }

    fn __state1<
        'input,
        T,
        F,
        __TOKENS: Iterator<Item=Result<(usize, Token<'input>, usize),__lalrpop_util::ParseError<usize, Token<'input>, &'static str>>>,
    >(
        make: &F,
        input: &'input str,
        __tokens: &mut __TOKENS,
        __lookahead: Option<(usize, Token<'input>, usize)>,
        __sym0: (usize, usize, usize),
        _: core::marker::PhantomData<(&'input (), T, F)>,
    ) -> Result<(Option<(usize, Token<'input>, usize)>, __Nonterminal<'input, T>), __lalrpop_util::ParseError<usize, Token<'input>, &'static str>>
    where
        F: Fn(usize) -> T,
        T: Clone,
        T: std::fmt::Debug,
    {
        let mut __result: (Option<(usize, Token<'input>, usize)>, __Nonterminal<'input, T>);
        match __lookahead {
            None => {
                let __start = __sym0.0.clone();
                let __end = __sym0.2.clone();
                let __nt = super::__action33::<T, F>(make, input, __sym0);
                let __nt = __Nonterminal::One((
                    __start,
                    __nt,
                    __end,
                ));
                __result = (__lookahead, __nt);
                return Ok(__result);
            }
            _ => {
                #[allow(clippy::needless_raw_string_hashes)]
                let __expected = alloc::vec![
                ];
                return Err(
                    match __lookahead {
                        Some(__token) => {
                            __lalrpop_util::ParseError::UnrecognizedToken {
                                token: __token,
                                expected: __expected,
                            }
                        }
                        None => {
                            let __location = __sym0.2.clone();
                            __lalrpop_util::ParseError::UnrecognizedEof {
                                location: __location,
                                expected: __expected,
                            }
                        }
                    }
                )
            }
        }
    }

    fn __state2<
        'input,
        T,
        F,
        __TOKENS: Iterator<Item=Result<(usize, Token<'input>, usize),__lalrpop_util::ParseError<usize, Token<'input>, &'static str>>>,
    >(
        make: &F,
        input: &'input str,
        __tokens: &mut __TOKENS,
        __lookahead: Option<(usize, Token<'input>, usize)>,
        __sym0: (usize, &'input str, usize),
        _: core::marker::PhantomData<(&'input (), T, F)>,
    ) -> Result<(Option<(usize, Token<'input>, usize)>, __Nonterminal<'input, T>), __lalrpop_util::ParseError<usize, Token<'input>, &'static str>>
    where
        F: Fn(usize) -> T,
        T: Clone,
        T: std::fmt::Debug,
    {
        let mut __result: (Option<(usize, Token<'input>, usize)>, __Nonterminal<'input, T>);
        match __lookahead {
            Some((__loc1, Token(0, __tok0), __loc2)) => {
                let __sym1 = (__loc1, (__tok0), __loc2);
                __result = __state6(make, input, __tokens, __sym0, __sym1, core::marker::PhantomData::<(&(), T, F)>)?;
                return Ok(__result);
            }
            _ => {
                #[allow(clippy::needless_raw_string_hashes)]
                let __expected = alloc::vec![
                    r###"",""###.to_string(),
                ];
                return Err(
                    match __lookahead {
                        Some(__token) => {
                            __lalrpop_util::ParseError::UnrecognizedToken {
                                token: __token,
                                expected: __expected,
                            }
                        }
                        None => {
                            let __location = __sym0.2.clone();
                            __lalrpop_util::ParseError::UnrecognizedEof {
                                location: __location,
                                expected: __expected,
                            }
                        }
                    }
                )
            }
        }
    }

    fn __state3<
        'input,
        T,
        F,
        __TOKENS: Iterator<Item=Result<(usize, Token<'input>, usize),__lalrpop_util::ParseError<usize, Token<'input>, &'static str>>>,
    >(
        make: &F,
        input: &'input str,
        __tokens: &mut __TOKENS,
        __lookahead: Option<(usize, Token<'input>, usize)>,
        __sym0: (usize, &'input str, usize),
        _: core::marker::PhantomData<(&'input (), T, F)>,
    ) -> Result<(Option<(usize, Token<'input>, usize)>, __Nonterminal<'input, T>), __lalrpop_util::ParseError<usize, Token<'input>, &'static str>>
    where
        F: Fn(usize) -> T,
        T: Clone,
        T: std::fmt::Debug,
    {
        let mut __result: (Option<(usize, Token<'input>, usize)>, __Nonterminal<'input, T>);
        match __lookahead {
            Some((__loc1, Token(3, __tok0), __loc2)) => {
                let __sym1 = (__loc1, (__tok0), __loc2);
                __result = __state7(make, input, __tokens, __sym0, __sym1, core::marker::PhantomData::<(&(), T, F)>)?;
                return Ok(__result);
            }
            _ => {
                #[allow(clippy::needless_raw_string_hashes)]
                let __expected = alloc::vec![
                    r###""c""###.to_string(),
                ];
                return Err(
                    match __lookahead {
                        Some(__token) => {
                            __lalrpop_util::ParseError::UnrecognizedToken {
                                token: __token,
                                expected: __expected,
                            }
                        }
                        None => {
                            let __location = __sym0.2.clone();
                            __lalrpop_util::ParseError::UnrecognizedEof {
                                location: __location,
                                expected: __expected,
                            }
                        }
                    }
                )
            }
        }
    }

    fn __state4<
        'input,
        T,
        F,
        __TOKENS: Iterator<Item=Result<(usize, Token<'input>, usize),__lalrpop_util::ParseError<usize, Token<'input>, &'static str>>>,
    >(
        make: &F,
        input: &'input str,
        __tokens: &mut __TOKENS,
        __lookahead: Option<(usize, Token<'input>, usize)>,
        __sym0: (usize, Option<T>, usize),
        _: core::marker::PhantomData<(&'input (), T, F)>,
    ) -> Result<(Option<(usize, Token<'input>, usize)>, __Nonterminal<'input, T>), __lalrpop_util::ParseError<usize, Token<'input>, &'static str>>
    where
        F: Fn(usize) -> T,
        T: Clone,
        T: std::fmt::Debug,
    {
        let mut __result: (Option<(usize, Token<'input>, usize)>, __Nonterminal<'input, T>);
        match __lookahead {
            None => {
                let __start = __sym0.0.clone();
                let __end = __sym0.2.clone();
                let __nt = super::__action1::<T, F>(make, input, __sym0);
                let __nt = __Nonterminal::____One((
                    __start,
                    __nt,
                    __end,
                ));
                __result = (__lookahead, __nt);
                return Ok(__result);
            }
            _ => {
                #[allow(clippy::needless_raw_string_hashes)]
                let __expected = alloc::vec![
                ];
                return Err(
                    match __lookahead {
                        Some(__token) => {
                            __lalrpop_util::ParseError::UnrecognizedToken {
                                token: __token,
                                expected: __expected,
                            }
                        }
                        None => {
                            let __location = __sym0.2.clone();
                            __lalrpop_util::ParseError::UnrecognizedEof {
                                location: __location,
                                expected: __expected,
                            }
                        }
                    }
                )
            }
        }
    }

    fn __state5<
        'input,
        T,
        F,
        __TOKENS: Iterator<Item=Result<(usize, Token<'input>, usize),__lalrpop_util::ParseError<usize, Token<'input>, &'static str>>>,
    >(
        make: &F,
        input: &'input str,
        __tokens: &mut __TOKENS,
        __sym0: (usize, &'input str, usize),
        _: core::marker::PhantomData<(&'input (), T, F)>,
    ) -> Result<(Option<(usize, Token<'input>, usize)>, __Nonterminal<'input, T>), __lalrpop_util::ParseError<usize, Token<'input>, &'static str>>
    where
        F: Fn(usize) -> T,
        T: Clone,
        T: std::fmt::Debug,
    {
        let mut __result: (Option<(usize, Token<'input>, usize)>, __Nonterminal<'input, T>);
        let __lookahead = match __tokens.next() {
            Some(Ok(v)) => Some(v),
            Some(Err(e)) => return Err(e),
            None => None,
        };
        match __lookahead {
            Some((__loc1, Token(2, __tok0), __loc2)) => {
                let __sym1 = (__loc1, (__tok0), __loc2);
                __result = __state8(make, input, __tokens, __sym0, __sym1, core::marker::PhantomData::<(&(), T, F)>)?;
                return Ok(__result);
            }
            _ => {
                #[allow(clippy::needless_raw_string_hashes)]
                let __expected = alloc::vec![
                    r###""b""###.to_string(),
                ];
                return Err(
                    match __lookahead {
                        Some(__token) => {
                            __lalrpop_util::ParseError::UnrecognizedToken {
                                token: __token,
                                expected: __expected,
                            }
                        }
                        None => {
                            let __location = __sym0.2.clone();
                            __lalrpop_util::ParseError::UnrecognizedEof {
                                location: __location,
                                expected: __expected,
                            }
                        }
                    }
                )
            }
        }
    }

    fn __state6<
        'input,
        T,
        F,
        __TOKENS: Iterator<Item=Result<(usize, Token<'input>, usize),__lalrpop_util::ParseError<usize, Token<'input>, &'static str>>>,
    >(
        make: &F,
        input: &'input str,
        __tokens: &mut __TOKENS,
        __sym0: (usize, &'input str, usize),
        __sym1: (usize, &'input str, usize),
        _: core::marker::PhantomData<(&'input (), T, F)>,
    ) -> Result<(Option<(usize, Token<'input>, usize)>, __Nonterminal<'input, T>), __lalrpop_util::ParseError<usize, Token<'input>, &'static str>>
    where
        F: Fn(usize) -> T,
        T: Clone,
        T: std::fmt::Debug,
    {
        let mut __result: (Option<(usize, Token<'input>, usize)>, __Nonterminal<'input, T>);
        let __lookahead = match __tokens.next() {
            Some(Ok(v)) => Some(v),
            Some(Err(e)) => return Err(e),
            None => None,
        };
        match __lookahead {
            None => {
                let __start = __sym0.0.clone();
                let __end = __sym1.2.clone();
                let __nt = super::__action4::<T, F>(make, input, __sym0, __sym1);
                let __nt = __Nonterminal::Item((
                    __start,
                    __nt,
                    __end,
                ));
                __result = (__lookahead, __nt);
                return Ok(__result);
            }
            _ => {
                #[allow(clippy::needless_raw_string_hashes)]
                let __expected = alloc::vec![
                ];
                return Err(
                    match __lookahead {
                        Some(__token) => {
                            __lalrpop_util::ParseError::UnrecognizedToken {
                                token: __token,
                                expected: __expected,
                            }
                        }
                        None => {
                            let __location = __sym1.2.clone();
                            __lalrpop_util::ParseError::UnrecognizedEof {
                                location: __location,
                                expected: __expected,
                            }
                        }
                    }
                )
            }
        }
    }

    fn __state7<
        'input,
        T,
        F,
        __TOKENS: Iterator<Item=Result<(usize, Token<'input>, usize),__lalrpop_util::ParseError<usize, Token<'input>, &'static str>>>,
    >(
        make: &F,
        input: &'input str,
        __tokens: &mut __TOKENS,
        __sym0: (usize, &'input str, usize),
        __sym1: (usize, &'input str, usize),
        _: core::marker::PhantomData<(&'input (), T, F)>,
    ) -> Result<(Option<(usize, Token<'input>, usize)>, __Nonterminal<'input, T>), __lalrpop_util::ParseError<usize, Token<'input>, &'static str>>
    where
        F: Fn(usize) -> T,
        T: Clone,
        T: std::fmt::Debug,
    {
        let mut __result: (Option<(usize, Token<'input>, usize)>, __Nonterminal<'input, T>);
        let __lookahead = match __tokens.next() {
            Some(Ok(v)) => Some(v),
            Some(Err(e)) => return Err(e),
            None => None,
        };
        match __lookahead {
            Some((_, Token(0, _), _)) => {
                let __start = __sym0.0.clone();
                let __end = __sym1.2.clone();
                let __nt = super::__action5::<T, F>(make, input, __sym0, __sym1);
                let __nt = __Nonterminal::N0((
                    __start,
                    __nt,
                    __end,
                ));
                __result = (__lookahead, __nt);
                return Ok(__result);
            }
            _ => {
                #[allow(clippy::needless_raw_string_hashes)]
                let __expected = alloc::vec![
                    r###"",""###.to_string(),
                ];
                return Err(
                    match __lookahead {
                        Some(__token) => {
                            __lalrpop_util::ParseError::UnrecognizedToken {
                                token: __token,
                                expected: __expected,
                            }
                        }
                        None => {
                            let __location = __sym1.2.clone();
                            __lalrpop_util::ParseError::UnrecognizedEof {
                                location: __location,
                                expected: __expected,
                            }
                        }
                    }
                )
            }
        }
    }

    fn __state8<
        'input,
        T,
        F,
        __TOKENS: Iterator<Item=Result<(usize, Token<'input>, usize),__lalrpop_util::ParseError<usize, Token<'input>, &'static str>>>,
    >(
        make: &F,
        input: &'input str,
        __tokens: &mut __TOKENS,
        __sym0: (usize, &'input str, usize),
        __sym1: (usize, &'input str, usize),
        _: core::marker::PhantomData<(&'input (), T, F)>,
    ) -> Result<(Option<(usize, Token<'input>, usize)>, __Nonterminal<'input, T>), __lalrpop_util::ParseError<usize, Token<'input>, &'static str>>
    where
        F: Fn(usize) -> T,
        T: Clone,
        T: std::fmt::Debug,
    {
        let mut __result: (Option<(usize, Token<'input>, usize)>, __Nonterminal<'input, T>);
        let __lookahead = match __tokens.next() {
            Some(Ok(v)) => Some(v),
            Some(Err(e)) => return Err(e),
            None => None,
        };
        match __lookahead {
            Some((_, Token(3, _), _)) => {
                let __start = __sym0.0.clone();
                let __end = __sym1.2.clone();
                let __nt = super::__action11::<T, F>(make, input, __sym0, __sym1);
                let __nt = __Nonterminal::N5((
                    __start,
                    __nt,
                    __end,
                ));
                __result = (__lookahead, __nt);
                return Ok(__result);
            }
            _ => {
                #[allow(clippy::needless_raw_string_hashes)]
                let __expected = alloc::vec![
                    r###""c""###.to_string(),
                ];
                return Err(
                    match __lookahead {
                        Some(__token) => {
                            __lalrpop_util::ParseError::UnrecognizedToken {
                                token: __token,
                                expected: __expected,
                            }
                        }
                        None => {
                            let __location = __sym1.2.clone();
                            __lalrpop_util::ParseError::UnrecognizedEof {
                                location: __location,
                                expected: __expected,
                            }
                        }
                    }
                )
            }
        }
    }
}
#[allow(unused_imports)]
pub use self::__parse__One::OneParser;

#[rustfmt::skip]
#[allow(explicit_outlives_requirements, non_snake_case, non_camel_case_types, unused_mut, unused_variables, unused_imports, unused_parens, clippy::needless_lifetimes, clippy::type_complexity, clippy::needless_return, clippy::too_many_arguments, clippy::match_single_binding, clippy::clone_on_copy, clippy::unit_arg)]
mod __parse__S {

    use crate::support::*;
    #[allow(unused_extern_crates)]
    extern crate lalrpop_util as __lalrpop_util;
    #[allow(unused_imports)]
    use self::__lalrpop_util::state_machine as __state_machine;
    #[allow(unused_extern_crates)]
    extern crate alloc;
    use self::__lalrpop_util::lexer::Token;
    pub struct SParser {
        builder: __lalrpop_util::lexer::MatcherBuilder,
        _priv: (),
    }

    impl Default for SParser { fn default() -> Self { Self::new() } }
    impl SParser {
        pub fn new() -> SParser {
            let __builder = super::__intern_token::new_builder();
            SParser {
                builder: __builder,
                _priv: (),
            }
        }

        #[allow(dead_code)]
        pub fn parse<
            'input,
            T,
            F,
        >(
            &self,
            make: &F,
            input: &'input str,
        ) -> Result<Vec<T>, __lalrpop_util::ParseError<usize, Token<'input>, &'static str>>
        where
            F: Fn(usize) -> T,
            T: Clone,
            T: std::fmt::Debug,
        {
            let mut __tokens = self.builder.matcher(input);
            let __lookahead = match __tokens.next() {
                Some(Ok(v)) => Some(v),
                Some(Err(e)) => return Err(e),
                None => None,
            };
            match __state0(make, input, &mut __tokens, __lookahead, core::marker::PhantomData::<(&(), T, F)>)? {
                (Some(__lookahead), _) => {
                    Err(__lalrpop_util::ParseError::ExtraToken { token: __lookahead })
                }
                (None, __Nonterminal::____S((_, __nt, _))) => {
                    Ok(__nt)
                }
                _ => unreachable!(),
            }
        }
    }

    #[allow(dead_code)]
    enum __Nonterminal<'input, T>
     where T: Clone, T: std::fmt::Debug
     {
        _28_22c_22_20_3cN2_3e_29((usize, usize, usize)),
        _28_22c_22_20_3cN2_3e_29_2a((usize, alloc::vec::Vec<usize>, usize)),
        _28_22c_22_20_3cN2_3e_29_2b((usize, alloc::vec::Vec<usize>, usize)),
        _40L((usize, usize, usize)),
        _40R((usize, usize, usize)),
        Item((usize, usize, usize)),
        Item_2a((usize, alloc::vec::Vec<usize>, usize)),
        Item_2b((usize, alloc::vec::Vec<usize>, usize)),
        Item_3f((usize, Option<usize>, usize)),
        N0((usize, &'input str, usize)),
        N1((usize, (usize, Vec<usize>), usize)),
        N2((usize, usize, usize)),
        N3((usize, usize, usize)),
        N4((usize, &'input str, usize)),
        N5((usize, &'input str, usize)),
        One((usize, Option<T>, usize)),
        S((usize, Vec<T>, usize)),
        ____One((usize, Option<T>, usize)),
        ____S((usize, Vec<T>, usize)),
    }

    fn __state0<
        'input,
        T,
        F,
        __TOKENS: Iterator<Item=Result<(usize, Token<'input>, usize),__lalrpop_util::ParseError<usize, Token<'input>, &'static str>>>,
    >(
        make: &F,
        input: &'input str,
        __tokens: &mut __TOKENS,
        __lookahead: Option<(usize, Token<'input>, usize)>,
        _: core::marker::PhantomData<(&'input (), T, F)>,
    ) -> Result<(Option<(usize, Token<'input>, usize)>, __Nonterminal<'input, T>), __lalrpop_util::ParseError<usize, Token<'input>, &'static str>>
    where
        F: Fn(usize) -> T,
        T: Clone,
        T: std::fmt::Debug,
    {
        let mut __result: (Option<(usize, Token<'input>, usize)>, __Nonterminal<'input, T>);
        match __lookahead {
            Some((__loc1, Token(1, __tok0), __loc2)) => {
                let __sym0 = (__loc1, (__tok0), __loc2);
                __result = __state6(make, input, __tokens, __sym0, core::marker::PhantomData::<(&(), T, F)>)?;
            }
            None => {
                let __start: usize = __lookahead.as_ref().map(|o| o.0.clone()).unwrap_or_default();
                let __end = __start.clone();
                let __nt = super::__action31::<T, F>(make, input, &__start, &__end);
                let __nt = __Nonterminal::S((
                    __start,
                    __nt,
                    __end,
                ));
                __result = (__lookahead, __nt);
            }
            _ => {
                #[allow(clippy::needless_raw_string_hashes)]
                let __expected = alloc::vec![
                    r###""a""###.to_string(),
                ];
                return Err(
                    match __lookahead {
                        Some(__token) => {
                            __lalrpop_util::ParseError::UnrecognizedToken {
                                token: __token,
                                expected: __expected,
                            }
                        }
                        None => {
                            let __location = Default::default();
                            __lalrpop_util::ParseError::UnrecognizedEof {
                                location: __location,
                                expected: __expected,
                            }
                        }
                    }
                )
            }
        }
        #[allow(clippy::never_loop)]
        loop {
            let (__lookahead, __nt) = __result;
            match __nt {
                __Nonterminal::Item(__sym0) => {
                    __result = __state2(make, input, __tokens, __lookahead, __sym0, core::marker::PhantomData::<(&(), T, F)>)?;
                }
                __Nonterminal::Item_2b(__sym0) => {
                    __result = __state1(make, input, __tokens, __lookahead, __sym0, core::marker::PhantomData::<(&(), T, F)>)?;
                }
                __Nonterminal::N0(__sym0) => {
                    __result = __state3(make, input, __tokens, __lookahead, __sym0, core::marker::PhantomData::<(&(), T, F)>)?;
                }
                __Nonterminal::N5(__sym0) => {
                    __result = __state4(make, input, __tokens, __lookahead, __sym0, core::marker::PhantomData::<(&(), T, F)>)?;
                }
                __Nonterminal::S(__sym0) => {
                    __result = __state5(make, input, __tokens, __lookahead, __sym0, core::marker::PhantomData::<(&(), T, F)>)?;
                }
                _ => {
                    return Ok((__lookahead, __nt));
                }
            }
        }
    }

    fn __state1<
        'input,
        T,
        F,
        __TOKENS: Iterator<Item=Result<(usize, Token<'input>, usize),__lalrpop_util::ParseError<usize, Token<'input>, &'static str>>>,
    >(
        make: &F,
        input: &'input str,
        __tokens: &mut __TOKENS,
        __lookahead: Option<(usize, Token<'input>, usize)>,
        __sym0: (usize, alloc::vec::Vec<usize>, usize),
        _: core::marker::PhantomData<(&'input (), T, F)>,
    ) -> Result<(Option<(usize, Token<'input>, usize)>, __Nonterminal<'input, T>), __lalrpop_util::ParseError<usize, Token<'input>, &'static str>>
    where
        F: Fn(usize) -> T,
        T: Clone,
        T: std::fmt::Debug,
    {
        let mut __result: (Option<(usize, Token<'input>, usize)>, __Nonterminal<'input, T>);
        match __lookahead {
            Some((__loc1, Token(1, __tok0), __loc2)) => {
                let __sym1 = (__loc1, (__tok0), __loc2);
                __result = __state6(make, input, __tokens, __sym1, core::marker::PhantomData::<(&(), T, F)>)?;
            }
            None => {
                let __start = __sym0.0.clone();
                let __end = __sym0.2.clone();
                let __nt = super::__action32::<T, F>(make, input, __sym0);
                let __nt = __Nonterminal::S((
                    __start,
                    __nt,
                    __end,
                ));
                __result = (__lookahead, __nt);
                return Ok(__result);
            }
            _ => {
                #[allow(clippy::needless_raw_string_hashes)]
                let __expected = alloc::vec![
                    r###""a""###.to_string(),
                ];
                return Err(
                    match __lookahead {
                        Some(__token) => {
                            __lalrpop_util::ParseError::UnrecognizedToken {
                                token: __token,
                                expected: __expected,
                            }
                        }
                        None => {
                            let __location = __sym0.2.clone();
                            __lalrpop_util::ParseError::UnrecognizedEof {
                                location: __location,
                                expected: __expected,
                            }
                        }
                    }
                )
            }
        }
        #[allow(clippy::never_loop)]
        loop {
            let (__lookahead, __nt) = __result;
            match __nt {
                __Nonterminal::Item(__sym1) => {
                    __result = __state7(make, input, __tokens, __lookahead, __sym0, __sym1, core::marker::PhantomData::<(&(), T, F)>)?;
                    return Ok(__result);
                }
                __Nonterminal::N0(__sym1) => {
                    __result = __state3(make, input, __tokens, __lookahead, __sym1, core::marker::PhantomData::<(&(), T, F)>)?;
                }
                __Nonterminal::N5(__sym1) => {
                    __result = __state4(make, input, __tokens, __lookahead, __sym1, core::marker::PhantomData::<(&(), T, F)>)?;
                }
                _ => {
                    return Ok((__lookahead, __nt));
                }
            }
        }
    }

    fn __state2<
        'input,
        T,
        F,
        __TOKENS: Iterator<Item=Result<(usize, Token<'input>, usize),__lalrpop_util::ParseError<usize, Token<'input>, &'static str>>>,
    >(
        make: &F,
        input: &'input str,
        __tokens: &mut __TOKENS,
        __lookahead: Option<(usize, Token<'input>, usize)>,
        __sym0: (usize, usize, usize),
        _: core::marker::PhantomData<(&'input (), T, F)>,
    ) -> Result<(Option<(usize, Token<'input>, usize)>, __Nonterminal<'input, T>), __lalrpop_util::ParseError<usize, Token<'input>, &'static str>>
    where
        F: Fn(usize) -> T,
        T: Clone,
        T: std::fmt::Debug,
    {
        let mut __result: (Option<(usize, Token<'input>, usize)>, __Nonterminal<'input, T>);
        match __lookahead {
            Some((_, Token(1, _), _)) |
            None => {
                let __start = __sym0.0.clone();
                let __end = __sym0.2.clone();
                let __nt = super::__action21::<T, F>(make, input, __sym0);
                let __nt = __Nonterminal::Item_2b((
                    __start,
                    __nt,
                    __end,
                ));
                __result = (__lookahead, __nt);
                return Ok(__result);
            }
            _ => {
                #[allow(clippy::needless_raw_string_hashes)]
                let __expected = alloc::vec![
                    r###""a""###.to_string(),
                ];
                return Err(
                    match __lookahead {
                        Some(__token) => {
                            __lalrpop_util::ParseError::UnrecognizedToken {
                                token: __token,
                                expected: __expected,
                            }
                        }
                        None => {
                            let __location = __sym0.2.clone();
                            __lalrpop_util::ParseError::UnrecognizedEof {
                                location: __location,
                                expected: __expected,
                            }
                        }
                    }
                )
            }
        }
    }

    fn __state3<
        'input,
        T,
        F,
        __TOKENS: Iterator<Item=Result<(usize, Token<'input>, usize),__lalrpop_util::ParseError<usize, Token<'input>, &'static str>>>,
    >(
        make: &F,
        input: &'input str,
        __tokens: &mut __TOKENS,
        __lookahead: Option<(usize, Token<'input>, usize)>,
        __sym0: (usize, &'input str, usize),
        _: core::marker::PhantomData<(&'input (), T, F)>,
    ) -> Result<(Option<(usize, Token<'input>, usize)>, __Nonterminal<'input, T>), __lalrpop_util::ParseError<usize, Token<'input>, &'static str>>
    where
        F: Fn(usize) -> T,
        T: Clone,
        T: std::fmt::Debug,
    {
        let mut __result: (Option<(usize, Token<'input>, usize)>, __Nonterminal<'input, T>);
        match __lookahead {
            Some((__loc1, Token(0, __tok0), __loc2)) => {
                let __sym1 = (__loc1, (__tok0), __loc2);
                __result = __state8(make, input, __tokens, __sym0, __sym1, core::marker::PhantomData::<(&(), T, F)>)?;
                return Ok(__result);
            }
            _ => {
                #[allow(clippy::needless_raw_string_hashes)]
                let __expected = alloc::vec![
                    r###"",""###.to_string(),
                ];
                return Err(
                    match __lookahead {
                        Some(__token) => {
                            __lalrpop_util::ParseError::UnrecognizedToken {
                                token: __token,
                                expected: __expected,
                            }
                        }
                        None => {
                            let __location = __sym0.2.clone();
                            __lalrpop_util::ParseError::UnrecognizedEof {
                                location: __location,
                                expected: __expected,
                            }
                        }
                    }
                )
            }
        }
    }

    fn __state4<
        'input,
        T,
        F,
        __TOKENS: Iterator<Item=Result<(usize, Token<'input>, usize),__lalrpop_util::ParseError<usize, Token<'input>, &'static str>>>,
    >(
        make: &F,
        input: &'input str,
        __tokens: &mut __TOKENS,
        __lookahead: Option<(usize, Token<'input>, usize)>,
        __sym0: (usize, &'input str, usize),
        _: core::marker::PhantomData<(&'input (), T, F)>,
    ) -> Result<(Option<(usize, Token<'input>, usize)>, __Nonterminal<'input, T>), __lalrpop_util::ParseError<usize, Token<'input>, &'static str>>
    where
        F: Fn(usize) -> T,
        T: Clone,
        T: std::fmt::Debug,
    {
        let mut __result: (Option<(usize, Token<'input>, usize)>, __Nonterminal<'input, T>);
        match __lookahead {
            Some((__loc1, Token(3, __tok0), __loc2)) => {
                let __sym1 = (__loc1, (__tok0), __loc2);
                __result = __state9(make, input, __tokens, __sym0, __sym1, core::marker::PhantomData::<(&(), T, F)>)?;
                return Ok(__result);
            }
            _ => {
                #[allow(clippy::needless_raw_string_hashes)]
                let __expected = alloc::vec![
                    r###""c""###.to_string(),
                ];
                return Err(
                    match __lookahead {
                        Some(__token) => {
                            __lalrpop_util::ParseError::UnrecognizedToken {
                                token: __token,
                                expected: __expected,
                            }
                        }
                        None => {
                            let __location = __sym0.2.clone();
                            __lalrpop_util::ParseError::UnrecognizedEof {
                                location: __location,
                                expected: __expected,
                            }
                        }
                    }
                )
            }
        }
    }

    fn __state5<
        'input,
        T,
        F,
        __TOKENS: Iterator<Item=Result<(usize, Token<'input>, usize),__lalrpop_util::ParseError<usize, Token<'input>, &'static str>>>,
    >(
        make: &F,
        input: &'input str,
        __tokens: &mut __TOKENS,
        __lookahead: Option<(usize, Token<'input>, usize)>,
        __sym0: (usize, Vec<T>, usize),
        _: core::marker::PhantomData<(&'input (), T, F)>,
    ) -> Result<(Option<(usize, Token<'input>, usize)>, __Nonterminal<'input, T>), __lalrpop_util::ParseError<usize, Token<'input>, &'static str>>
    where
        F: Fn(usize) -> T,
        T: Clone,
        T: std::fmt::Debug,
    {
        let mut __result: (Option<(usize, Token<'input>, usize)>, __Nonterminal<'input, T>);
        match __lookahead {
            None => {
                let __start = __sym0.0.clone();
                let __end = __sym0.2.clone();
                let __nt = super::__action0::<T, F>(make, input, __sym0);
                let __nt = __Nonterminal::____S((
                    __start,
                    __nt,
                    __end,
                ));
                __result = (__lookahead, __nt);
                return Ok(__result);
            }
            _ => {
                #[allow(clippy::needless_raw_string_hashes)]
                let __expected = alloc::vec![
                ];
                return Err(
                    match __lookahead {
                        Some(__token) => {
                            __lalrpop_util::ParseError::UnrecognizedToken {
                                token: __token,
                                expected: __expected,
                            }
                        }
                        None => {
                            let __location = __sym0.2.clone();
                            __lalrpop_util::ParseError::UnrecognizedEof {
                                location: __location,
                                expected: __expected,
                            }
                        }
                    }
                )
            }
        }
    }

    fn __state6<
        'input,
        T,
        F,
        __TOKENS: Iterator<Item=Result<(usize, Token<'input>, usize),__lalrpop_util::ParseError<usize, Token<'input>, &'static str>>>,
    >(
        make: &F,
        input: &'input str,
        __tokens: &mut __TOKENS,
        __sym0: (usize, &'input str, usize),
        _: core::marker::PhantomData<(&'input (), T, F)>,
    ) -> Result<(Option<(usize, Token<'input>, usize)>, __Nonterminal<'input, T>), __lalrpop_util::ParseError<usize, Token<'input>, &'static str>>
    where
        F: Fn(usize) -> T,
        T: Clone,
        T: std::fmt::Debug,
    {
        let mut __result: (Option<(usize, Token<'input>, usize)>, __Nonterminal<'input, T>);
        let __lookahead = match __tokens.next() {
            Some(Ok(v)) => Some(v),
            Some(Err(e)) => return Err(e),
            None => None,
        };
        match __lookahead {
            Some((__loc1, Token(2, __tok0), __loc2)) => {
                let __sym1 = (__loc1, (__tok0), __loc2);
                __result = __state10(make, input, __tokens, __sym0, __sym1, core::marker::PhantomData::<(&(), T, F)>)?;
                return Ok(__result);
            }
            _ => {
                #[allow(clippy::needless_raw_string_hashes)]
                let __expected = alloc::vec![
                    r###""b""###.to_string(),
                ];
                return Err(
                    match __lookahead {
                        Some(__token) => {
                            __lalrpop_util::ParseError::UnrecognizedToken {
                                token: __token,
                                expected: __expected,
                            }
                        }
                        None => {
                            let __location = __sym0.2.clone();
                            __lalrpop_util::ParseError::UnrecognizedEof {
                                location: __location,
                                expected: __expected,
                            }
                        }
                    }
                )
            }
        }
    }

    fn __state7<
        'input,
        T,
        F,
        __TOKENS: Iterator<Item=Result<(usize, Token<'input>, usize),__lalrpop_util::ParseError<usize, Token<'input>, &'static str>>>,
    >(
        make: &F,
        input: &'input str,
        __tokens: &mut __TOKENS,
        __lookahead: Option<(usize, Token<'input>, usize)>,
        __sym0: (usize, alloc::vec::Vec<usize>, usize),
        __sym1: (usize, usize, usize),
        _: core::marker::PhantomData<(&'input (), T, F)>,
    ) -> Result<(Option<(usize, Token<'input>, usize)>, __Nonterminal<'input, T>), __lalrpop_util::ParseError<usize, Token<'input>, &'static str>>
    where
        F: Fn(usize) -> T,
        T: Clone,
        T: std::fmt::Debug,
    {
        let mut __result: (Option<(usize, Token<'input>, usize)>, __Nonterminal<'input, T>);
        match __lookahead {
            Some((_, Token(1, _), _)) |
            None => {
                let __start = __sym0.0.clone();
                let __end = __sym1.2.clone();
                let __nt = super::__action22::<T, F>(make, input, __sym0, __sym1);
                let __nt = __Nonterminal::Item_2b((
                    __start,
                    __nt,
                    __end,
                ));
                __result = (__lookahead, __nt);
                return Ok(__result);
            }
            _ => {
                #[allow(clippy::needless_raw_string_hashes)]
                let __expected = alloc::vec![
                    r###""a""###.to_string(),
                ];
                return Err(
                    match __lookahead {
                        Some(__token) => {
                            __lalrpop_util::ParseError::UnrecognizedToken {
                                token: __token,
                                expected: __expected,
                            }
                        }
                        None => {
                            let __location = __sym1.2.clone();
                            __lalrpop_util::ParseError::UnrecognizedEof {
                                location: __location,
                                expected: __expected,
                            }
                        }
                    }
                )
            }
        }
    }

    fn __state8<
        'input,
        T,
        F,
        __TOKENS: Iterator<Item=Result<(usize, Token<'input>, usize),__lalrpop_util::ParseError<usize, Token<'input>, &'static str>>>,
    >(
        make: &F,
        input: &'input str,
        __tokens: &mut __TOKENS,
        __sym0: (usize, &'input str, usize),
        __sym1: (usize, &'input str, usize),
        _: core::marker::PhantomData<(&'input (), T, F)>,
    ) -> Result<(Option<(usize, Token<'input>, usize)>, __Nonterminal<'input, T>), __lalrpop_util::ParseError<usize, Token<'input>, &'static str>>
    where
        F: Fn(usize) -> T,
        T: Clone,
        T: std::fmt::Debug,
    {
        let mut __result: (Option<(usize, Token<'input>, usize)>, __Nonterminal<'input, T>);
        let __lookahead = match __tokens.next() {
            Some(Ok(v)) => Some(v),
            Some(Err(e)) => return Err(e),
            None => None,
        };
        match __lookahead {
            Some((_, Token(1, _), _)) |
            None => {
                let __start = __sym0.0.clone();
                let __end = __sym1.2.clone();
                let __nt = super::__action4::<T, F>(make, input, __sym0, __sym1);
                let __nt = __Nonterminal::Item((
                    __start,
                    __nt,
                    __end,
                ));
                __result = (__lookahead, __nt);
                return Ok(__result);
            }
            _ => {
                #[allow(clippy::needless_raw_string_hashes)]
                let __expected = alloc::vec![
                    r###""a""###.to_string(),
                ];
                return Err(
                    match __lookahead {
                        Some(__token) => {
                            __lalrpop_util::ParseError::UnrecognizedToken {
                                token: __token,
                                expected: __expected,
                            }
                        }
                        None => {
                            let __location = __sym1.2.clone();
                            __lalrpop_util::ParseError::UnrecognizedEof {
                                location: __location,
                                expected: __expected,
                            }
                        }
                    }
                )
            }
        }
    }

    fn __state9<
        'input,
        T,
        F,
        __TOKENS: Iterator<Item=Result<(usize, Token<'input>, usize),__lalrpop_util::ParseError<usize, Token<'input>, &'static str>>>,
    >(
        make: &F,
        input: &'input str,
        __tokens: &mut __TOKENS,
        __sym0: (usize, &'input str, usize),
        __sym1: (usize, &'input str, usize),
        _: core::marker::PhantomData<(&'input (), T, F)>,
    ) -> Result<(Option<(usize, Token<'input>, usize)>, __Nonterminal<'input, T>), __lalrpop_util::ParseError<usize, Token<'input>, &'static str>>
    where
        F: Fn(usize) -> T,
        T: Clone,
        T: std::fmt::Debug,
    {
        let mut __result: (Option<(usize, Token<'input>, usize)>, __Nonterminal<'input, T>);
        let __lookahead = match __tokens.next() {
            Some(Ok(v)) => Some(v),
            Some(Err(e)) => return Err(e),
            None => None,
        };
        match __lookahead {
            Some((_, Token(0, _), _)) => {
                let __start = __sym0.0.clone();
                let __end = __sym1.2.clone();
                let __nt = super::__action5::<T, F>(make, input, __sym0, __sym1);
                let __nt = __Nonterminal::N0((
                    __start,
                    __nt,
                    __end,
                ));
                __result = (__lookahead, __nt);
                return Ok(__result);
            }
            _ => {
                #[allow(clippy::needless_raw_string_hashes)]
                let __expected = alloc::vec![
                    r###"",""###.to_string(),
                ];
                return Err(
                    match __lookahead {
                        Some(__token) => {
                            __lalrpop_util::ParseError::UnrecognizedToken {
                                token: __token,
                                expected: __expected,
                            }
                        }
                        None => {
                            let __location = __sym1.2.clone();
                            __lalrpop_util::ParseError::UnrecognizedEof {
                                location: __location,
                                expected: __expected,
                            }
                        }
                    }
                )
            }
        }
    }

    fn __state10<
        'input,
        T,
        F,
        __TOKENS: Iterator<Item=Result<(usize, Token<'input>, usize),__lalrpop_util::ParseError<usize, Token<'input>, &'static str>>>,
    >(
        make: &F,
        input: &'input str,
        __tokens: &mut __TOKENS,
        __sym0: (usize, &'input str, usize),
        __sym1: (usize, &'input str, usize),
        _: core::marker::PhantomData<(&'input (), T, F)>,
    ) -> Result<(Option<(usize, Token<'input>, usize)>, __Nonterminal<'input, T>), __lalrpop_util::ParseError<usize, Token<'input>, &'static str>>
    where
        F: Fn(usize) -> T,
        T: Clone,
        T: std::fmt::Debug,
    {
        let mut __result: (Option<(usize, Token<'input>, usize)>, __Nonterminal<'input, T>);
        let __lookahead = match __tokens.next() {
            Some(Ok(v)) => Some(v),
            Some(Err(e)) => return Err(e),
            None => None,
        };
        match __lookahead {
            Some((_, Token(3, _), _)) => {
                let __start = __sym0.0.clone();
                let __end = __sym1.2.clone();
                let __nt = super::__action11::<T, F>(make, input, __sym0, __sym1);
                let __nt = __Nonterminal::N5((
                    __start,
                    __nt,
                    __end,
                ));
                __result = (__lookahead, __nt);
                return Ok(__result);
            }
            _ => {
                #[allow(clippy::needless_raw_string_hashes)]
                let __expected = alloc::vec![
                    r###""c""###.to_string(),
                ];
                return Err(
                    match __lookahead {
                        Some(__token) => {
                            __lalrpop_util::ParseError::UnrecognizedToken {
                                token: __token,
                                expected: __expected,
                            }
                        }
                        None => {
                            let __location = __sym1.2.clone();
                            __lalrpop_util::ParseError::UnrecognizedEof {
                                location: __location,
                                expected: __expected,
                            }
                        }
                    }
                )
            }
        }
    }
}
#[allow(unused_imports)]
pub use self::__parse__S::SParser;
#[rustfmt::skip]
mod __intern_token {
    #![allow(unused_imports)]
    use crate::support::*;
    #[allow(unused_extern_crates)]
    extern crate lalrpop_util as __lalrpop_util;
    #[allow(unused_imports)]
    use self::__lalrpop_util::state_machine as __state_machine;
    #[allow(unused_extern_crates)]
    extern crate alloc;
    pub fn new_builder() -> __lalrpop_util::lexer::MatcherBuilder {
        let __strs: &[(&str, bool)] = &[
            (",", false),
            ("a", false),
            ("b", false),
            ("c", false),
            ("d", false),
            (r"\s+", true),
        ];
        __lalrpop_util::lexer::MatcherBuilder::new(__strs.iter().copied()).unwrap()
    }
}
pub(crate) use self::__lalrpop_util::lexer::Token;

#[allow(unused_variables)]
#[allow(clippy::too_many_arguments, clippy::needless_lifetimes, clippy::just_underscores_and_digits, clippy::extra_unused_type_parameters)]
fn __action0<
    'input,
    T,
    F,
>(
    make: &F,
    input: &'input str,
    (_, __0, _): (usize, Vec<T>, usize),
) -> Vec<T>
where
    F: Fn(usize) -> T,
    T: Clone,
    T: std::fmt::Debug,
{
    __0
}

#[allow(unused_variables)]
#[allow(clippy::too_many_arguments, clippy::needless_lifetimes, clippy::just_underscores_and_digits, clippy::extra_unused_type_parameters)]
fn __action1<
    'input,
    T,
    F,
>(
    make: &F,
    input: &'input str,
    (_, __0, _): (usize, Option<T>, usize),
) -> Option<T>
where
    F: Fn(usize) -> T,
    T: Clone,
    T: std::fmt::Debug,
{
    __0
}

#[allow(unused_variables)]
#[allow(clippy::too_many_arguments, clippy::needless_lifetimes, clippy::just_underscores_and_digits, clippy::extra_unused_type_parameters)]
fn __action2<
    'input,
    T,
    F,
>(
    make: &F,
    input: &'input str,
    (_, l, _): (usize, usize, usize),
    (_, xs, _): (usize, alloc::vec::Vec<usize>, usize),
    (_, r, _): (usize, usize, usize),
) -> Vec<T>
where
    F: Fn(usize) -> T,
    T: Clone,
    T: std::fmt::Debug,
{
    { let _ = (&l, &r); xs.into_iter().map(|x| make(x)).collect() }
}

#[allow(unused_variables)]
#[allow(clippy::too_many_arguments, clippy::needless_lifetimes, clippy::just_underscores_and_digits, clippy::extra_unused_type_parameters)]
fn __action3<
    'input,
    T,
    F,
>(
    make: &F,
    input: &'input str,
    (_, x, _): (usize, Option<usize>, usize),
) -> Option<T>
where
    F: Fn(usize) -> T,
    T: Clone,
    T: std::fmt::Debug,
{
    x.map(|v| make(v))
}

#[allow(unused_variables)]
#[allow(clippy::too_many_arguments, clippy::needless_lifetimes, clippy::just_underscores_and_digits, clippy::extra_unused_type_parameters)]
fn __action4<
    'input,
    T,
    F,
>(
    make: &F,
    input: &'input str,
    (_, x, _): (usize, &'input str, usize),
    (_, _, _): (usize, &'input str, usize),
) -> usize
where
    F: Fn(usize) -> T,
    T: Clone,
    T: std::fmt::Debug,
{
    sz(&x)
}

#[allow(unused_variables)]
#[allow(clippy::too_many_arguments, clippy::needless_lifetimes, clippy::just_underscores_and_digits, clippy::extra_unused_type_parameters)]
fn __action5<
    'input,
    T,
    F,
>(
    make: &F,
    input: &'input str,
    (_, __0, _): (usize, &'input str, usize),
    (_, _, _): (usize, &'input str, usize),
) -> &'input str
where
    F: Fn(usize) -> T,
    T: Clone,
    T: std::fmt::Debug,
{
    __0
}

#[allow(unused_variables)]
#[allow(clippy::too_many_arguments, clippy::needless_lifetimes, clippy::just_underscores_and_digits, clippy::extra_unused_type_parameters)]
fn __action6<
    'input,
    T,
    F,
>(
    make: &F,
    input: &'input str,
    (_, v, _): (usize, alloc::vec::Vec<usize>, usize),
) -> (usize, Vec<usize>)
where
    F: Fn(usize) -> T,
    T: Clone,
    T: std::fmt::Debug,
{
    (v.len(), v.iter().map(sz).collect())
}

#[allow(unused_variables)]
#[allow(clippy::too_many_arguments, clippy::needless_lifetimes, clippy::just_underscores_and_digits, clippy::extra_unused_type_parameters)]
fn __action7<
    'input,
    T,
    F,
>(
    make: &F,
    input: &'input str,
    (_, __0, _): (usize, usize, usize),
    (_, _, _): (usize, &'input str, usize),
) -> usize
where
    F: Fn(usize) -> T,
    T: Clone,
    T: std::fmt::Debug,
{
    __0
}

#[allow(unused_variables)]
#[allow(clippy::too_many_arguments, clippy::needless_lifetimes, clippy::just_underscores_and_digits, clippy::extra_unused_type_parameters)]
fn __action8<
    'input,
    T,
    F,
>(
    make: &F,
    input: &'input str,
    (_, x, _): (usize, &'input str, usize),
    (_, _, _): (usize, &'input str, usize),
    (_, y, _): (usize, &'input str, usize),
) -> usize
where
    F: Fn(usize) -> T,
    T: Clone,
    T: std::fmt::Debug,
{
    sz(&x) + sz(&y)
}

#[allow(unused_variables)]
#[allow(clippy::too_many_arguments, clippy::needless_lifetimes, clippy::just_underscores_and_digits, clippy::extra_unused_type_parameters)]
fn __action9<
    'input,
    T,
    F,
>(
    make: &F,
    input: &'input str,
    (_, _, _): (usize, &'input str, usize),
    (_, n, _): (usize, usize, usize),
    (_, _, _): (usize, &'input str, usize),
) -> usize
where
    F: Fn(usize) -> T,
    T: Clone,
    T: std::fmt::Debug,
{
    n + 1
}

#[allow(unused_variables)]
#[allow(clippy::too_many_arguments, clippy::needless_lifetimes, clippy::just_underscores_and_digits, clippy::extra_unused_type_parameters)]
fn __action10<
    'input,
    T,
    F,
>(
    make: &F,
    input: &'input str,
    (_, __0, _): (usize, &'input str, usize),
    (_, _, _): (usize, &'input str, usize),
) -> &'input str
where
    F: Fn(usize) -> T,
    T: Clone,
    T: std::fmt::Debug,
{
    __0
}

#[allow(unused_variables)]
#[allow(clippy::too_many_arguments, clippy::needless_lifetimes, clippy::just_underscores_and_digits, clippy::extra_unused_type_parameters)]
fn __action11<
    'input,
    T,
    F,
>(
    make: &F,
    input: &'input str,
    (_, __0, _): (usize, &'input str, usize),
    (_, _, _): (usize, &'input str, usize),
) -> &'input str
where
    F: Fn(usize) -> T,
    T: Clone,
    T: std::fmt::Debug,
{
    __0
}

#[allow(unused_variables)]
#[allow(clippy::too_many_arguments, clippy::needless_lifetimes, clippy::just_underscores_and_digits, clippy::extra_unused_type_parameters)]
fn __action12<
    'input,
    T,
    F,
>(
    make: &F,
    input: &'input str,
    __lookbehind: &usize,
    __lookahead: &usize,
) -> alloc::vec::Vec<usize>
where
    F: Fn(usize) -> T,
    T: Clone,
    T: std::fmt::Debug,
{
    alloc::vec![]
}

#[allow(unused_variables)]
#[allow(clippy::too_many_arguments, clippy::needless_lifetimes, clippy::just_underscores_and_digits, clippy::extra_unused_type_parameters)]
fn __action13<
    'input,
    T,
    F,
>(
    make: &F,
    input: &'input str,
    (_, v, _): (usize, alloc::vec::Vec<usize>, usize),
) -> alloc::vec::Vec<usize>
where
    F: Fn(usize) -> T,
    T: Clone,
    T: std::fmt::Debug,
{
    v
}

#[allow(unused_variables)]
#[allow(clippy::too_many_arguments, clippy::needless_lifetimes, clippy::just_underscores_and_digits, clippy::extra_unused_type_parameters)]
fn __action14<
    'input,
    T,
    F,
>(
    make: &F,
    input: &'input str,
    (_, _, _): (usize, &'input str, usize),
    (_, __0, _): (usize, usize, usize),
) -> usize
where
    F: Fn(usize) -> T,
    T: Clone,
    T: std::fmt::Debug,
{
    __0
}

#[allow(unused_variables)]
#[allow(clippy::too_many_arguments, clippy::needless_lifetimes, clippy::just_underscores_and_digits, clippy::extra_unused_type_parameters)]
fn __action15<
    'input,
    T,
    F,
>(
    make: &F,
    input: &'input str,
    (_, __0, _): (usize, usize, usize),
) -> Option<usize>
where
    F: Fn(usize) -> T,
    T: Clone,
    T: std::fmt::Debug,
{
    Some(__0)
}

#[allow(unused_variables)]
#[allow(clippy::too_many_arguments, clippy::needless_lifetimes, clippy::just_underscores_and_digits, clippy::extra_unused_type_parameters)]
fn __action16<
    'input,
    T,
    F,
>(
    make: &F,
    input: &'input str,
    __lookbehind: &usize,
    __lookahead: &usize,
) -> Option<usize>
where
    F: Fn(usize) -> T,
    T: Clone,
    T: std::fmt::Debug,
{
    None
}

#[allow(unused_variables)]
#[allow(clippy::needless_lifetimes, clippy::clone_on_copy)]
fn __action17<
    'input,
    T,
    F,
>(
    make: &F,
    input: &'input str,
    __lookbehind: &usize,
    __lookahead: &usize,
) -> usize
where
    F: Fn(usize) -> T,
    T: Clone,
    T: std::fmt::Debug,
{
    __lookbehind.clone()
}

#[allow(unused_variables)]
#[allow(clippy::too_many_arguments, clippy::needless_lifetimes, clippy::just_underscores_and_digits, clippy::extra_unused_type_parameters)]
fn __action18<
    'input,
    T,
    F,
>(
    make: &F,
    input: &'input str,
    __lookbehind: &usize,
    __lookahead: &usize,
) -> alloc::vec::Vec<usize>
where
    F: Fn(usize) -> T,
    T: Clone,
    T: std::fmt::Debug,
{
    alloc::vec![]
}

#[allow(unused_variables)]
#[allow(clippy::too_many_arguments, clippy::needless_lifetimes, clippy::just_underscores_and_digits, clippy::extra_unused_type_parameters)]
fn __action19<
    'input,
    T,
    F,
>(
    make: &F,
    input: &'input str,
    (_, v, _): (usize, alloc::vec::Vec<usize>, usize),
) -> alloc::vec::Vec<usize>
where
    F: Fn(usize) -> T,
    T: Clone,
    T: std::fmt::Debug,
{
    v
}

#[allow(unused_variables)]
#[allow(clippy::needless_lifetimes, clippy::clone_on_copy)]
fn __action20<
    'input,
    T,
    F,
>(
    make: &F,
    input: &'input str,
    __lookbehind: &usize,
    __lookahead: &usize,
) -> usize
where
    F: Fn(usize) -> T,
    T: Clone,
    T: std::fmt::Debug,
{
    __lookahead.clone()
}

#[allow(unused_variables)]
#[allow(clippy::too_many_arguments, clippy::needless_lifetimes, clippy::just_underscores_and_digits, clippy::extra_unused_type_parameters)]
fn __action21<
    'input,
    T,
    F,
>(
    make: &F,
    input: &'input str,
    (_, __0, _): (usize, usize, usize),
) -> alloc::vec::Vec<usize>
where
    F: Fn(usize) -> T,
    T: Clone,
    T: std::fmt::Debug,
{
    alloc::vec![__0]
}

#[allow(unused_variables)]
#[allow(clippy::too_many_arguments, clippy::needless_lifetimes, clippy::just_underscores_and_digits, clippy::extra_unused_type_parameters)]
fn __action22<
    'input,
    T,
    F,
>(
    make: &F,
    input: &'input str,
    (_, v, _): (usize, alloc::vec::Vec<usize>, usize),
    (_, e, _): (usize, usize, usize),
) -> alloc::vec::Vec<usize>
where
    F: Fn(usize) -> T,
    T: Clone,
    T: std::fmt::Debug,
{
    { let mut v = v; v.push(e); v }
}

#[allow(unused_variables)]
#[allow(clippy::too_many_arguments, clippy::needless_lifetimes, clippy::just_underscores_and_digits, clippy::extra_unused_type_parameters)]
fn __action23<
    'input,
    T,
    F,
>(
    make: &F,
    input: &'input str,
    (_, __0, _): (usize, usize, usize),
) -> alloc::vec::Vec<usize>
where
    F: Fn(usize) -> T,
    T: Clone,
    T: std::fmt::Debug,
{
    alloc::vec![__0]
}

#[allow(unused_variables)]
#[allow(clippy::too_many_arguments, clippy::needless_lifetimes, clippy::just_underscores_and_digits, clippy::extra_unused_type_parameters)]
fn __action24<
    'input,
    T,
    F,
>(
    make: &F,
    input: &'input str,
    (_, v, _): (usize, alloc::vec::Vec<usize>, usize),
    (_, e, _): (usize, usize, usize),
) -> alloc::vec::Vec<usize>
where
    F: Fn(usize) -> T,
    T: Clone,
    T: std::fmt::Debug,
{
    { let mut v = v; v.push(e); v }
}

#[allow(unused_variables)]
#[allow(clippy::too_many_arguments, clippy::needless_lifetimes,
    clippy::just_underscores_and_digits, clippy::clone_on_copy, clippy::unit_arg)]
fn __action25<
    'input,
    T,
    F,
>(
    make: &F,
    input: &'input str,
    __0: (usize, &'input str, usize),
    __1: (usize, usize, usize),
) -> alloc::vec::Vec<usize>
where
    F: Fn(usize) -> T,
    T: Clone,
    T: std::fmt::Debug,
{
    let __start0 = __0.0.clone();
    let __end0 = __1.2.clone();
    let __temp0 = __action14::<
    T,
    F,
    >(
        make,
        input,
        __0,
        __1,
    );
    let __temp0 = (__start0, __temp0, __end0);
    __action23::<
    T,
    F,
    >(
        make,
        input,
        __temp0,
    )
}

#[allow(unused_variables)]
#[allow(clippy::too_many_arguments, clippy::needless_lifetimes,
    clippy::just_underscores_and_digits, clippy::clone_on_copy, clippy::unit_arg)]
fn __action26<
    'input,
    T,
    F,
>(
    make: &F,
    input: &'input str,
    __0: (usize, alloc::vec::Vec<usize>, usize),
    __1: (usize, &'input str, usize),
    __2: (usize, usize, usize),
) -> alloc::vec::Vec<usize>
where
    F: Fn(usize) -> T,
    T: Clone,
    T: std::fmt::Debug,
{
    let __start0 = __1.0.clone();
    let __end0 = __2.2.clone();
    let __temp0 = __action14::<
    T,
    F,
    >(
        make,
        input,
        __1,
        __2,
    );
    let __temp0 = (__start0, __temp0, __end0);
    __action24::<
    T,
    F,
    >(
        make,
        input,
        __0,
        __temp0,
    )
}

#[allow(unused_variables)]
#[allow(clippy::too_many_arguments, clippy::needless_lifetimes,
    clippy::just_underscores_and_digits, clippy::clone_on_copy, clippy::unit_arg)]
fn __action27<
    'input,
    T,
    F,
>(
    make: &F,
    input: &'input str,
    __lookbehind: &usize,
    __lookahead: &usize,
) -> (usize, Vec<usize>)
where
    F: Fn(usize) -> T,
    T: Clone,
    T: std::fmt::Debug,
{
    let __start0 = __lookbehind.clone();
    let __end0 = __lookahead.clone();
    let __temp0 = __action12::<
    T,
    F,
    >(
        make,
        input,
        &__start0,
        &__end0,
    );
    let __temp0 = (__start0, __temp0, __end0);
    __action6::<
    T,
    F,
    >(
        make,
        input,
        __temp0,
    )
}

#[allow(unused_variables)]
#[allow(clippy::too_many_arguments, clippy::needless_lifetimes,
    clippy::just_underscores_and_digits, clippy::clone_on_copy, clippy::unit_arg)]
fn __action28<
    'input,
    T,
    F,
>(
    make: &F,
    input: &'input str,
    __0: (usize, alloc::vec::Vec<usize>, usize),
) -> (usize, Vec<usize>)
where
    F: Fn(usize) -> T,
    T: Clone,
    T: std::fmt::Debug,
{
    let __start0 = __0.0.clone();
    let __end0 = __0.2.clone();
    let __temp0 = __action13::<
    T,
    F,
    >(
        make,
        input,
        __0,
    );
    let __temp0 = (__start0, __temp0, __end0);
    __action6::<
    T,
    F,
    >(
        make,
        input,
        __temp0,
    )
}

#[allow(unused_variables)]
#[allow(clippy::too_many_arguments, clippy::needless_lifetimes,
    clippy::just_underscores_and_digits, clippy::clone_on_copy, clippy::unit_arg)]
fn __action29<
    'input,
    T,
    F,
>(
    make: &F,
    input: &'input str,
    __0: (usize, alloc::vec::Vec<usize>, usize),
    __1: (usize, usize, usize),
) -> Vec<T>
where
    F: Fn(usize) -> T,
    T: Clone,
    T: std::fmt::Debug,
{
    let __start0 = __0.0.clone();
    let __end0 = __0.0.clone();
    let __temp0 = __action20::<
    T,
    F,
    >(
        make,
        input,
        &__start0,
        &__end0,
    );
    let __temp0 = (__start0, __temp0, __end0);
    __action2::<
    T,
    F,
    >(
        make,
        input,
        __temp0,
        __0,
        __1,
    )
}

#[allow(unused_variables)]
#[allow(clippy::too_many_arguments, clippy::needless_lifetimes,
    clippy::just_underscores_and_digits, clippy::clone_on_copy, clippy::unit_arg)]
fn __action30<
    'input,
    T,
    F,
>(
    make: &F,
    input: &'input str,
    __0: (usize, alloc::vec::Vec<usize>, usize),
) -> Vec<T>
where
    F: Fn(usize) -> T,
    T: Clone,
    T: std::fmt::Debug,
{
    let __start0 = __0.2.clone();
    let __end0 = __0.2.clone();
    let __temp0 = __action17::<
    T,
    F,
    >(
        make,
        input,
        &__start0,
        &__end0,
    );
    let __temp0 = (__start0, __temp0, __end0);
    __action29::<
    T,
    F,
    >(
        make,
        input,
        __0,
        __temp0,
    )
}

#[allow(unused_variables)]
#[allow(clippy::too_many_arguments, clippy::needless_lifetimes,
    clippy::just_underscores_and_digits, clippy::clone_on_copy, clippy::unit_arg)]
fn __action31<
    'input,
    T,
    F,
>(
    make: &F,
    input: &'input str,
    __lookbehind: &usize,
    __lookahead: &usize,
) -> Vec<T>
where
    F: Fn(usize) -> T,
    T: Clone,
    T: std::fmt::Debug,
{
    let __start0 = __lookbehind.clone();
    let __end0 = __lookahead.clone();
    let __temp0 = __action18::<
    T,
    F,
    >(
        make,
        input,
        &__start0,
        &__end0,
    );
    let __temp0 = (__start0, __temp0, __end0);
    __action30::<
    T,
    F,
    >(
        make,
        input,
        __temp0,
    )
}

#[allow(unused_variables)]
#[allow(clippy::too_many_arguments, clippy::needless_lifetimes,
    clippy::just_underscores_and_digits, clippy::clone_on_copy, clippy::unit_arg)]
fn __action32<
    'input,
    T,
    F,
>(
    make: &F,
    input: &'input str,
    __0: (usize, alloc::vec::Vec<usize>, usize),
) -> Vec<T>
where
    F: Fn(usize) -> T,
    T: Clone,
    T: std::fmt::Debug,
{
    let __start0 = __0.0.clone();
    let __end0 = __0.2.clone();
    let __temp0 = __action19::<
    T,
    F,
    >(
        make,
        input,
        __0,
    );
    let __temp0 = (__start0, __temp0, __end0);
    __action30::<
    T,
    F,
    >(
        make,
        input,
        __temp0,
    )
}

#[allow(unused_variables)]
#[allow(clippy::too_many_arguments, clippy::needless_lifetimes,
    clippy::just_underscores_and_digits, clippy::clone_on_copy, clippy::unit_arg)]
fn __action33<
    'input,
    T,
    F,
>(
    make: &F,
    input: &'input str,
    __0: (usize, usize, usize),
) -> Option<T>
where
    F: Fn(usize) -> T,
    T: Clone,
    T: std::fmt::Debug,
{
    let __start0 = __0.0.clone();
    let __end0 = __0.2.clone();
    let __temp0 = __action15::<
    T,
    F,
    >(
        make,
        input,
        __0,
    );
    let __temp0 = (__start0, __temp0, __end0);
    __action3::<
    T,
    F,
    >(
        make,
        input,
        __temp0,
    )
}

#[allow(unused_variables)]
#[allow(clippy::too_many_arguments, clippy::needless_lifetimes,
    clippy::just_underscores_and_digits, clippy::clone_on_copy, clippy::unit_arg)]
fn __action34<
    'input,
    T,
    F,
>(
    make: &F,
    input: &'input str,
    __lookbehind: &usize,
    __lookahead: &usize,
) -> Option<T>
where
    F: Fn(usize) -> T,
    T: Clone,
    T: std::fmt::Debug,
{
    let __start0 = __lookbehind.clone();
    let __end0 = __lookahead.clone();
    let __temp0 = __action16::<
    T,
    F,
    >(
        make,
        input,
        &__start0,
        &__end0,
    );
    let __temp0 = (__start0, __temp0, __end0);
    __action3::<
    T,
    F,
    >(
        make,
        input,
        __temp0,
    )
}

#[allow(clippy::type_complexity, dead_code)]
pub trait __ToTriple<'input, T, F, >
where F: Fn(usize) -> T,T: Clone,T: std::fmt::Debug
{
    fn to_triple(self) -> Result<(usize,Token<'input>,usize), __lalrpop_util::ParseError<usize, Token<'input>, &'static str>>;
}

impl<'input, T, F, > __ToTriple<'input, T, F, > for (usize, Token<'input>, usize)
where F: Fn(usize) -> T,T: Clone,T: std::fmt::Debug
{
    fn to_triple(self) -> Result<(usize,Token<'input>,usize), __lalrpop_util::ParseError<usize, Token<'input>, &'static str>> {
        Ok(self)
    }
}
impl<'input, T, F, > __ToTriple<'input, T, F, > for Result<(usize, Token<'input>, usize), &'static str>
where F: Fn(usize) -> T,T: Clone,T: std::fmt::Debug
{
    fn to_triple(self) -> Result<(usize,Token<'input>,usize), __lalrpop_util::ParseError<usize, Token<'input>, &'static str>> {
        self.map_err(|error| __lalrpop_util::ParseError::User { error })
    }
}
