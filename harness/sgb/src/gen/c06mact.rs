// auto-generated: "lalrpop 0.23.1"
// sha3: 6b2c04d46e082489f174d839c127e62ee33ccdd072b742aa08f50759d166ec1f
#[allow(unused_extern_crates)]
extern crate lalrpop_util as __lalrpop_util;
#[allow(unused_imports)]
use self::__lalrpop_util::state_machine as __state_machine;
#[allow(unused_extern_crates)]
extern crate alloc;

#[rustfmt::skip]
#[allow(explicit_outlives_requirements, non_snake_case, non_camel_case_types, unused_mut, unused_variables, unused_imports, unused_parens, clippy::needless_lifetimes, clippy::type_complexity, clippy::needless_return, clippy::too_many_arguments, clippy::match_single_binding, clippy::clone_on_copy, clippy::unit_arg)]
mod __parse__O {

    #[allow(unused_extern_crates)]
    extern crate lalrpop_util as __lalrpop_util;
    #[allow(unused_imports)]
    use self::__lalrpop_util::state_machine as __state_machine;
    #[allow(unused_extern_crates)]
    extern crate alloc;
    use self::__lalrpop_util::lexer::Token;
    #[allow(dead_code)]
    pub(crate) enum __Symbol<'input>
     {
        Variant0(&'input str),
        Variant1(Option<&'input str>),
        Variant2(usize),
        Variant3((usize, usize, usize)),
        Variant4(String),
        Variant5(((usize, usize), (usize, String, usize))),
        Variant6((usize, usize)),
        Variant7(Vec<(usize, String, usize)>),
        Variant8((usize, String, usize)),
    }
    const __ACTION: &[i8] = &[
        // State 0
        -8, 4, 0, 0,
        // State 1
        7, 0, 0, 0,
        // State 2
        0, 0, 0, 0,
        // State 3
        -7, 0, 0, 0,
        // State 4
        0, 0, 0, 0,
        // State 5
        0, 0, 0, 0,
        // State 6
        0, 0, 0, 0,
    ];
    fn __action(state: i8, integer: usize) -> i8 {
        __ACTION[(state as usize) * 4 + integer]
    }
    const __EOF_ACTION: &[i8] = &[
        // State 0
        0,
        // State 1
        0,
        // State 2
        -13,
        // State 3
        0,
        // State 4
        -12,
        // State 5
        -6,
        // State 6
        -5,
    ];
    fn __goto(state: i8, nt: usize) -> i8 {
        match nt {
            3 => 4,
            4 => 2,
            5 => 1,
            8 => 5,
            _ => 0,
        }
    }
    #[allow(clippy::needless_raw_string_hashes)]
    const __TERMINAL: &[&str] = &[
        r###"r#"[a-z]+"#"###,
        r###""!""###,
        r###""(""###,
        r###"")""###,
    ];
    fn __expected_tokens(__state: i8) -> alloc::vec::Vec<alloc::string::String> {
        __TERMINAL.iter().enumerate().filter_map(|(index, terminal)| {
            let next_state = __action(__state, index);
            if next_state == 0 {
                None
            } else {
                Some(alloc::string::ToString::to_string(terminal))
            }
        }).collect()
    }
    fn __expected_tokens_from_states<
        'input,
    >(
        __states: &[i8],
        _: core::marker::PhantomData<(&'input ())>,
    ) -> alloc::vec::Vec<alloc::string::String>
    {
        __TERMINAL.iter().enumerate().filter_map(|(index, terminal)| {
            if __accepts(None, __states, Some(index), core::marker::PhantomData::<(&())>) {
                Some(alloc::string::ToString::to_string(terminal))
            } else {
                None
            }
        }).collect()
    }
    struct __StateMachine<'input>
    where 
    {
        input: &'input str,
        __phantom: core::marker::PhantomData<(&'input ())>,
    }
    impl<'input> __state_machine::ParserDefinition for __StateMachine<'input>
    where 
    {
        type Location = usize;
        type Error = &'static str;
        type Token = Token<'input>;
        type TokenIndex = usize;
        type Symbol = __Symbol<'input>;
        type Success = ((usize, usize), (usize, String, usize));
        type StateIndex = i8;
        type Action = i8;
        type ReduceIndex = i8;
        type NonterminalIndex = usize;

        #[inline]
        fn start_location(&self) -> Self::Location {
              Default::default()
        }

        #[inline]
        fn start_state(&self) -> Self::StateIndex {
              0
        }

        #[inline]
        fn token_to_index(&self, token: &Self::Token) -> Option<usize> {
            __token_to_integer(token, core::marker::PhantomData::<(&())>)
        }

        #[inline]
        fn action(&self, state: i8, integer: usize) -> i8 {
            __action(state, integer)
        }

        #[inline]
        fn error_action(&self, state: i8) -> i8 {
            __action(state, 4 - 1)
        }

        #[inline]
        fn eof_action(&self, state: i8) -> i8 {
            __EOF_ACTION[state as usize]
        }

        #[inline]
        fn goto(&self, state: i8, nt: usize) -> i8 {
            __goto(state, nt)
        }

        fn token_to_symbol(&self, token_index: usize, token: Self::Token) -> Self::Symbol {
            __token_to_symbol(token_index, token, core::marker::PhantomData::<(&())>)
        }

        fn expected_tokens(&self, state: i8) -> alloc::vec::Vec<alloc::string::String> {
            __expected_tokens(state)
        }

        fn expected_tokens_from_states(&self, states: &[i8]) -> alloc::vec::Vec<alloc::string::String> {
            __expected_tokens_from_states(states, core::marker::PhantomData::<(&())>)
        }

        #[inline]
        fn uses_error_recovery(&self) -> bool {
            false
        }

        #[inline]
        fn error_recovery_symbol(
            &self,
            recovery: __state_machine::ErrorRecovery<Self>,
        ) -> Self::Symbol {
            panic!("error recovery not enabled for this grammar")
        }

        fn reduce(
            &mut self,
            action: i8,
            start_location: Option<&Self::Location>,
            states: &mut alloc::vec::Vec<i8>,
            symbols: &mut alloc::vec::Vec<__state_machine::SymbolTriple<Self>>,
        ) -> Option<__state_machine::ParseResult<Self>> {
            __reduce(
                self.input,
                action,
                start_location,
                states,
                symbols,
                core::marker::PhantomData::<(&())>,
            )
        }

        fn simulate_reduce(&self, action: i8) -> __state_machine::SimulatedReduce<Self> {
            __simulate_reduce(action, core::marker::PhantomData::<(&())>)
        }
    }
    fn __token_to_integer<
        'input,
    >(
        __token: &Token<'input>,
        _: core::marker::PhantomData<(&'input ())>,
    ) -> Option<usize>
    {
        #[warn(unused_variables)]
        match __token {
            Token(0, _) if true => Some(0),
            Token(1, _) if true => Some(1),
            Token(2, _) if true => Some(2),
            Token(3, _) if true => Some(3),
            _ => None,
        }
    }
    fn __token_to_symbol<
        'input,
    >(
        __token_index: usize,
        __token: Token<'input>,
        _: core::marker::PhantomData<(&'input ())>,
    ) -> __Symbol<'input>
    {
        #[allow(clippy::manual_range_patterns)]match __token_index {
            0 | 1 | 2 | 3 => match __token {
                Token(0, __tok0) | Token(1, __tok0) | Token(2, __tok0) | Token(3, __tok0) if true => __Symbol::Variant0(__tok0),
                _ => unreachable!(),
            },
            _ => unreachable!(),
        }
    }
    fn __simulate_reduce<
        'input,
    >(
        __reduce_index: i8,
        _: core::marker::PhantomData<(&'input ())>,
    ) -> __state_machine::SimulatedReduce<__StateMachine<'input>>
    {
        match __reduce_index {
            0 => {
                __state_machine::SimulatedReduce::Reduce {
                    states_to_pop: 1,
                    nonterminal_produced: 0,
                }
            }
            1 => {
                __state_machine::SimulatedReduce::Reduce {
                    states_to_pop: 0,
                    nonterminal_produced: 0,
                }
            }
            2 => {
                __state_machine::SimulatedReduce::Reduce {
                    states_to_pop: 0,
                    nonterminal_produced: 1,
                }
            }
            3 => {
                __state_machine::SimulatedReduce::Reduce {
                    states_to_pop: 2,
                    nonterminal_produced: 2,
                }
            }
            4 => {
                __state_machine::SimulatedReduce::Reduce {
                    states_to_pop: 1,
                    nonterminal_produced: 3,
                }
            }
            5 => {
                __state_machine::SimulatedReduce::Reduce {
                    states_to_pop: 2,
                    nonterminal_produced: 4,
                }
            }
            6 => {
                __state_machine::SimulatedReduce::Reduce {
                    states_to_pop: 1,
                    nonterminal_produced: 5,
                }
            }
            7 => {
                __state_machine::SimulatedReduce::Reduce {
                    states_to_pop: 0,
                    nonterminal_produced: 5,
                }
            }
            8 => {
                __state_machine::SimulatedReduce::Reduce {
                    states_to_pop: 1,
                    nonterminal_produced: 6,
                }
            }
            9 => {
                __state_machine::SimulatedReduce::Reduce {
                    states_to_pop: 2,
                    nonterminal_produced: 7,
                }
            }
            10 => {
                __state_machine::SimulatedReduce::Reduce {
                    states_to_pop: 0,
                    nonterminal_produced: 7,
                }
            }
            11 => {
                __state_machine::SimulatedReduce::Reduce {
                    states_to_pop: 1,
                    nonterminal_produced: 8,
                }
            }
            12 => __state_machine::SimulatedReduce::Accept,
            13 => {
                __state_machine::SimulatedReduce::Reduce {
                    states_to_pop: 1,
                    nonterminal_produced: 10,
                }
            }
            14 => {
                __state_machine::SimulatedReduce::Reduce {
                    states_to_pop: 1,
                    nonterminal_produced: 11,
                }
            }
            _ => panic!("invalid reduction index {__reduce_index}")
        }
    }
    pub struct OParser {
        builder: __lalrpop_util::lexer::MatcherBuilder,
        _priv: (),
    }

    impl Default for OParser { fn default() -> Self { Self::new() } }
    impl OParser {
        pub fn new() -> OParser {
            let __builder = super::__intern_token::new_builder();
            OParser {
                builder: __builder,
                _priv: (),
            }
        }

        #[allow(dead_code)]
        pub fn parse<
            'input,
        >(
            &self,
            input: &'input str,
        ) -> Result<((usize, usize), (usize, String, usize)), __lalrpop_util::ParseError<usize, Token<'input>, &'static str>>
        {
            let mut __tokens = self.builder.matcher(input);
            __state_machine::Parser::drive(
                __StateMachine {
                    input,
                    __phantom: core::marker::PhantomData::<(&())>,
                },
                __tokens,
            )
        }
    }
    fn __accepts<
        'input,
    >(
        __error_state: Option<i8>,
        __states: &[i8],
        __opt_integer: Option<usize>,
        _: core::marker::PhantomData<(&'input ())>,
    ) -> bool
    {
        let mut __states = __states.to_vec();
        __states.extend(__error_state);
        loop {
            let mut __states_len = __states.len();
            let __top = __states[__states_len - 1];
            let __action = match __opt_integer {
                None => __EOF_ACTION[__top as usize],
                Some(__integer) => __action(__top, __integer),
            };
            if __action == 0 { return false; }
            if __action > 0 { return true; }
            let (__to_pop, __nt) = match __simulate_reduce(-(__action + 1), core::marker::PhantomData::<(&())>) {
                __state_machine::SimulatedReduce::Reduce {
                    states_to_pop, nonterminal_produced
                } => (states_to_pop, nonterminal_produced),
                __state_machine::SimulatedReduce::Accept => return true,
            };
            __states_len -= __to_pop;
            __states.truncate(__states_len);
            let __top = __states[__states_len - 1];
            let __next_state = __goto(__top, __nt);
            __states.push(__next_state);
        }
    }
    fn __reduce<
        'input,
    >(
        input: &'input str,
        __action: i8,
        __lookahead_start: Option<&usize>,
        __states: &mut alloc::vec::Vec<i8>,
        __symbols: &mut alloc::vec::Vec<(usize,__Symbol<'input>,usize)>,
        _: core::marker::PhantomData<(&'input ())>,
    ) -> Option<Result<((usize, usize), (usize, String, usize)),__lalrpop_util::ParseError<usize, Token<'input>, &'static str>>>
    {
        let (__pop_states, __nonterminal) = match __action {
            0 => {
                __reduce0(input, __lookahead_start, __symbols, core::marker::PhantomData::<(&())>)
            }
            1 => {
                __reduce1(input, __lookahead_start, __symbols, core::marker::PhantomData::<(&())>)
            }
            2 => {
                __reduce2(input, __lookahead_start, __symbols, core::marker::PhantomData::<(&())>)
            }
            3 => {
                __reduce3(input, __lookahead_start, __symbols, core::marker::PhantomData::<(&())>)
            }
            4 => {
                __reduce4(input, __lookahead_start, __symbols, core::marker::PhantomData::<(&())>)
            }
            5 => {
                __reduce5(input, __lookahead_start, __symbols, core::marker::PhantomData::<(&())>)
            }
            6 => {
                __reduce6(input, __lookahead_start, __symbols, core::marker::PhantomData::<(&())>)
            }
            7 => {
                __reduce7(input, __lookahead_start, __symbols, core::marker::PhantomData::<(&())>)
            }
            8 => {
                __reduce8(input, __lookahead_start, __symbols, core::marker::PhantomData::<(&())>)
            }
            9 => {
                __reduce9(input, __lookahead_start, __symbols, core::marker::PhantomData::<(&())>)
            }
            10 => {
                __reduce10(input, __lookahead_start, __symbols, core::marker::PhantomData::<(&())>)
            }
            11 => {
                __reduce11(input, __lookahead_start, __symbols, core::marker::PhantomData::<(&())>)
            }
            12 => {
                // __O = O => ActionFn(2);
                let __sym0 = __pop_Variant5(__symbols);
                let __start = __sym0.0.clone();
                let __end = __sym0.2.clone();
                let __nt = super::__action2::<>(input, __sym0);
                return Some(Ok(__nt));
            }
            13 => {
                __reduce13(input, __lookahead_start, __symbols, core::marker::PhantomData::<(&())>)
            }
            14 => {
                __reduce14(input, __lookahead_start, __symbols, core::marker::PhantomData::<(&())>)
            }
            _ => panic!("invalid action code {__action}")
        };
        let __states_len = __states.len();
        __states.truncate(__states_len - __pop_states);
        let __state = *__states.last().unwrap();
        let __next_state = __goto(__state, __nonterminal);
        __states.push(__next_state);
        None
    }
    #[inline(never)]
    fn __symbol_type_mismatch() -> ! {
        panic!("symbol type mismatch")
    }
    fn __pop_Variant5<
      'input,
    >(
        __symbols: &mut alloc::vec::Vec<(usize,__Symbol<'input>,usize)>
    ) -> (usize, ((usize, usize), (usize, String, usize)), usize)
     {
        match __symbols.pop() {
            Some((__l, __Symbol::Variant5(__v), __r)) => (__l, __v, __r),
            _ => __symbol_type_mismatch()
        }
    }
    fn __pop_Variant8<
      'input,
    >(
        __symbols: &mut alloc::vec::Vec<(usize,__Symbol<'input>,usize)>
    ) -> (usize, (usize, String, usize), usize)
     {
        match __symbols.pop() {
            Some((__l, __Symbol::Variant8(__v), __r)) => (__l, __v, __r),
            _ => __symbol_type_mismatch()
        }
    }
    fn __pop_Variant6<
      'input,
    >(
        __symbols: &mut alloc::vec::Vec<(usize,__Symbol<'input>,usize)>
    ) -> (usize, (usize, usize), usize)
     {
        match __symbols.pop() {
            Some((__l, __Symbol::Variant6(__v), __r)) => (__l, __v, __r),
            _ => __symbol_type_mismatch()
        }
    }
    fn __pop_Variant3<
      'input,
    >(
        __symbols: &mut alloc::vec::Vec<(usize,__Symbol<'input>,usize)>
    ) -> (usize, (usize, usize, usize), usize)
     {
        match __symbols.pop() {
            Some((__l, __Symbol::Variant3(__v), __r)) => (__l, __v, __r),
            _ => __symbol_type_mismatch()
        }
    }
    fn __pop_Variant1<
      'input,
    >(
        __symbols: &mut alloc::vec::Vec<(usize,__Symbol<'input>,usize)>
    ) -> (usize, Option<&'input str>, usize)
     {
        match __symbols.pop() {
            Some((__l, __Symbol::Variant1(__v), __r)) => (__l, __v, __r),
            _ => __symbol_type_mismatch()
        }
    }
    fn __pop_Variant4<
      'input,
    >(
        __symbols: &mut alloc::vec::Vec<(usize,__Symbol<'input>,usize)>
    ) -> (usize, String, usize)
     {
        match __symbols.pop() {
            Some((__l, __Symbol::Variant4(__v), __r)) => (__l, __v, __r),
            _ => __symbol_type_mismatch()
        }
    }
    fn __pop_Variant7<
      'input,
    >(
        __symbols: &mut alloc::vec::Vec<(usize,__Symbol<'input>,usize)>
    ) -> (usize, Vec<(usize, String, usize)>, usize)
     {
        match __symbols.pop() {
            Some((__l, __Symbol::Variant7(__v), __r)) => (__l, __v, __r),
            _ => __symbol_type_mismatch()
        }
    }
    fn __pop_Variant2<
      'input,
    >(
        __symbols: &mut alloc::vec::Vec<(usize,__Symbol<'input>,usize)>
    ) -> (usize, usize, usize)
     {
        match __symbols.pop() {
            Some((__l, __Symbol::Variant2(__v), __r)) => (__l, __v, __r),
            _ => __symbol_type_mismatch()
        }
    }
    fn __pop_Variant0<
      'input,
    >(
        __symbols: &mut alloc::vec::Vec<(usize,__Symbol<'input>,usize)>
    ) -> (usize, &'input str, usize)
     {
        match __symbols.pop() {
            Some((__l, __Symbol::Variant0(__v), __r)) => (__l, __v, __r),
            _ => __symbol_type_mismatch()
        }
    }
    fn __reduce0<
        'input,
    >(
        input: &'input str,
        __lookahead_start: Option<&usize>,
        __symbols: &mut alloc::vec::Vec<(usize,__Symbol<'input>,usize)>,
        _: core::marker::PhantomData<(&'input ())>,
    ) -> (usize, usize)
    {
        // "!"? = "!" => ActionFn(11);
        let __sym0 = __pop_Variant0(__symbols);
        let __start = __sym0.0.clone();
        let __end = __sym0.2.clone();
        let __nt = super::__action11::<>(input, __sym0);
        __symbols.push((__start, __Symbol::Variant1(__nt), __end));
        (1, 0)
    }
    fn __reduce1<
        'input,
    >(
        input: &'input str,
        __lookahead_start: Option<&usize>,
        __symbols: &mut alloc::vec::Vec<(usize,__Symbol<'input>,usize)>,
        _: core::marker::PhantomData<(&'input ())>,
    ) -> (usize, usize)
    {
        // "!"? =  => ActionFn(12);
        let __start = __lookahead_start.cloned().or_else(|| __symbols.last().map(|s| s.2.clone())).unwrap_or_default();
        let __end = __start.clone();
        let __nt = super::__action12::<>(input, &__start, &__end);
        __symbols.push((__start, __Symbol::Variant1(__nt), __end));
        (0, 0)
    }
    fn __reduce2<
        'input,
    >(
        input: &'input str,
        __lookahead_start: Option<&usize>,
        __symbols: &mut alloc::vec::Vec<(usize,__Symbol<'input>,usize)>,
        _: core::marker::PhantomData<(&'input ())>,
    ) -> (usize, usize)
    {
        // @L =  => ActionFn(13);
        let __start = __lookahead_start.cloned().or_else(|| __symbols.last().map(|s| s.2.clone())).unwrap_or_default();
        let __end = __start.clone();
        let __nt = super::__action13::<>(input, &__start, &__end);
        __symbols.push((__start, __Symbol::Variant2(__nt), __end));
        (0, 1)
    }
    fn __reduce3<
        'input,
    >(
        input: &'input str,
        __lookahead_start: Option<&usize>,
        __symbols: &mut alloc::vec::Vec<(usize,__Symbol<'input>,usize)>,
        _: core::marker::PhantomData<(&'input ())>,
    ) -> (usize, usize)
    {
        // Gap<"(", ")"> = "(", ")" => ActionFn(16);
        assert!(__symbols.len() >= 2);
        let __sym1 = __pop_Variant0(__symbols);
        let __sym0 = __pop_Variant0(__symbols);
        let __start = __sym0.0.clone();
        let __end = __sym1.2.clone();
        let __nt = super::__action16::<>(input, __sym0, __sym1);
        __symbols.push((__start, __Symbol::Variant3(__nt), __end));
        (2, 2)
    }
    fn __reduce4<
        'input,
    >(
        input: &'input str,
        __lookahead_start: Option<&usize>,
        __symbols: &mut alloc::vec::Vec<(usize,__Symbol<'input>,usize)>,
        _: core::marker::PhantomData<(&'input ())>,
    ) -> (usize, usize)
    {
        // Id = r#"[a-z]+"# => ActionFn(5);
        let __sym0 = __pop_Variant0(__symbols);
        let __start = __sym0.0.clone();
        let __end = __sym0.2.clone();
        let __nt = super::__action5::<>(input, __sym0);
        __symbols.push((__start, __Symbol::Variant4(__nt), __end));
        (1, 3)
    }
    fn __reduce5<
        'input,
    >(
        input: &'input str,
        __lookahead_start: Option<&usize>,
        __symbols: &mut alloc::vec::Vec<(usize,__Symbol<'input>,usize)>,
        _: core::marker::PhantomData<(&'input ())>,
    ) -> (usize, usize)
    {
        // O = Opt<"!">, Sp<Id> => ActionFn(7);
        assert!(__symbols.len() >= 2);
        let __sym1 = __pop_Variant8(__symbols);
        let __sym0 = __pop_Variant6(__symbols);
        let __start = __sym0.0.clone();
        let __end = __sym1.2.clone();
        let __nt = super::__action7::<>(input, __sym0, __sym1);
        __symbols.push((__start, __Symbol::Variant5(__nt), __end));
        (2, 4)
    }
    fn __reduce6<
        'input,
    >(
        input: &'input str,
        __lookahead_start: Option<&usize>,
        __symbols: &mut alloc::vec::Vec<(usize,__Symbol<'input>,usize)>,
        _: core::marker::PhantomData<(&'input ())>,
    ) -> (usize, usize)
    {
        // Opt<"!"> = "!" => ActionFn(17);
        let __sym0 = __pop_Variant0(__symbols);
        let __start = __sym0.0.clone();
        let __end = __sym0.2.clone();
        let __nt = super::__action17::<>(input, __sym0);
        __symbols.push((__start, __Symbol::Variant6(__nt), __end));
        (1, 5)
    }
    fn __reduce7<
        'input,
    >(
        input: &'input str,
        __lookahead_start: Option<&usize>,
        __symbols: &mut alloc::vec::Vec<(usize,__Symbol<'input>,usize)>,
        _: core::marker::PhantomData<(&'input ())>,
    ) -> (usize, usize)
    {
        // Opt<"!"> =  => ActionFn(18);
        let __start = __lookahead_start.cloned().or_else(|| __symbols.last().map(|s| s.2.clone())).unwrap_or_default();
        let __end = __start.clone();
        let __nt = super::__action18::<>(input, &__start, &__end);
        __symbols.push((__start, __Symbol::Variant6(__nt), __end));
        (0, 5)
    }
    fn __reduce8<
        'input,
    >(
        input: &'input str,
        __lookahead_start: Option<&usize>,
        __symbols: &mut alloc::vec::Vec<(usize,__Symbol<'input>,usize)>,
        _: core::marker::PhantomData<(&'input ())>,
    ) -> (usize, usize)
    {
        // P = Gap<"(", ")"> => ActionFn(6);
        let __sym0 = __pop_Variant3(__symbols);
        let __start = __sym0.0.clone();
        let __end = __sym0.2.clone();
        let __nt = super::__action6::<>(input, __sym0);
        __symbols.push((__start, __Symbol::Variant3(__nt), __end));
        (1, 6)
    }
    fn __reduce9<
        'input,
    >(
        input: &'input str,
        __lookahead_start: Option<&usize>,
        __symbols: &mut alloc::vec::Vec<(usize,__Symbol<'input>,usize)>,
        _: core::marker::PhantomData<(&'input ())>,
    ) -> (usize, usize)
    {
        // S = S, Sp<Id> => ActionFn(3);
        assert!(__symbols.len() >= 2);
        let __sym1 = __pop_Variant8(__symbols);
        let __sym0 = __pop_Variant7(__symbols);
        let __start = __sym0.0.clone();
        let __end = __sym1.2.clone();
        let __nt = super::__action3::<>(input, __sym0, __sym1);
        __symbols.push((__start, __Symbol::Variant7(__nt), __end));
        (2, 7)
    }
    fn __reduce10<
        'input,
    >(
        input: &'input str,
        __lookahead_start: Option<&usize>,
        __symbols: &mut alloc::vec::Vec<(usize,__Symbol<'input>,usize)>,
        _: core::marker::PhantomData<(&'input ())>,
    ) -> (usize, usize)
    {
        // S =  => ActionFn(4);
        let __start = __lookahead_start.cloned().or_else(|| __symbols.last().map(|s| s.2.clone())).unwrap_or_default();
        let __end = __start.clone();
        let __nt = super::__action4::<>(input, &__start, &__end);
        __symbols.push((__start, __Symbol::Variant7(__nt), __end));
        (0, 7)
    }
    fn __reduce11<
        'input,
    >(
        input: &'input str,
        __lookahead_start: Option<&usize>,
        __symbols: &mut alloc::vec::Vec<(usize,__Symbol<'input>,usize)>,
        _: core::marker::PhantomData<(&'input ())>,
    ) -> (usize, usize)
    {
        // Sp<Id> = Id => ActionFn(19);
        let __sym0 = __pop_Variant4(__symbols);
        let __start = __sym0.0.clone();
        let __end = __sym0.2.clone();
        let __nt = super::__action19::<>(input, __sym0);
        __symbols.push((__start, __Symbol::Variant8(__nt), __end));
        (1, 8)
    }
    fn __reduce13<
        'input,
    >(
        input: &'input str,
        __lookahead_start: Option<&usize>,
        __symbols: &mut alloc::vec::Vec<(usize,__Symbol<'input>,usize)>,
        _: core::marker::PhantomData<(&'input ())>,
    ) -> (usize, usize)
    {
        // __P = P => ActionFn(1);
        let __sym0 = __pop_Variant3(__symbols);
        let __start = __sym0.0.clone();
        let __end = __sym0.2.clone();
        let __nt = super::__action1::<>(input, __sym0);
        __symbols.push((__start, __Symbol::Variant3(__nt), __end));
        (1, 10)
    }
    fn __reduce14<
        'input,
    >(
        input: &'input str,
        __lookahead_start: Option<&usize>,
        __symbols: &mut alloc::vec::Vec<(usize,__Symbol<'input>,usize)>,
        _: core::marker::PhantomData<(&'input ())>,
    ) -> (usize, usize)
    {
        // __S = S => ActionFn(0);
        let __sym0 = __pop_Variant7(__symbols);
        let __start = __sym0.0.clone();
        let __end = __sym0.2.clone();
        let __nt = super::__action0::<>(input, __sym0);
        __symbols.push((__start, __Symbol::Variant7(__nt), __end));
        (1, 11)
    }
}
#[allow(unused_imports)]
pub use self::__parse__O::OParser;

#[rustfmt::skip]
#[allow(explicit_outlives_requirements, non_snake_case, non_camel_case_types, unused_mut, unused_variables, unused_imports, unused_parens, clippy::needless_lifetimes, clippy::type_complexity, clippy::needless_return, clippy::too_many_arguments, clippy::match_single_binding, clippy::clone_on_copy, clippy::unit_arg)]
mod __parse__P {

    #[allow(unused_extern_crates)]
    extern crate lalrpop_util as __lalrpop_util;
    #[allow(unused_imports)]
    use self::__lalrpop_util::state_machine as __state_machine;
    #[allow(unused_extern_crates)]
    extern crate alloc;
    use self::__lalrpop_util::lexer::Token;
    #[allow(dead_code)]
    pub(crate) enum __Symbol<'input>
     {
        Variant0(&'input str),
        Variant1(Option<&'input str>),
        Variant2(usize),
        Variant3((usize, usize, usize)),
        Variant4(String),
        Variant5(((usize, usize), (usize, String, usize))),
        Variant6((usize, usize)),
        Variant7(Vec<(usize, String, usize)>),
        Variant8((usize, String, usize)),
    }
    const __ACTION: &[i8] = &[
        // State 0
        0, 0, 4, 0,
        // State 1
        0, 0, 0, 0,
        // State 2
        0, 0, 0, 0,
        // State 3
        0, 0, 0, 5,
        // State 4
        0, 0, 0, 0,
    ];
    fn __action(state: i8, integer: usize) -> i8 {
        __ACTION[(state as usize) * 4 + integer]
    }
    const __EOF_ACTION: &[i8] = &[
        // State 0
        0,
        // State 1
        -9,
        // State 2
        -14,
        // State 3
        0,
        // State 4
        -4,
    ];
    fn __goto(state: i8, nt: usize) -> i8 {
        match nt {
            2 => 1,
            6 => 2,
            _ => 0,
        }
    }
    #[allow(clippy::needless_raw_string_hashes)]
    const __TERMINAL: &[&str] = &[
        r###"r#"[a-z]+"#"###,
        r###""!""###,
        r###""(""###,
        r###"")""###,
    ];
    fn __expected_tokens(__state: i8) -> alloc::vec::Vec<alloc::string::String> {
        __TERMINAL.iter().enumerate().filter_map(|(index, terminal)| {
            let next_state = __action(__state, index);
            if next_state == 0 {
                None
            } else {
                Some(alloc::string::ToString::to_string(terminal))
            }
        }).collect()
    }
    fn __expected_tokens_from_states<
        'input,
    >(
        __states: &[i8],
        _: core::marker::PhantomData<(&'input ())>,
    ) -> alloc::vec::Vec<alloc::string::String>
    {
        __TERMINAL.iter().enumerate().filter_map(|(index, terminal)| {
            if __accepts(None, __states, Some(index), core::marker::PhantomData::<(&())>) {
                Some(alloc::string::ToString::to_string(terminal))
            } else {
                None
            }
        }).collect()
    }
    struct __StateMachine<'input>
    where 
    {
        input: &'input str,
        __phantom: core::marker::PhantomData<(&'input ())>,
    }
    impl<'input> __state_machine::ParserDefinition for __StateMachine<'input>
    where 
    {
        type Location = usize;
        type Error = &'static str;
        type Token = Token<'input>;
        type TokenIndex = usize;
        type Symbol = __Symbol<'input>;
        type Success = (usize, usize, usize);
        type StateIndex = i8;
        type Action = i8;
        type ReduceIndex = i8;
        type NonterminalIndex = usize;

        #[inline]
        fn start_location(&self) -> Self::Location {
              Default::default()
        }

        #[inline]
        fn start_state(&self) -> Self::StateIndex {
              0
        }

        #[inline]
        fn token_to_index(&self, token: &Self::Token) -> Option<usize> {
            __token_to_integer(token, core::marker::PhantomData::<(&())>)
        }

        #[inline]
        fn action(&self, state: i8, integer: usize) -> i8 {
            __action(state, integer)
        }

        #[inline]
        fn error_action(&self, state: i8) -> i8 {
            __action(state, 4 - 1)
        }

        #[inline]
        fn eof_action(&self, state: i8) -> i8 {
            __EOF_ACTION[state as usize]
        }

        #[inline]
        fn goto(&self, state: i8, nt: usize) -> i8 {
            __goto(state, nt)
        }

        fn token_to_symbol(&self, token_index: usize, token: Self::Token) -> Self::Symbol {
            __token_to_symbol(token_index, token, core::marker::PhantomData::<(&())>)
        }

        fn expected_tokens(&self, state: i8) -> alloc::vec::Vec<alloc::string::String> {
            __expected_tokens(state)
        }

        fn expected_tokens_from_states(&self, states: &[i8]) -> alloc::vec::Vec<alloc::string::String> {
            __expected_tokens_from_states(states, core::marker::PhantomData::<(&())>)
        }

        #[inline]
        fn uses_error_recovery(&self) -> bool {
            false
        }

        #[inline]
        fn error_recovery_symbol(
            &self,
            recovery: __state_machine::ErrorRecovery<Self>,
        ) -> Self::Symbol {
            panic!("error recovery not enabled for this grammar")
        }

        fn reduce(
            &mut self,
            action: i8,
            start_location: Option<&Self::Location>,
            states: &mut alloc::vec::Vec<i8>,
            symbols: &mut alloc::vec::Vec<__state_machine::SymbolTriple<Self>>,
        ) -> Option<__state_machine::ParseResult<Self>> {
            __reduce(
                self.input,
                action,
                start_location,
                states,
                symbols,
                core::marker::PhantomData::<(&())>,
            )
        }

        fn simulate_reduce(&self, action: i8) -> __state_machine::SimulatedReduce<Self> {
            __simulate_reduce(action, core::marker::PhantomData::<(&())>)
        }
    }
    fn __token_to_integer<
        'input,
    >(
        __token: &Token<'input>,
        _: core::marker::PhantomData<(&'input ())>,
    ) -> Option<usize>
    {
        #[warn(unused_variables)]
        match __token {
            Token(0, _) if true => Some(0),
            Token(1, _) if true => Some(1),
            Token(2, _) if true => Some(2),
            Token(3, _) if true => Some(3),
            _ => None,
        }
    }
    fn __token_to_symbol<
        'input,
    >(
        __token_index: usize,
        __token: Token<'input>,
        _: core::marker::PhantomData<(&'input ())>,
    ) -> __Symbol<'input>
    {
        #[allow(clippy::manual_range_patterns)]match __token_index {
            0 | 1 | 2 | 3 => match __token {
                Token(0, __tok0) | Token(1, __tok0) | Token(2, __tok0) | Token(3, __tok0) if true => __Symbol::Variant0(__tok0),
                _ => unreachable!(),
            },
            _ => unreachable!(),
        }
    }
    fn __simulate_reduce<
        'input,
    >(
        __reduce_index: i8,
        _: core::marker::PhantomData<(&'input ())>,
    ) -> __state_machine::SimulatedReduce<__StateMachine<'input>>
    {
        match __reduce_index {
            0 => {
                __state_machine::SimulatedReduce::Reduce {
                    states_to_pop: 1,
                    nonterminal_produced: 0,
                }
            }
            1 => {
                __state_machine::SimulatedReduce::Reduce {
                    states_to_pop: 0,
                    nonterminal_produced: 0,
                }
            }
            2 => {
                __state_machine::SimulatedReduce::Reduce {
                    states_to_pop: 0,
                    nonterminal_produced: 1,
                }
            }
            3 => {
                __state_machine::SimulatedReduce::Reduce {
                    states_to_pop: 2,
                    nonterminal_produced: 2,
                }
            }
            4 => {
                __state_machine::SimulatedReduce::Reduce {
                    states_to_pop: 1,
                    nonterminal_produced: 3,
                }
            }
            5 => {
                __state_machine::SimulatedReduce::Reduce {
                    states_to_pop: 2,
                    nonterminal_produced: 4,
                }
            }
            6 => {
                __state_machine::SimulatedReduce::Reduce {
                    states_to_pop: 1,
                    nonterminal_produced: 5,
                }
            }
            7 => {
                __state_machine::SimulatedReduce::Reduce {
                    states_to_pop: 0,
                    nonterminal_produced: 5,
                }
            }
            8 => {
                __state_machine::SimulatedReduce::Reduce {
                    states_to_pop: 1,
                    nonterminal_produced: 6,
                }
            }
            9 => {
                __state_machine::SimulatedReduce::Reduce {
                    states_to_pop: 2,
                    nonterminal_produced: 7,
                }
            }
            10 => {
                __state_machine::SimulatedReduce::Reduce {
                    states_to_pop: 0,
                    nonterminal_produced: 7,
                }
            }
            11 => {
                __state_machine::SimulatedReduce::Reduce {
                    states_to_pop: 1,
                    nonterminal_produced: 8,
                }
            }
            12 => {
                __state_machine::SimulatedReduce::Reduce {
                    states_to_pop: 1,
                    nonterminal_produced: 9,
                }
            }
            13 => __state_machine::SimulatedReduce::Accept,
            14 => {
                __state_machine::SimulatedReduce::Reduce {
                    states_to_pop: 1,
                    nonterminal_produced: 11,
                }
            }
            _ => panic!("invalid reduction index {__reduce_index}")
        }
    }
    pub struct PParser {
        builder: __lalrpop_util::lexer::MatcherBuilder,
        _priv: (),
    }

    impl Default for PParser { fn default() -> Self { Self::new() } }
    impl PParser {
        pub fn new() -> PParser {
            let __builder = super::__intern_token::new_builder();
            PParser {
                builder: __builder,
                _priv: (),
            }
        }

        #[allow(dead_code)]
        pub fn parse<
            'input,
        >(
            &self,
            input: &'input str,
        ) -> Result<(usize, usize, usize), __lalrpop_util::ParseError<usize, Token<'input>, &'static str>>
        {
            let mut __tokens = self.builder.matcher(input);
            __state_machine::Parser::drive(
                __StateMachine {
                    input,
                    __phantom: core::marker::PhantomData::<(&())>,
                },
                __tokens,
            )
        }
    }
    fn __accepts<
        'input,
    >(
        __error_state: Option<i8>,
        __states: &[i8],
        __opt_integer: Option<usize>,
        _: core::marker::PhantomData<(&'input ())>,
    ) -> bool
    {
        let mut __states = __states.to_vec();
        __states.extend(__error_state);
        loop {
            let mut __states_len = __states.len();
            let __top = __states[__states_len - 1];
            let __action = match __opt_integer {
                None => __EOF_ACTION[__top as usize],
                Some(__integer) => __action(__top, __integer),
            };
            if __action == 0 { return false; }
            if __action > 0 { return true; }
            let (__to_pop, __nt) = match __simulate_reduce(-(__action + 1), core::marker::PhantomData::<(&())>) {
                __state_machine::SimulatedReduce::Reduce {
                    states_to_pop, nonterminal_produced
                } => (states_to_pop, nonterminal_produced),
                __state_machine::SimulatedReduce::Accept => return true,
            };
            __states_len -= __to_pop;
            __states.truncate(__states_len);
            let __top = __states[__states_len - 1];
            let __next_state = __goto(__top, __nt);
            __states.push(__next_state);
        }
    }
    fn __reduce<
        'input,
    >(
        input: &'input str,
        __action: i8,
        __lookahead_start: Option<&usize>,
        __states: &mut alloc::vec::Vec<i8>,
        __symbols: &mut alloc::vec::Vec<(usize,__Symbol<'input>,usize)>,
        _: core::marker::PhantomData<(&'input ())>,
    ) -> Option<Result<(usize, usize, usize),__lalrpop_util::ParseError<usize, Token<'input>, &'static str>>>
    {
        let (__pop_states, __nonterminal) = match __action {
            0 => {
                __reduce0(input, __lookahead_start, __symbols, core::marker::PhantomData::<(&())>)
            }
            1 => {
                __reduce1(input, __lookahead_start, __symbols, core::marker::PhantomData::<(&())>)
            }
            2 => {
                __reduce2(input, __lookahead_start, __symbols, core::marker::PhantomData::<(&())>)
            }
            3 => {
                __reduce3(input, __lookahead_start, __symbols, core::marker::PhantomData::<(&())>)
            }
            4 => {
                __reduce4(input, __lookahead_start, __symbols, core::marker::PhantomData::<(&())>)
            }
            5 => {
                __reduce5(input, __lookahead_start, __symbols, core::marker::PhantomData::<(&())>)
            }
            6 => {
                __reduce6(input, __lookahead_start, __symbols, core::marker::PhantomData::<(&())>)
            }
            7 => {
                __reduce7(input, __lookahead_start, __symbols, core::marker::PhantomData::<(&())>)
            }
            8 => {
                __reduce8(input, __lookahead_start, __symbols, core::marker::PhantomData::<(&())>)
            }
            9 => {
                __reduce9(input, __lookahead_start, __symbols, core::marker::PhantomData::<(&())>)
            }
            10 => {
                __reduce10(input, __lookahead_start, __symbols, core::marker::PhantomData::<(&())>)
            }
            11 => {
                __reduce11(input, __lookahead_start, __symbols, core::marker::PhantomData::<(&())>)
            }
            12 => {
                __reduce12(input, __lookahead_start, __symbols, core::marker::PhantomData::<(&())>)
            }
            13 => {
                // __P = P => ActionFn(1);
                let __sym0 = __pop_Variant3(__symbols);
                let __start = __sym0.0.clone();
                let __end = __sym0.2.clone();
                let __nt = super::__action1::<>(input, __sym0);
                return Some(Ok(__nt));
            }
            14 => {
                __reduce14(input, __lookahead_start, __symbols, core::marker::PhantomData::<(&())>)
            }
            _ => panic!("invalid action code {__action}")
        };
        let __states_len = __states.len();
        __states.truncate(__states_len - __pop_states);
        let __state = *__states.last().unwrap();
        let __next_state = __goto(__state, __nonterminal);
        __states.push(__next_state);
        None
    }
    #[inline(never)]
    fn __symbol_type_mismatch() -> ! {
        panic!("symbol type mismatch")
    }
    fn __pop_Variant5<
      'input,
    >(
        __symbols: &mut alloc::vec::Vec<(usize,__Symbol<'input>,usize)>
    ) -> (usize, ((usize, usize), (usize, String, usize)), usize)
     {
        match __symbols.pop() {
            Some((__l, __Symbol::Variant5(__v), __r)) => (__l, __v, __r),
            _ => __symbol_type_mismatch()
        }
    }
    fn __pop_Variant8<
      'input,
    >(
        __symbols: &mut alloc::vec::Vec<(usize,__Symbol<'input>,usize)>
    ) -> (usize, (usize, String, usize), usize)
     {
        match __symbols.pop() {
            Some((__l, __Symbol::Variant8(__v), __r)) => (__l, __v, __r),
            _ => __symbol_type_mismatch()
        }
    }
    fn __pop_Variant6<
      'input,
    >(
        __symbols: &mut alloc::vec::Vec<(usize,__Symbol<'input>,usize)>
    ) -> (usize, (usize, usize), usize)
     {
        match __symbols.pop() {
            Some((__l, __Symbol::Variant6(__v), __r)) => (__l, __v, __r),
            _ => __symbol_type_mismatch()
        }
    }
    fn __pop_Variant3<
      'input,
    >(
        __symbols: &mut alloc::vec::Vec<(usize,__Symbol<'input>,usize)>
    ) -> (usize, (usize, usize, usize), usize)
     {
        match __symbols.pop() {
            Some((__l, __Symbol::Variant3(__v), __r)) => (__l, __v, __r),
            _ => __symbol_type_mismatch()
        }
    }
    fn __pop_Variant1<
      'input,
    >(
        __symbols: &mut alloc::vec::Vec<(usize,__Symbol<'input>,usize)>
    ) -> (usize, Option<&'input str>, usize)
     {
        match __symbols.pop() {
            Some((__l, __Symbol::Variant1(__v), __r)) => (__l, __v, __r),
            _ => __symbol_type_mismatch()
        }
    }
    fn __pop_Variant4<
      'input,
    >(
        __symbols: &mut alloc::vec::Vec<(usize,__Symbol<'input>,usize)>
    ) -> (usize, String, usize)
     {
        match __symbols.pop() {
            Some((__l, __Symbol::Variant4(__v), __r)) => (__l, __v, __r),
            _ => __symbol_type_mismatch()
        }
    }
    fn __pop_Variant7<
      'input,
    >(
        __symbols: &mut alloc::vec::Vec<(usize,__Symbol<'input>,usize)>
    ) -> (usize, Vec<(usize, String, usize)>, usize)
     {
        match __symbols.pop() {
            Some((__l, __Symbol::Variant7(__v), __r)) => (__l, __v, __r),
            _ => __symbol_type_mismatch()
        }
    }
    fn __pop_Variant2<
      'input,
    >(
        __symbols: &mut alloc::vec::Vec<(usize,__Symbol<'input>,usize)>
    ) -> (usize, usize, usize)
     {
        match __symbols.pop() {
            Some((__l, __Symbol::Variant2(__v), __r)) => (__l, __v, __r),
            _ => __symbol_type_mismatch()
        }
    }
    fn __pop_Variant0<
      'input,
    >(
        __symbols: &mut alloc::vec::Vec<(usize,__Symbol<'input>,usize)>
    ) -> (usize, &'input str, usize)
     {
        match __symbols.pop() {
            Some((__l, __Symbol::Variant0(__v), __r)) => (__l, __v, __r),
            _ => __symbol_type_mismatch()
        }
    }
    fn __reduce0<
        'input,
    >(
        input: &'input str,
        __lookahead_start: Option<&usize>,
        __symbols: &mut alloc::vec::Vec<(usize,__Symbol<'input>,usize)>,
        _: core::marker::PhantomData<(&'input ())>,
    ) -> (usize, usize)
    {
        // "!"? = "!" => ActionFn(11);
        let __sym0 = __pop_Variant0(__symbols);
        let __start = __sym0.0.clone();
        let __end = __sym0.2.clone();
        let __nt = super::__action11::<>(input, __sym0);
        __symbols.push((__start, __Symbol::Variant1(__nt), __end));
        (1, 0)
    }
    fn __reduce1<
        'input,
    >(
        input: &'input str,
        __lookahead_start: Option<&usize>,
        __symbols: &mut alloc::vec::Vec<(usize,__Symbol<'input>,usize)>,
        _: core::marker::PhantomData<(&'input ())>,
    ) -> (usize, usize)
    {
        // "!"? =  => ActionFn(12);
        let __start = __lookahead_start.cloned().or_else(|| __symbols.last().map(|s| s.2.clone())).unwrap_or_default();
        let __end = __start.clone();
        let __nt = super::__action12::<>(input, &__start, &__end);
        __symbols.push((__start, __Symbol::Variant1(__nt), __end));
        (0, 0)
    }
    fn __reduce2<
        'input,
    >(
        input: &'input str,
        __lookahead_start: Option<&usize>,
        __symbols: &mut alloc::vec::Vec<(usize,__Symbol<'input>,usize)>,
        _: core::marker::PhantomData<(&'input ())>,
    ) -> (usize, usize)
    {
        // @L =  => ActionFn(13);
        let __start = __lookahead_start.cloned().or_else(|| __symbols.last().map(|s| s.2.clone())).unwrap_or_default();
        let __end = __start.clone();
        let __nt = super::__action13::<>(input, &__start, &__end);
        __symbols.push((__start, __Symbol::Variant2(__nt), __end));
        (0, 1)
    }
    fn __reduce3<
        'input,
    >(
        input: &'input str,
        __lookahead_start: Option<&usize>,
        __symbols: &mut alloc::vec::Vec<(usize,__Symbol<'input>,usize)>,
        _: core::marker::PhantomData<(&'input ())>,
    ) -> (usize, usize)
    {
        // Gap<"(", ")"> = "(", ")" => ActionFn(16);
        assert!(__symbols.len() >= 2);
        let __sym1 = __pop_Variant0(__symbols);
        let __sym0 = __pop_Variant0(__symbols);
        let __start = __sym0.0.clone();
        let __end = __sym1.2.clone();
        let __nt = super::__action16::<>(input, __sym0, __sym1);
        __symbols.push((__start, __Symbol::Variant3(__nt), __end));
        (2, 2)
    }
    fn __reduce4<
        'input,
    >(
        input: &'input str,
        __lookahead_start: Option<&usize>,
        __symbols: &mut alloc::vec::Vec<(usize,__Symbol<'input>,usize)>,
        _: core::marker::PhantomData<(&'input ())>,
    ) -> (usize, usize)
    {
        // Id = r#"[a-z]+"# => ActionFn(5);
        let __sym0 = __pop_Variant0(__symbols);
        let __start = __sym0.0.clone();
        let __end = __sym0.2.clone();
        let __nt = super::__action5::<>(input, __sym0);
        __symbols.push((__start, __Symbol::Variant4(__nt), __end));
        (1, 3)
    }
    fn __reduce5<
        'input,
    >(
        input: &'input str,
        __lookahead_start: Option<&usize>,
        __symbols: &mut alloc::vec::Vec<(usize,__Symbol<'input>,usize)>,
        _: core::marker::PhantomData<(&'input ())>,
    ) -> (usize, usize)
    {
        // O = Opt<"!">, Sp<Id> => ActionFn(7);
        assert!(__symbols.len() >= 2);
        let __sym1 = __pop_Variant8(__symbols);
        let __sym0 = __pop_Variant6(__symbols);
        let __start = __sym0.0.clone();
        let __end = __sym1.2.clone();
        let __nt = super::__action7::<>(input, __sym0, __sym1);
        __symbols.push((__start, __Symbol::Variant5(__nt), __end));
        (2, 4)
    }
    fn __reduce6<
        'input,
    >(
        input: &'input str,
        __lookahead_start: Option<&usize>,
        __symbols: &mut alloc::vec::Vec<(usize,__Symbol<'input>,usize)>,
        _: core::marker::PhantomData<(&'input ())>,
    ) -> (usize, usize)
    {
        // Opt<"!"> = "!" => ActionFn(17);
        let __sym0 = __pop_Variant0(__symbols);
        let __start = __sym0.0.clone();
        let __end = __sym0.2.clone();
        let __nt = super::__action17::<>(input, __sym0);
        __symbols.push((__start, __Symbol::Variant6(__nt), __end));
        (1, 5)
    }
    fn __reduce7<
        'input,
    >(
        input: &'input str,
        __lookahead_start: Option<&usize>,
        __symbols: &mut alloc::vec::Vec<(usize,__Symbol<'input>,usize)>,
        _: core::marker::PhantomData<(&'input ())>,
    ) -> (usize, usize)
    {
        // Opt<"!"> =  => ActionFn(18);
        let __start = __lookahead_start.cloned().or_else(|| __symbols.last().map(|s| s.2.clone())).unwrap_or_default();
        let __end = __start.clone();
        let __nt = super::__action18::<>(input, &__start, &__end);
        __symbols.push((__start, __Symbol::Variant6(__nt), __end));
        (0, 5)
    }
    fn __reduce8<
        'input,
    >(
        input: &'input str,
        __lookahead_start: Option<&usize>,
        __symbols: &mut alloc::vec::Vec<(usize,__Symbol<'input>,usize)>,
        _: core::marker::PhantomData<(&'input ())>,
    ) -> (usize, usize)
    {
        // P = Gap<"(", ")"> => ActionFn(6);
        let __sym0 = __pop_Variant3(__symbols);
        let __start = __sym0.0.clone();
        let __end = __sym0.2.clone();
        let __nt = super::__action6::<>(input, __sym0);
        __symbols.push((__start, __Symbol::Variant3(__nt), __end));
        (1, 6)
    }
    fn __reduce9<
        'input,
    >(
        input: &'input str,
        __lookahead_start: Option<&usize>,
        __symbols: &mut alloc::vec::Vec<(usize,__Symbol<'input>,usize)>,
        _: core::marker::PhantomData<(&'input ())>,
    ) -> (usize, usize)
    {
        // S = S, Sp<Id> => ActionFn(3);
        assert!(__symbols.len() >= 2);
        let __sym1 = __pop_Variant8(__symbols);
        let __sym0 = __pop_Variant7(__symbols);
        let __start = __sym0.0.clone();
        let __end = __sym1.2.clone();
        let __nt = super::__action3::<>(input, __sym0, __sym1);
        __symbols.push((__start, __Symbol::Variant7(__nt), __end));
        (2, 7)
    }
    fn __reduce10<
        'input,
    >(
        input: &'input str,
        __lookahead_start: Option<&usize>,
        __symbols: &mut alloc::vec::Vec<(usize,__Symbol<'input>,usize)>,
        _: core::marker::PhantomData<(&'input ())>,
    ) -> (usize, usize)
    {
        // S =  => ActionFn(4);
        let __start = __lookahead_start.cloned().or_else(|| __symbols.last().map(|s| s.2.clone())).unwrap_or_default();
        let __end = __start.clone();
        let __nt = super::__action4::<>(input, &__start, &__end);
        __symbols.push((__start, __Symbol::Variant7(__nt), __end));
        (0, 7)
    }
    fn __reduce11<
        'input,
    >(
        input: &'input str,
        __lookahead_start: Option<&usize>,
        __symbols: &mut alloc::vec::Vec<(usize,__Symbol<'input>,usize)>,
        _: core::marker::PhantomData<(&'input ())>,
    ) -> (usize, usize)
    {
        // Sp<Id> = Id => ActionFn(19);
        let __sym0 = __pop_Variant4(__symbols);
        let __start = __sym0.0.clone();
        let __end = __sym0.2.clone();
        let __nt = super::__action19::<>(input, __sym0);
        __symbols.push((__start, __Symbol::Variant8(__nt), __end));
        (1, 8)
    }
    fn __reduce12<
        'input,
    >(
        input: &'input str,
        __lookahead_start: Option<&usize>,
        __symbols: &mut alloc::vec::Vec<(usize,__Symbol<'input>,usize)>,
        _: core::marker::PhantomData<(&'input ())>,
    ) -> (usize, usize)
    {
        // __O = O => ActionFn(2);
        let __sym0 = __pop_Variant5(__symbols);
        let __start = __sym0.0.clone();
        let __end = __sym0.2.clone();
        let __nt = super::__action2::<>(input, __sym0);
        __symbols.push((__start, __Symbol::Variant5(__nt), __end));
        (1, 9)
    }
    fn __reduce14<
        'input,
    >(
        input: &'input str,
        __lookahead_start: Option<&usize>,
        __symbols: &mut alloc::vec::Vec<(usize,__Symbol<'input>,usize)>,
        _: core::marker::PhantomData<(&'input ())>,
    ) -> (usize, usize)
    {
        // __S = S => ActionFn(0);
        let __sym0 = __pop_Variant7(__symbols);
        let __start = __sym0.0.clone();
        let __end = __sym0.2.clone();
        let __nt = super::__action0::<>(input, __sym0);
        __symbols.push((__start, __Symbol::Variant7(__nt), __end));
        (1, 11)
    }
}
#[allow(unused_imports)]
pub use self::__parse__P::PParser;

#[rustfmt::skip]
#[allow(explicit_outlives_requirements, non_snake_case, non_camel_case_types, unused_mut, unused_variables, unused_imports, unused_parens, clippy::needless_lifetimes, clippy::type_complexity, clippy::needless_return, clippy::too_many_arguments, clippy::match_single_binding, clippy::clone_on_copy, clippy::unit_arg)]
mod __parse__S {

    #[allow(unused_extern_crates)]
    extern crate lalrpop_util as __lalrpop_util;
    #[allow(unused_imports)]
    use self::__lalrpop_util::state_machine as __state_machine;
    #[allow(unused_extern_crates)]
    extern crate alloc;
    use self::__lalrpop_util::lexer::Token;
    #[allow(dead_code)]
    pub(crate) enum __Symbol<'input>
     {
        Variant0(&'input str),
        Variant1(Option<&'input str>),
        Variant2(usize),
        Variant3((usize, usize, usize)),
        Variant4(String),
        Variant5(((usize, usize), (usize, String, usize))),
        Variant6((usize, usize)),
        Variant7(Vec<(usize, String, usize)>),
        Variant8((usize, String, usize)),
    }
    const __ACTION: &[i8] = &[
        // State 0
        -11, 0, 0, 0,
        // State 1
        5, 0, 0, 0,
        // State 2
        -12, 0, 0, 0,
        // State 3
        -10, 0, 0, 0,
        // State 4
        -5, 0, 0, 0,
    ];
    fn __action(state: i8, integer: usize) -> i8 {
        __ACTION[(state as usize) * 4 + integer]
    }
    const __EOF_ACTION: &[i8] = &[
        // State 0
        -11,
        // State 1
        -15,
        // State 2
        -12,
        // State 3
        -10,
        // State 4
        -5,
    ];
    fn __goto(state: i8, nt: usize) -> i8 {
        match nt {
            3 => 2,
            7 => 1,
            8 => 3,
            _ => 0,
        }
    }
    #[allow(clippy::needless_raw_string_hashes)]
    const __TERMINAL: &[&str] = &[
        r###"r#"[a-z]+"#"###,
        r###""!""###,
        r###""(""###,
        r###"")""###,
    ];
    fn __expected_tokens(__state: i8) -> alloc::vec::Vec<alloc::string::String> {
        __TERMINAL.iter().enumerate().filter_map(|(index, terminal)| {
            let next_state = __action(__state, index);
            if next_state == 0 {
                None
            } else {
                Some(alloc::string::ToString::to_string(terminal))
            }
        }).collect()
    }
    fn __expected_tokens_from_states<
        'input,
    >(
        __states: &[i8],
        _: core::marker::PhantomData<(&'input ())>,
    ) -> alloc::vec::Vec<alloc::string::String>
    {
        __TERMINAL.iter().enumerate().filter_map(|(index, terminal)| {
            if __accepts(None, __states, Some(index), core::marker::PhantomData::<(&())>) {
                Some(alloc::string::ToString::to_string(terminal))
            } else {
                None
            }
        }).collect()
    }
    struct __StateMachine<'input>
    where 
    {
        input: &'input str,
        __phantom: core::marker::PhantomData<(&'input ())>,
    }
    impl<'input> __state_machine::ParserDefinition for __StateMachine<'input>
    where 
    {
        type Location = usize;
        type Error = &'static str;
        type Token = Token<'input>;
        type TokenIndex = usize;
        type Symbol = __Symbol<'input>;
        type Success = Vec<(usize, String, usize)>;
        type StateIndex = i8;
        type Action = i8;
        type ReduceIndex = i8;
        type NonterminalIndex = usize;

        #[inline]
        fn start_location(&self) -> Self::Location {
              Default::default()
        }

        #[inline]
        fn start_state(&self) -> Self::StateIndex {
              0
        }

        #[inline]
        fn token_to_index(&self, token: &Self::Token) -> Option<usize> {
            __token_to_integer(token, core::marker::PhantomData::<(&())>)
        }

        #[inline]
        fn action(&self, state: i8, integer: usize) -> i8 {
            __action(state, integer)
        }

        #[inline]
        fn error_action(&self, state: i8) -> i8 {
            __action(state, 4 - 1)
        }

        #[inline]
        fn eof_action(&self, state: i8) -> i8 {
            __EOF_ACTION[state as usize]
        }

        #[inline]
        fn goto(&self, state: i8, nt: usize) -> i8 {
            __goto(state, nt)
        }

        fn token_to_symbol(&self, token_index: usize, token: Self::Token) -> Self::Symbol {
            __token_to_symbol(token_index, token, core::marker::PhantomData::<(&())>)
        }

        fn expected_tokens(&self, state: i8) -> alloc::vec::Vec<alloc::string::String> {
            __expected_tokens(state)
        }

        fn expected_tokens_from_states(&self, states: &[i8]) -> alloc::vec::Vec<alloc::string::String> {
            __expected_tokens_from_states(states, core::marker::PhantomData::<(&())>)
        }

        #[inline]
        fn uses_error_recovery(&self) -> bool {
            false
        }

        #[inline]
        fn error_recovery_symbol(
            &self,
            recovery: __state_machine::ErrorRecovery<Self>,
        ) -> Self::Symbol {
            panic!("error recovery not enabled for this grammar")
        }

        fn reduce(
            &mut self,
            action: i8,
            start_location: Option<&Self::Location>,
            states: &mut alloc::vec::Vec<i8>,
            symbols: &mut alloc::vec::Vec<__state_machine::SymbolTriple<Self>>,
        ) -> Option<__state_machine::ParseResult<Self>> {
            __reduce(
                self.input,
                action,
                start_location,
                states,
                symbols,
                core::marker::PhantomData::<(&())>,
            )
        }

        fn simulate_reduce(&self, action: i8) -> __state_machine::SimulatedReduce<Self> {
            __simulate_reduce(action, core::marker::PhantomData::<(&())>)
        }
    }
    fn __token_to_integer<
        'input,
    >(
        __token: &Token<'input>,
        _: core::marker::PhantomData<(&'input ())>,
    ) -> Option<usize>
    {
        #[warn(unused_variables)]
        match __token {
            Token(0, _) if true => Some(0),
            Token(1, _) if true => Some(1),
            Token(2, _) if true => Some(2),
            Token(3, _) if true => Some(3),
            _ => None,
        }
    }
    fn __token_to_symbol<
        'input,
    >(
        __token_index: usize,
        __token: Token<'input>,
        _: core::marker::PhantomData<(&'input ())>,
    ) -> __Symbol<'input>
    {
        #[allow(clippy::manual_range_patterns)]match __token_index {
            0 | 1 | 2 | 3 => match __token {
                Token(0, __tok0) | Token(1, __tok0) | Token(2, __tok0) | Token(3, __tok0) if true => __Symbol::Variant0(__tok0),
                _ => unreachable!(),
            },
            _ => unreachable!(),
        }
    }
    fn __simulate_reduce<
        'input,
    >(
        __reduce_index: i8,
        _: core::marker::PhantomData<(&'input ())>,
    ) -> __state_machine::SimulatedReduce<__StateMachine<'input>>
    {
        match __reduce_index {
            0 => {
                __state_machine::SimulatedReduce::Reduce {
                    states_to_pop: 1,
                    nonterminal_produced: 0,
                }
            }
            1 => {
                __state_machine::SimulatedReduce::Reduce {
                    states_to_pop: 0,
                    nonterminal_produced: 0,
                }
            }
            2 => {
                __state_machine::SimulatedReduce::Reduce {
                    states_to_pop: 0,
                    nonterminal_produced: 1,
                }
            }
            3 => {
                __state_machine::SimulatedReduce::Reduce {
                    states_to_pop: 2,
                    nonterminal_produced: 2,
                }
            }
            4 => {
                __state_machine::SimulatedReduce::Reduce {
                    states_to_pop: 1,
                    nonterminal_produced: 3,
                }
            }
            5 => {
                __state_machine::SimulatedReduce::Reduce {
                    states_to_pop: 2,
                    nonterminal_produced: 4,
                }
            }
            6 => {
                __state_machine::SimulatedReduce::Reduce {
                    states_to_pop: 1,
                    nonterminal_produced: 5,
                }
            }
            7 => {
                __state_machine::SimulatedReduce::Reduce {
                    states_to_pop: 0,
                    nonterminal_produced: 5,
                }
            }
            8 => {
                __state_machine::SimulatedReduce::Reduce {
                    states_to_pop: 1,
                    nonterminal_produced: 6,
                }
            }
            9 => {
                __state_machine::SimulatedReduce::Reduce {
                    states_to_pop: 2,
                    nonterminal_produced: 7,
                }
            }
            10 => {
                __state_machine::SimulatedReduce::Reduce {
                    states_to_pop: 0,
                    nonterminal_produced: 7,
                }
            }
            11 => {
                __state_machine::SimulatedReduce::Reduce {
                    states_to_pop: 1,
                    nonterminal_produced: 8,
                }
            }
            12 => {
                __state_machine::SimulatedReduce::Reduce {
                    states_to_pop: 1,
                    nonterminal_produced: 9,
                }
            }
            13 => {
                __state_machine::SimulatedReduce::Reduce {
                    states_to_pop: 1,
                    nonterminal_produced: 10,
                }
            }
            14 => __state_machine::SimulatedReduce::Accept,
            _ => panic!("invalid reduction index {__reduce_index}")
        }
    }
    pub struct SParser {
        builder: __lalrpop_util::lexer::MatcherBuilder,
        _priv: (),
    }

    impl Default for SParser { fn default() -> Self { Self::new() } }
    impl SParser {
        pub fn new() -> SParser {
            let __builder = super::__intern_token::new_builder();
            SParser {
                builder: __builder,
                _priv: (),
            }
        }

        #[allow(dead_code)]
        pub fn parse<
            'input,
        >(
            &self,
            input: &'input str,
        ) -> Result<Vec<(usize, String, usize)>, __lalrpop_util::ParseError<usize, Token<'input>, &'static str>>
        {
            let mut __tokens = self.builder.matcher(input);
            __state_machine::Parser::drive(
                __StateMachine {
                    input,
                    __phantom: core::marker::PhantomData::<(&())>,
                },
                __tokens,
            )
        }
    }
    fn __accepts<
        'input,
    >(
        __error_state: Option<i8>,
        __states: &[i8],
        __opt_integer: Option<usize>,
        _: core::marker::PhantomData<(&'input ())>,
    ) -> bool
    {
        let mut __states = __states.to_vec();
        __states.extend(__error_state);
        loop {
            let mut __states_len = __states.len();
            let __top = __states[__states_len - 1];
            let __action = match __opt_integer {
                None => __EOF_ACTION[__top as usize],
                Some(__integer) => __action(__top, __integer),
            };
            if __action == 0 { return false; }
            if __action > 0 { return true; }
            let (__to_pop, __nt) = match __simulate_reduce(-(__action + 1), core::marker::PhantomData::<(&())>) {
                __state_machine::SimulatedReduce::Reduce {
                    states_to_pop, nonterminal_produced
                } => (states_to_pop, nonterminal_produced),
                __state_machine::SimulatedReduce::Accept => return true,
            };
            __states_len -= __to_pop;
            __states.truncate(__states_len);
            let __top = __states[__states_len - 1];
            let __next_state = __goto(__top, __nt);
            __states.push(__next_state);
        }
    }
    fn __reduce<
        'input,
    >(
        input: &'input str,
        __action: i8,
        __lookahead_start: Option<&usize>,
        __states: &mut alloc::vec::Vec<i8>,
        __symbols: &mut alloc::vec::Vec<(usize,__Symbol<'input>,usize)>,
        _: core::marker::PhantomData<(&'input ())>,
    ) -> Option<Result<Vec<(usize, String, usize)>,__lalrpop_util::ParseError<usize, Token<'input>, &'static str>>>
    {
        let (__pop_states, __nonterminal) = match __action {
            0 => {
                __reduce0(input, __lookahead_start, __symbols, core::marker::PhantomData::<(&())>)
            }
            1 => {
                __reduce1(input, __lookahead_start, __symbols, core::marker::PhantomData::<(&())>)
            }
            2 => {
                __reduce2(input, __lookahead_start, __symbols, core::marker::PhantomData::<(&())>)
            }
            3 => {
                __reduce3(input, __lookahead_start, __symbols, core::marker::PhantomData::<(&())>)
            }
            4 => {
                __reduce4(input, __lookahead_start, __symbols, core::marker::PhantomData::<(&())>)
            }
            5 => {
                __reduce5(input, __lookahead_start, __symbols, core::marker::PhantomData::<(&())>)
            }
            6 => {
                __reduce6(input, __lookahead_start, __symbols, core::marker::PhantomData::<(&())>)
            }
            7 => {
                __reduce7(input, __lookahead_start, __symbols, core::marker::PhantomData::<(&())>)
            }
            8 => {
                __reduce8(input, __lookahead_start, __symbols, core::marker::PhantomData::<(&())>)
            }
            9 => {
                __reduce9(input, __lookahead_start, __symbols, core::marker::PhantomData::<(&())>)
            }
            10 => {
                __reduce10(input, __lookahead_start, __symbols, core::marker::PhantomData::<(&())>)
            }
            11 => {
                __reduce11(input, __lookahead_start, __symbols, core::marker::PhantomData::<(&())>)
            }
            12 => {
                __reduce12(input, __lookahead_start, __symbols, core::marker::PhantomData::<(&())>)
            }
            13 => {
                __reduce13(input, __lookahead_start, __symbols, core::marker::PhantomData::<(&())>)
            }
            14 => {
                // __S = S => ActionFn(0);
                let __sym0 = __pop_Variant7(__symbols);
                let __start = __sym0.0.clone();
                let __end = __sym0.2.clone();
                let __nt = super::__action0::<>(input, __sym0);
                return Some(Ok(__nt));
            }
            _ => panic!("invalid action code {__action}")
        };
        let __states_len = __states.len();
        __states.truncate(__states_len - __pop_states);
        let __state = *__states.last().unwrap();
        let __next_state = __goto(__state, __nonterminal);
        __states.push(__next_state);
        None
    }
    #[inline(never)]
    fn __symbol_type_mismatch() -> ! {
        panic!("symbol type mismatch")
    }
    fn __pop_Variant5<
      'input,
    >(
        __symbols: &mut alloc::vec::Vec<(usize,__Symbol<'input>,usize)>
    ) -> (usize, ((usize, usize), (usize, String, usize)), usize)
     {
        match __symbols.pop() {
            Some((__l, __Symbol::Variant5(__v), __r)) => (__l, __v, __r),
            _ => __symbol_type_mismatch()
        }
    }
    fn __pop_Variant8<
      'input,
    >(
        __symbols: &mut alloc::vec::Vec<(usize,__Symbol<'input>,usize)>
    ) -> (usize, (usize, String, usize), usize)
     {
        match __symbols.pop() {
            Some((__l, __Symbol::Variant8(__v), __r)) => (__l, __v, __r),
            _ => __symbol_type_mismatch()
        }
    }
    fn __pop_Variant6<
      'input,
    >(
        __symbols: &mut alloc::vec::Vec<(usize,__Symbol<'input>,usize)>
    ) -> (usize, (usize, usize), usize)
     {
        match __symbols.pop() {
            Some((__l, __Symbol::Variant6(__v), __r)) => (__l, __v, __r),
            _ => __symbol_type_mismatch()
        }
    }
    fn __pop_Variant3<
      'input,
    >(
        __symbols: &mut alloc::vec::Vec<(usize,__Symbol<'input>,usize)>
    ) -> (usize, (usize, usize, usize), usize)
     {
        match __symbols.pop() {
            Some((__l, __Symbol::Variant3(__v), __r)) => (__l, __v, __r),
            _ => __symbol_type_mismatch()
        }
    }
    fn __pop_Variant1<
      'input,
    >(
        __symbols: &mut alloc::vec::Vec<(usize,__Symbol<'input>,usize)>
    ) -> (usize, Option<&'input str>, usize)
     {
        match __symbols.pop() {
            Some((__l, __Symbol::Variant1(__v), __r)) => (__l, __v, __r),
            _ => __symbol_type_mismatch()
        }
    }
    fn __pop_Variant4<
      'input,
    >(
        __symbols: &mut alloc::vec::Vec<(usize,__Symbol<'input>,usize)>
    ) -> (usize, String, usize)
     {
        match __symbols.pop() {
            Some((__l, __Symbol::Variant4(__v), __r)) => (__l, __v, __r),
            _ => __symbol_type_mismatch()
        }
    }
    fn __pop_Variant7<
      'input,
    >(
        __symbols: &mut alloc::vec::Vec<(usize,__Symbol<'input>,usize)>
    ) -> (usize, Vec<(usize, String, usize)>, usize)
     {
        match __symbols.pop() {
            Some((__l, __Symbol::Variant7(__v), __r)) => (__l, __v, __r),
            _ => __symbol_type_mismatch()
        }
    }
    fn __pop_Variant2<
      'input,
    >(
        __symbols: &mut alloc::vec::Vec<(usize,__Symbol<'input>,usize)>
    ) -> (usize, usize, usize)
     {
        match __symbols.pop() {
            Some((__l, __Symbol::Variant2(__v), __r)) => (__l, __v, __r),
            _ => __symbol_type_mismatch()
        }
    }
    fn __pop_Variant0<
      'input,
    >(
        __symbols: &mut alloc::vec::Vec<(usize,__Symbol<'input>,usize)>
    ) -> (usize, &'input str, usize)
     {
        match __symbols.pop() {
            Some((__l, __Symbol::Variant0(__v), __r)) => (__l, __v, __r),
            _ => __symbol_type_mismatch()
        }
    }
    fn __reduce0<
        'input,
    >(
        input: &'input str,
        __lookahead_start: Option<&usize>,
        __symbols: &mut alloc::vec::Vec<(usize,__Symbol<'input>,usize)>,
        _: core::marker::PhantomData<(&'input ())>,
    ) -> (usize, usize)
    {
        // "!"? = "!" => ActionFn(11);
        let __sym0 = __pop_Variant0(__symbols);
        let __start = __sym0.0.clone();
        let __end = __sym0.2.clone();
        let __nt = super::__action11::<>(input, __sym0);
        __symbols.push((__start, __Symbol::Variant1(__nt), __end));
        (1, 0)
    }
    fn __reduce1<
        'input,
    >(
        input: &'input str,
        __lookahead_start: Option<&usize>,
        __symbols: &mut alloc::vec::Vec<(usize,__Symbol<'input>,usize)>,
        _: core::marker::PhantomData<(&'input ())>,
    ) -> (usize, usize)
    {
        // "!"? =  => ActionFn(12);
        let __start = __lookahead_start.cloned().or_else(|| __symbols.last().map(|s| s.2.clone())).unwrap_or_default();
        let __end = __start.clone();
        let __nt = super::__action12::<>(input, &__start, &__end);
        __symbols.push((__start, __Symbol::Variant1(__nt), __end));
        (0, 0)
    }
    fn __reduce2<
        'input,
    >(
        input: &'input str,
        __lookahead_start: Option<&usize>,
        __symbols: &mut alloc::vec::Vec<(usize,__Symbol<'input>,usize)>,
        _: core::marker::PhantomData<(&'input ())>,
    ) -> (usize, usize)
    {
        // @L =  => ActionFn(13);
        let __start = __lookahead_start.cloned().or_else(|| __symbols.last().map(|s| s.2.clone())).unwrap_or_default();
        let __end = __start.clone();
        let __nt = super::__action13::<>(input, &__start, &__end);
        __symbols.push((__start, __Symbol::Variant2(__nt), __end));
        (0, 1)
    }
    fn __reduce3<
        'input,
    >(
        input: &'input str,
        __lookahead_start: Option<&usize>,
        __symbols: &mut alloc::vec::Vec<(usize,__Symbol<'input>,usize)>,
        _: core::marker::PhantomData<(&'input ())>,
    ) -> (usize, usize)
    {
        // Gap<"(", ")"> = "(", ")" => ActionFn(16);
        assert!(__symbols.len() >= 2);
        let __sym1 = __pop_Variant0(__symbols);
        let __sym0 = __pop_Variant0(__symbols);
        let __start = __sym0.0.clone();
        let __end = __sym1.2.clone();
        let __nt = super::__action16::<>(input, __sym0, __sym1);
        __symbols.push((__start, __Symbol::Variant3(__nt), __end));
        (2, 2)
    }
    fn __reduce4<
        'input,
    >(
        input: &'input str,
        __lookahead_start: Option<&usize>,
        __symbols: &mut alloc::vec::Vec<(usize,__Symbol<'input>,usize)>,
        _: core::marker::PhantomData<(&'input ())>,
    ) -> (usize, usize)
    {
        // Id = r#"[a-z]+"# => ActionFn(5);
        let __sym0 = __pop_Variant0(__symbols);
        let __start = __sym0.0.clone();
        let __end = __sym0.2.clone();
        let __nt = super::__action5::<>(input, __sym0);
        __symbols.push((__start, __Symbol::Variant4(__nt), __end));
        (1, 3)
    }
    fn __reduce5<
        'input,
    >(
        input: &'input str,
        __lookahead_start: Option<&usize>,
        __symbols: &mut alloc::vec::Vec<(usize,__Symbol<'input>,usize)>,
        _: core::marker::PhantomData<(&'input ())>,
    ) -> (usize, usize)
    {
        // O = Opt<"!">, Sp<Id> => ActionFn(7);
        assert!(__symbols.len() >= 2);
        let __sym1 = __pop_Variant8(__symbols);
        let __sym0 = __pop_Variant6(__symbols);
        let __start = __sym0.0.clone();
        let __end = __sym1.2.clone();
        let __nt = super::__action7::<>(input, __sym0, __sym1);
        __symbols.push((__start, __Symbol::Variant5(__nt), __end));
        (2, 4)
    }
    fn __reduce6<
        'input,
    >(
        input: &'input str,
        __lookahead_start: Option<&usize>,
        __symbols: &mut alloc::vec::Vec<(usize,__Symbol<'input>,usize)>,
        _: core::marker::PhantomData<(&'input ())>,
    ) -> (usize, usize)
    {
        // Opt<"!"> = "!" => ActionFn(17);
        let __sym0 = __pop_Variant0(__symbols);
        let __start = __sym0.0.clone();
        let __end = __sym0.2.clone();
        let __nt = super::__action17::<>(input, __sym0);
        __symbols.push((__start, __Symbol::Variant6(__nt), __end));
        (1, 5)
    }
    fn __reduce7<
        'input,
    >(
        input: &'input str,
        __lookahead_start: Option<&usize>,
        __symbols: &mut alloc::vec::Vec<(usize,__Symbol<'input>,usize)>,
        _: core::marker::PhantomData<(&'input ())>,
    ) -> (usize, usize)
    {
        // Opt<"!"> =  => ActionFn(18);
        let __start = __lookahead_start.cloned().or_else(|| __symbols.last().map(|s| s.2.clone())).unwrap_or_default();
        let __end = __start.clone();
        let __nt = super::__action18::<>(input, &__start, &__end);
        __symbols.push((__start, __Symbol::Variant6(__nt), __end));
        (0, 5)
    }
    fn __reduce8<
        'input,
    >(
        input: &'input str,
        __lookahead_start: Option<&usize>,
        __symbols: &mut alloc::vec::Vec<(usize,__Symbol<'input>,usize)>,
        _: core::marker::PhantomData<(&'input ())>,
    ) -> (usize, usize)
    {
        // P = Gap<"(", ")"> => ActionFn(6);
        let __sym0 = __pop_Variant3(__symbols);
        let __start = __sym0.0.clone();
        let __end = __sym0.2.clone();
        let __nt = super::__action6::<>(input, __sym0);
        __symbols.push((__start, __Symbol::Variant3(__nt), __end));
        (1, 6)
    }
    fn __reduce9<
        'input,
    >(
        input: &'input str,
        __lookahead_start: Option<&usize>,
        __symbols: &mut alloc::vec::Vec<(usize,__Symbol<'input>,usize)>,
        _: core::marker::PhantomData<(&'input ())>,
    ) -> (usize, usize)
    {
        // S = S, Sp<Id> => ActionFn(3);
        assert!(__symbols.len() >= 2);
        let __sym1 = __pop_Variant8(__symbols);
        let __sym0 = __pop_Variant7(__symbols);
        let __start = __sym0.0.clone();
        let __end = __sym1.2.clone();
        let __nt = super::__action3::<>(input, __sym0, __sym1);
        __symbols.push((__start, __Symbol::Variant7(__nt), __end));
        (2, 7)
    }
    fn __reduce10<
        'input,
    >(
        input: &'input str,
        __lookahead_start: Option<&usize>,
        __symbols: &mut alloc::vec::Vec<(usize,__Symbol<'input>,usize)>,
        _: core::marker::PhantomData<(&'input ())>,
    ) -> (usize, usize)
    {
        // S =  => ActionFn(4);
        let __start = __lookahead_start.cloned().or_else(|| __symbols.last().map(|s| s.2.clone())).unwrap_or_default();
        let __end = __start.clone();
        let __nt = super::__action4::<>(input, &__start, &__end);
        __symbols.push((__start, __Symbol::Variant7(__nt), __end));
        (0, 7)
    }
    fn __reduce11<
        'input,
    >(
        input: &'input str,
        __lookahead_start: Option<&usize>,
        __symbols: &mut alloc::vec::Vec<(usize,__Symbol<'input>,usize)>,
        _: core::marker::PhantomData<(&'input ())>,
    ) -> (usize, usize)
    {
        // Sp<Id> = Id => ActionFn(19);
        let __sym0 = __pop_Variant4(__symbols);
        let __start = __sym0.0.clone();
        let __end = __sym0.2.clone();
        let __nt = super::__action19::<>(input, __sym0);
        __symbols.push((__start, __Symbol::Variant8(__nt), __end));
        (1, 8)
    }
    fn __reduce12<
        'input,
    >(
        input: &'input str,
        __lookahead_start: Option<&usize>,
        __symbols: &mut alloc::vec::Vec<(usize,__Symbol<'input>,usize)>,
        _: core::marker::PhantomData<(&'input ())>,
    ) -> (usize, usize)
    {
        // __O = O => ActionFn(2);
        let __sym0 = __pop_Variant5(__symbols);
        let __start = __sym0.0.clone();
        let __end = __sym0.2.clone();
        let __nt = super::__action2::<>(input, __sym0);
        __symbols.push((__start, __Symbol::Variant5(__nt), __end));
        (1, 9)
    }
    fn __reduce13<
        'input,
    >(
        input: &'input str,
        __lookahead_start: Option<&usize>,
        __symbols: &mut alloc::vec::Vec<(usize,__Symbol<'input>,usize)>,
        _: core::marker::PhantomData<(&'input ())>,
    ) -> (usize, usize)
    {
        // __P = P => ActionFn(1);
        let __sym0 = __pop_Variant3(__symbols);
        let __start = __sym0.0.clone();
        let __end = __sym0.2.clone();
        let __nt = super::__action1::<>(input, __sym0);
        __symbols.push((__start, __Symbol::Variant3(__nt), __end));
        (1, 10)
    }
}
#[allow(unused_imports)]
pub use self::__parse__S::SParser;
#[rustfmt::skip]
mod __intern_token {
    #![allow(unused_imports)]
    #[allow(unused_extern_crates)]
    extern crate lalrpop_util as __lalrpop_util;
    #[allow(unused_imports)]
    use self::__lalrpop_util::state_machine as __state_machine;
    #[allow(unused_extern_crates)]
    extern crate alloc;
    pub fn new_builder() -> __lalrpop_util::lexer::MatcherBuilder {
        let __strs: &[(&str, bool)] = &[
            ("[a-z]+", false),
            ("!", false),
            ("\\(", false),
            ("\\)", false),
            (r"\s+", true),
        ];
        __lalrpop_util::lexer::MatcherBuilder::new(__strs.iter().copied()).unwrap()
    }
}
pub(crate) use self::__lalrpop_util::lexer::Token;

#[allow(unused_variables)]
#[allow(clippy::too_many_arguments, clippy::needless_lifetimes, clippy::just_underscores_and_digits, clippy::extra_unused_type_parameters)]
fn __action0<
    'input,
>(
    input: &'input str,
    (_, __0, _): (usize, Vec<(usize, String, usize)>, usize),
) -> Vec<(usize, String, usize)>
{
    __0
}

#[allow(unused_variables)]
#[allow(clippy::too_many_arguments, clippy::needless_lifetimes, clippy::just_underscores_and_digits, clippy::extra_unused_type_parameters)]
fn __action1<
    'input,
>(
    input: &'input str,
    (_, __0, _): (usize, (usize, usize, usize), usize),
) -> (usize, usize, usize)
{
    __0
}

#[allow(unused_variables)]
#[allow(clippy::too_many_arguments, clippy::needless_lifetimes, clippy::just_underscores_and_digits, clippy::extra_unused_type_parameters)]
fn __action2<
    'input,
>(
    input: &'input str,
    (_, __0, _): (usize, ((usize, usize), (usize, String, usize)), usize),
) -> ((usize, usize), (usize, String, usize))
{
    __0
}

#[allow(unused_variables)]
#[allow(clippy::too_many_arguments, clippy::needless_lifetimes, clippy::just_underscores_and_digits, clippy::extra_unused_type_parameters)]
fn __action3<
    'input,
>(
    input: &'input str,
    (_, v, _): (usize, Vec<(usize, String, usize)>, usize),
    (_, x, _): (usize, (usize, String, usize), usize),
) -> Vec<(usize, String, usize)>
{
    { let mut v = v; v.push(x); v }
}

#[allow(unused_variables)]
#[allow(clippy::too_many_arguments, clippy::needless_lifetimes, clippy::just_underscores_and_digits, clippy::extra_unused_type_parameters)]
fn __action4<
    'input,
>(
    input: &'input str,
    __lookbehind: &usize,
    __lookahead: &usize,
) -> Vec<(usize, String, usize)>
{
    vec![]
}

#[allow(unused_variables)]
#[allow(clippy::too_many_arguments, clippy::needless_lifetimes, clippy::just_underscores_and_digits, clippy::extra_unused_type_parameters)]
fn __action5<
    'input,
>(
    input: &'input str,
    (_, __0, _): (usize, &'input str, usize),
) -> String
{
    __0.to_string()
}

#[allow(unused_variables)]
#[allow(clippy::too_many_arguments, clippy::needless_lifetimes, clippy::just_underscores_and_digits, clippy::extra_unused_type_parameters)]
fn __action6<
    'input,
>(
    input: &'input str,
    (_, __0, _): (usize, (usize, usize, usize), usize),
) -> (usize, usize, usize)
{
    __0
}

#[allow(unused_variables)]
#[allow(clippy::too_many_arguments, clippy::needless_lifetimes, clippy::just_underscores_and_digits, clippy::extra_unused_type_parameters)]
fn __action7<
    'input,
>(
    input: &'input str,
    (_, __0, _): (usize, (usize, usize), usize),
    (_, __1, _): (usize, (usize, String, usize), usize),
) -> ((usize, usize), (usize, String, usize))
{
    (__0, __1)
}

#[allow(unused_variables)]
#[allow(clippy::too_many_arguments, clippy::needless_lifetimes, clippy::just_underscores_and_digits, clippy::extra_unused_type_parameters)]
fn __action8<
    'input,
>(
    input: &'input str,
    (_, l, _): (usize, usize, usize),
    (_, _, _): (usize, Option<&'input str>, usize),
    (_, r, _): (usize, usize, usize),
) -> (usize, usize)
{
    (l, r)
}

#[allow(unused_variables)]
#[allow(clippy::too_many_arguments, clippy::needless_lifetimes, clippy::just_underscores_and_digits, clippy::extra_unused_type_parameters)]
fn __action9<
    'input,
>(
    input: &'input str,
    (_, _, _): (usize, &'input str, usize),
    (_, m, _): (usize, usize, usize),
    (_, q, _): (usize, usize, usize),
    (_, _, _): (usize, &'input str, usize),
    (_, e, _): (usize, usize, usize),
) -> (usize, usize, usize)
{
    (m, q, e)
}

#[allow(unused_variables)]
#[allow(clippy::too_many_arguments, clippy::needless_lifetimes, clippy::just_underscores_and_digits, clippy::extra_unused_type_parameters)]
fn __action10<
    'input,
>(
    input: &'input str,
    (_, l, _): (usize, usize, usize),
    (_, t, _): (usize, String, usize),
    (_, r, _): (usize, usize, usize),
) -> (usize, String, usize)
{
    (l, t, r)
}

#[allow(unused_variables)]
#[allow(clippy::too_many_arguments, clippy::needless_lifetimes, clippy::just_underscores_and_digits, clippy::extra_unused_type_parameters)]
fn __action11<
    'input,
>(
    input: &'input str,
    (_, __0, _): (usize, &'input str, usize),
) -> Option<&'input str>
{
    Some(__0)
}

#[allow(unused_variables)]
#[allow(clippy::too_many_arguments, clippy::needless_lifetimes, clippy::just_underscores_and_digits, clippy::extra_unused_type_parameters)]
fn __action12<
    'input,
>(
    input: &'input str,
    __lookbehind: &usize,
    __lookahead: &usize,
) -> Option<&'input str>
{
    None
}

#[allow(unused_variables)]
#[allow(clippy::needless_lifetimes, clippy::clone_on_copy)]
fn __action13<
    'input,
>(
    input: &'input str,
    __lookbehind: &usize,
    __lookahead: &usize,
) -> usize
{
    __lookahead.clone()
}

#[allow(unused_variables)]
#[allow(clippy::too_many_arguments, clippy::needless_lifetimes,
    clippy::just_underscores_and_digits, clippy::clone_on_copy, clippy::unit_arg)]
fn __action14<
    'input,
>(
    input: &'input str,
    __0: (usize, usize, usize),
    __1: (usize, &'input str, usize),
    __2: (usize, usize, usize),
) -> (usize, usize)
{
    let __start0 = __1.0.clone();
    let __end0 = __1.2.clone();
    let __temp0 = __action11(
        input,
        __1,
    );
    let __temp0 = (__start0, __temp0, __end0);
    __action8(
        input,
        __0,
        __temp0,
        __2,
    )
}

#[allow(unused_variables)]
#[allow(clippy::too_many_arguments, clippy::needless_lifetimes,
    clippy::just_underscores_and_digits, clippy::clone_on_copy, clippy::unit_arg)]
fn __action15<
    'input,
>(
    input: &'input str,
    __0: (usize, usize, usize),
    __1: (usize, usize, usize),
) -> (usize, usize)
{
    let __start0 = __0.2.clone();
    let __end0 = __1.0.clone();
    let __temp0 = __action12(
        input,
        &__start0,
        &__end0,
    );
    let __temp0 = (__start0, __temp0, __end0);
    __action8(
        input,
        __0,
        __temp0,
        __1,
    )
}

#[allow(unused_variables)]
#[allow(clippy::too_many_arguments, clippy::needless_lifetimes,
    clippy::just_underscores_and_digits, clippy::clone_on_copy, clippy::unit_arg)]
fn __action16<
    'input,
>(
    input: &'input str,
    __0: (usize, &'input str, usize),
    __1: (usize, &'input str, usize),
) -> (usize, usize, usize)
{
    let __start0 = __0.2.clone();
    let __end0 = __1.0.clone();
    let __start1 = __0.2.clone();
    let __end1 = __1.0.clone();
    let __start2 = __1.2.clone();
    let __end2 = __1.2.clone();
    let __temp0 = __action13(
        input,
        &__start0,
        &__end0,
    );
    let __temp0 = (__start0, __temp0, __end0);
    let __temp1 = __action13(
        input,
        &__start1,
        &__end1,
    );
    let __temp1 = (__start1, __temp1, __end1);
    let __temp2 = __action13(
        input,
        &__start2,
        &__end2,
    );
    let __temp2 = (__start2, __temp2, __end2);
    __action9(
        input,
        __0,
        __temp0,
        __temp1,
        __1,
        __temp2,
    )
}

#[allow(unused_variables)]
#[allow(clippy::too_many_arguments, clippy::needless_lifetimes,
    clippy::just_underscores_and_digits, clippy::clone_on_copy, clippy::unit_arg)]
fn __action17<
    'input,
>(
    input: &'input str,
    __0: (usize, &'input str, usize),
) -> (usize, usize)
{
    let __start0 = __0.0.clone();
    let __end0 = __0.0.clone();
    let __start1 = __0.2.clone();
    let __end1 = __0.2.clone();
    let __temp0 = __action13(
        input,
        &__start0,
        &__end0,
    );
    let __temp0 = (__start0, __temp0, __end0);
    let __temp1 = __action13(
        input,
        &__start1,
        &__end1,
    );
    let __temp1 = (__start1, __temp1, __end1);
    __action14(
        input,
        __temp0,
        __0,
        __temp1,
    )
}

#[allow(unused_variables)]
#[allow(clippy::too_many_arguments, clippy::needless_lifetimes,
    clippy::just_underscores_and_digits, clippy::clone_on_copy, clippy::unit_arg)]
fn __action18<
    'input,
>(
    input: &'input str,
    __lookbehind: &usize,
    __lookahead: &usize,
) -> (usize, usize)
{
    let __start0 = __lookbehind.clone();
    let __end0 = __lookahead.clone();
    let __start1 = __lookbehind.clone();
    let __end1 = __lookahead.clone();
    let __temp0 = __action13(
        input,
        &__start0,
        &__end0,
    );
    let __temp0 = (__start0, __temp0, __end0);
    let __temp1 = __action13(
        input,
        &__start1,
        &__end1,
    );
    let __temp1 = (__start1, __temp1, __end1);
    __action15(
        input,
        __temp0,
        __temp1,
    )
}

#[allow(unused_variables)]
#[allow(clippy::too_many_arguments, clippy::needless_lifetimes,
    clippy::just_underscores_and_digits, clippy::clone_on_copy, clippy::unit_arg)]
fn __action19<
    'input,
>(
    input: &'input str,
    __0: (usize, String, usize),
) -> (usize, String, usize)
{
    let __start0 = __0.0.clone();
    let __end0 = __0.0.clone();
    let __start1 = __0.2.clone();
    let __end1 = __0.2.clone();
    let __temp0 = __action13(
        input,
        &__start0,
        &__end0,
    );
    let __temp0 = (__start0, __temp0, __end0);
    let __temp1 = __action13(
        input,
        &__start1,
        &__end1,
    );
    let __temp1 = (__start1, __temp1, __end1);
    __action10(
        input,
        __temp0,
        __0,
        __temp1,
    )
}

#[allow(clippy::type_complexity, dead_code)]
pub trait __ToTriple<'input, >
{
    fn to_triple(self) -> Result<(usize,Token<'input>,usize), __lalrpop_util::ParseError<usize, Token<'input>, &'static str>>;
}

impl<'input, > __ToTriple<'input, > for (usize, Token<'input>, usize)
{
    fn to_triple(self) -> Result<(usize,Token<'input>,usize), __lalrpop_util::ParseError<usize, Token<'input>, &'static str>> {
        Ok(self)
    }
}
impl<'input, > __ToTriple<'input, > for Result<(usize, Token<'input>, usize), &'static str>
{
    fn to_triple(self) -> Result<(usize,Token<'input>,usize), __lalrpop_util::ParseError<usize, Token<'input>, &'static str>> {
        self.map_err(|error| __lalrpop_util::ParseError::User { error })
    }
}
